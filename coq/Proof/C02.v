(* C02 - lemmas and proofs. *)
Require Import Verif.Common.Base Verif.Common.Json Verif.Common.JsonFacts.
Require Import Verif.Model.C02 Verif.Spec.C02.
From Coq Require Import DecimalString DecimalNat.
Local Open Scope string_scope.

(* ---------- part 1: order, count, no overlap ---------- *)

Lemma expected_shapes_from i k :
  flat_map (fun i => [(i, true); (i, false)]) (seq i (S k)) =
  (i, true) :: (i, false) :: flat_map (fun i => [(i, true); (i, false)]) (seq (S i) k).
Proof. reflexivity. Qed.

Lemma loop_shapes al : forall bes i parts ps reg a,
  map shape (fst (seq_loop al bes i parts ps reg a)) =
  flat_map (fun i => [(i, true); (i, false)]) (seq i (n_called (map snd bes))).
Proof.
  induction bes as [|[b o] rest IH]; intros i parts ps reg a; [reflexivity|].
  cbn [seq_loop map snd n_called].
  destruct (if (i =? 0)%nat then (ps, reg) else fold_left (apply_repl i parts) (b_tab b) (ps, reg)) as [ps' reg'].
  destruct o as [r|e|]; cbn [ok_out].
  - destruct (complete r) eqn:C.
    + specialize (IH (S i) ((if al then pollute parts r else parts) ++ [Some r])%list ps' reg' (acc_merge a (MP r))).
      destruct (seq_loop al rest (S i) _ ps' reg' (acc_merge a (MP r))) as [tr res].
      cbn [fst] in *. rewrite expected_shapes_from. cbn [app map shape]. rewrite IH. reflexivity.
    + reflexivity.
  - destruct (i =? 0)%nat; reflexivity.
  - destruct (i =? 0)%nat; reflexivity.
Qed.

Lemma model_calls_spec bes ps0 :
  calls_spec (map snd bes) (fst (seq_run_cfg bes ps0)).
Proof. unfold calls_spec, expected_shapes, seq_run_cfg. apply loop_shapes. Qed.

(* ---------- part 2: the accumulator in call order ---------- *)

Lemma overlay_lookup : forall db d k v,
  lookup k (overlay d db) = Some v -> In (k, v) db \/ lookup k d = Some v.
Proof.
  unfold overlay. induction db as [|[k' v'] r IH]; intros d k v H; cbn [fold_left fst snd] in H; [right; exact H|].
  apply IH in H. destruct H as [H|H]; [left; right; exact H|].
  rewrite lookup_set in H. destruct (str_eqb k k') eqn:E.
  - apply str_eqb_eq in E. subst. inversion H; subst. left; left; reflexivity.
  - right; exact H.
Qed.

Lemma overlay_mem : forall db d k,
  In k (keys (overlay d db)) <-> In k (keys d) \/ In k (keys db).
Proof.
  unfold overlay. induction db as [|[k' v'] r IH]; intros d k; cbn [fold_left fst snd].
  - cbn. tauto.
  - rewrite IH. clear IH.
    assert (G : In k (keys (set k' v' d)) <-> k = k' \/ In k (keys d)).
    { split.
      - intros H. apply in_keys_lookup in H as [v H]. rewrite lookup_set in H.
        destruct (str_eqb k k') eqn:E; [left; apply str_eqb_eq; exact E|].
        right. eapply lookup_Some_in; eauto.
      - intros [->|H].
        + eapply lookup_Some_in. apply lookup_set_eq.
        + destruct (str_eqb k k') eqn:E.
          * apply str_eqb_eq in E. subst. eapply lookup_Some_in. apply lookup_set_eq.
          * apply in_keys_lookup in H as [v H]. apply lookup_Some_in with (v := v).
            rewrite lookup_set, E. exact H. }
    rewrite G. unfold keys. cbn [map fst In]. intuition (subst; auto).
Qed.

Definition has_data (r : resp) : bool := match data r with Some _ => true | None => false end.
Definition full (r : resp) : bool := complete r && has_data r.
Definition datas (pre : list resp) : list obj :=
  flat_map (fun r => match data r with Some d => [d] | None => [] end) pre.

Lemma payload_datas_app a b : payload_datas (a ++ b) = (payload_datas a ++ payload_datas b)%list.
Proof. unfold payload_datas. apply flat_map_app. Qed.

Lemma payload_datas_resp pre : payload_datas (map OResp pre) = datas pre.
Proof. induction pre as [|r p IH]; [reflexivity|]. cbn. unfold payload_datas in IH. rewrite IH. reflexivity. Qed.

Lemma datas_app a b : datas (a ++ b) = (datas a ++ datas b)%list.
Proof. unfold datas. apply flat_map_app. Qed.

Record Inv (N : nat) (pre : list resp) (a : acc) : Prop := {
  inv_errs : errs a = [];
  inv_pend : pending a = (Z.of_nat N - Z.of_nat (List.length pre))%Z;
  inv_nil : pre = [] -> cur a = None;
  inv_cur : pre <> [] -> exists r, cur a = Some r /\
      union_spec eq (datas pre) (data_or_empty r) /\
      (complete r = true -> Forall (fun p => complete p = true) pre /\
                            (2 <= List.length pre -> Forall (fun p => has_data p = true) pre)) /\
      (Forall (fun p => full p = true) pre -> complete r = true) /\
      (forall p, pre = [p] -> r = p) /\
      ((exists p, In p pre /\ has_data p = true) -> has_data r = true) }.

Lemma inv_init N : Inv N [] (acc_init N).
Proof.
  constructor; cbn; try reflexivity; try lia. intros H; contradiction.
Qed.

Lemma union_single r : union_spec eq (datas [r]) (data_or_empty r).
Proof.
  unfold datas, data_or_empty. cbn. destruct (data r) as [d|]; cbn.
  - split.
    + intros k. split; [intros H; exists d; split; [left; reflexivity|exact H]|intros (d' & [<-|[]] & H); exact H].
    + intros k v H. exists d, v. split; [left; reflexivity|]. split; [apply lookup_In; exact H|reflexivity].
  - split.
    + intros k. split; [intros []|intros (d' & [] & _)].
    + intros k v H. discriminate.
Qed.

Lemma union_step pre d r :
  union_spec eq (datas pre) (data_or_empty d) ->
  union_spec eq (datas (pre ++ [r])) (data_or_empty (combine2 d r)).
Proof.
  intros [HK HV]. rewrite datas_app. unfold combine2, data_or_empty in *. cbn [datas flat_map].
  destruct (data r) as [db|] eqn:Dr; cbn [app].
  - destruct (data d) as [dd|] eqn:Dd; cbn [data].
    + split.
      * intros k. rewrite overlay_mem, HK. split.
        -- intros [(x & Hx & Hk)|Hk]; [exists x; split; [apply in_or_app; left; exact Hx|exact Hk]|].
           exists db. split; [apply in_or_app; right; left; reflexivity|exact Hk].
        -- intros (x & Hx & Hk). apply in_app_or in Hx as [Hx|[<-|[]]]; [left; exists x; auto|right; exact Hk].
      * intros k v H. apply overlay_lookup in H as [H|H].
        -- exists db, v. split; [apply in_or_app; right; left; reflexivity|]. split; [exact H|reflexivity].
        -- apply HV in H as (x & v' & Hx & Hin & ->). exists x, v. split; [apply in_or_app; left; exact Hx|]. split; [exact Hin|reflexivity].
    + split.
      * intros k. split.
        -- intros Hk. exists db. split; [apply in_or_app; right; left; reflexivity|exact Hk].
        -- intros (x & Hx & Hk). apply in_app_or in Hx as [Hx|[<-|[]]]; [|exact Hk].
           exfalso. assert (In k (keys (@nil (string * json)))) as []. apply HK. exists x; auto.
      * intros k v H. exists db, v. split; [apply in_or_app; right; left; reflexivity|]. split; [apply lookup_In; exact H|reflexivity].
  - rewrite app_nil_r. cbn [data]. destruct (data d) as [dd|]; cbn; split; assumption.
Qed.

Lemma inv_step N pre a r : Inv N pre a -> Inv N (pre ++ [r]) (acc_merge a (MP r)).
Proof.
  intros [He Hp Hn Hc]. constructor; cbn [acc_merge errs pending cur].
  - exact He.
  - rewrite Hp, app_length. cbn. lia.
  - intros H. destruct pre; discriminate.
  - intros _. destruct pre as [|p0 pre'].
    + rewrite (Hn eq_refl). exists r. cbn [app]. split; [reflexivity|]. split; [apply union_single|].
      split; [|split; [|split]].
      * intros C. split; [constructor; [exact C|constructor]|]. cbn. lia.
      * intros F. inversion F; subst. unfold full in H1. apply andb_true_iff in H1 as [H1 _]. exact H1.
      * intros p H. inversion H; reflexivity.
      * intros (p & [<-|[]] & H). exact H.
    + remember (p0 :: pre') as pre eqn:Epre in *. assert (Hne : pre <> []) by (subst; discriminate).
      destruct (Hc Hne) as (d & Hd & HU & C1 & C2 & E1 & F1). rewrite Hd.
      exists (combine2 d r). split; [reflexivity|]. split; [apply union_step; exact HU|].
      split; [|split; [|split]].
      * intros C. unfold combine2 in C. destruct (data d) as [dd|] eqn:Dd; destruct (data r) as [db|] eqn:Dr; cbn in C; try discriminate.
        apply andb_true_iff in C as [Cd Cr]. destruct (C1 Cd) as [A B].
        split; [apply Forall_app; split; [exact A|constructor; [exact Cr|constructor]]|].
        intros _. apply Forall_app. split; [|constructor; [unfold has_data; rewrite Dr; reflexivity|constructor]].
        destruct (Nat.le_gt_cases 2 (List.length pre)) as [L|L]; [apply B; exact L|].
        subst pre. destruct pre' as [|p1 pre'']; [|cbn in L; lia].
        rewrite (E1 p0 eq_refl) in Dd. constructor; [unfold has_data; rewrite Dd; reflexivity|constructor].
      * intros F. apply Forall_app in F as [Fp Fr]. apply Forall_inv in Fr as H1. unfold full in H1.
        apply andb_true_iff in H1 as [Cr Hr]. unfold has_data in Hr.
        assert (Hd' : has_data d = true).
        { apply F1. destruct pre as [|q pre2]; [contradiction Hne; reflexivity|]. exists q. split; [left; reflexivity|].
          apply Forall_inv in Fp as H3. unfold full in H3. apply andb_true_iff in H3 as [_ H3]. exact H3. }
        unfold has_data in Hd'. unfold combine2.
        destruct (data d) as [dd|]; [|discriminate]. destruct (data r) as [db|]; [|discriminate]. cbn.
        rewrite (C2 Fp), Cr. reflexivity.
      * intros p H. subst pre. destruct pre'; discriminate.
      * intros _. unfold combine2, has_data. destruct (data d), (data r); reflexivity.
Qed.

Lemma n_called_pre pre rest : Forall (fun p => complete p = true) pre ->
  n_called (map OResp pre ++ rest) = List.length pre + n_called rest.
Proof.
  induction pre as [|p pre IH]; intros F; [reflexivity|].
  cbn [map app n_called ok_out]. rewrite (Forall_inv F). rewrite IH by (eapply Forall_inv_tail; eauto). reflexivity.
Qed.

Lemma called_pre pre rest : Forall (fun p => complete p = true) pre ->
  called (map OResp pre ++ rest) = (map OResp pre ++ called rest)%list.
Proof.
  intros F. unfold called. rewrite n_called_pre by exact F.
  rewrite <- (map_length OResp pre). apply firstn_app_2.
Qed.

Lemma forallb_full_pre pre rest :
  forallb full_out (map OResp pre ++ rest) = forallb full pre && forallb full_out rest.
Proof.
  rewrite forallb_app. f_equal. induction pre as [|p pre IH]; [reflexivity|]. cbn. rewrite IH. reflexivity.
Qed.

Lemma forallb_full_Forall pre : forallb full pre = true <-> Forall (fun p => full p = true) pre.
Proof. rewrite forallb_forall, Forall_forall. tauto. Qed.

Lemma finish_spec N pre a : 2 <= N -> Inv N pre a -> pre <> [] -> List.length pre <= N ->
  exists x, finish a = (Some x, RNone) /\ union_spec eq (datas pre) (data_or_empty x) /\
            (complete x = true <-> List.length pre = N /\ Forall (fun p => full p = true) pre).
Proof.
  intros HN [He Hp _ Hc] Hne Hle. destruct (Hc Hne) as (r & Hr & HU & C1 & C2 & _ & _).
  unfold finish, acc_result. rewrite Hr, He. cbn [is_nil negb orb].
  destruct (pending a =? 0)%Z eqn:P; cbn [negb orb].
  - exists r. split; [reflexivity|]. split; [exact HU|].
    apply Z.eqb_eq in P. assert (L : List.length pre = N) by lia. split.
    + intros C. split; [exact L|]. destruct (C1 C) as [A B]. specialize (B ltac:(lia)).
      rewrite Forall_forall in *. intros p Hin. unfold full. rewrite (A p Hin), (B p Hin). reflexivity.
    + intros [_ F]. apply C2. exact F.
  - exists {| data := data r; complete := false |}. split; [reflexivity|]. split; [exact HU|].
    apply Z.eqb_neq in P. cbn. split; [discriminate|]. intros [L _]. lia.
Qed.

Lemma finish_err_spec N pre a e : Inv N pre a -> pre <> [] ->
  exists x, finish (acc_merge a (MF e)) = (Some x, RMerge [e]) /\
            union_spec eq (datas pre) (data_or_empty x) /\ complete x = false.
Proof.
  intros [He Hp _ Hc] Hne. destruct (Hc Hne) as (r & Hr & HU & _).
  unfold finish, acc_result, acc_merge. cbn [cur errs pending]. rewrite Hr, He. cbn [option_map app is_nil negb].
  rewrite orb_true_r. exists {| data := data r; complete := false |}. split; [reflexivity|]. split; [exact HU|reflexivity].
Qed.

Lemma result_spec_intro R outs res o0 tl :
  outs = o0 :: tl -> err_of_out o0 = None ->
  (exists x, fst res = Some x /\
     union_spec R (payload_datas (called outs)) (data_or_empty x) /\
     (complete x = true <-> forallb full_out outs = true) /\
     snd res = match err_of_out (last (called outs) o0) with Some e => RMerge [e] | None => RNone end) ->
  result_spec R outs res.
Proof. intros -> H1 H2. cbn [result_spec]. rewrite H1. exact H2. Qed.

Lemma outs_head pre o rest : exists o0 tl,
  (map OResp pre ++ o :: rest)%list = o0 :: tl /\
  (pre <> [] -> err_of_out o0 = None) /\ (pre = [] -> o0 = o).
Proof.
  destruct pre as [|p0 pre'].
  - exists o, rest. split; [reflexivity|]. split; [intros H; contradiction|reflexivity].
  - exists (OResp p0), (map OResp pre' ++ o :: rest)%list. split; [reflexivity|]. split; [reflexivity|discriminate].
Qed.

Lemma loop_result al N : 2 <= N -> forall bes pre i parts ps reg a,
  Inv N pre a -> Forall (fun p => complete p = true) pre ->
  List.length pre + List.length bes = N -> i = List.length pre ->
  result_spec eq (map OResp pre ++ map snd bes) (snd (seq_loop al bes i parts ps reg a)).
Proof.
  intros HN. induction bes as [|[b o] rest IH]; intros pre i parts ps reg a HI HC HL Hi.
  - cbn [seq_loop snd map]. rewrite app_nil_r. cbn [List.length] in HL.
    assert (Hne : pre <> []) by (destruct pre; [cbn in HL; lia|discriminate]).
    destruct (finish_spec N pre a HN HI Hne ltac:(lia)) as (x & Hf & HU & HCm).
    rewrite Hf.
    destruct (exists_last Hne) as (l & q & El).
    assert (Hcalled : called (map OResp pre) = map OResp pre).
    { rewrite <- (app_nil_r (map OResp pre)) at 1. rewrite called_pre by exact HC. apply app_nil_r. }
    destruct pre as [|p0 pre'] eqn:E; [contradiction Hne; reflexivity|]. rewrite <- E in *.
    eapply result_spec_intro with (o0 := OResp p0); [rewrite E; reflexivity|reflexivity|].
    exists x. split; [reflexivity|]. rewrite Hcalled, payload_datas_resp. split; [exact HU|]. split.
    + rewrite <- (app_nil_r (map OResp pre)), forallb_full_pre. cbn [forallb]. rewrite andb_true_r.
      rewrite forallb_full_Forall, HCm. split; [tauto|]. intros F. split; [lia|exact F].
    + cbn [snd]. rewrite El, map_app. cbn [map]. rewrite last_last. reflexivity.
  - cbn [seq_loop map snd].
    destruct (if (i =? 0)%nat then (ps, reg) else fold_left (apply_repl i parts) (b_tab b) (ps, reg)) as [ps' reg'].
    cbn [List.length] in HL.
    destruct o as [r|e|].
    + (* a response *)
      destruct (complete r) eqn:Cr.
      * specialize (IH (pre ++ [r])%list (S i) ((if al then pollute parts r else parts) ++ [Some r])%list ps' reg' (acc_merge a (MP r))).
        destruct (seq_loop al rest (S i) _ ps' reg' (acc_merge a (MP r))) as [tr res]. cbn [snd] in *.
        replace (map OResp pre ++ OResp r :: map snd rest)%list with (map OResp (pre ++ [r]) ++ map snd rest)%list
          by (rewrite map_app, <- app_assoc; reflexivity).
        apply IH.
        -- apply inv_step. exact HI.
        -- apply Forall_app. split; [exact HC|constructor; [exact Cr|constructor]].
        -- rewrite app_length. cbn. lia.
        -- rewrite app_length. cbn. lia.
      * (* incomplete: merged, then stop *)
        cbn [snd]. pose proof (inv_step N pre a r HI) as HI'.
        assert (Hne : (pre ++ [r])%list <> []) by (destruct pre; discriminate).
        destruct (finish_spec N _ _ HN HI' Hne ltac:(rewrite app_length; cbn; lia)) as (x & Hf & HU & HCm).
        rewrite Hf.
        assert (Hcalled : called (map OResp pre ++ OResp r :: map snd rest) = map OResp (pre ++ [r])).
        { rewrite called_pre by exact HC. unfold called. cbn [n_called ok_out]. rewrite Cr. cbn [firstn].
          rewrite map_app. reflexivity. }
        destruct (outs_head pre (OResp r) (map snd rest)) as (o0 & tl & Eo & Ho1 & Ho2).
        eapply result_spec_intro with (o0 := o0); [exact Eo| |].
        { destruct pre; [rewrite Ho2 by reflexivity; reflexivity|apply Ho1; discriminate]. }
        exists x. split; [reflexivity|]. rewrite Hcalled, payload_datas_resp. split; [exact HU|]. split.
        -- rewrite forallb_full_pre. cbn [forallb full_out]. rewrite Cr. cbn [andb]. rewrite andb_false_r.
           rewrite HCm. split; [|discriminate]. intros [_ F]. apply Forall_app in F as [_ F]. apply Forall_inv in F.
           unfold full in F. rewrite Cr in F. discriminate.
        -- rewrite map_app. cbn [map]. rewrite last_last. reflexivity.
    + (* an error *)
      destruct pre as [|p0 pre'] eqn:E.
      * subst i. cbn [List.length Nat.eqb snd app map result_spec err_of_out]. reflexivity.
      * rewrite <- E in *. assert (Hne : pre <> []) by (subst; discriminate).
        assert (Hi0 : (i =? 0)%nat = false) by (apply Nat.eqb_neq; subst; cbn; lia). rewrite Hi0. cbn [snd].
        destruct (finish_err_spec N pre a e HI Hne) as (x & Hf & HU & HCm). rewrite Hf.
        eapply result_spec_intro with (o0 := OResp p0); [rewrite E; reflexivity|reflexivity|].
        exists x. split; [reflexivity|].
        assert (Hcalled : called (map OResp pre ++ OErr e :: map snd rest) = (map OResp pre ++ [OErr e])%list).
        { rewrite called_pre by exact HC. reflexivity. }
        rewrite Hcalled, payload_datas_app, payload_datas_resp. cbn [payload_datas flat_map]. rewrite app_nil_r.
        split; [exact HU|]. split.
        -- rewrite forallb_full_pre. cbn [forallb full_out]. rewrite andb_false_r, HCm. split; discriminate.
        -- rewrite last_last. reflexivity.
    + (* nil, nil *)
      destruct pre as [|p0 pre'] eqn:E.
      * subst i. cbn [List.length Nat.eqb snd app map result_spec err_of_out]. reflexivity.
      * rewrite <- E in *. assert (Hne : pre <> []) by (subst; discriminate).
        assert (Hi0 : (i =? 0)%nat = false) by (apply Nat.eqb_neq; subst; cbn; lia). rewrite Hi0. cbn [snd].
        destruct (finish_err_spec N pre a ENull HI Hne) as (x & Hf & HU & HCm). rewrite Hf.
        eapply result_spec_intro with (o0 := OResp p0); [rewrite E; reflexivity|reflexivity|].
        exists x. split; [reflexivity|].
        assert (Hcalled : called (map OResp pre ++ OEmpty :: map snd rest) = (map OResp pre ++ [OEmpty])%list).
        { rewrite called_pre by exact HC. reflexivity. }
        rewrite Hcalled, payload_datas_app, payload_datas_resp. cbn [payload_datas flat_map]. rewrite app_nil_r.
        split; [exact HU|]. split.
        -- rewrite forallb_full_pre. cbn [forallb full_out]. rewrite andb_false_r, HCm. split; discriminate.
        -- rewrite last_last. reflexivity.
Qed.

Lemma model_result_spec bes ps0 : 2 <= List.length bes ->
  result_spec eq (map snd bes) (snd (seq_run_cfg bes ps0)).
Proof.
  intros H. unfold seq_run_cfg.
  apply (loop_result false (List.length bes) H bes [] 0 [] ps0 [] (acc_init (List.length bes))).
  - apply inv_init.
  - constructor.
  - reflexivity.
  - reflexivity.
Qed.

(* ---------- part 3a: Request.GeneratePath on texts that come from a template ---------- *)

Inductive chunk := CT (s : string) | CP (k : string).
Definition render_chunk (c : chunk) : string := match c with CT s => s | CP k => ph k end.
Definition chunk_wf (c : chunk) : bool := match c with CT s => no_open s | CP k => no_brace k end.

Lemma append_assoc (a b c : string) : (a ++ b) ++ c = a ++ (b ++ c).
Proof. induction a as [|x a IH]; cbn; [reflexivity|rewrite IH; reflexivity]. Qed.

Lemma length_append (a b : string) : String.length (a ++ b) = String.length a + String.length b.
Proof. induction a as [|x a IH]; cbn; [reflexivity|rewrite IH; reflexivity]. Qed.

Lemma strip_prefix_app old rest : strip_prefix old (old ++ rest) = Some rest.
Proof. induction old as [|a o IH]; cbn; [reflexivity|]. rewrite Ascii.eqb_refl. exact IH. Qed.

Lemma has_char_app c a b : has_char c (a ++ b) = has_char c a || has_char c b.
Proof. induction a as [|x a IH]; cbn; [reflexivity|]. rewrite IH, orb_assoc. reflexivity. Qed.

(* text without an opening brace passes through unchanged *)
Lemma rf_text k v : forall s fuel rest,
  no_open s = true -> String.length s <= fuel ->
  replace_fuel fuel (ph k) v (s ++ rest) = s ++ replace_fuel (fuel - String.length s) (ph k) v rest.
Proof.
  induction s as [|c s IH]; intros fuel rest Hs Hf.
  - cbn. rewrite Nat.sub_0_r. reflexivity.
  - destruct fuel as [|f]; [cbn in Hf; lia|].
    unfold no_open in Hs. cbn [has_char] in Hs. apply negb_true_iff, orb_false_iff in Hs as [Hc Hs].
    cbn [append replace_fuel]. unfold ph at 1. cbn [append strip_prefix].
    rewrite Ascii.eqb_sym. unfold lbrace in Hc. rewrite Hc.
    cbn [String.length Nat.sub]. f_equal. apply IH; [unfold no_open; rewrite Hs; reflexivity|cbn in Hf; lia].
Qed.

Lemma strip_key_neq : forall k k' rest,
  no_brace k = true -> no_brace k' = true -> k <> k' ->
  strip_prefix (k ++ "}}") (k' ++ "}}" ++ rest) = None.
Proof.
  unfold no_brace. induction k as [|a k IH]; intros k' rest Hk Hk' Hn.
  - destruct k' as [|b k']; [contradiction Hn; reflexivity|].
    cbn [has_char] in Hk'. apply andb_true_iff in Hk' as [_ H2]. apply negb_true_iff, orb_false_iff in H2 as [H2 _].
    cbn [append strip_prefix]. unfold rbrace in H2. rewrite Ascii.eqb_sym, H2. reflexivity.
  - cbn [has_char] in Hk. apply andb_true_iff in Hk as [H1 H2].
    apply negb_true_iff, orb_false_iff in H1 as [H1a H1b]. apply negb_true_iff, orb_false_iff in H2 as [H2a H2b].
    destruct k' as [|b k'].
    + cbn [append strip_prefix]. unfold rbrace in H2a. rewrite H2a. reflexivity.
    + cbn [append strip_prefix]. destruct (Ascii.eqb a b) eqn:E; [|reflexivity].
      apply Ascii.eqb_eq in E. subst b.
      cbn [has_char] in Hk'. apply andb_true_iff in Hk' as [H3 H4].
      apply negb_true_iff, orb_false_iff in H3 as [_ H3]. apply negb_true_iff, orb_false_iff in H4 as [_ H4].
      apply IH; [rewrite H1b, H2b; reflexivity|rewrite H3, H4; reflexivity|congruence].
Qed.

Lemma strip_ph_neq k k' rest :
  no_brace k = true -> no_brace k' = true -> k <> k' -> strip_prefix (ph k) (ph k' ++ rest) = None.
Proof.
  intros H1 H2 Hn. unfold ph. cbn [append strip_prefix]. rewrite !Ascii.eqb_refl.
  rewrite append_assoc. apply strip_key_neq; assumption.
Qed.

Definition subst1 (k v : string) (cs : list chunk) : list chunk :=
  map (fun c => match c with CP k' => if str_eqb k' k then CT v else c | _ => c end) cs.

Definition text (cs : list chunk) : string := cat (map render_chunk cs).

Lemma no_open_key_tail k' : no_brace k' = true -> no_open ("." ++ k' ++ "}}") = true.
Proof.
  unfold no_brace, no_open. intros H. apply andb_true_iff in H as [H _]. apply negb_true_iff in H.
  cbn [append has_char]. rewrite has_char_app, H. reflexivity.
Qed.

Lemma rf_other k v k' rest fuel :
  no_brace k = true -> no_brace k' = true -> k <> k' -> String.length (ph k') <= fuel ->
  replace_fuel fuel (ph k) v (ph k' ++ rest) =
  ph k' ++ replace_fuel (fuel - String.length (ph k')) (ph k) v rest.
Proof.
  intros Hk Hk' Hn Hf.
  assert (Hlen : String.length (ph k') = 2 + String.length ("." ++ k' ++ "}}")) by reflexivity.
  destruct fuel as [|f]; [lia|]. destruct f as [|f]; [lia|].
  cbn [replace_fuel]. rewrite strip_ph_neq by assumption.
  change (ph k' ++ rest) with (String "{" (String "{" (("." ++ k' ++ "}}") ++ rest))).
  cbv iota beta.
  assert (S2 : strip_prefix (ph k) (String "{" (("." ++ k' ++ "}}") ++ rest)) = None) by reflexivity.
  rewrite S2.
  rewrite rf_text; [|apply no_open_key_tail; exact Hk'|lia].
  rewrite Hlen. reflexivity.
Qed.

Lemma rf_chunks k v : no_brace k = true -> forall cs fuel,
  forallb chunk_wf cs = true -> String.length (text cs) < fuel ->
  replace_fuel fuel (ph k) v (text cs) = text (subst1 k v cs).
Proof.
  intros Hk. induction cs as [|c cs IH]; intros fuel Hwf Hf.
  - destruct fuel; [lia|]. reflexivity.
  - cbn [forallb] in Hwf. apply andb_true_iff in Hwf as [Hc Hwf].
    unfold text in *. cbn [map cat fold_right subst1] in *. fold (cat (map render_chunk cs)) in *.
    fold (cat (map render_chunk (subst1 k v cs))). rewrite length_append in Hf.
    destruct c as [s|k']; cbn [render_chunk chunk_wf] in *.
    + rewrite rf_text by (try assumption; lia). f_equal. apply IH; [exact Hwf|lia].
    + destruct (str_eqb k' k) eqn:E.
      * apply str_eqb_eq in E. subst k'. destruct fuel as [|f]; [lia|].
        cbn [replace_fuel]. rewrite strip_prefix_app. cbn [render_chunk]. f_equal.
        apply IH; [exact Hwf|]. unfold ph in Hf. cbn in Hf. lia.
      * apply str_eqb_neq in E.
        rewrite rf_other by (try assumption; try congruence; lia).
        cbn [render_chunk]. f_equal. apply IH; [exact Hwf|lia].
Qed.

Definition chunk_final (ps : params) (c : chunk) : chunk :=
  match c with
  | CT s => CT s
  | CP k => match lookup k ps with Some v => CT v | None => CP k end
  end.

Definition ps_ok (ps : params) (cs : list chunk) : Prop :=
  forall k v, In (k, v) ps -> no_brace k = true /\ (In (CP k) cs -> no_open v = true).

Lemma subst1_in k v cs k2 : In (CP k2) (subst1 k v cs) -> In (CP k2) cs.
Proof.
  unfold subst1. rewrite in_map_iff. intros (c & Hc & Hin). destruct c as [s|k'].
  - discriminate.
  - destruct (str_eqb k' k); [discriminate|]. inversion Hc; subst. exact Hin.
Qed.

Lemma subst1_wf k v cs : forallb chunk_wf cs = true -> (In (CP k) cs -> no_open v = true) ->
  forallb chunk_wf (subst1 k v cs) = true.
Proof.
  induction cs as [|c cs IH]; intros Hwf Hv; [reflexivity|].
  cbn [forallb] in Hwf. apply andb_true_iff in Hwf as [Hc Hwf]. cbn [subst1 map forallb].
  apply andb_true_iff. split.
  - destruct c as [s|k']; [exact Hc|]. destruct (str_eqb k' k) eqn:E; [|exact Hc].
    apply str_eqb_eq in E. subst. cbn. apply Hv. left; reflexivity.
  - apply IH; [exact Hwf|]. intros H. apply Hv. right; exact H.
Qed.

Lemma chunk_final_nil cs : map (chunk_final []) cs = cs.
Proof. induction cs as [|c cs IH]; [reflexivity|]. cbn [map]. rewrite IH. destruct c; reflexivity. Qed.

Lemma generate_path_chunks : forall ps cs, forallb chunk_wf cs = true -> ps_ok ps cs ->
  generate_path (text cs) ps = text (map (chunk_final ps) cs).
Proof.
  unfold generate_path. induction ps as [|[k v] ps IH]; intros cs Hwf Hok.
  - cbn [fold_left]. rewrite chunk_final_nil. reflexivity.
  - cbn [fold_left fst snd]. destruct (Hok k v (or_introl eq_refl)) as [Hk Hv].
    unfold replace_all. rewrite rf_chunks by (try assumption; lia).
    rewrite IH.
    + f_equal. unfold subst1. rewrite map_map. apply map_ext. intros c. destruct c as [s|k']; [reflexivity|].
      cbn [chunk_final lookup]. destruct (str_eqb k' k); reflexivity.
    + apply subst1_wf; assumption.
    + intros k2 v2 Hin. destruct (Hok k2 v2 (or_intror Hin)) as [A B]. split; [exact A|].
      intros Hc. apply B. eapply subst1_in; eauto.
Qed.

Definition seg_chunk (s : seg) : chunk :=
  match s with Lit s => CT s | Hole j p => CP (dest_key j p) | PHole k => CP k end.

Lemma render_text t : render t = text (map seg_chunk t).
Proof. unfold render, text. rewrite map_map. f_equal. apply map_ext. intros []; reflexivity. Qed.

(* ---------- part 3b: the parameter table ---------- *)

Definition val_of (parts : list (option resp)) (j : nat) (p : list string) : option string :=
  match nth_error parts j with
  | Some (Some part) => option_map param_of (lookup_src (data_or_empty part) p)
  | _ => None
  end.

Definition upd (i : nat) (parts : list (option resp)) (ps : params) (r : repl) : params :=
  if (i <=? r_idx r)%nat then ps else
  match val_of parts (r_idx r) (r_src r) with
  | Some v => set (r_dest r) v ps
  | None => ps
  end.

Definition dest_inj (H : list (nat * list string)) : Prop :=
  forall j p j' p', In (j, p) H -> In (j', p') H -> dest_key j p = dest_key j' p' -> j = j' /\ p = p'.

Definition reg_ok (H : list (nat * list string)) (parts : list (option resp)) (reg : params) : Prop :=
  forall d f, lookup d reg = Some f ->
    exists j p, In (j, p) H /\ d = dest_key j p /\ val_of parts j p = Some f.

Definition entry_ok (H : list (nat * list string)) (r : repl) : Prop :=
  In (r_idx r, r_src r) H /\ r_dest r = dest_key (r_idx r) (r_src r).

Lemma apply_repl_upd H i parts ps reg r :
  dest_inj H -> entry_ok H r -> reg_ok H parts reg ->
  exists reg', apply_repl i parts (ps, reg) r = (upd i parts ps r, reg') /\ reg_ok H parts reg'.
Proof.
  intros Hinj [Hin Hd] Hreg. unfold apply_repl, upd, val_of.
  destruct (i <=? r_idx r)%nat; [exists reg; split; [reflexivity|exact Hreg]|].
  destruct (nth_error parts (r_idx r)) as [[part|]|] eqn:En; try (exists reg; split; [reflexivity|exact Hreg]).
  assert (Hcompute : exists reg',
             match lookup_src (data_or_empty part) (r_src r) with
             | Some v => (set (r_dest r) (param_of v) ps, set (r_dest r) (param_of v) reg)
             | None => (ps, reg)
             end = (match option_map param_of (lookup_src (data_or_empty part) (r_src r)) with
                    | Some v => set (r_dest r) v ps | None => ps end, reg') /\ reg_ok H parts reg').
  { destruct (lookup_src (data_or_empty part) (r_src r)) as [x|] eqn:El; cbn [option_map].
    - eexists. split; [reflexivity|]. intros d f Hl. rewrite lookup_set in Hl.
      destruct (str_eqb d (r_dest r)) eqn:E.
      + apply str_eqb_eq in E. inversion Hl; subst f. exists (r_idx r), (r_src r).
        split; [exact Hin|]. split; [congruence|]. unfold val_of. rewrite En, El. reflexivity.
      + apply Hreg. exact Hl.
    - exists reg. split; [reflexivity|exact Hreg]. }
  destruct (lookup (r_dest r) reg) as [found|] eqn:Ef; [|exact Hcompute].
  destruct (str_eqb found "") eqn:Ee; [exact Hcompute|].
  exists reg. split; [|exact Hreg].
  destruct (Hreg _ _ Ef) as (j & p & Hjp & Hdd & Hv).
  rewrite Hd in Hdd. destruct (Hinj _ _ _ _ Hin Hjp Hdd) as [<- <-].
  unfold val_of in Hv. rewrite En in Hv. rewrite Hv. reflexivity.
Qed.

Lemma fold_apply_upd H i parts : dest_inj H -> forall tab ps reg,
  (forall r, In r tab -> entry_ok H r) -> reg_ok H parts reg ->
  exists reg', fold_left (apply_repl i parts) tab (ps, reg) = (fold_left (upd i parts) tab ps, reg') /\
               reg_ok H parts reg'.
Proof.
  intros Hinj. induction tab as [|r tab IH]; intros ps reg Ht Hreg.
  - exists reg. split; [reflexivity|exact Hreg].
  - cbn [fold_left].
    destruct (apply_repl_upd H i parts ps reg r Hinj (Ht r (or_introl eq_refl)) Hreg) as (reg1 & E1 & R1).
    rewrite E1. apply IH; [|exact R1]. intros r' Hr'. apply Ht. right; exact Hr'.
Qed.

Lemma in_remove {V} k (kv : string * V) m : In kv (remove k m) -> In kv m.
Proof.
  induction m as [|[k' v'] m IH]; cbn; [tauto|]. destruct (str_eqb k k'); cbn; intuition.
Qed.

(* where the entries of the table after the replacements come from *)
Lemma fold_upd_in i parts : forall tab ps k v,
  In (k, v) (fold_left (upd i parts) tab ps) ->
  In (k, v) ps \/ exists r, In r tab /\ k = r_dest r /\ val_of parts (r_idx r) (r_src r) = Some v.
Proof.
  induction tab as [|r tab IH]; intros ps k v Hin; [left; exact Hin|].
  cbn [fold_left] in Hin. apply IH in Hin as [Hin|(r' & Hr' & Hk & Hv)].
  - unfold upd in Hin. destruct (i <=? r_idx r)%nat; [left; exact Hin|].
    destruct (val_of parts (r_idx r) (r_src r)) as [x|] eqn:Ev; [|left; exact Hin].
    unfold set in Hin. destruct Hin as [Hin|Hin].
    + inversion Hin; subst. right. exists r. split; [left; reflexivity|]. split; [reflexivity|exact Ev].
    + left. eapply in_remove; eauto.
  - right. exists r'. split; [right; exact Hr'|]. split; assumption.
Qed.

(* an untouched key keeps its value *)
Lemma fold_upd_other i parts : forall tab ps k,
  (forall r, In r tab -> k <> r_dest r) ->
  lookup k (fold_left (upd i parts) tab ps) = lookup k ps.
Proof.
  induction tab as [|r tab IH]; intros ps k Hn; [reflexivity|].
  cbn [fold_left]. rewrite IH by (intros r' Hr'; apply Hn; right; exact Hr').
  unfold upd. destruct (i <=? r_idx r)%nat; [reflexivity|].
  destruct (val_of parts (r_idx r) (r_src r)); [|reflexivity].
  apply lookup_set_neq. apply Hn. left; reflexivity.
Qed.

(* a resolvable entry ends up in the table with its value *)
Lemma fold_upd_set i parts : forall tab ps d v,
  (forall r, In r tab -> r_dest r = d -> (r_idx r < i)%nat /\ val_of parts (r_idx r) (r_src r) = Some v) ->
  (lookup d ps = Some v \/ exists r, In r tab /\ r_dest r = d) ->
  lookup d (fold_left (upd i parts) tab ps) = Some v.
Proof.
  induction tab as [|r tab IH]; intros ps d v Hall Hex.
  - destruct Hex as [H|(r & [] & _)]. exact H.
  - cbn [fold_left]. apply IH; [intros r' Hr'; apply Hall; right; exact Hr'|].
    destruct (str_eqb (r_dest r) d) eqn:E.
    + apply str_eqb_eq in E. destruct (Hall r (or_introl eq_refl) E) as [Hlt Hv].
      left. unfold upd. apply Nat.leb_gt in Hlt. rewrite Hlt, Hv, <- E. apply lookup_set_eq.
    + apply str_eqb_neq in E. destruct Hex as [H|(r' & [->|Hr'] & Hd)]; [| contradiction |right; exists r'; auto].
      left. unfold upd. destruct (i <=? r_idx r)%nat; [exact H|].
      destruct (val_of parts (r_idx r) (r_src r)); [|exact H].
      rewrite lookup_set_neq by congruence. exact H.
Qed.

(* ---------- part 3c: propagation along the loop ---------- *)

Lemma get_path_lookup_src : forall p d v,
  p <> [] -> get_path (JObj d) p = Some v -> lookup_src d p = Some v.
Proof.
  induction p as [|k r IH]; intros d v Hne H; [contradiction Hne; reflexivity|].
  cbn [get_path] in H. destruct (lookup k d) as [x|] eqn:El; [|discriminate].
  destruct r as [|k2 r2].
  - cbn [get_path] in H. inversion H; subst. cbn [lookup_src]. exact El.
  - cbn [lookup_src]. rewrite El. destruct x as [| | | | |m|]; cbn [get_path] in H; try discriminate.
    apply IH; [discriminate|exact H].
Qed.

Lemma scalar_param x tx : scalar_text x = Some tx -> param_of x = tx.
Proof. destruct x; cbn; intros H; inversion H; reflexivity. Qed.

Lemma table_of_in t r : In r (table_of t) ->
  exists j p, In (Hole j p) t /\ r = {| r_idx := j; r_dest := dest_key j p; r_src := p |}.
Proof.
  unfold table_of. rewrite in_flat_map. intros (sg & Hs & Hr). destruct sg as [s|j p|k]; try contradiction.
  destruct Hr as [<-|[]]. exists j, p. split; [exact Hs|reflexivity].
Qed.

Lemma in_table_of t j p : In (Hole j p) t ->
  In {| r_idx := j; r_dest := dest_key j p; r_src := p |} (table_of t).
Proof. intros H. unfold table_of. apply in_flat_map. exists (Hole j p). split; [exact H|left; reflexivity]. Qed.

Lemma hole_in_all ts t j p : In t ts -> In (Hole j p) t -> In (j, p) (all_holes ts).
Proof.
  intros Ht Hh. unfold all_holes. apply in_flat_map. exists t. split; [exact Ht|].
  unfold holes. apply in_flat_map. exists (Hole j p). split; [exact Hh|left; reflexivity].
Qed.

Lemma starts_resp_dest j p : starts_resp (dest_key j p) = true.
Proof. reflexivity. Qed.

Lemma val_of_app parts x j p v : val_of parts j p = Some v -> val_of (parts ++ [x]) j p = Some v.
Proof.
  unfold val_of. destruct (nth_error parts j) as [o|] eqn:E; [|discriminate].
  rewrite nth_error_app1 by (apply nth_error_Some; congruence). rewrite E. tauto.
Qed.

Lemma fill_inv outs ps0 i : forall t s, fill outs ps0 i t = Some s ->
  (forall sg, In sg t -> exists tx, seg_text outs ps0 i sg = Some tx) /\
  s = cat (map (fun sg => match seg_text outs ps0 i sg with Some tx => tx | None => "" end) t).
Proof.
  induction t as [|sg t IH]; intros s H.
  - cbn in H. inversion H. split; [intros ? []|reflexivity].
  - cbn [fill] in H. destruct (seg_text outs ps0 i sg) as [a|] eqn:Ea; [|discriminate].
    destruct (fill outs ps0 i t) as [b|] eqn:Eb; [|discriminate]. inversion H; subst s.
    destruct (IH b eq_refl) as [A B]. split.
    + intros sg' [<-|Hin]; [exists a; exact Ea|apply A; exact Hin].
    + cbn [map cat fold_right]. rewrite Ea. f_equal. exact B.
Qed.

Section Propagation.
  Variables (ts : list tmpl) (outs : list outcome) (ps0 : params).
  Let H := all_holes ts.
  Hypothesis Hinj : dests_distinct ts.
  Hypothesis Hclean : dests_clean_b ts = true.

  Definition PK (parts : list (option resp)) (ps : params) : Prop :=
    forall k v, In (k, v) ps ->
      In (k, v) ps0 \/ exists j p, In (j, p) H /\ k = dest_key j p /\ val_of parts j p = Some v.
  Definition PU (ps : params) : Prop :=
    forall k, (forall j p, In (j, p) H -> k <> dest_key j p) -> lookup k ps = lookup k ps0.

  Lemma dest_no_brace j p : In (j, p) H -> no_brace (dest_key j p) = true.
  Proof.
    intros Hin. unfold dests_clean_b in Hclean. rewrite forallb_forall in Hclean. apply (Hclean (j, p) Hin).
  Qed.

  Lemma table_entry_ok t : In t ts -> forall r, In r (table_of t) -> entry_ok H r.
  Proof.
    intros Ht r Hr. apply table_of_in in Hr as (j & p & Hh & ->). split; [|reflexivity].
    cbn. eapply hole_in_all; eauto.
  Qed.

  (* the value the model's lookup yields for a placeholder the statement applies to *)
  Lemma hole_value pre outsr i j p tx :
    outs = (map OResp pre ++ outsr)%list -> List.length pre = i ->
    seg_text outs ps0 i (Hole j p) = Some tx ->
    (j < i)%nat /\ val_of (map Some pre) j p = Some tx.
  Proof.
    intros Ho Hl Hs. cbn [seg_text] in Hs. destruct (j <? i)%nat eqn:Lt; [|discriminate].
    apply Nat.ltb_lt in Lt. split; [exact Lt|].
    unfold data_at in Hs. rewrite Ho in Hs. rewrite nth_error_app1 in Hs by (rewrite map_length; lia).
    rewrite nth_error_map in Hs. unfold val_of. rewrite nth_error_map.
    destruct (nth_error pre j) as [rj|] eqn:En; cbn [option_map] in *; [|discriminate].
    destruct (data rj) as [d|] eqn:Ed; [|discriminate].
    destruct (get_path (JObj d) p) as [x|] eqn:Eg; [|discriminate].
    unfold data_or_empty. rewrite Ed.
    assert (Hp : p <> []). { intros ->. cbn in Eg. inversion Eg; subst. discriminate. }
    rewrite (get_path_lookup_src p d x Hp Eg). cbn [option_map]. f_equal. apply scalar_param. exact Hs.
  Qed.

  (* the path one backend is called with *)
  Lemma head_path pre outsr i t ps s :
    outs = (map OResp pre ++ outsr)%list -> List.length pre = i -> In t ts ->
    PK (map Some pre) ps -> PU ps ->
    tmpl_clean outs ps0 i t = true -> fill outs ps0 i t = Some s ->
    generate_path (render t) (fold_left (upd i (map Some pre)) (table_of t) ps) = s.
  Proof.
    intros Ho Hl Ht Hpk Hpu Hc Hf.
    set (parts := map Some pre) in *. set (ps' := fold_left (upd i parts) (table_of t) ps).
    unfold tmpl_clean in Hc. apply andb_true_iff in Hc as [Hsegs Hps0].
    rewrite forallb_forall in Hsegs. unfold params_clean in Hps0. rewrite forallb_forall in Hps0.
    destruct (fill_inv outs ps0 i t s Hf) as [Hres ->].
    (* what the final table says about each placeholder of t *)
    assert (Vhole : forall j p tx, In (Hole j p) t -> seg_text outs ps0 i (Hole j p) = Some tx ->
                                   lookup (dest_key j p) ps' = Some tx).
    { intros j p tx Hin Hs. destruct (hole_value pre outsr i j p tx Ho Hl Hs) as [Lt Hv].
      apply fold_upd_set.
      - intros r Hr Hd. apply table_of_in in Hr as (j' & p' & Hh' & ->). cbn in Hd |- *.
        destruct (Hinj j' p' j p (hole_in_all ts t j' p' Ht Hh') (hole_in_all ts t j p Ht Hin) Hd) as [-> ->].
        split; [exact Lt|exact Hv].
      - right. eexists. split; [apply in_table_of; exact Hin|reflexivity]. }
    assert (Vparam : forall k, In (PHole k) t -> lookup k ps' = lookup k ps0).
    { intros k Hin. specialize (Hsegs _ Hin). cbn in Hsegs. apply andb_true_iff in Hsegs as [_ Hr].
      apply negb_true_iff in Hr.
      assert (Hnd : forall j p, k <> dest_key j p).
      { intros j p ->. rewrite starts_resp_dest in Hr. discriminate. }
      unfold ps'. rewrite fold_upd_other.
      - apply Hpu. intros j p _. apply Hnd.
      - intros r Hr'. apply table_of_in in Hr' as (j & p & _ & ->). cbn. apply Hnd. }
    rewrite render_text, generate_path_chunks.
    - unfold text. rewrite !map_map. f_equal. apply map_ext_in. intros sg Hin.
      destruct (Hres sg Hin) as [tx Htx]. rewrite Htx. destruct sg as [s0|j p|k]; cbn [seg_chunk chunk_final render_chunk].
      + cbn in Htx. inversion Htx. reflexivity.
      + rewrite (Vhole j p tx Hin Htx). reflexivity.
      + rewrite (Vparam k Hin). cbn in Htx. rewrite Htx. reflexivity.
    - rewrite forallb_forall. intros c Hc. apply in_map_iff in Hc as (sg & <- & Hin).
      specialize (Hsegs _ Hin). destruct sg as [s0|j p|k]; cbn in *.
      + exact Hsegs.
      + apply andb_true_iff in Hsegs as [A _]. exact A.
      + apply andb_true_iff in Hsegs as [A _]. exact A.
    - (* every entry of the table is harmless for this pattern *)
      intros k v Hin.
      assert (Hcase : (In (k, v) ps0) \/ exists j p, In (j, p) H /\ k = dest_key j p /\ val_of parts j p = Some v).
      { unfold ps' in Hin. apply fold_upd_in in Hin as [Hin|(r & Hr & Hk & Hv)].
        - apply Hpk. exact Hin.
        - right. apply table_of_in in Hr as (j & p & Hh & ->). cbn in *. exists j, p.
          split; [eapply hole_in_all; eauto|]. split; assumption. }
      destruct Hcase as [Hin0|(j & p & Hjp & -> & Hv)].
      + specialize (Hps0 _ Hin0). cbn in Hps0. apply andb_true_iff in Hps0 as [A B]. split; [exact A|intros _; exact B].
      + split; [apply dest_no_brace; exact Hjp|]. intros Hc.
        apply in_map_iff in Hc as (sg & Hsg & Hin'). destruct sg as [s0|j' p'|k']; unfold seg_chunk in Hsg; try discriminate.
        * assert (Hd : dest_key j' p' = dest_key j p) by congruence.
          destruct (Hinj j' p' j p (hole_in_all ts t j' p' Ht Hin') Hjp Hd) as [-> ->].
          destruct (Hres _ Hin') as [tx Htx].
          destruct (hole_value pre outsr i j p tx Ho Hl Htx) as [_ Hv'].
          fold parts in Hv'. rewrite Hv in Hv'. inversion Hv'; subst v.
          specialize (Hsegs _ Hin'). cbn [seg_clean] in Hsegs. apply andb_true_iff in Hsegs as [_ B].
          rewrite Htx in B. exact B.
        * assert (Hd : k' = dest_key j p) by congruence. subst k'. specialize (Hsegs _ Hin'). cbn [seg_clean] in Hsegs.
          apply andb_true_iff in Hsegs as [_ B]. rewrite starts_resp_dest in B. discriminate.
  Qed.

  (* the invariants of the parameter table survive one backend *)
  Lemma step_PK pre i t ps x : In t ts -> PK (map Some pre) ps ->
    PK (map Some pre ++ [x]) (fold_left (upd i (map Some pre)) (table_of t) ps).
  Proof.
    intros Ht Hpk k v Hin. apply fold_upd_in in Hin as [Hin|(r & Hr & Hk & Hv)].
    - destruct (Hpk k v Hin) as [A|(j & p & A & B & C)]; [left; exact A|].
      right. exists j, p. split; [exact A|]. split; [exact B|apply val_of_app; exact C].
    - right. apply table_of_in in Hr as (j & p & Hh & ->). cbn in *. exists j, p.
      split; [eapply hole_in_all; eauto|]. split; [exact Hk|apply val_of_app; exact Hv].
  Qed.

  Lemma step_PU i parts t ps : In t ts -> PU ps -> PU (fold_left (upd i parts) (table_of t) ps).
  Proof.
    intros Ht Hpu k Hk. rewrite fold_upd_other; [apply Hpu; exact Hk|].
    intros r Hr. apply table_of_in in Hr as (j & p & Hh & ->). cbn. apply Hk. eapply hole_in_all; eauto.
  Qed.

  Lemma reg_ok_app parts x reg : reg_ok H parts reg -> reg_ok H (parts ++ [x]) reg.
  Proof.
    intros Hr d f Hl. destruct (Hr d f Hl) as (j & p & A & B & C). exists j, p.
    split; [exact A|]. split; [exact B|apply val_of_app; exact C].
  Qed.

  Lemma upd_zero parts : forall tab ps, fold_left (upd 0 parts) tab ps = ps.
  Proof. induction tab as [|r tab IH]; intros ps; [reflexivity|]. cbn [fold_left]. rewrite IH. reflexivity. Qed.

  Lemma loop_paths : forall tsr outsr tsp pre i ps reg a,
    ts = (tsp ++ tsr)%list -> outs = (map OResp pre ++ outsr)%list ->
    List.length tsp = i -> List.length pre = i ->
    reg_ok H (map Some pre) reg -> PK (map Some pre) ps -> PU ps ->
    forall i' path t s,
      In (i', path) (call_paths (fst (seq_loop false (combine (map bcfg_of tsr) outsr) i (map Some pre) ps reg a))) ->
      nth_error ts i' = Some t -> tmpl_clean outs ps0 i' t = true -> fill outs ps0 i' t = Some s -> path = s.
  Proof.
    induction tsr as [|t0 tsr IH]; intros outsr tsp pre i ps reg a Hts Houts Hlt Hlp Hreg Hpk Hpu i' path t s Hin Hnth Hc Hf.
    - cbn in Hin. contradiction.
    - destruct outsr as [|o outsr]; [cbn in Hin; contradiction|].
      cbn [map combine seq_loop] in Hin.
      assert (Ht0 : In t0 ts) by (rewrite Hts; apply in_or_app; right; left; reflexivity).
      assert (Hnth0 : nth_error ts i = Some t0).
      { rewrite Hts, nth_error_app2 by lia. replace (i - List.length tsp) with 0 by lia. reflexivity. }
      destruct (fold_apply_upd H i (map Some pre) Hinj (table_of t0) ps reg (table_entry_ok t0 Ht0) Hreg)
        as (reg1 & Efold & Hreg1).
      assert (Eps : (if (i =? 0)%nat then (ps, reg) else fold_left (apply_repl i (map Some pre)) (b_tab (bcfg_of t0)) (ps, reg))
                    = (fold_left (upd i (map Some pre)) (table_of t0) ps, if (i =? 0)%nat then reg else reg1)).
      { destruct (i =? 0)%nat eqn:E0.
        - apply Nat.eqb_eq in E0. rewrite E0. rewrite upd_zero. reflexivity.
        - cbn [bcfg_of b_tab]. exact Efold. }
      rewrite Eps in Hin. clear Eps.
      set (ps' := fold_left (upd i (map Some pre)) (table_of t0) ps) in *.
      set (reg' := if (i =? 0)%nat then reg else reg1) in *.
      assert (Hreg' : reg_ok H (map Some pre) reg') by (unfold reg'; destruct (i =? 0)%nat; assumption).
      (* the call of backend i itself *)
      assert (Hhead : forall i' path, In (i', path) [(i, generate_path (b_pat (bcfg_of t0)) ps')] ->
                 nth_error ts i' = Some t -> tmpl_clean outs ps0 i' t = true -> fill outs ps0 i' t = Some s -> path = s).
      { intros i2 path2 [Heq|[]] Hn2 Hc2 Hf2. inversion Heq; subst i2 path2.
        rewrite Hnth0 in Hn2. inversion Hn2; subst t. cbn [bcfg_of b_pat].
        eapply head_path; eauto. }
      destruct o as [r|e|].
      + destruct (complete r) eqn:Cr.
        * destruct (seq_loop false (combine (map bcfg_of tsr) outsr) (S i) (map Some pre ++ [Some r]) ps' reg'
                             (acc_merge a (MP r))) as [tr res] eqn:El.
          cbn [fst] in Hin. unfold call_paths in Hin. rewrite flat_map_app in Hin.
          apply in_app_or in Hin as [Hin|Hin].
          -- cbn in Hin. eapply Hhead; eauto.
          -- assert (Emap : (map Some pre ++ [Some r])%list = map Some (pre ++ [r])) by (rewrite map_app; reflexivity).
             rewrite Emap in El.
             refine (IH outsr (tsp ++ [t0])%list (pre ++ [r])%list (S i) ps' reg' (acc_merge a (MP r)) _ _ _ _ _ _ _ i' path t s _ Hnth Hc Hf).
             ++ rewrite Hts, <- app_assoc. reflexivity.
             ++ rewrite Houts, map_app, <- app_assoc. reflexivity.
             ++ rewrite app_length. cbn. lia.
             ++ rewrite app_length. cbn. lia.
             ++ rewrite <- Emap. apply reg_ok_app. exact Hreg'.
             ++ rewrite <- Emap. apply step_PK; assumption.
             ++ apply step_PU; assumption.
             ++ rewrite El. exact Hin.
        * cbn in Hin. eapply Hhead; eauto.
      + destruct (i =? 0)%nat; cbn in Hin; eapply Hhead; eauto.
      + destruct (i =? 0)%nat; cbn in Hin; eapply Hhead; eauto.
  Qed.
End Propagation.

Lemma model_propagation_spec ts outs ps0 :
  propagation_spec ts outs ps0 (fst (seq_run ts outs ps0)).
Proof.
  intros Hinj Hclean i path t s Hin Hnth Hc Hf. unfold seq_run, seq_run_cfg in Hin.
  eapply (loop_paths ts outs ps0 Hinj Hclean ts outs [] [] 0 ps0 [] _); eauto.
  - intros d f Hl. discriminate.
  - intros k v Hk. left; exact Hk.
  - intros k _. reflexivity.
Qed.

(* ---------- the boolean oracle is sound for the Prop ---------- *)

Lemma shape_eqb_eq a b : shape_eqb a b = true <-> a = b.
Proof.
  destruct a as [i x], b as [j y]. unfold shape_eqb. cbn [fst snd].
  rewrite andb_true_iff, Nat.eqb_eq, Bool.eqb_true_iff. split; [intros [-> ->]; reflexivity|intros H; inversion H; auto].
Qed.

Lemma calls_b_sound outs evs : calls_b outs evs = true <-> calls_spec outs evs.
Proof. unfold calls_b, calls_spec. apply list_eqb_eq. apply shape_eqb_eq. Qed.

Lemma err_eqb_eq a b : err_eqb a b = true <-> a = b.
Proof.
  destruct a, b; cbn; try (split; [discriminate|discriminate]); try tauto;
    rewrite str_eqb_eq; split; [intros ->; reflexivity|intros H; inversion H; reflexivity| intros ->; reflexivity|intros H; inversion H; reflexivity].
Qed.

Lemma rerr_eqb_eq a b : rerr_eqb a b = true <-> a = b.
Proof.
  destruct a as [|x|l], b as [|y|l']; cbn; try (split; [discriminate|discriminate]); try tauto.
  - rewrite err_eqb_eq. split; [intros ->; reflexivity|intros H; inversion H; reflexivity].
  - rewrite (list_eqb_eq err_eqb err_eqb_eq). split; [intros ->; reflexivity|intros H; inversion H; reflexivity].
Qed.

Lemma union_b_sound ds x : union_b ds x = true -> union_spec json_same ds x.
Proof.
  unfold union_b. rewrite andb_true_iff, !forallb_forall. intros [A B]. split.
  - intros k. split.
    + intros Hk. unfold keys in Hk. apply in_map_iff in Hk as ([k' v] & <- & Hin).
      specialize (A _ Hin). apply existsb_exists in A as (d & Hd & Hl). cbn [fst snd] in Hl.
      exists d. split; [exact Hd|]. destruct (lookup k' d) eqn:E; [|discriminate]. eapply lookup_Some_in; eauto.
    + intros (d & Hd & Hk). specialize (B d Hd). rewrite forallb_forall in B. specialize (B k Hk).
      unfold mem in B. destruct (lookup k x) eqn:E; [|discriminate]. eapply lookup_Some_in; eauto.
  - intros k v Hl. apply lookup_In in Hl. specialize (A _ Hl). apply existsb_exists in A as (d & Hd & Hl').
    cbn [fst snd] in Hl'. destruct (lookup k d) as [v'|] eqn:E; [|discriminate].
    exists d, v'. split; [exact Hd|]. split; [apply lookup_In; exact E|exact Hl'].
Qed.

Lemma result_b_sound outs res : result_b outs res = true -> result_spec json_same outs res.
Proof.
  unfold result_b, result_spec. destruct outs as [|o0 tl]; [trivial|].
  destruct (err_of_out o0) as [e|].
  - destruct res as [[x|] re]; [discriminate|]. rewrite rerr_eqb_eq. intros ->. reflexivity.
  - destruct (fst res) as [x|] eqn:Ef; [|discriminate].
    rewrite !andb_true_iff. intros [[U C] E]. exists x. split; [reflexivity|].
    split; [apply union_b_sound; exact U|]. split.
    + apply Bool.eqb_prop in C. rewrite C. tauto.
    + apply rerr_eqb_eq. exact E.
Qed.

Lemma dests_distinct_reflect ts : dests_distinct_b ts = true <-> dests_distinct ts.
Proof.
  unfold dests_distinct_b, dests_distinct. rewrite forallb_forall. split.
  - intros Hb j p j' p' Ha Hb' Hd. specialize (Hb (j, p) Ha). rewrite forallb_forall in Hb.
    specialize (Hb (j', p') Hb'). cbn [fst snd] in Hb. rewrite Hd, str_eqb_refl in Hb. cbn [negb orb] in Hb.
    apply andb_true_iff in Hb as [A B]. apply Nat.eqb_eq in A.
    apply (list_eqb_eq str_eqb str_eqb_eq) in B. auto.
  - intros Hp [j p] Ha. rewrite forallb_forall. intros [j' p'] Hb. cbn [fst snd].
    destruct (str_eqb (dest_key j p) (dest_key j' p')) eqn:E; [|reflexivity]. cbn [negb orb].
    apply str_eqb_eq in E. destruct (Hp j p j' p' Ha Hb E) as [-> ->].
    rewrite Nat.eqb_refl. cbn [andb]. apply (list_eqb_eq str_eqb str_eqb_eq). reflexivity.
Qed.

Lemma propagation_b_sound ts outs ps0 evs :
  propagation_b ts outs ps0 evs = true <-> propagation_spec ts outs ps0 evs.
Proof.
  unfold propagation_b, propagation_spec. split.
  - intros Hb Hd Hc i path t s Hin Hn Hcl Hf.
    apply dests_distinct_reflect in Hd. rewrite Hd, Hc in Hb. cbn [andb negb orb] in Hb.
    rewrite forallb_forall in Hb. specialize (Hb _ Hin). cbn [fst snd] in Hb.
    rewrite Hn, Hcl, Hf in Hb. apply str_eqb_eq. exact Hb.
  - intros Hp. destruct (dests_distinct_b ts) eqn:Ed; [|reflexivity].
    destruct (dests_clean_b ts) eqn:Ec; [|reflexivity]. cbn [andb negb orb].
    apply dests_distinct_reflect in Ed. rewrite forallb_forall. intros [i path] Hin. cbn [fst snd].
    destruct (nth_error ts i) as [t|] eqn:En; [|reflexivity].
    destruct (tmpl_clean outs ps0 i t) eqn:Et; [|reflexivity].
    destruct (fill outs ps0 i t) as [s|] eqn:Ef; [|reflexivity].
    apply str_eqb_eq. eapply Hp; eauto.
Qed.

Lemma spec_b_sound ts outs ps0 o : spec_b ts outs ps0 o = true -> spec json_same ts outs ps0 o.
Proof.
  unfold spec_b, spec. rewrite !andb_true_iff. intros [[A B] C].
  split; [apply calls_b_sound; exact A|]. split; [apply result_b_sound; exact B|apply propagation_b_sound; exact C].
Qed.

(* ---------- the model meets the oracle (order and propagation parts) ---------- *)

Lemma map_snd_combine {A B} : forall (a : list A) (b : list B),
  List.length a = List.length b -> map snd (combine a b) = b.
Proof.
  induction a as [|x a IH]; intros [|y b] Hl; cbn in *; try reflexivity; try discriminate.
  f_equal. apply IH. lia.
Qed.

Lemma model_calls_b ts outs ps0 : List.length ts = List.length outs ->
  calls_b outs (fst (seq_run ts outs ps0)) = true.
Proof.
  intros Hl. apply calls_b_sound. unfold seq_run.
  pose proof (model_calls_spec (combine (map bcfg_of ts) outs) ps0) as Hm.
  rewrite map_snd_combine in Hm by (rewrite map_length; exact Hl). exact Hm.
Qed.

Lemma model_propagation_b ts outs ps0 : propagation_b ts outs ps0 (fst (seq_run ts outs ps0)) = true.
Proof. apply propagation_b_sound. apply model_propagation_spec. Qed.

Lemma model_result_spec_ts ts outs ps0 : List.length ts = List.length outs -> 2 <= List.length outs ->
  result_spec eq outs (snd (seq_run ts outs ps0)).
Proof.
  intros Hl HN. unfold seq_run.
  pose proof (model_result_spec (combine (map bcfg_of ts) outs) ps0) as Hm.
  rewrite map_snd_combine in Hm by (rewrite map_length; exact Hl). apply Hm.
  rewrite combine_length, map_length, Hl, Nat.min_id. exact HN.
Qed.

Lemma model_meets_oracle_partial ts outs ps0 : List.length ts = List.length outs ->
  calls_b outs (fst (seq_run ts outs ps0)) && propagation_b ts outs ps0 (fst (seq_run ts outs ps0)) = true.
Proof. intros Hl. rewrite model_calls_b by exact Hl. apply model_propagation_b. Qed.

(* the textual replacement agrees with the template view *)
Definition seg_subst (ps : params) (s : seg) : string :=
  match s with
  | Lit s => s
  | Hole j p => match lookup (dest_key j p) ps with Some v => v | None => ph (dest_key j p) end
  | PHole k => match lookup k ps with Some v => v | None => ph k end
  end.

Definition seg_keys_clean (s : seg) : bool :=
  match s with Lit s => no_open s | Hole j p => no_brace (dest_key j p) | PHole k => no_brace k end.

Definition has_key (t : tmpl) (k : string) : Prop :=
  (exists j p, In (Hole j p) t /\ k = dest_key j p) \/ In (PHole k) t.

Lemma generate_path_template t ps :
  forallb seg_keys_clean t = true ->
  (forall k v, In (k, v) ps -> no_brace k = true /\ (has_key t k -> no_open v = true)) ->
  generate_path (render t) ps = cat (map (seg_subst ps) t).
Proof.
  intros Hk Hps. rewrite render_text, generate_path_chunks.
  - unfold text. rewrite !map_map. f_equal. apply map_ext. intros [s|j p|k]; cbn [seg_chunk chunk_final render_chunk seg_subst]; try reflexivity.
    + destruct (lookup (dest_key j p) ps); reflexivity.
    + destruct (lookup k ps); reflexivity.
  - rewrite forallb_forall in *. intros c Hc. apply in_map_iff in Hc as (sg & <- & Hin).
    specialize (Hk _ Hin). destruct sg; exact Hk.
  - intros k v Hin. destruct (Hps k v Hin) as [A B]. split; [exact A|]. intros Hc. apply B.
    apply in_map_iff in Hc as (sg & Hsg & Hin'). destruct sg as [s|j p|k']; unfold seg_chunk in Hsg; try discriminate.
    + left. exists j, p. split; [exact Hin'|congruence].
    + right. assert (k' = k) by congruence. subst. exact Hin'.
Qed.

(* ---------- the model meets the oracle: result part ---------- *)

Lemma keys_remove_subset {V} k x (m : list (string * V)) : In x (keys (remove k m)) -> In x (keys m).
Proof.
  unfold keys. rewrite !in_map_iff. intros (kv & <- & Hin). exists kv. split; [reflexivity|]. eapply in_remove; eauto.
Qed.

Lemma remove_nodup {V} k (m : list (string * V)) : nodup_keys m = true -> nodup_keys (remove k m) = true.
Proof.
  induction m as [|[k' v] r IH]; intros Hn; [reflexivity|].
  apply nodup_keys_cons in Hn as [Hnone Hr]. cbn [remove]. destruct (str_eqb k k'); [apply IH; exact Hr|].
  unfold nodup_keys. cbn [keys map fst nodup_str]. apply andb_true_iff. split; [|apply IH; exact Hr].
  apply negb_true_iff. destruct (str_mem k' (map fst (remove k r))) eqn:E; [|reflexivity].
  apply str_mem_In in E. apply keys_remove_subset in E. apply lookup_None_notin in Hnone. contradiction.
Qed.

Lemma set_nodup {V} k (v : V) m : nodup_keys m = true -> nodup_keys (set k v m) = true.
Proof.
  intros Hn. unfold set, nodup_keys. cbn [keys map fst nodup_str]. apply andb_true_iff. split; [|apply remove_nodup; exact Hn].
  apply negb_true_iff. destruct (str_mem k (map fst (remove k m))) eqn:E; [|reflexivity].
  apply str_mem_In in E. pose proof (lookup_remove_eq k m) as Hl. apply lookup_None_notin in Hl. contradiction.
Qed.

Lemma overlay_nodup : forall db d, nodup_keys d = true -> nodup_keys (overlay d db) = true.
Proof.
  unfold overlay. induction db as [|[k v] r IH]; intros d Hn; [exact Hn|]. cbn [fold_left fst snd].
  apply IH. apply set_nodup. exact Hn.
Qed.

Definition wf_resp (r : resp) : Prop := match data r with Some d => nodup_keys d = true | None => True end.

Lemma combine2_wf d r : wf_resp d -> wf_resp r -> wf_resp (combine2 d r).
Proof.
  unfold wf_resp, combine2. destruct (data d) as [dd|]; destruct (data r) as [db|]; cbn; intros A B; auto.
  apply overlay_nodup. exact A.
Qed.

Definition acc_wf (a : acc) : Prop := match cur a with Some r => wf_resp r | None => True end.

Lemma acc_merge_wf a m : acc_wf a -> (match m with MP r => wf_resp r | MF _ => True end) -> acc_wf (acc_merge a m).
Proof.
  unfold acc_wf. destruct m as [r|e]; cbn [acc_merge cur]; intros A B.
  - destruct (cur a) as [d|]; [apply combine2_wf; assumption|exact B].
  - destruct (cur a) as [d|]; cbn; [exact A|exact I].
Qed.

Lemma finish_wf a x : acc_wf a -> fst (finish a) = Some x -> wf_resp x.
Proof.
  unfold acc_wf, finish, acc_result. destruct (cur a) as [r|]; cbn; [|discriminate].
  intros A Hx. destruct (negb (pending a =? 0)%Z || negb (is_nil (errs a))); cbn in Hx; inversion Hx; subst; exact A.
Qed.

Definition wf_out (o : outcome) : Prop :=
  match o with
  | OResp r => match data r with Some d => wfj (JObj d) = true | None => True end
  | _ => True
  end.

Lemma wf_out_resp r : wf_out (OResp r) -> wf_resp r.
Proof. unfold wf_out, wf_resp. destruct (data r); [|trivial]. intros H. apply wfj_obj_inv in H as [H _]. exact H. Qed.

Lemma loop_wf al : forall bes i parts ps reg a x,
  acc_wf a -> Forall wf_out (map snd bes) ->
  fst (snd (seq_loop al bes i parts ps reg a)) = Some x -> wf_resp x.
Proof.
  induction bes as [|[b o] rest IH]; intros i parts ps reg a x Ha Hf Hx.
  - cbn [seq_loop snd] in Hx. eapply finish_wf; eauto.
  - cbn [map snd] in Hf. pose proof (Forall_inv Hf) as Ho. apply Forall_inv_tail in Hf.
    cbn [seq_loop] in Hx.
    destruct (if (i =? 0)%nat then (ps, reg) else fold_left (apply_repl i parts) (b_tab b) (ps, reg)) as [ps' reg'].
    destruct o as [r|e|].
    + assert (Ha' : acc_wf (acc_merge a (MP r))) by (apply acc_merge_wf; [exact Ha|apply wf_out_resp; exact Ho]).
      destruct (complete r).
      * specialize (IH (S i) ((if al then pollute parts r else parts) ++ [Some r])%list ps' reg' (acc_merge a (MP r)) x Ha' Hf).
        destruct (seq_loop al rest (S i) _ ps' reg' (acc_merge a (MP r))) as [tr res]. cbn [snd] in *. apply IH. exact Hx.
      * cbn [snd] in Hx. eapply finish_wf; eauto.
    + destruct (i =? 0)%nat; cbn [snd fst] in Hx; [discriminate|].
      eapply finish_wf; [|exact Hx]. apply acc_merge_wf; [exact Ha|exact I].
    + destruct (i =? 0)%nat; cbn [snd fst] in Hx; [discriminate|].
      eapply finish_wf; [|exact Hx]. apply acc_merge_wf; [exact Ha|exact I].
Qed.

Lemma In_lookup_nodup {V} k (v : V) m : nodup_keys m = true -> In (k, v) m -> lookup k m = Some v.
Proof.
  induction m as [|[k' v'] r IH]; intros Hn Hin; [contradiction|].
  apply nodup_keys_cons in Hn as [Hnone Hr]. cbn [lookup]. destruct Hin as [Heq|Hin].
  - inversion Heq; subst. rewrite str_eqb_refl. reflexivity.
  - destruct (str_eqb k k') eqn:E; [|apply IH; assumption].
    apply str_eqb_eq in E. subst k'. exfalso. apply lookup_None_notin in Hnone. apply Hnone.
    unfold keys. apply in_map_iff. exists (k, v). split; [reflexivity|exact Hin].
Qed.

Lemma union_b_complete ds x :
  union_spec eq ds x -> nodup_keys x = true -> Forall (fun d => wfj (JObj d) = true) ds -> union_b ds x = true.
Proof.
  intros [HK HV] Hn Hwf. unfold union_b. apply andb_true_iff. rewrite !forallb_forall. split.
  - intros [k v] Hin. cbn [fst snd]. apply (In_lookup_nodup k v x Hn) in Hin.
    destruct (HV k v Hin) as (d & v' & Hd & Hin' & ->). apply existsb_exists. exists d. split; [exact Hd|].
    rewrite Forall_forall in Hwf. specialize (Hwf d Hd). apply wfj_obj_inv in Hwf as [Hnd Hall].
    rewrite (In_lookup_nodup k v d Hnd Hin'). apply json_eqb_refl.
    rewrite Forall_forall in Hall. apply (Hall (k, v) Hin').
  - intros d Hd. rewrite forallb_forall. intros k Hk. unfold mem.
    assert (Hx : In k (keys x)) by (apply HK; exists d; auto).
    apply in_keys_lookup in Hx as [v Hv]. rewrite Hv. reflexivity.
Qed.

Lemma payload_datas_wf l : Forall wf_out l -> Forall (fun d => wfj (JObj d) = true) (payload_datas l).
Proof.
  induction l as [|o l IH]; intros Hf; [constructor|].
  pose proof (Forall_inv Hf) as Ho. apply Forall_inv_tail in Hf. unfold payload_datas. cbn [flat_map].
  apply Forall_app. split; [|apply IH; exact Hf].
  destruct o as [r|e|]; [|constructor|constructor]. cbn in Ho. destruct (data r); [constructor; [exact Ho|constructor]|constructor].
Qed.

Lemma Forall_firstn {A} (P : A -> Prop) n l : Forall P l -> Forall P (firstn n l).
Proof.
  revert l. induction n as [|n IH]; intros l Hf; [constructor|].
  destruct l as [|x l]; [constructor|]. cbn [firstn]. constructor; [eapply Forall_inv; eauto|].
  apply IH. eapply Forall_inv_tail; eauto.
Qed.

Lemma result_b_complete outs res :
  result_spec eq outs res -> Forall wf_out outs ->
  (forall x, fst res = Some x -> wf_resp x) -> result_b outs res = true.
Proof.
  unfold result_spec, result_b. destruct outs as [|o0 tl]; [reflexivity|]. intros Hs Hwf Hx.
  destruct (err_of_out o0) as [e|].
  - subst res. apply rerr_eqb_eq. reflexivity.
  - destruct Hs as (x & Hf & HU & HC & HE). rewrite Hf. rewrite !andb_true_iff. split; [split|].
    + apply union_b_complete; [exact HU| |apply payload_datas_wf; apply Forall_firstn; exact Hwf].
      specialize (Hx x Hf). unfold wf_resp in Hx. unfold data_or_empty. destruct (data x); [exact Hx|reflexivity].
    + destruct (complete x), (forallb full_out (o0 :: tl)); try reflexivity; destruct HC as [A B]; [discriminate (A eq_refl)|discriminate (B eq_refl)].
    + apply rerr_eqb_eq. exact HE.
Qed.

Lemma model_meets_oracle ts outs ps0 :
  List.length ts = List.length outs -> 2 <= List.length outs -> Forall wf_out outs ->
  spec_b ts outs ps0 (seq_run ts outs ps0) = true.
Proof.
  intros Hl HN Hwf. unfold spec_b. rewrite model_calls_b by exact Hl. rewrite model_propagation_b. cbn [andb].
  rewrite andb_true_r. apply result_b_complete; [apply model_result_spec_ts; assumption|exact Hwf|].
  intros x Hx. unfold seq_run, seq_run_cfg in Hx. eapply loop_wf; [| |exact Hx].
  - exact I.
  - rewrite map_snd_combine by (rewrite map_length; exact Hl). exact Hwf.
Qed.

(* ---------- destination keys of syntactically simple placeholders are distinct ---------- *)

Lemma digits_no_char c d :
  forallb (fun k => negb (Ascii.eqb k c)) ["0"; "1"; "2"; "3"; "4"; "5"; "6"; "7"; "8"; "9"]%char = true ->
  has_char c (NilEmpty.string_of_uint d) = false.
Proof.
  intros H. cbn [forallb] in H. repeat (apply andb_true_iff in H as [? H]).
  induction d; cbn [NilEmpty.string_of_uint has_char]; try reflexivity;
    rewrite IHd, orb_false_r; apply negb_true_iff; assumption.
Qed.

Lemma dec_no_char c j :
  forallb (fun k => negb (Ascii.eqb k c)) ["0"; "1"; "2"; "3"; "4"; "5"; "6"; "7"; "8"; "9"]%char = true ->
  has_char c (dec j) = false.
Proof. apply digits_no_char. Qed.

Lemma dec_inj j j' : dec j = dec j' -> j = j'.
Proof.
  unfold dec. intros H.
  assert (E : Some (Nat.to_uint j) = Some (Nat.to_uint j')) by (rewrite <- !NilEmpty.usu, H; reflexivity).
  inversion E as [E']. rewrite <- (Unsigned.of_to j), <- (Unsigned.of_to j'), E'. reflexivity.
Qed.

(* a, a' free of c; the tails are empty or start with c *)
Definition starts_or_empty (c : ascii) (t : string) : Prop :=
  t = "" \/ exists t', t = String c t'.

Lemma split_at_char c : forall a a' t t',
  has_char c a = false -> has_char c a' = false ->
  starts_or_empty c t -> starts_or_empty c t' ->
  a ++ t = a' ++ t' -> a = a' /\ t = t'.
Proof.
  induction a as [|x a IH]; intros a' t t' Ha Ha' Ht Ht' E.
  - destruct a' as [|y a']; [split; [reflexivity|exact E]|].
    cbn [append] in E. cbn [has_char] in Ha'. apply orb_false_iff in Ha' as [Hy _].
    destruct Ht as [->|(t0 & ->)]; [discriminate|]. inversion E; subst. rewrite Ascii.eqb_refl in Hy. discriminate.
  - cbn [has_char] in Ha. apply orb_false_iff in Ha as [Hx Ha].
    destruct a' as [|y a'].
    + cbn [append] in E. destruct Ht' as [->|(t0 & ->)]; [discriminate|]. inversion E; subst.
      rewrite Ascii.eqb_refl in Hx. discriminate.
    + cbn [append] in E. inversion E; subst. cbn [has_char] in Ha'. apply orb_false_iff in Ha' as [_ Ha'].
      destruct (IH a' t t' Ha Ha' Ht Ht' H1) as [-> ->]. split; reflexivity.
Qed.

Lemma join_tail_shape p : starts_or_empty "."%char (match p with [] => "" | _ => "." ++ join "." p end).
Proof. destruct p; [left; reflexivity|right; eexists; reflexivity]. Qed.

Lemma join_cons x r : join "." (x :: r) = x ++ match r with [] => "" | _ => "." ++ join "." r end.
Proof.
  cbn [join]. destruct r; [|reflexivity].
  induction x as [|c x IH]; [reflexivity|]. cbn [append]. rewrite <- IH. reflexivity.
Qed.

Lemma join_inj : forall p p',
  forallb seg_simple p = true -> forallb seg_simple p' = true -> p <> [] -> p' <> [] ->
  join "." p = join "." p' -> p = p'.
Proof.
  induction p as [|x r IH]; intros p' Hp Hp' Hn Hn' E; [contradiction Hn; reflexivity|].
  destruct p' as [|x' r']; [contradiction Hn'; reflexivity|].
  rewrite !join_cons in E. cbn [forallb] in Hp, Hp'.
  apply andb_true_iff in Hp as [Hx Hr]. apply andb_true_iff in Hp' as [Hx' Hr'].
  unfold seg_simple in Hx, Hx'. apply andb_true_iff in Hx as [Hx _]. apply andb_true_iff in Hx' as [Hx' _].
  apply negb_true_iff in Hx. apply negb_true_iff in Hx'.
  destruct (split_at_char "."%char _ _ _ _ Hx Hx' (join_tail_shape r) (join_tail_shape r') E) as [-> Et].
  f_equal. destruct r as [|y r]; destruct r' as [|y' r']; try reflexivity; try discriminate.
  apply IH; try assumption; try discriminate. cbn [append] in Et. congruence.
Qed.

Lemma dest_key_inj j p j' p' :
  path_simple p = true -> path_simple p' = true -> dest_key j p = dest_key j' p' -> j = j' /\ p = p'.
Proof.
  unfold path_simple. intros Hp Hp' E. apply andb_true_iff in Hp as [Hn Hp]. apply andb_true_iff in Hp' as [Hn' Hp'].
  unfold dest_key in E. cbn [append] in E. inversion E as [E'].
  destruct (split_at_char "_"%char (dec j) (dec j') (String "_" (join "." p)) (String "_" (join "." p'))) as [Ed Et].
  - apply dec_no_char. reflexivity.
  - apply dec_no_char. reflexivity.
  - right. eexists. reflexivity.
  - right. eexists. reflexivity.
  - exact E'.
  - split; [apply dec_inj; exact Ed|]. inversion Et as [Ej].
    apply join_inj; try assumption; intros ->; discriminate.
Qed.

Lemma holes_simple_distinct ts : holes_simple ts = true -> dests_distinct ts.
Proof.
  unfold holes_simple. rewrite forallb_forall. intros H j p j' p' Ha Hb E.
  apply dest_key_inj; [apply (H (j, p) Ha)|apply (H (j', p') Hb)|exact E].
Qed.

Lemma has_char_join c : forall p, forallb (fun s => negb (has_char c s)) p = true -> Ascii.eqb "."%char c = false ->
  has_char c (join "." p) = false.
Proof.
  induction p as [|x r IH]; intros Hp Hc; [reflexivity|].
  rewrite join_cons. cbn [forallb] in Hp. apply andb_true_iff in Hp as [Hx Hr]. apply negb_true_iff in Hx.
  rewrite has_char_app, Hx. cbn [orb]. destruct r as [|y r]; [reflexivity|].
  cbn [append has_char]. rewrite Hc. cbn [orb]. apply IH; assumption.
Qed.

Lemma dest_key_no_brace j p : path_simple p = true -> no_brace (dest_key j p) = true.
Proof.
  unfold path_simple. intros Hp. apply andb_true_iff in Hp as [_ Hp].
  assert (Hl : forallb (fun s => negb (has_char lbrace s)) p = true /\ forallb (fun s => negb (has_char rbrace s)) p = true).
  { rewrite !forallb_forall in *. split; intros s Hs; specialize (Hp s Hs); unfold seg_simple, no_brace in Hp;
      apply andb_true_iff in Hp as [_ Hp]; apply andb_true_iff in Hp as [A B]; assumption. }
  destruct Hl as [Hl Hr]. unfold no_brace, dest_key.
  assert (G : forall c, forallb (fun k => negb (Ascii.eqb k c)) ["0"; "1"; "2"; "3"; "4"; "5"; "6"; "7"; "8"; "9"]%char = true ->
                        forallb (fun s => negb (has_char c s)) p = true -> Ascii.eqb "."%char c = false ->
                        has_char c "Resp" = false -> Ascii.eqb "_"%char c = false ->
                        has_char c ("Resp" ++ dec j ++ "_" ++ join "." p) = false).
  { intros c Hd Hs Hdot HR Hu. rewrite !has_char_app, HR, (dec_no_char c j Hd). cbn [orb append has_char].
    rewrite Hu. cbn [orb]. apply has_char_join; assumption. }
  rewrite (G lbrace), (G rbrace); try reflexivity; assumption.
Qed.

Lemma holes_simple_clean ts : holes_simple ts = true -> dests_clean_b ts = true.
Proof.
  unfold holes_simple, dests_clean_b. rewrite !forallb_forall. intros H [j p] Hin. cbn [fst snd].
  apply dest_key_no_brace. apply (H (j, p) Hin).
Qed.

Lemma model_propagation_syntactic ts outs ps0 : holes_simple ts = true ->
  forall i path t s,
    In (i, path) (call_paths (fst (seq_run ts outs ps0))) -> nth_error ts i = Some t ->
    tmpl_clean outs ps0 i t = true -> fill outs ps0 i t = Some s -> path = s.
Proof.
  intros H. apply model_propagation_spec; [apply holes_simple_distinct|apply holes_simple_clean]; exact H.
Qed.

(* ---------- the exact path, the shallower-object quirk included ---------- *)

(* the lookup with a missing (or non-object) intermediate segment: the last key is looked up
   in the object reached so far *)
Lemma lookup_src_quirk : forall pre d m k rest,
  get_path (JObj d) pre = Some (JObj m) -> rest <> [] ->
  (forall m', lookup k m <> Some (JObj m')) ->
  lookup_src d (pre ++ k :: rest) = lookup (last rest k) m.
Proof.
  induction pre as [|a pre IH]; intros d m k rest Hg Hr Hk.
  - cbn in Hg. inversion Hg; subst m. cbn [app lookup_src].
    destruct rest as [|r0 rest']; [contradiction Hr; reflexivity|].
    destruct (lookup k d) as [x|] eqn:E; [|reflexivity].
    destruct x; try reflexivity. exfalso. eapply Hk. reflexivity.
  - cbn [get_path] in Hg. destruct (lookup a d) as [x|] eqn:Ea; [|discriminate].
    assert (Hx : exists d', x = JObj d').
    { destruct pre; cbn [get_path] in Hg; [inversion Hg; eauto|destruct x; try discriminate; eauto]. }
    destruct Hx as (d' & ->).
    cbn [app lookup_src]. destruct (pre ++ k :: rest)%list eqn:El; [destruct pre; discriminate|].
    rewrite <- El. rewrite Ea. apply IH; assumption.
Qed.

(* when every intermediate segment exists and is an object the lookup is the plain one *)
Lemma lookup_src_plain : forall pre d m k,
  get_path (JObj d) pre = Some (JObj m) -> lookup_src d (pre ++ [k]) = lookup k m.
Proof.
  induction pre as [|a pre IH]; intros d m k Hg.
  - cbn in Hg. inversion Hg; subst. reflexivity.
  - cbn [get_path] in Hg. destruct (lookup a d) as [x|] eqn:Ea; [|discriminate].
    assert (Hx : exists d', x = JObj d').
    { destruct pre; cbn [get_path] in Hg; [inversion Hg; eauto|destruct x; try discriminate; eauto]. }
    destruct Hx as (d' & ->).
    cbn [app lookup_src]. destruct (pre ++ [k])%list eqn:El; [destruct pre; discriminate|].
    rewrite <- El. rewrite Ea. apply IH. exact Hg.
Qed.

Lemma fold_upd_none i parts : forall tab ps d,
  (forall r, In r tab -> r_dest r = d -> val_of parts (r_idx r) (r_src r) = None) ->
  lookup d (fold_left (upd i parts) tab ps) = lookup d ps.
Proof.
  induction tab as [|r tab IH]; intros ps d Hn; [reflexivity|].
  cbn [fold_left]. rewrite IH by (intros r' Hr'; apply Hn; right; exact Hr').
  unfold upd. destruct (i <=? r_idx r)%nat; [reflexivity|].
  destruct (val_of parts (r_idx r) (r_src r)) as [v|] eqn:Ev; [|reflexivity].
  destruct (str_eqb (r_dest r) d) eqn:E.
  - apply str_eqb_eq in E. rewrite (Hn r (or_introl eq_refl) E) in Ev. discriminate.
  - apply str_eqb_neq in E. apply lookup_set_neq. congruence.
Qed.

Lemma val_of_app_none parts x j p : val_of (parts ++ [x]) j p = None -> val_of parts j p = None.
Proof.
  intros H. destruct (val_of parts j p) as [v|] eqn:E; [|reflexivity].
  rewrite (val_of_app parts x j p v E) in H. discriminate.
Qed.

Lemma val_of_lt parts j p v : val_of parts j p = Some v -> (j < List.length parts)%nat.
Proof.
  unfold val_of. destruct (nth_error parts j) eqn:E; [|discriminate]. intros _.
  apply nth_error_Some. congruence.
Qed.

Section Exact.
  Variables (ts : list tmpl) (outs : list outcome) (ps0 : params).
  Let H := all_holes ts.
  Hypothesis Hinj : dests_distinct ts.
  Hypothesis Hclean : dests_clean_b ts = true.

  (* a placeholder that cannot be resolved yet keeps what the endpoint parameters say *)
  Definition PN (parts : list (option resp)) (ps : params) : Prop :=
    forall j p, In (j, p) H -> val_of parts j p = None ->
                lookup (dest_key j p) ps = lookup (dest_key j p) ps0.

  Lemma hole_val_val_of pre outsr i j p :
    outs = (map OResp pre ++ outsr)%list -> List.length pre = i ->
    hole_val outs i j p = val_of (map Some pre) j p.
  Proof.
    intros Ho Hl. unfold hole_val, val_of. destruct (j <? i)%nat eqn:Lt.
    - apply Nat.ltb_lt in Lt. rewrite Ho, nth_error_app1 by (rewrite map_length; lia).
      rewrite !nth_error_map. destruct (nth_error pre j); reflexivity.
    - apply Nat.ltb_ge in Lt. rewrite nth_error_map.
      destruct (nth_error pre j) eqn:E; [|reflexivity].
      exfalso. assert (j < List.length pre)%nat by (apply nth_error_Some; congruence). lia.
  Qed.

  Lemma step_PN pre i t ps x : In t ts -> PN (map Some pre) ps ->
    PN (map Some pre ++ [x]) (fold_left (upd i (map Some pre)) (table_of t) ps).
  Proof.
    intros Ht Hpn j p Hjp Hv. apply val_of_app_none in Hv.
    rewrite fold_upd_none; [apply Hpn; assumption|].
    intros r Hr Hd. apply table_of_in in Hr as (j' & p' & Hh & ->). cbn in Hd |- *.
    destruct (Hinj j' p' j p (hole_in_all ts t j' p' Ht Hh) Hjp Hd) as [-> ->]. exact Hv.
  Qed.

  Lemma head_path_q pre outsr i t ps :
    outs = (map OResp pre ++ outsr)%list -> List.length pre = i -> In t ts ->
    PK ts ps0 (map Some pre) ps -> PU ts ps0 ps -> PN (map Some pre) ps ->
    tmpl_clean_q outs ps0 i t = true ->
    generate_path (render t) (fold_left (upd i (map Some pre)) (table_of t) ps) =
    cat (map (seg_text_q outs ps0 i) t).
  Proof.
    intros Ho Hl Ht Hpk Hpu Hpn Hc.
    set (parts := map Some pre) in *. set (ps' := fold_left (upd i parts) (table_of t) ps).
    unfold tmpl_clean_q in Hc. apply andb_true_iff in Hc as [Hsegs Hps0].
    rewrite forallb_forall in Hsegs. unfold params_clean in Hps0. rewrite forallb_forall in Hps0.
    assert (Hlen : List.length parts = i) by (unfold parts; rewrite map_length; exact Hl).
    assert (Vhole : forall j p, In (Hole j p) t ->
              lookup (dest_key j p) ps' =
              match hole_val outs i j p with Some v => Some v | None => lookup (dest_key j p) ps0 end).
    { intros j p Hin. rewrite (hole_val_val_of pre outsr i j p Ho Hl). fold parts.
      pose proof (hole_in_all ts t j p Ht Hin) as Hjp.
      destruct (val_of parts j p) as [v|] eqn:Ev.
      - apply fold_upd_set.
        + intros r Hr Hd. apply table_of_in in Hr as (j' & p' & Hh' & ->). cbn in Hd |- *.
          destruct (Hinj j' p' j p (hole_in_all ts t j' p' Ht Hh') Hjp Hd) as [-> ->].
          split; [|exact Ev]. apply val_of_lt in Ev. lia.
        + right. eexists. split; [apply in_table_of; exact Hin|reflexivity].
      - unfold ps'. rewrite fold_upd_none; [apply Hpn; assumption|].
        intros r Hr Hd. apply table_of_in in Hr as (j' & p' & Hh' & ->). cbn in Hd |- *.
        destruct (Hinj j' p' j p (hole_in_all ts t j' p' Ht Hh') Hjp Hd) as [-> ->]. exact Ev. }
    assert (Vparam : forall k, In (PHole k) t -> lookup k ps' = lookup k ps0).
    { intros k Hin. specialize (Hsegs _ Hin). cbn in Hsegs. apply andb_true_iff in Hsegs as [_ Hr].
      apply negb_true_iff in Hr.
      assert (Hnd : forall j p, k <> dest_key j p).
      { intros j p ->. rewrite starts_resp_dest in Hr. discriminate. }
      unfold ps'. rewrite fold_upd_other.
      - apply Hpu. intros j p _. apply Hnd.
      - intros r Hr'. apply table_of_in in Hr' as (j & p & _ & ->). cbn. apply Hnd. }
    rewrite render_text, generate_path_chunks.
    - unfold text. rewrite !map_map. f_equal. apply map_ext_in. intros sg Hin.
      destruct sg as [s0|j p|k]; cbn [seg_chunk chunk_final render_chunk seg_text_q].
      + reflexivity.
      + rewrite (Vhole j p Hin). destruct (hole_val outs i j p); [reflexivity|].
        destruct (lookup (dest_key j p) ps0); reflexivity.
      + rewrite (Vparam k Hin). destruct (lookup k ps0); reflexivity.
    - rewrite forallb_forall. intros c Hc. apply in_map_iff in Hc as (sg & <- & Hin).
      specialize (Hsegs _ Hin). destruct sg as [s0|j p|k]; cbn [seg_clean_q seg_chunk chunk_wf] in *.
      + exact Hsegs.
      + apply andb_true_iff in Hsegs as [A _]. exact A.
      + apply andb_true_iff in Hsegs as [A _]. exact A.
    - intros k v Hin.
      assert (Hcase : (In (k, v) ps0) \/ exists j p, In (j, p) H /\ k = dest_key j p /\ val_of parts j p = Some v).
      { unfold ps' in Hin. apply fold_upd_in in Hin as [Hin|(r & Hr & Hk & Hv)].
        - apply Hpk. exact Hin.
        - right. apply table_of_in in Hr as (j & p & Hh & ->). cbn in *. exists j, p.
          split; [eapply hole_in_all; eauto|]. split; assumption. }
      destruct Hcase as [Hin0|(j & p & Hjp & -> & Hv)].
      + specialize (Hps0 _ Hin0). cbn in Hps0. apply andb_true_iff in Hps0 as [A B]. split; [exact A|intros _; exact B].
      + split; [apply (dest_no_brace ts Hclean); exact Hjp|]. intros Hc.
        apply in_map_iff in Hc as (sg & Hsg & Hin'). destruct sg as [s0|j' p'|k']; unfold seg_chunk in Hsg; try discriminate.
        * assert (Hd : dest_key j' p' = dest_key j p) by congruence.
          destruct (Hinj j' p' j p (hole_in_all ts t j' p' Ht Hin') Hjp Hd) as [-> ->].
          specialize (Hsegs _ Hin'). cbn [seg_clean_q] in Hsegs. apply andb_true_iff in Hsegs as [_ B].
          rewrite (hole_val_val_of pre outsr i j p Ho Hl) in B. fold parts in B. rewrite Hv in B. exact B.
        * assert (Hd : k' = dest_key j p) by congruence. subst k'. specialize (Hsegs _ Hin'). cbn [seg_clean_q] in Hsegs.
          apply andb_true_iff in Hsegs as [_ B]. rewrite starts_resp_dest in B. discriminate.
  Qed.

  (* every call of the loop is the head step of some state that satisfies the invariants *)
  Lemma loop_calls_inv : forall tsr outsr tsp pre i ps reg a,
    ts = (tsp ++ tsr)%list -> outs = (map OResp pre ++ outsr)%list ->
    List.length tsp = i -> List.length pre = i ->
    reg_ok H (map Some pre) reg -> PK ts ps0 (map Some pre) ps -> PU ts ps0 ps -> PN (map Some pre) ps ->
    forall i' path,
      In (i', path) (call_paths (fst (seq_loop false (combine (map bcfg_of tsr) outsr) i (map Some pre) ps reg a))) ->
      exists pre' outsr' ps' t',
        outs = (map OResp pre' ++ outsr')%list /\ List.length pre' = i' /\
        nth_error ts i' = Some t' /\ In t' ts /\
        PK ts ps0 (map Some pre') ps' /\ PU ts ps0 ps' /\ PN (map Some pre') ps' /\
        path = generate_path (render t') (fold_left (upd i' (map Some pre')) (table_of t') ps').
  Proof.
    induction tsr as [|t0 tsr IH]; intros outsr tsp pre i ps reg a Hts Houts Hlt Hlp Hreg Hpk Hpu Hpn i' path Hin.
    - cbn in Hin. contradiction.
    - destruct outsr as [|o outsr]; [cbn in Hin; contradiction|].
      cbn [map combine seq_loop] in Hin.
      assert (Ht0 : In t0 ts) by (rewrite Hts; apply in_or_app; right; left; reflexivity).
      assert (Hnth0 : nth_error ts i = Some t0).
      { rewrite Hts, nth_error_app2 by lia. replace (i - List.length tsp) with 0 by lia. reflexivity. }
      destruct (fold_apply_upd H i (map Some pre) Hinj (table_of t0) ps reg (table_entry_ok ts t0 Ht0) Hreg)
        as (reg1 & Efold & Hreg1).
      assert (Eps : (if (i =? 0)%nat then (ps, reg) else fold_left (apply_repl i (map Some pre)) (b_tab (bcfg_of t0)) (ps, reg))
                    = (fold_left (upd i (map Some pre)) (table_of t0) ps, if (i =? 0)%nat then reg else reg1)).
      { destruct (i =? 0)%nat eqn:E0.
        - apply Nat.eqb_eq in E0. rewrite E0. rewrite upd_zero. reflexivity.
        - cbn [bcfg_of b_tab]. exact Efold. }
      rewrite Eps in Hin. clear Eps.
      set (ps' := fold_left (upd i (map Some pre)) (table_of t0) ps) in *.
      set (reg' := if (i =? 0)%nat then reg else reg1) in *.
      assert (Hreg' : reg_ok H (map Some pre) reg') by (unfold reg'; destruct (i =? 0)%nat; assumption).
      assert (Hhead : forall i' path, In (i', path) [(i, generate_path (b_pat (bcfg_of t0)) ps')] ->
                exists pre' outsr' ps'' t',
                  outs = (map OResp pre' ++ outsr')%list /\ List.length pre' = i' /\
                  nth_error ts i' = Some t' /\ In t' ts /\
                  PK ts ps0 (map Some pre') ps'' /\ PU ts ps0 ps'' /\ PN (map Some pre') ps'' /\
                  path = generate_path (render t') (fold_left (upd i' (map Some pre')) (table_of t') ps'')).
      { intros i2 path2 [Heq|[]]. inversion Heq; subst i2 path2.
        exists pre, (o :: outsr), ps, t0. repeat split; try assumption. }
      destruct o as [r|e|].
      + destruct (complete r) eqn:Cr.
        * destruct (seq_loop false (combine (map bcfg_of tsr) outsr) (S i) (map Some pre ++ [Some r]) ps' reg'
                             (acc_merge a (MP r))) as [tr res] eqn:El.
          cbn [fst] in Hin. unfold call_paths in Hin. rewrite flat_map_app in Hin.
          apply in_app_or in Hin as [Hin|Hin].
          -- cbn in Hin. apply Hhead. exact Hin.
          -- assert (Emap : (map Some pre ++ [Some r])%list = map Some (pre ++ [r])) by (rewrite map_app; reflexivity).
             rewrite Emap in El.
             refine (IH outsr (tsp ++ [t0])%list (pre ++ [r])%list (S i) ps' reg' (acc_merge a (MP r)) _ _ _ _ _ _ _ _ i' path _).
             ++ rewrite Hts, <- app_assoc. reflexivity.
             ++ rewrite Houts, map_app, <- app_assoc. reflexivity.
             ++ rewrite app_length. cbn. lia.
             ++ rewrite app_length. cbn. lia.
             ++ rewrite <- Emap. apply reg_ok_app. exact Hreg'.
             ++ rewrite <- Emap. apply step_PK; assumption.
             ++ apply step_PU; assumption.
             ++ rewrite <- Emap. apply step_PN; assumption.
             ++ rewrite El. exact Hin.
        * cbn in Hin. apply Hhead. exact Hin.
      + destruct (i =? 0)%nat; cbn in Hin; apply Hhead; exact Hin.
      + destruct (i =? 0)%nat; cbn in Hin; apply Hhead; exact Hin.
  Qed.
End Exact.

Lemma model_path_exact ts outs ps0 :
  dests_distinct ts -> dests_clean_b ts = true ->
  forall i path t,
    In (i, path) (call_paths (fst (seq_run ts outs ps0))) -> nth_error ts i = Some t ->
    tmpl_clean_q outs ps0 i t = true ->
    path = cat (map (seg_text_q outs ps0 i) t).
Proof.
  intros Hinj Hclean i path t Hin Hnth Hc. unfold seq_run, seq_run_cfg in Hin.
  assert (L : exists pre' outsr' ps' t',
             outs = (map OResp pre' ++ outsr')%list /\ List.length pre' = i /\
             nth_error ts i = Some t' /\ In t' ts /\
             PK ts ps0 (map Some pre') ps' /\ PU ts ps0 ps' /\ PN ts ps0 (map Some pre') ps' /\
             path = generate_path (render t') (fold_left (upd i (map Some pre')) (table_of t') ps')).
  { apply (loop_calls_inv ts outs ps0 Hinj ts outs [] [] 0 ps0 []
             (acc_init (List.length (combine (map bcfg_of ts) outs))) eq_refl eq_refl eq_refl eq_refl).
    - intros d f Hl. discriminate.
    - intros k v Hk. left; exact Hk.
    - intros k _. reflexivity.
    - intros j p _ _. reflexivity.
    - exact Hin. }
  destruct L as (pre' & outsr' & ps' & t' & Ho & Hl & Hn & Ht & Hpk & Hpu & Hpn & ->).
  rewrite Hnth in Hn. inversion Hn; subst t'.
  eapply head_path_q; eauto.
Qed.

(* the quirk, end to end *)
Lemma model_missing_intermediate_quirk ts outs ps0 :
  dests_distinct ts -> dests_clean_b ts = true ->
  forall i path t j r pre k rest m,
    In (i, path) (call_paths (fst (seq_run ts outs ps0))) -> nth_error ts i = Some t ->
    tmpl_clean_q outs ps0 i t = true ->
    In (Hole j (pre ++ k :: rest)) t -> (j < i)%nat -> nth_error outs j = Some (OResp r) ->
    get_path (JObj (data_or_empty r)) pre = Some (JObj m) ->
    rest <> [] -> (forall m', lookup k m <> Some (JObj m')) ->
    path = cat (map (seg_text_q outs ps0 i) t) /\
    seg_text_q outs ps0 i (Hole j (pre ++ k :: rest)) =
      match lookup (last rest k) m with
      | Some v => param_of v
      | None => match lookup (dest_key j (pre ++ k :: rest)) ps0 with
                | Some v => v
                | None => ph (dest_key j (pre ++ k :: rest))
                end
      end.
Proof.
  intros Hinj Hclean i path t j r pre k rest m Hin Hnth Hc Hh Hlt Hr Hg Hrest Hk.
  split; [eapply model_path_exact; eauto|].
  cbn [seg_text_q]. unfold hole_val. apply Nat.ltb_lt in Hlt. rewrite Hlt, Hr.
  rewrite (lookup_src_quirk pre (data_or_empty r) m k rest Hg Hrest Hk).
  destruct (lookup (last rest k) m); reflexivity.
Qed.

(* ---------- a backend behind the HTTP proxy: any status but 200/201 is non-successful ------ *)

Lemma http_non2xx_stops m r : ok_status (h_code r) = false ->
  ok_out (http_outcome m r) = false /\ full_out (http_outcome m r) = false.
Proof. unfold http_outcome. intros ->. destruct m; split; reflexivity. Qed.

Lemma n_called_stop pre o rest : forallb ok_out pre = true -> ok_out o = false ->
  n_called (pre ++ o :: rest) = S (List.length pre).
Proof.
  induction pre as [|x pre IH]; intros Hp Ho; cbn [app n_called List.length].
  - rewrite Ho. reflexivity.
  - cbn [forallb] in Hp. apply andb_true_iff in Hp as [Hx Hp]. rewrite Hx, IH by assumption. reflexivity.
Qed.

Lemma http_failure_stops_chain ts pre m r rest ps0 :
  ok_status (h_code r) = false ->
  forallb (fun x => ok_out (http_outcome (fst x) (snd x))) pre = true ->
  List.length ts = List.length (pre ++ (m, r) :: rest) ->
  map shape (fst (seq_run_http ts (pre ++ (m, r) :: rest) ps0)) = expected_shapes (S (List.length pre)).
Proof.
  intros Hs Hp Hl. unfold seq_run_http, seq_run.
  set (outs := map (fun x => http_outcome (fst x) (snd x)) (pre ++ (m, r) :: rest)).
  pose proof (model_calls_spec (combine (map bcfg_of ts) outs) ps0) as Hm. unfold calls_spec in Hm.
  rewrite map_snd_combine in Hm by (unfold outs; rewrite !map_length; exact Hl).
  rewrite Hm. f_equal. unfold outs. rewrite map_app. cbn [map fst snd].
  rewrite n_called_stop.
  - rewrite map_length. reflexivity.
  - rewrite forallb_forall in *. intros o Ho. apply in_map_iff in Ho as (x & <- & Hx). apply Hp. exact Hx.
  - apply http_non2xx_stops. exact Hs.
Qed.

(* ---------- cancellation in the middle of the chain ---------- *)

(* the context dies while backend |pre| is working: o is what the merger takes from it (its
   answer, or the context error e); every later backend returns e at once *)
Lemma cancel_mid_chain ts pre o e rest ps0 :
  forallb ok_out pre = true ->
  List.length ts = List.length (pre ++ o :: OErr e :: rest) ->
  let run := seq_run ts (pre ++ o :: OErr e :: rest) ps0 in
  map shape (fst run) = expected_shapes (if ok_out o then S (S (List.length pre)) else S (List.length pre)) /\
  (forall x, fst (snd run) = Some x -> complete x = false).
Proof.
  intros Hp Hl run. set (outs := (pre ++ o :: OErr e :: rest)%list) in *. split.
  - unfold run, seq_run.
    pose proof (model_calls_spec (combine (map bcfg_of ts) outs) ps0) as Hm. unfold calls_spec in Hm.
    rewrite map_snd_combine in Hm by (rewrite map_length; exact Hl).
    rewrite Hm. f_equal. unfold outs. destruct (ok_out o) eqn:Eo.
    + replace (pre ++ o :: OErr e :: rest)%list with ((pre ++ [o]) ++ OErr e :: rest)%list by (rewrite <- app_assoc; reflexivity).
      rewrite n_called_stop; [rewrite app_length; cbn; lia| |reflexivity].
      rewrite forallb_app, Hp. cbn. rewrite Eo. reflexivity.
    + apply n_called_stop; assumption.
  - intros x Hx.
    assert (HN : 2 <= List.length outs) by (unfold outs; rewrite app_length; cbn; lia).
    pose proof (model_result_spec_ts ts outs ps0 Hl HN) as Hr. fold run in Hr.
    assert (Hfull : forallb full_out outs = false).
    { unfold outs. rewrite forallb_app. cbn [forallb full_out]. rewrite !andb_false_r. reflexivity. }
    unfold result_spec in Hr. destruct outs as [|o0 tl] eqn:Eo; [cbn in HN; lia|].
    destruct (err_of_out o0).
    + rewrite Hr in Hx. discriminate.
    + destruct Hr as (x' & Hf & _ & Hc & _). rewrite Hx in Hf. inversion Hf; subst x'.
      rewrite Hfull in Hc. destruct (complete x); [|reflexivity]. destruct Hc as [Hc _]. discriminate (Hc eq_refl).
Qed.

(* ---------- arrays, null and objects as propagated values: the text ---------- *)

Lemma fmt_v_scalar x tx : scalar_text x = Some tx -> fmt_v x = tx.
Proof. destruct x; cbn; intros H; inversion H; reflexivity. Qed.

Lemma param_of_scalar_array l :
  Forall (fun v => scalar_text v <> None) l ->
  param_of (JArr l) = join "," (map (fun v => match scalar_text v with Some s => s | None => "" end) l).
Proof.
  intros H. cbn [param_of]. f_equal. apply map_ext_in. intros v Hin.
  rewrite Forall_forall in H. specialize (H v Hin). destruct (scalar_text v) as [s|] eqn:E; [|contradiction].
  apply fmt_v_scalar. exact E.
Qed.

(* ---------- the model meets the oracle on the HTTP case kind ---------- *)

Lemma error_object_wf c b e : wfj (error_object c b e) = true.
Proof. unfold error_object. destruct (str_eqb b ""), (str_eqb e ""); reflexivity. Qed.

Lemma http_outcome_wf m r :
  match h_decoded r with Some d => wfj (JObj d) = true | None => True end -> wf_out (http_outcome m r).
Proof.
  intros Hd. unfold http_outcome. destruct (ok_status (h_code r)).
  - destruct (h_decoded r); [exact Hd|exact I].
  - destruct m; try exact I. cbn [wf_out data].
    cbn [wfj nodup_keys keys map fst nodup_str str_mem negb andb]. rewrite error_object_wf. reflexivity.
Qed.

Lemma model_meets_oracle_http ts hs ps0 :
  List.length ts = List.length hs -> 2 <= List.length hs ->
  Forall (fun x => match h_decoded (snd x) with Some d => wfj (JObj d) = true | None => True end) hs ->
  spec_b ts (map (fun x => http_outcome (fst x) (snd x)) hs) ps0 (seq_run_http ts hs ps0) = true.
Proof.
  intros Hl HN Hwf. unfold seq_run_http. apply model_meets_oracle.
  - rewrite map_length. exact Hl.
  - rewrite map_length. exact HN.
  - rewrite Forall_forall in *. intros o Ho. apply in_map_iff in Ho as (x & <- & Hx).
    apply http_outcome_wf. apply Hwf. exact Hx.
Qed.

(* ---------- the loop extended with propagated params is conservative ---------- *)

Lemma seq_loop_x_nil : forall bes i parts ps reg a,
  (let '(e, _, r) := seq_loop_x [] bes i parts ps reg a in (e, r)) = seq_loop false bes i parts ps reg a.
Proof.
  induction bes as [|[b o] rest IH]; intros i parts ps reg a; [reflexivity|].
  cbn [seq_loop_x seq_loop]. rewrite app_nil_r.
  destruct (if (i =? 0)%nat then (ps, reg) else fold_left (apply_repl i parts) (b_tab b) (ps, reg)) as [ps' reg'].
  destruct o as [r|e|].
  - destruct (complete r); [|reflexivity].
    specialize (IH (S i) (parts ++ [Some r])%list ps' reg' (acc_merge a (MP r))).
    destruct (seq_loop_x [] rest (S i) (parts ++ [Some r]) ps' reg' (acc_merge a (MP r))) as [[tr pr] res].
    rewrite <- IH. reflexivity.
  - destruct (i =? 0)%nat; reflexivity.
  - destruct (i =? 0)%nat; reflexivity.
Qed.

Lemma seq_run_x_nil ts outs ps0 :
  (let '(e, _, r) := seq_run_x ts [] outs ps0 in (e, r)) = seq_run ts outs ps0.
Proof. unfold seq_run_x, seq_run, seq_run_cfg. cbn [filter map]. apply seq_loop_x_nil. Qed.
