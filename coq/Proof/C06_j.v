(* C06 - proofs, part j: end to end - several backends, each formatted with its own
   configuration, united by the parallel merge in arrival order. *)
Require Import Verif.Common.Base Verif.Common.Json Verif.Common.JsonFacts.
Require Import Verif.Model.C06 Verif.Spec.C06.
Require Import Verif.Proof.C06 Verif.Proof.C06_d Verif.Proof.C06_e Verif.Proof.C06_h.
Require Verif.Model.C01.
Require Import Coq.Sorting.Permutation.

(* ---------- top-level keys of a formatted output are distinct ---------- *)
Lemma nodup_keys_remove {V} k (m : list (string * V)) :
  nodup_keys m = true -> nodup_keys (remove k m) = true.
Proof.
  induction m as [|[k' v] r IH]; intros H; [reflexivity|].
  apply nodup_keys_cons in H as [Hnone Hr]. cbn [remove].
  destruct (str_eqb k k') eqn:E; [apply IH; exact Hr|].
  apply nodup_keys_cons_intro; [|apply IH; exact Hr].
  rewrite lookup_remove_neq; [exact Hnone|].
  apply str_eqb_neq in E. congruence.
Qed.

Lemma nodup_keys_set {V} k (v : V) m : nodup_keys m = true -> nodup_keys (set k v m) = true.
Proof.
  intros H. unfold set. apply nodup_keys_cons_intro; [apply lookup_remove_eq|].
  apply nodup_keys_remove. exact H.
Qed.

Lemma apply_mapping_nodup : forall mp (f : obj),
  nodup_keys f = true -> nodup_keys (apply_mapping mp f) = true.
Proof.
  induction mp as [|[s t] mp IH]; intros f H; [exact H|].
  unfold apply_mapping. cbn [fold_left]. fold (apply_mapping mp (map_one f (s, t))).
  apply IH. unfold map_one. cbn [fst snd]. destruct (lookup s f); [|exact H].
  apply nodup_keys_remove. apply nodup_keys_set. exact H.
Qed.

Lemma format_nodup c d m : wfj (JObj d) = true -> format c d = Ok m -> nodup_keys m = true.
Proof.
  intros Hwf Hf. destruct (pipeline_order c d) as [f [Hfs Hfmt]]. rewrite Hfmt in Hf.
  inversion Hf; subst m. clear Hf.
  assert (Hwff : wfj (JObj f) = true).
  { eapply filter_stage_wf; [|exact Hfs].
    destruct (target_spec_path c d) as [-> | [-> | [q Hq]]]; [exact Hwf|reflexivity|].
    eapply wfj_get_path; [exact Hwf|exact Hq]. }
  apply wfj_obj in Hwff as [Hn _].
  unfold group_spec. destruct (str_eqb (group c) ""); [|reflexivity].
  unfold mapping_stage. destruct (is_nil f); [exact Hn|]. apply apply_mapping_nodup. exact Hn.
Qed.

Lemma decode_wf ic v d : wfj v = true -> decode ic v = Some d -> wfj (JObj d) = true.
Proof.
  intros Hw H. destruct ic, v; cbn in H; inversion H; subst; try reflexivity; try exact Hw.
  cbn [wfj nodup_keys keys map fst nodup_str str_mem negb andb]. cbn in Hw. rewrite Hw. reflexivity.
Qed.

Lemma backend_out_spec b m : backend_out b = Some m <->
  exists d, decode (b_coll b) (b_payload b) = Some d /\ format (b_cfg b) d = Ok m.
Proof.
  unfold backend_out, respond. destruct (decode (b_coll b) (b_payload b)) as [d|].
  - split.
    + intros H. exists d. split; [reflexivity|]. destruct (format (b_cfg b) d); [inversion H; reflexivity|discriminate].
    + intros [d' [Hd Hf]]. inversion Hd; subst d'. rewrite Hf. reflexivity.
  - split; [discriminate|]. intros [d [Hd _]]. discriminate.
Qed.

Lemma backend_out_nodup b m : wfj (b_payload b) = true -> backend_out b = Some m -> nodup_keys m = true.
Proof.
  intros Hw H. apply backend_out_spec in H as [d [Hd Hf]].
  eapply format_nodup; [eapply decode_wf; eassumption|exact Hf].
Qed.

(* ---------- the union of two maps ---------- *)
Lemma merge_into_lookup : forall (src dst : obj) k, nodup_keys src = true ->
  lookup k (C01.merge_into dst src) =
  match lookup k src with Some x => Some x | None => lookup k dst end.
Proof.
  unfold C01.merge_into.
  induction src as [|[k0 x0] r IH]; intros dst k Hn; [reflexivity|].
  apply nodup_keys_cons in Hn as [Hnone Hr]. cbn [fold_left fst snd].
  rewrite (IH _ k Hr). cbn [lookup]. rewrite lookup_set.
  destruct (str_eqb k k0) eqn:E.
  - apply str_eqb_eq in E. subst k0. rewrite Hnone. reflexivity.
  - reflexivity.
Qed.

Lemma merge_into_nodup : forall (src dst : obj),
  nodup_keys dst = true -> nodup_keys (C01.merge_into dst src) = true.
Proof.
  unfold C01.merge_into. induction src as [|[k0 x0] r IH]; intros dst H; [exact H|].
  cbn [fold_left fst snd]. apply IH. apply nodup_keys_set. exact H.
Qed.

Lemma last_with_app k : forall ps m,
  last_with k (ps ++ [m]) = match lookup k m with Some x => Some x | None => last_with k ps end.
Proof.
  induction ps as [|p ps IH]; intros m.
  - cbn. destruct (lookup k m); reflexivity.
  - cbn [app last_with]. rewrite IH. destruct (lookup k m); [reflexivity|].
    reflexivity.
Qed.

(* ---------- the accumulator of the parallel merge, message by message ---------- *)
Definition Inv (a : C01.acc json) (ps : list obj) : Prop :=
  match C01.cur a with
  | None => ps = []
  | Some r => ps <> [] /\ exists d, C01.data r = Some d /\ nodup_keys d = true /\
              forall k, lookup k d = last_with k ps
  end.

Lemma step_MP a ps m : Inv a ps -> nodup_keys m = true ->
  Inv (C01.acc_merge a (C01.MP {| C01.data := Some m; C01.complete := true |})) (ps ++ [m]).
Proof.
  unfold Inv, C01.acc_merge, C01.acc_call. intros H Hn. cbn [C01.cur].
  destruct (C01.cur a) as [r0|].
  - destruct H as [Hne [d0 [Hd0 [Hnd0 Hl]]]]. split; [destruct ps; discriminate|].
    unfold C01.combine_data. cbn [List.length C01.combine_loop C01.data C01.complete].
    rewrite Hd0. cbn.
    exists (C01.merge_into d0 m). split; [reflexivity|]. split; [apply merge_into_nodup; exact Hnd0|].
    intros k. rewrite merge_into_lookup by exact Hn. rewrite last_with_app, Hl. reflexivity.
  - subst ps. split; [discriminate|]. exists m. split; [reflexivity|]. split; [exact Hn|].
    intros k. cbn. destruct (lookup k m); reflexivity.
Qed.

Lemma step_MF a ps e : Inv a ps -> Inv (C01.acc_merge a (C01.MF e)) ps.
Proof.
  unfold Inv, C01.acc_merge, C01.acc_call. intros H. cbn [C01.cur].
  destruct (C01.cur a) as [r0|]; [|exact H]. exact H.
Qed.

Lemma outs_app bs b : outs (bs ++ [b]) = (outs bs ++ match backend_out b with Some m => [m] | None => [] end)%list.
Proof. unfold outs. rewrite flat_map_app. cbn [flat_map]. rewrite app_nil_r. reflexivity. Qed.

Lemma fold_inv : forall bs a ps,
  (forall b, In b bs -> wfj (b_payload b) = true) -> Inv a ps ->
  Inv (fold_left (@C01.acc_merge json) (map msg_of_backend bs) a) (ps ++ outs bs).
Proof.
  induction bs as [|b bs IH]; intros a ps Hw H.
  - cbn. rewrite app_nil_r. exact H.
  - cbn [map fold_left]. unfold outs. cbn [flat_map]. fold (outs bs).
    rewrite app_assoc. apply IH; [intros b' Hb'; apply Hw; right; exact Hb'|].
    unfold msg_of_backend. destruct (backend_out b) as [m|] eqn:E.
    + apply step_MP; [exact H|]. eapply backend_out_nodup; [apply Hw; left; reflexivity|exact E].
    + rewrite app_nil_r. apply step_MF. exact H.
Qed.

Lemma client_doc_inv bs : (forall b, In b bs -> wfj (b_payload b) = true) ->
  match client_doc bs with
  | None => outs bs = []
  | Some doc => outs bs <> [] /\ nodup_keys doc = true /\
                forall k, lookup k doc = last_with k (outs bs)
  end.
Proof.
  intros Hw. unfold client_doc, C01.merge_run.
  pose proof (fold_inv bs (C01.acc_init (Z.of_nat (List.length bs))) [] Hw eq_refl) as H.
  cbn [app] in H. unfold Inv in H. unfold C01.acc_result.
  destruct (C01.cur (fold_left (@C01.acc_merge json) (map msg_of_backend bs) _)) as [r|].
  - destruct H as [Hne [d [Hd [Hnd Hl]]]]. cbn [fst].
    destruct (negb _ || negb _); cbn [C01.data]; rewrite Hd; repeat split; assumption.
  - cbn [fst]. exact H.
Qed.

(* ---------- the theorems ---------- *)
Theorem e2e_exact : forall arrived doc,
  (forall b, In b arrived -> wfj (b_payload b) = true) ->
  client_doc arrived = Some doc -> forall k, lookup k doc = last_with k (outs arrived).
Proof.
  intros bs doc Hw Hc. pose proof (client_doc_inv bs Hw) as H. rewrite Hc in H. apply H.
Qed.

Lemma last_with_in k x : forall ms, last_with k ms = Some x -> exists m, In m ms /\ lookup k m = Some x.
Proof.
  induction ms as [|m r IH]; intros H; [discriminate|]. cbn [last_with] in H.
  destruct (last_with k r) as [y|] eqn:E.
  - inversion H; subst y. destruct (IH eq_refl) as [m' [Hin Hl]]. exists m'. split; [right; exact Hin|exact Hl].
  - exists m. split; [left; reflexivity|exact H].
Qed.

Lemma in_outs bs m : In m (outs bs) -> exists b, In b bs /\ backend_out b = Some m.
Proof.
  unfold outs. intros H. apply in_flat_map in H as [b [Hb Hm]]. exists b. split; [exact Hb|].
  destruct (backend_out b) as [m'|]; [|contradiction]. destruct Hm as [->|[]]. reflexivity.
Qed.

Theorem no_leak_end_to_end : forall arrived doc,
  (forall b, In b arrived -> wfj (b_payload b) = true) ->
  client_doc arrived = Some doc ->
  forall k p v, get_path (JObj doc) (k :: p) = Some v ->
  exists b d m, In b arrived /\
    decode (b_coll b) (b_payload b) = Some d /\ format (b_cfg b) d = Ok m /\
    get_path (JObj m) (k :: p) = Some v.
Proof.
  intros bs doc Hw Hc k p v Hg. cbn [get_path] in Hg.
  destruct (lookup k doc) as [x|] eqn:El; [|discriminate].
  rewrite (e2e_exact bs doc Hw Hc k) in El.
  destruct (last_with_in _ _ _ El) as [m [Hin Hl]].
  destruct (in_outs _ _ Hin) as [b [Hb Hout]].
  destruct (proj1 (backend_out_spec b m) Hout) as [d [Hd Hf]].
  exists b, d, m. repeat split; try assumption. cbn [get_path]. rewrite Hl. exact Hg.
Qed.

(* ---------- arrival order does not matter when the outputs' top-level keys are disjoint ---------- *)
Lemma last_with_none k : forall ms, (forall m, In m ms -> lookup k m = None) -> last_with k ms = None.
Proof.
  induction ms as [|m r IH]; intros H; [reflexivity|]. cbn [last_with].
  rewrite IH by (intros m' Hm'; apply H; right; exact Hm'). apply H. left. reflexivity.
Qed.

Lemma disjoint_last_with k x : forall ms, disjoint_keys ms ->
  (last_with k ms = Some x <-> exists m, In m ms /\ lookup k m = Some x).
Proof.
  intros ms Hd. split; [apply last_with_in|].
  induction ms as [|m r IH]; intros [m0 [Hin Hl]]; [contradiction|].
  destruct Hd as [Hm Hr]. cbn [last_with]. destruct Hin as [->|Hin].
  - rewrite last_with_none; [exact Hl|]. intros m' Hm'. apply (Hm k); [rewrite Hl; discriminate|exact Hm'].
  - rewrite (IH Hr); [reflexivity|]. exists m0. split; assumption.
Qed.

Lemma disjoint_perm ms ms' : Permutation ms ms' -> disjoint_keys ms -> disjoint_keys ms'.
Proof.
  induction 1 as [|x l l' HP IH|x y l|l l' l'' H1 IH1 H2 IH2]; intros Hd.
  - exact I.
  - destruct Hd as [Hx Hl]. split; [|apply IH; exact Hl].
    intros k Hk m' Hm'. apply (Hx k Hk). eapply Permutation_in; [apply Permutation_sym; exact HP|exact Hm'].
  - destruct Hd as [Hy [Hx Hl]]. split; [|split; [|exact Hl]].
    + intros k Hk m' [<-|Hm'].
      * destruct (lookup k y) eqn:E; [|reflexivity]. exfalso. apply Hk.
        apply (Hy k); [rewrite E; discriminate|left; reflexivity].
      * apply (Hx k Hk). exact Hm'.
    + intros k Hk m' Hm'. apply (Hy k Hk). right. exact Hm'.
  - apply IH2. apply IH1. exact Hd.
Qed.

Lemma outs_perm bs bs' : Permutation bs bs' -> Permutation (outs bs) (outs bs').
Proof.
  unfold outs. induction 1 as [|x l l' HP IH|x y l|l l' l'' H1 IH1 H2 IH2]; cbn [flat_map].
  - constructor.
  - apply Permutation_app_head. exact IH.
  - rewrite !app_assoc. apply Permutation_app_tail. apply Permutation_app_comm.
  - eapply Permutation_trans; eassumption.
Qed.

Theorem e2e_order_independent : forall arrived arrived' doc,
  Permutation arrived arrived' ->
  (forall b, In b arrived -> wfj (b_payload b) = true) ->
  disjoint_keys (outs arrived) ->
  client_doc arrived = Some doc ->
  exists doc', client_doc arrived' = Some doc' /\ forall k, lookup k doc = lookup k doc'.
Proof.
  intros bs bs' doc HP Hw Hd Hc.
  assert (Hw' : forall b, In b bs' -> wfj (b_payload b) = true).
  { intros b Hb. apply Hw. eapply Permutation_in; [apply Permutation_sym; exact HP|exact Hb]. }
  pose proof (client_doc_inv bs Hw) as H. rewrite Hc in H. destruct H as [Hne [_ Hl]].
  pose proof (client_doc_inv bs' Hw') as H'.
  pose proof (outs_perm _ _ HP) as HPo.
  destruct (client_doc bs') as [doc'|].
  - destruct H' as [_ [_ Hl']]. exists doc'. split; [reflexivity|]. intros k. rewrite Hl, Hl'.
    pose proof (disjoint_perm _ _ HPo Hd) as Hd'.
    destruct (last_with k (outs bs)) as [x|] eqn:E.
    + symmetry. apply (disjoint_last_with k x _ Hd').
      apply (disjoint_last_with k x _ Hd) in E as [m [Hin Hm]].
      exists m. split; [eapply Permutation_in; [exact HPo|exact Hin]|exact Hm].
    + destruct (last_with k (outs bs')) as [x'|] eqn:E'; [|reflexivity].
      apply (disjoint_last_with k x' _ Hd') in E' as [m [Hin Hm]].
      assert (Hx : last_with k (outs bs) = Some x').
      { apply (disjoint_last_with k x' _ Hd). exists m.
        split; [eapply Permutation_in; [apply Permutation_sym; exact HPo|exact Hin]|exact Hm]. }
      congruence.
  - exfalso. apply Hne. rewrite H' in HPo. apply Permutation_sym in HPo.
    apply Permutation_nil in HPo. exact HPo.
Qed.

(* ---------- the boolean forms: sound, and true of the model ---------- *)
Lemma noleak_e2e_b_sound os doc : noleak_e2e_b os doc = true ->
  forall k x, In (k, x) doc -> exists m y, In m os /\ lookup k m = Some y /\ json_eqb x y = true.
Proof.
  unfold noleak_e2e_b. intros H k x Hin. rewrite forallb_forall in H. specialize (H (k, x) Hin).
  cbn [fst snd] in H. apply existsb_exists in H as [m [Hm Hl]].
  destruct (lookup k m) as [y|] eqn:E; [|discriminate]. exists m, y. auto.
Qed.

Lemma Forall_remove {V} (P : string * V -> Prop) k m : Forall P m -> Forall P (remove k m).
Proof.
  induction 1 as [|[k' v] r Hx Hr IH]; [constructor|]. cbn [remove].
  destruct (str_eqb k k'); [exact IH|constructor; assumption].
Qed.

Lemma apply_mapping_members : forall mp (f : obj),
  Forall (fun kv => wfj (snd kv) = true) f ->
  Forall (fun kv => wfj (snd kv) = true) (apply_mapping mp f).
Proof.
  induction mp as [|[s t] mp IH]; intros f H; [exact H|].
  unfold apply_mapping. cbn [fold_left]. fold (apply_mapping mp (map_one f (s, t))).
  apply IH. unfold map_one. cbn [fst snd]. destruct (lookup s f) as [v|] eqn:E; [|exact H].
  apply Forall_remove. unfold set. constructor; [|apply Forall_remove; exact H].
  cbn [snd]. apply lookup_In in E. rewrite Forall_forall in H. exact (H (s, v) E).
Qed.

Lemma format_wf c d m : wfj (JObj d) = true -> format c d = Ok m -> wfj (JObj m) = true.
Proof.
  intros Hwf Hf. pose proof (format_nodup c d m Hwf Hf) as Hn.
  destruct (pipeline_order c d) as [f [Hfs Hfmt]]. rewrite Hfmt in Hf.
  inversion Hf; subst m. clear Hf.
  assert (Hwff : wfj (JObj f) = true).
  { eapply filter_stage_wf; [|exact Hfs].
    destruct (target_spec_path c d) as [-> | [-> | [q Hq]]]; [exact Hwf|reflexivity|].
    eapply wfj_get_path; [exact Hwf|exact Hq]. }
  assert (Hms : wfj (JObj (mapping_stage c f)) = true).
  { unfold mapping_stage. destruct (is_nil f); [exact Hwff|].
    apply wfj_obj_inv in Hwff as [Hnf Hall].
    apply wfj_obj_intro; [apply apply_mapping_nodup; exact Hnf|apply apply_mapping_members; exact Hall]. }
  unfold group_spec in *. destruct (str_eqb (group c) ""); [exact Hms|].
  apply wfj_obj_intro; [reflexivity|]. constructor; [exact Hms|constructor].
Qed.

Lemma backend_out_wf b m : wfj (b_payload b) = true -> backend_out b = Some m -> wfj (JObj m) = true.
Proof.
  intros Hw H. apply backend_out_spec in H as [d [Hd Hf]].
  eapply format_wf; [eapply decode_wf; eassumption|exact Hf].
Qed.

Lemma in_lookup_nodup {V} k (x : V) m : nodup_keys m = true -> In (k, x) m -> lookup k m = Some x.
Proof.
  induction m as [|[k' v] r IH]; intros Hn Hin; [contradiction|].
  apply nodup_keys_cons in Hn as [Hnone Hr]. cbn [lookup]. destruct Hin as [E|Hin].
  - inversion E; subst. rewrite str_eqb_refl. reflexivity.
  - destruct (str_eqb k k') eqn:E; [|apply IH; assumption].
    apply str_eqb_eq in E. subst k'. exfalso. apply lookup_None_notin in Hnone. apply Hnone.
    unfold keys. apply in_map_iff. exists (k, x). auto.
Qed.

Lemma last_with_some k : forall ms m, In m ms -> lookup k m <> None -> last_with k ms <> None.
Proof.
  induction ms as [|m0 r IH]; intros m Hin Hl; [contradiction|]. cbn [last_with].
  destruct (last_with k r) eqn:E; [discriminate|].
  destruct Hin as [->|Hin]; [exact Hl|]. exfalso. apply (IH m Hin Hl). reflexivity.
Qed.

Theorem e2e_model_meets_oracle : forall arrived doc,
  (forall b, In b arrived -> wfj (b_payload b) = true) ->
  client_doc arrived = Some doc ->
  noleak_e2e_b (outs arrived) doc = true /\ all_delivered_b (outs arrived) doc = true.
Proof.
  intros bs doc Hw Hc. pose proof (client_doc_inv bs Hw) as H. rewrite Hc in H.
  destruct H as [_ [Hnd Hl]]. split.
  - unfold noleak_e2e_b. apply forallb_forall. intros [k x] Hin. cbn [fst snd].
    pose proof (in_lookup_nodup k x doc Hnd Hin) as Hlk. rewrite Hl in Hlk.
    destruct (last_with_in _ _ _ Hlk) as [m [Hm Hkm]].
    apply existsb_exists. exists m. split; [exact Hm|]. rewrite Hkm.
    apply json_eqb_refl.
    destruct (in_outs _ _ Hm) as [b [Hb Hout]].
    pose proof (backend_out_wf b m (Hw b Hb) Hout) as Hwm.
    apply wfj_obj in Hwm as [_ Hs]. eapply Hs. exact Hkm.
  - unfold all_delivered_b. apply forallb_forall. intros m Hm. apply forallb_forall.
    intros [k y] Hin. cbn [fst]. unfold mem. rewrite Hl.
    destruct (last_with k (outs bs)) eqn:E; [reflexivity|]. exfalso.
    apply (last_with_some k (outs bs) m Hm); [|exact E].
    intros Hnone. apply lookup_None_notin in Hnone. apply Hnone.
    unfold keys. apply in_map_iff. exists (k, y). auto.
Qed.
