(* C15 - proofs, part 4: completeness of the boolean oracle (it accepts every observation the
   Prop allows: no false alarm can come from the oracle), hence the model meets the oracle. *)
Require Import Verif.Common.Base Verif.Model.C15 Verif.Spec.C15 Verif.Proof.C15.
From Coq Require Import Permutation Sorted Relations RelationClasses.
Open Scope Z_scope.

(* ---- String.leb is transitive ---- *)
Lemma ascii_lt_trans x y z :
  Ascii.compare x y = Lt -> Ascii.compare y z = Lt -> Ascii.compare x z = Lt.
Proof.
  unfold Ascii.compare. rewrite !N.compare_lt_iff. apply N.lt_trans.
Qed.

Lemma str_compare_trans a : forall b c,
  String.compare a b <> Gt -> String.compare b c <> Gt -> String.compare a c <> Gt.
Proof.
  induction a as [|x a' IH]; intros b c Hab Hbc.
  - destruct c; simpl; discriminate.
  - destruct b as [|y b']; [simpl in Hab; congruence|].
    destruct c as [|z c']; [simpl in Hbc; congruence|].
    simpl in *.
    destruct (Ascii.compare x y) eqn:Exy; try congruence;
      destruct (Ascii.compare y z) eqn:Eyz; try congruence.
    + apply Ascii.compare_eq_iff in Exy. apply Ascii.compare_eq_iff in Eyz. subst.
      assert (Ascii.compare z z = Eq) as -> by (unfold Ascii.compare; apply N.compare_refl).
      eapply IH; eassumption.
    + apply Ascii.compare_eq_iff in Exy. subst. rewrite Eyz. discriminate.
    + apply Ascii.compare_eq_iff in Eyz. subst. rewrite Exy. discriminate.
    + rewrite (ascii_lt_trans _ _ _ Exy Eyz). discriminate.
Qed.

Lemma leb_neq_gt a b : String.leb a b = true <-> String.compare a b <> Gt.
Proof. unfold String.leb. destruct (String.compare a b); split; congruence. Qed.

Lemma str_leb_trans : Transitive (fun x y => is_true (String.leb x y)).
Proof.
  intros a b c Hab Hbc. unfold is_true in *. rewrite leb_neq_gt in *. eapply str_compare_trans; eassumption.
Qed.

(* two sorted permutations of each other are equal *)
Lemma sorted_perm_eq l1 : forall l2,
  StronglySorted (fun x y => is_true (String.leb x y)) l1 ->
  StronglySorted (fun x y => is_true (String.leb x y)) l2 ->
  Permutation l1 l2 -> l1 = l2.
Proof.
  induction l1 as [|x r IH]; intros l2 H1 H2 Hp.
  - apply Permutation_nil in Hp. congruence.
  - destruct l2 as [|y s]; [apply Permutation_sym, Permutation_nil in Hp; discriminate|].
    inversion H1 as [|? ? Hr Hxr]; subst. inversion H2 as [|? ? Hs Hys]; subst.
    assert (Hxy : x = y).
    { assert (In x (y :: s)) by (apply (Permutation_in _ Hp); left; reflexivity).
      assert (In y (x :: r)) by (apply (Permutation_in _ (Permutation_sym Hp)); left; reflexivity).
      destruct H as [->|Hx]; [reflexivity|]. destruct H0 as [->|Hy]; [reflexivity|].
      rewrite Forall_forall in Hxr, Hys. apply String.leb_antisym; [apply Hxr|apply Hys]; assumption. }
    subst y. f_equal. apply IH; try assumption. eapply Permutation_cons_inv; exact Hp.
Qed.

Lemma perm_b_complete a b : Permutation a b -> perm_b a b = true.
Proof.
  intros Hp. unfold perm_b. apply (list_eqb_eq str_eqb str_eqb_eq).
  apply sorted_perm_eq.
  - apply StrSort.StronglySorted_sort. exact str_leb_trans.
  - apply StrSort.StronglySorted_sort. exact str_leb_trans.
  - etransitivity; [symmetry; apply StrSort.Permuted_sort|].
    etransitivity; [exact Hp|apply StrSort.Permuted_sort].
Qed.

(* ---- the divisor is recovered from the length ---- *)
Lemma sum_scaled (q t : Z -> Z) d (g : list srv) :
  (forall a, In a g -> t (weight a) * d = q (weight a)) ->
  sumZ (map q (map weight g)) = d * sumZ (map t (map weight g)).
Proof.
  induction g as [|a r IH]; simpl; intros H; [lia|].
  rewrite IH by (intros b Hb; apply H; right; exact Hb).
  rewrite <- (H a (or_introl eq_refl)). lia.
Qed.

Lemma sum_zero_all (t : Z -> Z) (g : list srv) :
  (forall a, In a g -> 0 <= t (weight a)) -> sumZ (map t (map weight g)) = 0 ->
  forall a, In a g -> t (weight a) = 0.
Proof.
  induction g as [|a r IH]; simpl; intros Hpos Hs b Hb; [contradiction|].
  assert (0 <= t (weight a)) by (apply Hpos; left; reflexivity).
  assert (0 <= sumZ (map t (map weight r))).
  { clear -Hpos. induction r as [|c r IH]; simpl; [lia|].
    assert (0 <= t (weight c)) by (apply Hpos; right; left; reflexivity).
    assert (0 <= sumZ (map t (map weight r))) by (apply IH; intros x [Hx|Hx]; apply Hpos; [left|right; right]; assumption).
    lia. }
  destruct Hb as [<-|Hb]; [lia|]. apply IH; try assumption; [intros x Hx; apply Hpos; right; exact Hx|lia].
Qed.

(* completeness: whatever the Prop allows (for uint16 weights) the oracle accepts *)
Lemma spec_b_complete scheme rs obs : wf_rs rs -> Spec scheme rs obs -> spec_b scheme rs obs = true.
Proof.
  intros Hwf [d0 [Hd0 [Hdiv [Hperm [_ Hb]]]]].
  set (g := low rs) in *. set (ws := map weight g) in *.
  assert (Hwfw : wf_ws ws).
  { unfold wf_ws, ws. rewrite Forall_forall. intros w Hin. apply in_map_iff in Hin.
    destruct Hin as [a [<- Ha]]. apply low_incl in Ha. unfold wf_rs in Hwf. rewrite Forall_forall in Hwf.
    apply Hwf. apply Ha. }
  assert (Hq0 : forall a, In a g -> 0 <= quota ws (weight a)).
  { intros a Ha. apply (quota_range ws _ Hwfw). apply in_map. exact Ha. }
  assert (Ht0 : forall a, In a g -> 0 <= times_of ws d0 (weight a)).
  { intros a Ha. unfold times_of. apply Z.div_pos; [apply Hq0; exact Ha|exact Hd0]. }
  assert (Hlen : Z.of_nat (List.length obs) = sumZ (map (times_of ws d0) (map weight g))).
  { rewrite (Permutation_length Hperm), expected_eq. apply (len_flat_repeat (host_of scheme) (times_of ws d0)). exact Ht0. }
  assert (Hsum : sumZ (map (quota ws) ws) = d0 * Z.of_nat (List.length obs)).
  { rewrite Hlen. apply (sum_scaled (quota ws) (times_of ws d0) d0 g). exact Hdiv. }
  unfold spec_b. cbv zeta. fold g. fold ws.
  change (map (quota_with (Z.max 100 (Z.of_nat (List.length ws))) (sumZ ws)) ws) with (map (quota ws) ws).
  unfold divisor_for. rewrite Hsum.
  destruct (Z.of_nat (List.length obs) =? 0) eqn:En.
  - apply Z.eqb_eq in En.
    assert (Hz : forall a, In a g -> times_of ws d0 (weight a) = 0).
    { apply sum_zero_all; [exact Ht0|lia]. }
    assert (Hqz : forall a, In a g -> quota ws (weight a) = 0).
    { intros a Ha. rewrite <- (Hdiv a Ha), (Hz a Ha). reflexivity. }
    rewrite !andb_true_iff. repeat split.
    + apply forallb_forall. intros q Hq. rewrite Z.mod_1_r. reflexivity.
    + apply perm_b_complete. destruct obs; [|simpl in En; lia].
      rewrite expected_eq. fold g. fold ws.
      rewrite (flat_repeat_nil (host_of scheme) (times_of ws 1)); [constructor|].
      intros a Ha. unfold times_of. rewrite (Hqz a Ha). reflexivity.
    + apply Z.leb_le. exact Hb.
  - apply Z.eqb_neq in En. rewrite Z.div_mul by exact En.
    rewrite !andb_true_iff. repeat split.
    + apply Z.ltb_lt. exact Hd0.
    + apply forallb_forall. intros q Hq. apply in_map_iff in Hq. destruct Hq as [w [<- Hw]].
      unfold ws in Hw. apply in_map_iff in Hw. destruct Hw as [a [<- Ha]].
      rewrite <- (Hdiv a Ha). rewrite Z.mod_mul by lia. reflexivity.
    + apply perm_b_complete. exact Hperm.
    + apply Z.leb_le. exact Hb.
Qed.

(* the executable model satisfies the boolean oracle, for every record set with uint16 weights *)
Lemma model_meets_oracle scheme rs : wf_rs rs -> spec_b scheme rs (resolve scheme rs) = true.
Proof. intros H. apply spec_b_complete; [exact H|apply resolve_meets_spec; exact H]. Qed.
