(* C05 - growth round: WHICH answer is returned; the exact result when the parent context is
   done during collection; the per-attempt glue (processConcurrentCall); the caller's request. *)
Require Import Verif.Common.Base Verif.Common.Fanout.
Require Import Verif.Model.C05 Verif.Spec.C05 Verif.Proof.C05 Verif.Proof.C05_sched.
From Coq Require Import Permutation.

(* ---------------------------------------------------------------------------------- *)
(* processConcurrentCall: one message per backend call *)
Lemma process_call_cases res :
  process_call res <> ParentDone /\
  (forall e, snd res = Some e -> process_call res = Fail e) /\
  (res = (None, None) -> process_call res = Fail ENull) /\
  (forall r, res = (Some r, None) -> process_call res = Res r) /\
  ev_of (msg_of_call res) = process_call res.
Proof.
  destruct res as [[r|] [e|]]; simpl; repeat split; try discriminate;
    try (intros ? H; inversion H; subst; reflexivity); try reflexivity;
    try (intros H; discriminate).
Qed.

(* a response is delivered only when the call returned it without an error *)
Lemma process_call_res res r : process_call res = Res r <-> res = (Some r, None).
Proof.
  destruct res as [[x|] [e|]]; simpl; split; intros H; try discriminate; try (inversion H; reflexivity).
Qed.

(* ---------------------------------------------------------------------------------- *)
(* which answer wins *)
Lemma slot_events_not_complete kinds j :
  nth_error kinds j <> Some KComplete -> any_complete (slot_events kinds j) = false.
Proof.
  intros H. unfold slot_events. destruct (nth_error kinds j) as [k|]; [|reflexivity].
  destruct k; try reflexivity. exfalso. apply H. reflexivity.
Qed.

Lemma any_complete_app a b : any_complete (a ++ b) = any_complete a || any_complete b.
Proof. unfold any_complete. apply existsb_app. Qed.

Lemma arrivals_cons kinds j rest :
  arrivals kinds (j :: rest) = (slot_events kinds j ++ arrivals kinds rest)%list.
Proof. reflexivity. Qed.

Lemma first_complete_slot_split kinds order i :
  first_complete_slot kinds order = Some i ->
  exists pre post, order = (pre ++ i :: post)%list /\ nth_error kinds i = Some KComplete /\
                   any_complete (arrivals kinds pre) = false.
Proof.
  induction order as [|j rest IH]; simpl; [discriminate|]. intros H.
  assert (D : nth_error kinds j = Some KComplete \/
              (nth_error kinds j <> Some KComplete /\ first_complete_slot kinds rest = Some i)).
  { destruct (nth_error kinds j) as [[]|]; try (right; split; [discriminate|exact H]).
    left; reflexivity. }
  destruct D as [D|[D H']].
  - rewrite D in H. inversion H; subst. exists [], rest. auto.
  - destruct (IH H') as (pre & post & -> & Hk & Hp). exists (j :: pre), post.
    repeat split; auto.
    rewrite arrivals_cons, any_complete_app, Hp, slot_events_not_complete; auto.
Qed.

Lemma first_complete_slot_none kinds order :
  first_complete_slot kinds order = None -> any_complete (arrivals kinds order) = false.
Proof.
  induction order as [|j rest IH]; [reflexivity|]. cbn [first_complete_slot]. intros H.
  assert (D : nth_error kinds j <> Some KComplete /\ first_complete_slot kinds rest = None).
  { destruct (nth_error kinds j) as [[]|]; try (split; [discriminate|exact H]). discriminate. }
  destruct D as [D H'].
  rewrite arrivals_cons, any_complete_app, (IH H'), slot_events_not_complete; auto.
Qed.

Lemma arrivals_app kinds a b : arrivals kinds (a ++ b) = (arrivals kinds a ++ arrivals kinds b)%list.
Proof. unfold arrivals. apply flat_map_app. Qed.

(* the winner is the first slot, in arrival order, whose call returns a complete response
   without an error - for every n, every outcome vector, every order *)
Lemma which_complete n kinds order i :
  List.length (arrivals kinds order) <= n ->
  first_complete_slot kinds order = Some i ->
  run_scenario n kinds order None = (Some (slot_resp i true), None).
Proof.
  intros Hl H. destruct (first_complete_slot_split _ _ _ H) as (pre & post & -> & Hk & Hp).
  assert (Ei : slot_events kinds i = [Res (slot_resp i true)])
    by (unfold slot_events; rewrite Hk; reflexivity).
  unfold run_scenario, middleware, events.
  rewrite arrivals_app, arrivals_cons, Ei in *.
  rewrite <- !app_assoc. simpl.
  apply collect_first_complete; auto.
  rewrite !app_length in Hl. simpl in Hl. lia.
Qed.

Lemma which_otherwise n kinds order :
  List.length (events kinds order) <= n ->
  first_complete_slot kinds order = None ->
  run_scenario n kinds order None =
  (last_resp (events kinds order) None, last_err (events kinds order) None).
Proof.
  intros Hl H. unfold run_scenario, middleware. apply collect_no_complete; [|exact Hl].
  unfold events. rewrite any_complete_app, (first_complete_slot_none _ _ H). simpl.
  unfold any_complete. induction (silent_count kinds); simpl; auto.
Qed.

(* ---------------------------------------------------------------------------------- *)
(* parent context done during collection: the exact result *)
Definition not_parent (e : ev) : bool := match e with ParentDone => false | _ => true end.
Definition strip (evs : list ev) : list ev := filter not_parent evs.

(* an iteration consumed by ctx.Done() changes nothing but the number of iterations left *)
Lemma collect_strip evs : forall fuel resp err,
  collect fuel evs resp err =
  collect (List.length (strip (firstn fuel evs))) (strip (firstn fuel evs)) resp err.
Proof.
  induction evs as [|e rest IH]; intros fuel resp err.
  - destruct fuel; reflexivity.
  - destruct fuel as [|f]; [reflexivity|].
    destruct e as [r|x|]; simpl.
    + destruct (r_complete r); [reflexivity|apply IH].
    + apply IH.
    + apply IH.
Qed.

Lemma strip_no_parent evs : ~ In ParentDone (strip evs).
Proof. unfold strip. rewrite filter_In. intros [_ H]. discriminate. Qed.

(* the result is that of the messages dequeued within the first n iterations: the first
   complete one and no error, otherwise the last response and the last error among them
   (possibly neither) *)
Lemma parent_done_exact n evs :
  let w := strip (firstn n evs) in
  middleware n evs = middleware (List.length w) w /\
  (complete_in w ->
     exists pre r post, w = (pre ++ Res r :: post)%list /\
       (forall x, In (Res x) pre -> r_complete x = false) /\ r_complete r = true /\
       middleware n evs = (Some r, None)) /\
  (~ complete_in w -> middleware n evs = (last_resp w None, last_err w None)).
Proof.
  intros w. assert (E : middleware n evs = middleware (List.length w) w) by apply collect_strip.
  split; [exact E|]. split.
  - intros C. destruct (first_complete (List.length w) w (le_n _) C) as (pre & r & post & Hw & Hp & Hc & _ & M).
    exists pre, r, post. rewrite E. auto.
  - intros NC. rewrite E. apply (otherwise (List.length w) w (le_n _) NC).
Qed.

(* the scenarios of the harness: parent cancelled after k messages *)
Lemma strip_app a b : strip (a ++ b) = (strip a ++ strip b)%list.
Proof. unfold strip. apply filter_app. Qed.
Lemma strip_id evs : ~ In ParentDone evs -> strip evs = evs.
Proof.
  induction evs as [|e r IH]; intros H; [reflexivity|]. simpl.
  destruct e; simpl; try (rewrite IH; [reflexivity|intros Hin; apply H; right; exact Hin]).
  exfalso. apply H. left. reflexivity.
Qed.
Lemma strip_firstn_repeat m k : strip (firstn m (repeat ParentDone k)) = [].
Proof. revert m. induction k as [|k IH]; intros [|m]; simpl; auto. Qed.

Lemma scenario_parent_exact n kinds order k :
  let w := firstn n (firstn k (arrivals kinds order)) in
  run_scenario n kinds order (Some k) = middleware (List.length w) w.
Proof.
  intros w. unfold run_scenario, events_parent.
  destruct (parent_done_exact n (firstn k (arrivals kinds order) ++ repeat ParentDone n)) as (E & _).
  rewrite E. rewrite firstn_app, strip_app, strip_firstn_repeat, app_nil_r.
  rewrite strip_id; [reflexivity|].
  intros Hin. apply firstn_incl in Hin. apply firstn_incl in Hin.
  exact (arrivals_no_parent _ _ Hin).
Qed.

(* ---------------------------------------------------------------------------------- *)
(* schedule layer, parent context possibly done (idle iterations): the exact outcome *)
Lemma last_split {A} (l : list A) : l <> [] -> exists pre x, l = (pre ++ [x])%list.
Proof. intros H. destruct (exists_last H) as (pre & x & E). eauto. Qed.

Lemma every_schedule_exact n cerr idle ls s :
  sys_run n cerr idle (init msg n) ls = Some s -> fin msg s = true ->
  (can_finish (got msg s) = true ->
     exists pre r, got msg s = (pre ++ [MRes r])%list /\ can_finish pre = false /\
                   r_complete r = true /\ outcome (got msg s) = (Some r, None)) /\
  (can_finish (got msg s) = false ->
     iters msg s = n /\ List.length (got msg s) <= n /\
     outcome (got msg s) =
       (last_resp (map ev_of (got msg s)) None, last_err (map ev_of (got msg s)) None)).
Proof.
  unfold sys_run. intros Hr Hf.
  pose proof (run_J n cerr idle ls _ _ (init_J n) Hr) as [J1 J2].
  destruct (reachable_inv _ _ _ _ _ _ _ _ _ Hr) as (Hl & _ & _ & Hg & Hi & _).
  split.
  - intros CF.
    assert (Hne : got msg s <> []) by (intros E; rewrite E in CF; discriminate).
    destruct (last_split _ Hne) as (pre & m & E).
    pose proof (J1 pre m E) as Hp. rewrite E in *.
    unfold can_finish in CF. rewrite existsb_app in CF. fold (can_finish pre) in CF.
    rewrite Hp in CF. simpl in CF. rewrite orb_false_r in CF.
    destruct m as [r|e]; [|discriminate]. simpl in CF.
    exists pre, r. repeat split; auto.
    unfold outcome, middleware. rewrite map_app. simpl.
    apply collect_first_complete; [rewrite any_complete_map; exact Hp|exact CF|].
    rewrite map_length, app_length. simpl. lia.
  - intros CF. destruct (J2 Hf) as [Hit|Hcf]; [|congruence].
    repeat split; [lia|lia|].
    unfold outcome, middleware. apply collect_no_complete.
    + rewrite any_complete_map. exact CF.
    + rewrite map_length. lia.
Qed.

(* ---------------------------------------------------------------------------------- *)
(* the caller's own request *)
Lemma caller_after_same n : forall r, caller_after n r = r.
Proof.
  induction n as [|m IH]; intros r; [reflexivity|].
  simpl. rewrite clone_request_same. simpl. apply IH.
Qed.

(* ---------------------------------------------------------------------------------- *)
(* the oracle on runs whose arrival order is not imposed *)
Lemma model_meets_oracle_free n kinds :
  List.length kinds = n -> 1 <= n ->
  spec_b (produced kinds) (run_scenario n kinds (nonsilent_slots kinds) None) = true.
Proof.
  intros Hn H1. apply model_meets_oracle. repeat split; auto.
Qed.
