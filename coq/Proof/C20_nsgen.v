(* C20 - proofs, part 6: register.Namespaced in general.  Any number of goroutines, each
   performing any sequence of Register / AddNamespace / Get operations, every operation executing
   an arbitrary event list that is disciplined on the one lock m and has the check-then-act shape
   [cta_ok] on the outer register obj; every schedule.  Invariant over the interleaving machine:
   (1) a thread that looked the namespace up under the write lock and did not find it knows that
       it is still missing (nobody else can store a namespace while the lock is held: the compound
       check-then-act is atomic);
   (2) hence every store either fills an existing namespace or creates a missing one: a name that
       is present stays present (nothing is ever lost, AddNamespace included);
   (3) an operation whose result says "stored" has its name present. *)
Require Import Verif.Common.Base Verif.Common.LockEv Verif.Model.C20 Verif.Spec.C20.
Require Import Verif.Proof.C20_race Verif.Proof.C20_lin.

(* ---- one step, by cases (generic) ---- *)
Section StepCases.
  Context {D X : Type}.

  Lemma step_invoke (s : @state D X) t th s' :
    nth_error (s_threads s) t = Some th -> t_cur th = None -> step s t = Some s' ->
    exists o rest, t_todo th = o :: rest /\
      s' = put s t (mkth (t_held th) (Some (o, o_body o, RNone)) rest (t_log th)) (s_data s).
  Proof.
    intros Ht Hc Hs. unfold step in Hs. rewrite Ht, Hc in Hs.
    destruct (t_todo th) as [|o rest]; [discriminate|]. inversion Hs. eauto.
  Qed.

  Lemma step_return (s : @state D X) t th o r s' :
    nth_error (s_threads s) t = Some th -> t_cur th = Some (o, [], r) -> step s t = Some s' ->
    s' = put s t (mkth (t_held th) None (t_todo th) (t_log th ++ [(o, r)])) (s_data s).
  Proof.
    intros Ht Hc Hs. unfold step in Hs. rewrite Ht, Hc in Hs. inversion Hs. reflexivity.
  Qed.

  Lemma step_event (s : @state D X) t th o e rem r s' :
    nth_error (s_threads s) t = Some th -> t_cur th = Some (o, e :: rem, r) -> step s t = Some s' ->
    exists h' r' dat',
      s' = put s t (mkth h' (Some (o, rem, r')) (t_todo th) (t_log th)) dat' /\
      match e with
      | LRead _ => h' = t_held th /\ dat' = s_data s /\ (r' = RTorn \/ exists d, r' = RVal (o_rd o d))
      | LWrite ob => h' = t_held th /\ r' = r /\
          dat' = upd (s_data s) ob (if racy s t (ob, true) then None else option_map (o_wr o) (s_data s ob))
      | LSafeCall ob f => h' = t_held th /\
          match s_data s ob with
          | Some d => r' = fst (o_call o f r d) /\ dat' = upd (s_data s) ob (Some (snd (o_call o f r d)))
          | None => r' = RTorn /\ dat' = s_data s
          end
      | _ => lev_step (t_held th) e = Some h' /\ r' = r /\ dat' = s_data s
      end.
  Proof.
    intros Ht Hc Hs. unfold step in Hs. rewrite Ht, Hc in Hs.
    destruct e as [x|x|x|x|ob|ob|ob f].
    - destruct (lock_free_for s t (LLock x)); [|discriminate].
      destruct (lev_step (t_held th) (LLock x)) as [h1|] eqn:E; [|discriminate]. inversion Hs.
      exists h1, r, (s_data s). auto.
    - destruct (lock_free_for s t (LUnlock x)); [|discriminate].
      destruct (lev_step (t_held th) (LUnlock x)) as [h1|] eqn:E; [|discriminate]. inversion Hs.
      exists h1, r, (s_data s). auto.
    - destruct (lock_free_for s t (LRLock x)); [|discriminate].
      destruct (lev_step (t_held th) (LRLock x)) as [h1|] eqn:E; [|discriminate]. inversion Hs.
      exists h1, r, (s_data s). auto.
    - destruct (lock_free_for s t (LRUnlock x)); [|discriminate].
      destruct (lev_step (t_held th) (LRUnlock x)) as [h1|] eqn:E; [|discriminate]. inversion Hs.
      exists h1, r, (s_data s). auto.
    - inversion Hs. eexists; eexists; eexists. split; [reflexivity|]. split; [reflexivity|split; [reflexivity|]].
      destruct (racy s t (ob, false)); [left; reflexivity|].
      destruct (s_data s ob) as [d|]; [right; exists d; reflexivity|left; reflexivity].
    - inversion Hs. eexists; eexists; eexists. split; [reflexivity|]. auto.
    - destruct (s_data s ob) as [d|] eqn:Ed.
      + destruct (o_call o f r d) as [r1 d1] eqn:Eo. inversion Hs.
        eexists; eexists; eexists. split; [reflexivity|]. simpl. auto.
      + inversion Hs. eexists; eexists; eexists. split; [reflexivity|]. auto.
  Qed.
End StepCases.

(* ---- namespaced maps ---- *)
Definition npres (d : nsmap) (ns name : string) : Prop :=
  exists inner v, lookup ns d = Some inner /\ lookup name inner = Some v.

Lemma npres_fill (d : nsmap) ns (inner X : rmap) ns0 name0 :
  lookup ns d = Some inner ->
  (forall nm v, lookup nm inner = Some v -> exists v', lookup nm X = Some v') ->
  npres d ns0 name0 -> npres (set ns X d) ns0 name0.
Proof.
  intros Hns HX [inner0 [v0 [H1 H2]]]. unfold npres. rewrite lookup_set.
  destruct (str_eqb ns0 ns) eqn:E.
  - apply str_eqb_eq in E. subst ns0. rewrite Hns in H1. inversion H1; subst inner0.
    destruct (HX _ _ H2) as [v' Hv']. eauto.
  - eauto.
Qed.

Lemma npres_create (d : nsmap) ns (X : rmap) ns0 name0 :
  lookup ns d = None -> npres d ns0 name0 -> npres (set ns X d) ns0 name0.
Proof.
  intros Hns [inner0 [v0 [H1 H2]]]. unfold npres. rewrite lookup_set.
  destruct (str_eqb ns0 ns) eqn:E.
  - apply str_eqb_eq in E. subst ns0. congruence.
  - eauto.
Qed.

Lemma absent_other (d : nsmap) ns (X : rmap) x : lookup x d = None -> lookup ns d <> None -> lookup x (set ns X d) = None.
Proof.
  intros Hx Hns. rewrite lookup_set. destruct (str_eqb x ns) eqn:E; [|exact Hx].
  apply str_eqb_eq in E. subst. contradiction.
Qed.

Lemma ns_op_kind k b k' b' : ns_op k b = ns_op k' b' -> k = k'.
Proof.
  intros H. assert (E : o_rd (ns_op k b) [] = o_rd (ns_op k' b') []) by (rewrite H; reflexivity).
  simpl in E. inversion E. reflexivity.
Qed.

Section NsGen.
  Variable m obj : string.

  Definition pres (s : @state nsmap nres) (ns name : string) : Prop :=
    exists d, s_data s obj = Some d /\ npres d ns name.

  Lemma pres_iff s ns name : pres s ns name <-> ns_present s obj ns name.
  Proof.
    unfold pres, ns_present, npres. split.
    - intros [d [H [inner [v [H1 H2]]]]]. exists d, inner, v. auto.
    - intros [d [inner [v [H [H1 H2]]]]]. exists d. split; [exact H|]. exists inner, v. auto.
  Qed.

  Definition cur_ok (s : @state nsmap nres) (th : @thread nsmap nres) : Prop :=
    match t_cur th with
    | None => True
    | Some (o, rem, r) =>
        exists k body, o = ns_op k body /\
          (exists got, cta_run obj (t_held th) got rem = true /\
             (got = true -> is_hwrite (t_held th) = true /\
                (r = RVal NNotFound -> forall d, s_data s obj = Some d -> lookup (kind_ns k) d = None))) /\
          (forall ns name v, k = KReg ns name v -> ns_stored r -> pres s ns name)
    end.

  Definition log_ok (s : @state nsmap nres) (th : @thread nsmap nres) : Prop :=
    forall o r, In (o, r) (t_log th) ->
      forall ns name v body, o = ns_op (KReg ns name v) body -> ns_stored r -> pres s ns name.

  Definition todo_ok (th : @thread nsmap nres) : Prop :=
    Forall (fun o => exists k body, o = ns_op k body /\ cta_ok obj body = true) (t_todo th).

  Definition nsinv (s : @state nsmap nres) : Prop :=
    forall t th, nth_error (s_threads s) t = Some th -> cur_ok s th /\ log_ok s th /\ todo_ok th.

  (* how the contents of obj can change in one step of thread t *)
  Definition data_rel (s s' : @state nsmap nres) (t : nat) : Prop :=
    s_data s' obj = s_data s obj \/
    (exists d ns inner X, s_data s obj = Some d /\ lookup ns d = Some inner /\
       (forall nm v, lookup nm inner = Some v -> exists v', lookup nm X = Some v') /\
       s_data s' obj = Some (set ns X d)) \/
    (exists d ns X (th : @thread nsmap nres), s_data s obj = Some d /\ lookup ns d = None /\ s_data s' obj = Some (set ns X d) /\
       nth_error (s_threads s) t = Some th /\ is_hwrite (t_held th) = true).

  Lemma pres_mono s s' t ns name : data_rel s s' t -> pres s ns name -> pres s' ns name.
  Proof.
    intros [H|[H|H]] [d [Hd Hp]].
    - exists d. rewrite H. auto.
    - destruct H as [d0 [ns1 [inner [X [H1 [H2 [H3 H4]]]]]]]. rewrite Hd in H1. inversion H1; subst d0.
      exists (set ns1 X d). split; [exact H4|]. eapply npres_fill; eauto.
    - destruct H as [d0 [ns1 [X [th [H1 [H2 [H3 _]]]]]]]. rewrite Hd in H1. inversion H1; subst d0.
      exists (set ns1 X d). split; [exact H3|]. apply npres_create; auto.
  Qed.

  Lemma two_writers (s : @state nsmap nres) t u tht thu :
    inv m s -> t <> u -> nth_error (s_threads s) t = Some tht -> nth_error (s_threads s) u = Some thu ->
    is_hwrite (t_held tht) = true -> is_hwrite (t_held thu) = true -> False.
  Proof.
    intros [Hth [Hl _]] Htu Ht Hu Hwt Hwu.
    destruct (Hth _ _ Ht) as [Hnt _]. destruct (Hth _ _ Hu) as [Hnu _].
    assert (Et : t_held tht = HWrite m).
    { destruct Hnt as [E|[E|E]]; rewrite E in Hwt; try discriminate. exact E. }
    assert (Eu : t_held thu = HWrite m).
    { destruct Hnu as [E|[E|E]]; rewrite E in Hwu; try discriminate. exact E. }
    pose proof (Hl t u tht thu m Htu Ht Hu Et) as Hf. rewrite Eu in Hf. simpl in Hf.
    rewrite String.eqb_refl in Hf. discriminate.
  Qed.

  (* a thread that does not move keeps its facts *)
  Lemma other_kept s s' t u thu :
    inv m s -> data_rel s s' t -> u <> t -> nth_error (s_threads s) u = Some thu ->
    cur_ok s thu /\ log_ok s thu /\ todo_ok thu -> cur_ok s' thu /\ log_ok s' thu /\ todo_ok thu.
  Proof.
    intros Hinv Hrel Hut Hu [Hc [Hl Htd]]. split; [|split; [|exact Htd]].
    - unfold cur_ok in *. destruct (t_cur thu) as [[[o rem] r]|]; [|exact I].
      destruct Hc as [k [body [Ho [[got [Hrun Hgot]] Hst]]]]. exists k, body. split; [exact Ho|]. split.
      + exists got. split; [exact Hrun|]. intros Hg. destruct (Hgot Hg) as [Hw Habs]. split; [exact Hw|].
        intros Hr d' Hd'. destruct Hrel as [H|[H|H]].
        * rewrite H in Hd'. exact (Habs Hr d' Hd').
        * destruct H as [d [ns1 [inner [X [H1 [H2 [_ H4]]]]]]]. rewrite H4 in Hd'. inversion Hd'; subst d'.
          apply absent_other; [exact (Habs Hr d H1)|congruence].
        * destruct H as [d [ns1 [X [tht [_ [_ [_ [Ht Hwt]]]]]]]]. exfalso.
          exact (two_writers s t u tht thu Hinv (not_eq_sym Hut) Ht Hu Hwt Hw).
      + intros ns name v Hk Hs. eapply pres_mono; eauto.
    - intros o r Hin ns name v body Ho Hs. eapply pres_mono; eauto.
  Qed.

  Lemma cta_run_cons h got e rem : cta_run obj h got (e :: rem) = true ->
    match e with
    | LSafeCall ob f =>
        ob = obj /\
        (if String.eqb f "Get" then cta_run obj h (is_hwrite h) rem = true
         else is_hwrite h = true /\ got = true /\ cta_run obj h got rem = true)
    | _ => exists h', lev_step h e = Some h' /\ cta_run obj h' (if is_lock_ev e then false else got) rem = true
    end.
  Proof.
    simpl. destruct e; try (destruct (lev_step h _) as [h'|]; [eauto|discriminate]).
    rewrite andb_true_iff. intros [H1 H2]. apply String.eqb_eq in H1. split; [exact H1|].
    destruct (String.eqb f "Get"); [exact H2|].
    apply andb_true_iff in H2. destruct H2 as [H2 H3]. apply andb_true_iff in H2. tauto.
  Qed.

  Lemma nsinv_step s t s' : inv m s -> nsinv s -> step s t = Some s' -> nsinv s'.
  Proof.
    intros Hinv HN Hs.
    assert (Hex : exists th, nth_error (s_threads s) t = Some th).
    { unfold step in Hs. destruct (nth_error (s_threads s) t) as [th|]; [eauto|discriminate]. }
    destruct Hex as [th Ht]. destruct (HN t th Ht) as [Hc [Hl Htd]].
    pose proof (proj2 (proj2 Hinv)) as Hclean.
    (* reduce to: the data relation holds and the moving thread's new record is fine *)
    assert (Hgoal : forall th' dat', s' = put s t th' dat' ->
              data_rel s s' t -> (cur_ok s' th' /\ log_ok s' th' /\ todo_ok th') -> nsinv s').
    { intros th' dat' Hs' Hrel Hnew u thu Hu. subst s'. simpl in Hu.
      destruct (Nat.eq_dec u t) as [->|Hne].
      - rewrite (nth_error_set_nth_eq _ _ _ _ Ht) in Hu. inversion Hu; subst. exact Hnew.
      - rewrite nth_error_set_nth_neq in Hu by exact Hne.
        apply (other_kept s _ t u thu Hinv Hrel Hne Hu). exact (HN u thu Hu). }
    destruct (t_cur th) as [[[o rem] r]|] eqn:Ec.
    - destruct rem as [|e rem].
      + (* return *)
        pose proof (step_return s t th o r s' Ht Ec Hs) as Hs'.
        apply (Hgoal _ _ Hs'); [left; subst s'; reflexivity|].
        assert (Hsame : forall ns name, pres s ns name -> pres s' ns name).
        { intros ns name [d [Hd Hp]]. exists d. subst s'. auto. }
        split; [exact I|split; [|exact Htd]].
        intros o1 r1 Hin ns name v body Ho Hst. simpl in Hin. apply in_app_or in Hin.
        destruct Hin as [Hin|[Hin|[]]].
        * apply Hsame. eapply Hl; eauto.
        * assert (Heq : o1 = o /\ r1 = r) by (inversion Hin; auto). destruct Heq as [-> ->]. unfold cur_ok in Hc. rewrite Ec in Hc.
          destruct Hc as [k [body0 [Ho0 [_ Hstored]]]]. rewrite Ho0 in Ho. apply ns_op_kind in Ho.
          apply Hsame. eapply Hstored; eauto.
      + (* an event *)
        destruct (step_event s t th o e rem r s' Ht Ec Hs) as [h' [r' [dat' [Hs' Hev]]]].
        unfold cur_ok in Hc. rewrite Ec in Hc.
        destruct Hc as [k [body [Ho [[got [Hrun Hgot]] Hstored]]]].
        apply cta_run_cons in Hrun.
        assert (Hnext : next_acc th = acc_of e) by (unfold next_acc; rewrite Ec; reflexivity).
        (* the common shape of the conclusion for events that leave the contents of obj alone *)
        assert (Hquiet : forall got', s_data s' obj = s_data s obj ->
                  cta_run obj h' got' rem = true ->
                  (got' = true -> is_hwrite h' = true /\ (r' = RVal NNotFound -> forall d, s_data s obj = Some d -> lookup (kind_ns k) d = None)) ->
                  (ns_stored r' -> ns_stored r) -> nsinv s').
        { intros got' Hd Hrun' Hg' Hst'. apply (Hgoal _ _ Hs'); [left; exact Hd|].
          assert (Hsame : forall ns name, pres s ns name -> pres s' ns name).
          { intros ns name [d [Hd0 Hp]]. exists d. rewrite Hd. auto. }
          split; [|split; [|exact Htd]].
          - unfold cur_ok. simpl. exists k, body. split; [exact Ho|]. split.
            + exists got'. split; [exact Hrun'|]. intros Hg. destruct (Hg' Hg) as [Hw Ha]. split; [exact Hw|].
              intros Hr d Hd'. rewrite Hd in Hd'. exact (Ha Hr d Hd').
            + intros ns name v Hk Hst. apply Hsame. eapply Hstored; eauto.
          - intros o1 r1 Hin ns name v body1 Ho1 Hst. apply Hsame. eapply Hl; eauto. }
        destruct e as [x|x|x|x|ob|ob|ob f].
        * destruct Hev as [Hstp [-> ->]]. destruct Hrun as [h1 [Hstp1 Hrun]]. rewrite Hstp in Hstp1. inversion Hstp1; subst h1.
          apply (Hquiet false); [subst s'; reflexivity|exact Hrun|discriminate|auto].
        * destruct Hev as [Hstp [-> ->]]. destruct Hrun as [h1 [Hstp1 Hrun]]. rewrite Hstp in Hstp1. inversion Hstp1; subst h1.
          apply (Hquiet false); [subst s'; reflexivity|exact Hrun|discriminate|auto].
        * destruct Hev as [Hstp [-> ->]]. destruct Hrun as [h1 [Hstp1 Hrun]]. rewrite Hstp in Hstp1. inversion Hstp1; subst h1.
          apply (Hquiet false); [subst s'; reflexivity|exact Hrun|discriminate|auto].
        * destruct Hev as [Hstp [-> ->]]. destruct Hrun as [h1 [Hstp1 Hrun]]. rewrite Hstp in Hstp1. inversion Hstp1; subst h1.
          apply (Hquiet false); [subst s'; reflexivity|exact Hrun|discriminate|auto].
        * (* LRead: the result becomes the kind tag or torn, never NotFound / stored *)
          destruct Hev as [-> [-> Hr']]. destruct Hrun as [h1 [Hstp1 Hrun]].
          assert (h1 = t_held th) by (destruct (t_held th); simpl in Hstp1; inversion Hstp1; reflexivity). subst h1.
          assert (Hnr : r' <> RVal NNotFound /\ ~ ns_stored r').
          { destruct Hr' as [->|[d ->]]; [split; [discriminate|intros [H|H]; discriminate]|].
            rewrite Ho. simpl. split; [discriminate|intros [H|H]; discriminate]. }
          apply (Hquiet got); [subst s'; reflexivity|exact Hrun| |intros H; exfalso; exact (proj2 Hnr H)].
          intros Hg. destruct (Hgot Hg) as [Hw _]. split; [exact Hw|]. intros H. exfalso. exact (proj1 Hnr H).
        * (* LWrite: o_wr is the identity *)
          destruct Hev as [-> [-> Hdat]]. destruct Hrun as [h1 [Hstp1 Hrun]].
          assert (h1 = t_held th) by (destruct (t_held th); simpl in Hstp1; inversion Hstp1; reflexivity). subst h1.
          apply (Hquiet got); [|exact Hrun|exact Hgot|auto].
          subst s'. simpl. rewrite Hdat. unfold upd.
          destruct (String.eqb obj ob) eqn:E; [|reflexivity]. apply String.eqb_eq in E. subst ob.
          rewrite (inv_not_racy m s t th (obj, true) Hinv Ht Hnext).
          destruct (s_data s obj) as [d|] eqn:Ed; [|exfalso; exact (Hclean obj Ed)].
          rewrite Ho. reflexivity.
        * (* a self-locking call on obj *)
          destruct Hrun as [-> Hrun]. destruct Hev as [-> Hev].
          destruct (s_data s obj) as [d|] eqn:Ed; [|exfalso; exact (Hclean obj Ed)].
          destruct Hev as [Hr' Hdat].
          assert (Hd' : s_data s' obj = Some (snd (o_call o f r d))).
          { subst s'. simpl. rewrite Hdat. unfold upd. rewrite String.eqb_refl. reflexivity. }
          rewrite Ho in Hr', Hd'. simpl in Hr', Hd'. unfold ns_call in Hr', Hd'.
          destruct (String.eqb f "Get") eqn:Ef.
          -- (* the lookup *)
             destruct (lookup (kind_ns k) d) as [inner|] eqn:El; simpl in Hr', Hd'.
             ++ (* found: a Register operation stores its name in the namespace found *)
                assert (Hrel : data_rel s s' t).
                { destruct k as [ns name v|ns|ns]; simpl in *.
                  - right; left. exists d, ns, inner, (set name v inner). split; [exact Ed|split; [exact El|split; [|exact Hd']]].
                    intros nm v0 Hnm. rewrite lookup_set. destruct (str_eqb nm name); eauto.
                  - left. rewrite Hd'. symmetry. exact Ed.
                  - left. rewrite Hd'. symmetry. exact Ed. }
                apply (Hgoal _ _ Hs' Hrel). split; [|split; [|exact Htd]].
                ** unfold cur_ok. simpl. exists k, body. split; [exact Ho|]. split.
                   --- exists (is_hwrite (t_held th)). split; [exact Hrun|]. intros Hg. split; [exact Hg|].
                       rewrite Hr'. discriminate.
                   --- intros ns name v Hk _. subst k. simpl in *. exists (set ns (set name v inner) d).
                       split; [exact Hd'|]. exists (set name v inner), v. rewrite !lookup_set_eq. auto.
                ** intros o1 r1 Hin ns name v body1 Ho1 Hst. eapply pres_mono; [exact Hrel|]. eapply Hl; eauto.
             ++ (* not found: nothing changes, the thread remembers *)
                apply (Hquiet (is_hwrite (t_held th))); [exact Hd'|exact Hrun| |].
                ** intros Hg. split; [exact Hg|]. intros _ d0 Hd0. inversion Hd0; subst d0. exact El.
                ** rewrite Hr'. intros [H|H]; discriminate.
          -- (* the store *)
             destruct Hrun as [Hw [Hg Hrun]]. destruct (Hgot Hg) as [_ Habs]. clear Hgot. subst got.
             assert (Hcase : (r = RVal NNotFound /\ (exists ns name v, k = KReg ns name v) \/ r = RVal NNotFound /\ (exists ns, k = KAdd ns)) \/
                             (r' = r /\ s_data s' obj = Some d)).
             { destruct r as [| |x]; try (right; simpl in *; split; [exact Hr'|exact Hd']).
               destruct x; try (right; simpl in *; split; [exact Hr'|exact Hd']).
               destruct k as [ns name v|ns|ns].
               - left; left. split; [reflexivity|eauto].
               - left; right. split; [reflexivity|eauto].
               - right; simpl in *; split; [exact Hr'|exact Hd']. }
             destruct Hcase as [Hcase|[Hrr Hsd]].
             ++ assert (Hr : r = RVal NNotFound) by (destruct Hcase as [[H _]|[H _]]; exact H).
                pose proof (Habs Hr d eq_refl) as Hmiss. subst r.
                assert (Hrel : data_rel s s' t /\ r' = RVal NStored).
                { destruct Hcase as [[_ [ns [name [v Hk]]]]|[_ [ns Hk]]]; subst k; simpl in *.
                  - split; [|exact Hr']. right; right. exists d, ns, [(name, v)], th. auto.
                  - split; [|exact Hr']. right; right. exists d, ns, [], th. auto. }
                destruct Hrel as [Hrel Hr's].
                apply (Hgoal _ _ Hs' Hrel). split; [|split; [|exact Htd]].
                ** unfold cur_ok. simpl. exists k, body. split; [exact Ho|]. split.
                   --- exists true. split; [exact Hrun|]. intros _. split; [exact Hw|]. rewrite Hr's. discriminate.
                   --- intros ns name v Hk _. subst k. simpl in *. exists (set ns [(name, v)] d).
                       split; [exact Hd'|]. exists [(name, v)], v. rewrite lookup_set_eq. simpl. rewrite str_eqb_refl. auto.
                ** intros o1 r1 Hin ns name v body1 Ho1 Hst. eapply pres_mono; [exact Hrel|]. eapply Hl; eauto.
             ++ apply (Hquiet true); [exact Hsd|exact Hrun| |rewrite Hrr; auto].
                intros _. split; [exact Hw|]. rewrite Hrr. exact Habs.
    - (* invocation *)
      destruct (step_invoke s t th s' Ht Ec Hs) as [o [rest [Et Hs']]].
      apply (Hgoal _ _ Hs'); [left; subst s'; reflexivity|].
      unfold todo_ok in Htd. rewrite Et in Htd. inversion Htd as [|? ? Ho Hrest]; subst.
      destruct Ho as [k [body [Ho Hok]]].
      assert (Hh : t_held th = HNone).
      { destruct (proj1 Hinv t th Ht) as [_ [Hcur _]]. rewrite Ec in Hcur. exact Hcur. }
      split; [|split; [|exact Hrest]].
      + unfold cur_ok. simpl. exists k, body. split; [exact Ho|]. split.
        * exists false. rewrite Hh. rewrite Ho. simpl. split; [exact Hok|discriminate].
        * intros ns name v _ [H|H]; discriminate.
      + intros o1 r1 Hin ns name v body1 Ho1 Hst.
        assert (Hp : pres s ns name) by (eapply Hl; eauto).
        destruct Hp as [d [Hd Hp]]. exists d. simpl. auto.
  Qed.

  Lemma nsinv_init progs dat : ns_prog_ok obj progs -> nsinv (init progs dat).
  Proof.
    intros Hp t th Ht. simpl in Ht. rewrite nth_error_map in Ht.
    destruct (nth_error progs t) as [p|] eqn:Ep; [|discriminate]. inversion Ht; subst.
    split; [exact I|split].
    - intros o r [].
    - unfold todo_ok. simpl. unfold ns_prog_ok in Hp. rewrite Forall_forall in Hp. apply Hp. eapply nth_error_In; eauto.
  Qed.

  Lemma nsinv_run progs dat : wf_progs m progs -> ns_prog_ok obj progs -> (forall o, dat o <> None) ->
    forall sched s, run (init progs dat) sched = Some s -> inv m s /\ nsinv s.
  Proof.
    intros Hw Hp Hd sched. induction sched as [|t r IH] using rev_ind; intros s Hr.
    - simpl in Hr. inversion Hr; subst. split; [apply init_inv; auto|apply nsinv_init; auto].
    - apply run_snoc in Hr. destruct Hr as [s1 [Hr1 Hst]]. destruct (IH s1 Hr1) as [Hi HN].
      split; [eapply step_inv; eauto|eapply nsinv_step; eauto].
  Qed.

  (* no completed registration is lost *)
  Lemma ns_no_lost progs dat sched s t th ns name v body r :
    wf_progs m progs -> ns_prog_ok obj progs -> (forall o, dat o <> None) ->
    run (init progs dat) sched = Some s ->
    nth_error (s_threads s) t = Some th -> In (ns_op (KReg ns name v) body, r) (t_log th) -> ns_stored r ->
    ns_present s obj ns name.
  Proof.
    intros Hw Hp Hd Hr Ht Hin Hst. destruct (nsinv_run progs dat Hw Hp Hd sched s Hr) as [_ HN].
    destruct (HN t th Ht) as [_ [Hl _]]. apply pres_iff. eapply Hl; eauto.
  Qed.

  (* nothing that is present ever disappears: in particular AddNamespace never removes or empties a
     namespace that has registrations *)
  Lemma ns_monotone progs dat sched s t s' ns name :
    wf_progs m progs -> ns_prog_ok obj progs -> (forall o, dat o <> None) ->
    run (init progs dat) sched = Some s -> step s t = Some s' ->
    ns_present s obj ns name -> ns_present s' obj ns name.
  Proof.
    intros Hw Hp Hd Hr Hs Hpr. destruct (nsinv_run progs dat Hw Hp Hd sched s Hr) as [Hi HN].
    assert (HN' : nsinv s') by (eapply nsinv_step; eauto).
    apply pres_iff. apply pres_iff in Hpr.
    (* the data relation of this step, recovered through a ghost observer: re-run the case analysis *)
    assert (Hex : exists th, nth_error (s_threads s) t = Some th).
    { unfold step in Hs. destruct (nth_error (s_threads s) t) as [th|]; [eauto|discriminate]. }
    destruct Hex as [th Ht]. destruct (HN t th Ht) as [Hc [Hl Htd]].
    pose proof (proj2 (proj2 Hi)) as Hclean.
    destruct (t_cur th) as [[[o rem] r]|] eqn:Ec.
    - destruct rem as [|e rem].
      + pose proof (step_return s t th o r s' Ht Ec Hs) as Hs'. destruct Hpr as [d [Hd0 Hp0]]. exists d. subst s'. auto.
      + destruct (step_event s t th o e rem r s' Ht Ec Hs) as [h' [r' [dat' [Hs' Hev]]]].
        unfold cur_ok in Hc. rewrite Ec in Hc. destruct Hc as [k [body [Ho [[got [Hrun Hgot]] _]]]].
        apply cta_run_cons in Hrun.
        assert (Hnext : next_acc th = acc_of e) by (unfold next_acc; rewrite Ec; reflexivity).
        assert (Hq : s_data s' obj = s_data s obj -> pres s' ns name).
        { intros E. destruct Hpr as [d [Hd0 Hp0]]. exists d. rewrite E. auto. }
        destruct e as [x|x|x|x|ob|ob|ob f].
        * apply Hq. destruct Hev as [_ [_ ->]]. subst s'. reflexivity.
        * apply Hq. destruct Hev as [_ [_ ->]]. subst s'. reflexivity.
        * apply Hq. destruct Hev as [_ [_ ->]]. subst s'. reflexivity.
        * apply Hq. destruct Hev as [_ [_ ->]]. subst s'. reflexivity.
        * apply Hq. destruct Hev as [_ [-> _]]. subst s'. reflexivity.
        * apply Hq. destruct Hev as [_ [_ Hdat]]. subst s'. simpl. rewrite Hdat. unfold upd.
          destruct (String.eqb obj ob) eqn:E; [|reflexivity]. apply String.eqb_eq in E. subst ob.
          rewrite (inv_not_racy m s t th (obj, true) Hi Ht Hnext).
          destruct (s_data s obj) as [d|] eqn:Ed; [|exfalso; exact (Hclean obj Ed)]. rewrite Ho. reflexivity.
        * destruct Hrun as [-> Hrun]. destruct Hev as [_ Hev].
          destruct (s_data s obj) as [d|] eqn:Ed; [|exfalso; exact (Hclean obj Ed)].
          destruct Hev as [_ Hdat].
          assert (Hd' : s_data s' obj = Some (snd (o_call o f r d))).
          { subst s'. simpl. rewrite Hdat. unfold upd. rewrite String.eqb_refl. reflexivity. }
          rewrite Ho in Hd'. simpl in Hd'. unfold ns_call in Hd'.
          destruct Hpr as [d0 [Hd0 Hp0]]. rewrite Ed in Hd0. inversion Hd0; subst d0.
          destruct (String.eqb f "Get") eqn:Ef.
          -- destruct (lookup (kind_ns k) d) as [inner|] eqn:El; simpl in Hd'.
             ++ destruct k as [ns1 name1 v1|ns1|ns1]; simpl in *; try (exists d; auto; fail).
                exists (set ns1 (set name1 v1 inner) d). split; [exact Hd'|].
                eapply npres_fill; eauto. intros nm v0 Hnm. rewrite lookup_set. destruct (str_eqb nm name1); eauto.
             ++ exists d. auto.
          -- destruct Hrun as [_ [Hg _]]. destruct (Hgot Hg) as [_ Habs].
             destruct r as [| |x]; simpl in Hd'; try (exists d; auto; fail).
             destruct x; simpl in Hd'; try (exists d; auto; fail).
             pose proof (Habs eq_refl d eq_refl) as Hmiss.
             destruct k as [ns1 name1 v1|ns1|ns1]; simpl in *.
             ++ exists (set ns1 [(name1, v1)] d). split; [exact Hd'|]. apply npres_create; auto.
             ++ exists (set ns1 [] d). split; [exact Hd'|]. apply npres_create; auto.
             ++ exists d. auto.
    - destruct (step_invoke s t th s' Ht Ec Hs) as [o [rest [Et Hs']]].
      destruct Hpr as [d [Hd0 Hp0]]. exists d. subst s'. auto.
  Qed.
End NsGen.

(* the regenerated obligation LockEv.one_lock is the hypothesis locks_named of the theorems *)
Lemma one_lock_locks_named m l : one_lock m l = locks_named m l.
Proof.
  unfold one_lock, locks_named. induction l as [|e r IH]; [reflexivity|]. simpl. rewrite IH. f_equal.
  destruct e; try reflexivity; apply String.eqb_sym.
Qed.
