(* C06 - proofs, part i: order independence of the whole pipeline. *)
Require Import Verif.Common.Base Verif.Common.Json Verif.Common.JsonFacts.
Require Import Verif.Model.C06 Verif.Spec.C06.
Require Import Verif.Proof.C06 Verif.Proof.C06_d Verif.Proof.C06_e Verif.Proof.C06_f Verif.Proof.C06_g.
Require Import Coq.Sorting.Permutation.

Lemma path_agree_obj_l m b : path_agree (Some (JObj m)) b -> exists m', b = Some (JObj m').
Proof.
  destruct b as [y|]; cbn; [|contradiction].
  destruct y; try (intros [H _]; discriminate). intros _. eexists; reflexivity.
Qed.

Lemma agree_sub a b q m : agree a b -> get_path a q = Some (JObj m) ->
  exists m', get_path b q = Some (JObj m') /\ agree (JObj m) (JObj m').
Proof.
  intros Ha Hq. pose proof (Ha q) as Hp. rewrite Hq in Hp.
  destruct (path_agree_obj_l _ _ Hp) as [m' Hm']. exists m'. split; [exact Hm'|].
  intros p. pose proof (Ha (q ++ p)%list) as H. rewrite !get_path_app, Hq, Hm' in H. exact H.
Qed.

Lemma agree_nonobj_r a b q : agree a b ->
  (forall m, get_path a q <> Some (JObj m)) -> forall m', get_path b q <> Some (JObj m').
Proof.
  intros Ha Hn m' Hb. pose proof (Ha q) as Hp. rewrite Hb in Hp.
  destruct (get_path a q) as [x|]; [|contradiction].
  destruct x; cbn in Hp; try (destruct Hp as [_ [H _]]; discriminate).
  eapply Hn. reflexivity.
Qed.

Lemma agree_nil : agree (JObj []) (JObj []).
Proof. intros p. destruct p; cbn; exact I. Qed.

Lemma target_agree c c' d d' : target c = target c' -> agree (JObj d) (JObj d') ->
  agree (JObj (target_spec c d)) (JObj (target_spec c' d')).
Proof.
  intros Ht Ha. unfold target_spec. rewrite <- Ht.
  destruct (str_eqb (target c) ""); [exact Ha|].
  destruct (get_path (JObj d) (split_dot (target c))) as [x|] eqn:E.
  - destruct x; try (
      assert (Hn : forall m', get_path (JObj d') (split_dot (target c)) <> Some (JObj m'))
        by (apply (agree_nonobj_r _ _ _ Ha); intros m0; rewrite E; discriminate);
      destruct (get_path (JObj d') (split_dot (target c))) as [y|]; [|apply agree_nil];
      destruct y; try apply agree_nil; exfalso; eapply Hn; reflexivity).
    destruct (agree_sub _ _ _ _ Ha E) as [m' [Hm' Hag]]. rewrite Hm'. exact Hag.
  - assert (Hn : forall m', get_path (JObj d') (split_dot (target c)) <> Some (JObj m'))
      by (apply (agree_nonobj_r _ _ _ Ha); intros m0; rewrite E; discriminate).
    destruct (get_path (JObj d') (split_dot (target c))) as [y|]; [|apply agree_nil].
    destruct y; try apply agree_nil. exfalso. eapply Hn. reflexivity.
Qed.

Lemma agree_is_nil t t' : agree (JObj t) (JObj t') -> is_nil t = is_nil t'.
Proof.
  intros Ha. destruct t as [|[k x] r]; destruct t' as [|[k' x'] r']; try reflexivity.
  - pose proof (Ha [k']) as H. cbn [get_path lookup] in H. rewrite str_eqb_refl in H. contradiction.
  - pose proof (Ha [k]) as H. cbn [get_path lookup] in H. rewrite str_eqb_refl in H.
    destruct x; cbn in H; contradiction.
Qed.

Lemma find_ext {A} (f g : A -> bool) l : (forall x, f x = g x) -> find f l = find g l.
Proof. intros H. induction l as [|x r IH]; [reflexivity|]. cbn. rewrite H, IH. reflexivity. Qed.

Lemma agree_mem f f' s : agree (JObj f) (JObj f') -> mem s f = mem s f'.
Proof.
  intros Ha. pose proof (agree_present _ _ [s] Ha) as H. unfold present in H. cbn [get_path] in H.
  unfold mem. destruct (lookup s f); destruct (lookup s f'); try reflexivity; discriminate.
Qed.

Lemma mapping_agree mp mp' f f' :
  Permutation mp mp' -> names_distinct mp -> agree (JObj f) (JObj f') ->
  agree (JObj (apply_mapping mp f)) (JObj (apply_mapping mp' f')).
Proof.
  intros HP Hnd Ha p. destruct p as [|k' r]; [exact I|].
  cbn [get_path].
  rewrite <- (mapping_order_independent mp mp' f' HP Hnd k').
  rewrite !(rename_lookup_model mp _ Hnd). unfold rename_lookup.
  rewrite (find_ext (fun sd => str_eqb (snd sd) k' && mem (fst sd) f)
                    (fun sd => str_eqb (snd sd) k' && mem (fst sd) f') mp)
    by (intros sd; rewrite (agree_mem f f' _ Ha); reflexivity).
  destruct (find _ mp) as [sd|].
  - exact (Ha (fst sd :: r)).
  - destruct (str_mem k' (map fst mp)); [exact I|]. exact (Ha (k' :: r)).
Qed.

Lemma sanitize_perm mp mp' : Permutation mp mp' -> Permutation (sanitize mp) (sanitize mp').
Proof. apply Permutation_map. Qed.

Lemma mapping_stage_agree c c' f f' :
  Permutation (mapping c) (mapping c') -> names_distinct (sanitize (mapping c)) ->
  agree (JObj f) (JObj f') -> agree (JObj (mapping_stage c f)) (JObj (mapping_stage c' f')).
Proof.
  intros HP Hnd Ha. unfold mapping_stage. rewrite <- (agree_is_nil _ _ Ha).
  destruct (is_nil f); [exact Ha|].
  apply mapping_agree; [apply sanitize_perm; exact HP|exact Hnd|exact Ha].
Qed.

Lemma group_agree c c' x x' : group c = group c' -> agree (JObj x) (JObj x') ->
  agree (JObj (group_stage c x)) (JObj (group_stage c' x')).
Proof.
  intros Hg Ha. unfold group_stage. rewrite <- Hg.
  destruct (str_eqb (group c) ""); [exact Ha|].
  intros p. destruct p as [|k r]; [exact I|]. cbn [get_path lookup].
  destruct (str_eqb k (group c)); [exact (Ha r)|exact I].
Qed.

Lemma target_spec_wf c d : wfj (JObj d) = true -> wfj (JObj (target_spec c d)) = true.
Proof.
  intros Hwf. destruct (target_spec_path c d) as [-> | [-> | [q Hq]]]; [exact Hwf|reflexivity|].
  eapply wfj_get_path; [exact Hwf|exact Hq].
Qed.

Lemma filter_agree c c' t t' f f' :
  same_cfg c c' -> (allow c = [] \/ prefix_free (map split_dot (allow c))) ->
  wfj (JObj t) = true -> wfj (JObj t') = true -> agree (JObj t) (JObj t') ->
  filter_stage c t = Ok f -> filter_stage c' t' = Ok f' -> agree (JObj f) (JObj f').
Proof.
  intros [_ [_ [Hae [Hsa [Hsd _]]]]] Hpf Hw Hw' Ha Hf Hf'.
  pose proof (agree_is_nil _ _ Ha) as Hn.
  destruct t as [|e t0]; destruct t' as [|e' t0']; try discriminate.
  - cbn in Hf, Hf'. inversion Hf; inversion Hf'; subst. exact Ha.
  - destruct (allow c) as [|a0 al] eqn:Ea.
    + assert (Ea' : allow c' = []) by (apply Hae; reflexivity).
      rewrite filter_stage_deny in Hf by (try exact Ea; discriminate).
      rewrite filter_stage_deny in Hf' by (try exact Ea'; discriminate).
      inversion Hf; inversion Hf'; subst.
      apply deny_order_independent; try assumption; apply split_paths_nonempty.
    + assert (Ea' : allow c' <> []) by (intros E; apply Hae in E; discriminate).
      rewrite filter_stage_allow in Hf by (try (rewrite Ea); discriminate).
      rewrite filter_stage_allow in Hf' by (try exact Ea'; discriminate).
      inversion Hf; inversion Hf'; subst. rewrite Ea in *.
      destruct Hpf as [Hpf|Hpf]; [discriminate|].
      apply allow_order_independent; try assumption; apply split_paths_nonempty.
Qed.

Theorem order_independent : forall c c' d d',
  same_cfg c c' -> names_distinct (sanitize (mapping c)) ->
  (allow c = [] \/ prefix_free (map split_dot (allow c))) ->
  wfj (JObj d) = true -> wfj (JObj d') = true -> agree (JObj d) (JObj d') ->
  exists o o', format c d = Ok o /\ format c' d' = Ok o' /\ agree (JObj o) (JObj o').
Proof.
  intros c c' d d' Hs Hnd Hpf Hw Hw' Ha.
  destruct (pipeline_order c d) as [f [Hf Hfmt]]. destruct (pipeline_order c' d') as [f' [Hf' Hfmt']].
  exists (group_spec c (mapping_stage c f)), (group_spec c' (mapping_stage c' f')).
  split; [exact Hfmt|]. split; [exact Hfmt'|].
  pose proof Hs as [Ht [Hg [_ [_ [_ HP]]]]].
  apply (group_agree c c'); [exact Hg|].
  apply mapping_stage_agree; [exact HP|exact Hnd|].
  eapply (filter_agree c c'); [exact Hs|exact Hpf| | | |exact Hf|exact Hf'].
  - apply target_spec_wf. exact Hw.
  - apply target_spec_wf. exact Hw'.
  - apply target_agree; assumption.
Qed.
