(* C05 - every arrival list of the list-level theorems is realised by a schedule of the
   transition system (so the two layers speak about the same runs). *)
Require Import Verif.Common.Base Verif.Common.Fanout.
Require Import Verif.Model.C05 Verif.Spec.C05 Verif.Proof.C05 Verif.Proof.C05_sched.

Section Real.
  Variable n : nat.
  Variable cerr : error.
  Variable idle : bool.
  Notation STEP := (step msg n route (MFail cerr) can_finish idle).
  Notation RUN := (run msg n route (MFail cerr) can_finish idle).

  (* the messages in done were returned, sent and dequeued one after the other by workers
     0 .. |done|-1; rem workers are still running *)
  Definition st_after (done : list msg) (rem : nat) : st msg :=
    {| ws := (map (fun m => Sent m m) done ++ repeat Running rem)%list;
       qp := []; qf := []; got := done; iters := List.length done; fin := false; cancelled := false |}.

  Definition deliver (j : nat) (m : msg) : list (label msg) := [LReturn j m; LSend j; LRecv (route m)].

  Lemma nth_error_mid {A} (a : list A) x b : nth_error (a ++ x :: b) (List.length a) = Some x.
  Proof. induction a as [|y r IH]; simpl; auto. Qed.
  Lemma upd_mid {A} (a : list A) x y b : upd (List.length a) y (a ++ x :: b) = (a ++ y :: b)%list.
  Proof. induction a as [|z r IH]; simpl; auto. rewrite IH. reflexivity. Qed.

  Lemma deliver_one done rem m :
    can_finish done = false -> List.length done + S rem = n ->
    RUN (st_after done (S rem)) (deliver (List.length done) m) = Some (st_after (done ++ [m]) rem).
  Proof.
    intros CF Hn.
    set (a := map (fun x : msg => Sent x x) done).
    assert (La : List.length a = List.length done) by (unfold a; apply map_length).
    assert (Hpos : Nat.ltb 0 n = true) by (apply Nat.ltb_lt; lia).
    unfold deliver, st_after. fold a. cbn [repeat].
    (* LReturn *)
    cbn [run step ws]. rewrite <- La, nth_error_mid. unfold set_ws. cbn [ws qp qf got iters fin cancelled].
    rewrite upd_mid.
    (* LSend *)
    cbn [run step ws]. rewrite nth_error_mid.
    assert (Hfin : (a ++ Sent m m :: repeat Running rem)%list =
                   (map (fun x : msg => Sent x x) (done ++ [m]) ++ repeat Running rem)%list).
    { rewrite map_app. simpl. rewrite <- app_assoc. reflexivity. }
    assert (Hcol : forall q1 q2,
               collecting msg can_finish
                 {| ws := (a ++ Sent m m :: repeat Running rem)%list; qp := q1; qf := q2; got := done;
                    iters := List.length a; fin := false; cancelled := false |} = true).
    { intros q1 q2. unfold collecting. cbn [fin iters ws got]. rewrite CF. simpl.
      rewrite andb_true_r. apply Nat.ltb_lt. rewrite app_length. simpl. rewrite repeat_length. lia. }
    destruct m as [r|e]; cbn [route qp qf List.length]; rewrite Hpos; cbn [ws qp qf got iters fin cancelled];
      rewrite upd_mid; cbn [run step route]; rewrite Hcol; cbn [qp qf ws got iters fin cancelled app];
      rewrite Hfin, La, app_length; simpl; rewrite Nat.add_1_r; reflexivity.
  Qed.

  (* deliver the messages ms by the workers j, j+1, ... *)
  Fixpoint deliver_all (j : nat) (ms : list msg) : list (label msg) :=
    match ms with
    | [] => []
    | m :: r => (deliver j m ++ deliver_all (S j) r)%list
    end.

  Lemma run_app ls1 : forall ls2 s s1, RUN s ls1 = Some s1 -> RUN s (ls1 ++ ls2) = RUN s1 ls2.
  Proof.
    induction ls1 as [|l r IH]; simpl; intros ls2 s s1 H.
    - inversion H; reflexivity.
    - destruct (STEP s l) as [s0|]; [|discriminate]. apply IH. exact H.
  Qed.

  Lemma deliver_many ms : forall done rem,
    (forall pre m post, ms = (pre ++ m :: post)%list -> can_finish (done ++ pre) = false) ->
    List.length done + (List.length ms + rem) = n ->
    RUN (st_after done (List.length ms + rem)) (deliver_all (List.length done) ms)
      = Some (st_after (done ++ ms) rem).
  Proof.
    induction ms as [|m r IH]; intros done rem Hc Hn.
    - simpl. rewrite app_nil_r. reflexivity.
    - cbn [deliver_all List.length plus].
      assert (CF : can_finish done = false).
      { specialize (Hc [] m r eq_refl). rewrite app_nil_r in Hc. exact Hc. }
      rewrite (run_app _ _ _ _ (deliver_one done (List.length r + rem) m CF ltac:(simpl in Hn; lia))).
      replace (S (List.length done)) with (List.length (done ++ [m])) by (rewrite app_length; simpl; lia).
      rewrite IH.
      + rewrite <- app_assoc. reflexivity.
      + intros pre x post E. rewrite <- app_assoc. simpl. apply (Hc (m :: pre) x post). rewrite E. reflexivity.
      + rewrite app_length. simpl in *. lia.
  Qed.
End Real.

(* Every arrival list the collector can consume - at most n messages, no complete response
   before the last one, and either all n or ending with a complete one - is the dequeue
   sequence of a schedule after which the collector has returned. *)
Lemma arrival_list_realizable n cerr idle ms :
  List.length ms <= n ->
  (forall pre m post, ms = (pre ++ m :: post)%list -> can_finish pre = false) ->
  (List.length ms = n \/ can_finish ms = true) ->
  exists ls s, sys_run n cerr idle (init msg n) ls = Some s /\ fin msg s = true /\
               got msg s = ms /\ outcome (got msg s) = middleware n (map ev_of ms).
Proof.
  intros Hl Hc Hend. unfold sys_run.
  pose proof (deliver_many n cerr idle ms [] (n - List.length ms)) as D.
  simpl in D. specialize (D Hc ltac:(lia)).
  replace (List.length ms + (n - List.length ms)) with n in D by lia.
  change (st_after [] n) with (init msg n) in D.
  set (s1 := st_after ms (n - List.length ms)) in *.
  assert (Hfinish : step msg n route (MFail cerr) can_finish idle s1 LFinish =
                    Some {| ws := ws msg s1; qp := qp msg s1; qf := qf msg s1; got := got msg s1;
                            iters := iters msg s1; fin := true; cancelled := true |}).
  { unfold s1, st_after. cbn [step fin iters ws got negb andb].
    rewrite app_length, map_length, repeat_length.
    destruct Hend as [E|E].
    - replace (List.length ms + (n - List.length ms)) with (List.length ms) by lia.
      rewrite Nat.eqb_refl. reflexivity.
    - rewrite E, orb_true_r. reflexivity. }
  eexists (deliver_all 0 ms ++ [LFinish])%list, _. split.
  - rewrite (run_app n cerr idle _ _ _ _ D). cbn [run]. rewrite Hfinish. reflexivity.
  - cbn [fin got]. repeat split. unfold s1, st_after. cbn [got].
    unfold outcome, middleware.
    (* fuel: |ms| versus n - the same result, since at most |ms| events exist *)
    assert (G : forall evs f1 f2 resp err, List.length evs <= f1 -> List.length evs <= f2 ->
                collect f1 evs resp err = collect f2 evs resp err).
    { induction evs as [|e r IH]; intros f1 f2 resp err H1 H2.
      - destruct f1, f2; reflexivity.
      - simpl in H1, H2. destruct f1 as [|f1]; [lia|]. destruct f2 as [|f2]; [lia|].
        destruct e as [x|x|]; simpl.
        + destruct (r_complete x); [reflexivity|apply IH; lia].
        + apply IH; lia.
        + apply IH; lia. }
    apply G; rewrite map_length; lia.
Qed.
