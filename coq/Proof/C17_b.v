(* C17 - second part: the boolean oracle decides the Prop (both directions), and the model
   satisfies the oracle. *)
Require Import Verif.Common.Base Verif.Common.Json Verif.Model.C17 Verif.Spec.C17 Verif.Proof.C17.

(* ------------------------------------------------------------------------------------ *)
(* generic reflection helpers *)

Lemma forallb_Forall {A} (f : A -> bool) (P : A -> Prop) l :
  (forall x, f x = true <-> P x) -> forallb f l = true <-> Forall P l.
Proof.
  intros H. induction l as [|x r IH]; simpl; [split; [constructor|reflexivity]|].
  rewrite andb_true_iff, H, IH. split; [intros [? ?]; constructor; assumption|intros F; inversion F; auto].
Qed.

Lemma existsb_ex {A} (f : A -> bool) (P : A -> Prop) l :
  (forall x, f x = true <-> P x) -> existsb f l = true <-> exists x, In x l /\ P x.
Proof.
  intros H. rewrite existsb_exists. split; intros [x [H1 H2]]; exists x; split; auto; apply H; assumption.
Qed.

Lemma forallb2_Forall2 {A B} (f : A -> B -> bool) (P : A -> B -> Prop) l m :
  (forall x y, f x y = true <-> P x y) -> forallb2 f l m = true <-> Forall2 P l m.
Proof.
  intros H. revert m. induction l as [|x r IH]; destruct m as [|y t]; simpl;
    try (split; [discriminate|intros F; inversion F]).
  - split; [constructor|reflexivity].
  - rewrite andb_true_iff, H, IH. split; [intros [? ?]; constructor; assumption|intros F; inversion F; auto].
Qed.

Lemma nonempty_iff {A} (l : list A) : nonempty l = true <-> l <> [].
Proof. destruct l; simpl; split; congruence. Qed.

Lemma negb_str_empty x : negb (str_eqb x "") = true <-> x <> "".
Proof. rewrite negb_true_iff. apply str_eqb_neq. Qed.

Lemma Forall2_map_r {A B C} (P : A -> C -> Prop) (g : B -> C) l m :
  Forall2 (fun x y => P x (g y)) l m -> Forall2 P l (map g m).
Proof. intros F. induction F; simpl; constructor; auto. Qed.

Lemma Forall2_imp_In {A B} (P Q : A -> B -> Prop) l m :
  (forall x y, In y m -> P x y -> Q x y) -> Forall2 P l m -> Forall2 Q l m.
Proof.
  intros H F. induction F; constructor.
  - apply H; [left; reflexivity|assumption].
  - apply IHF. intros x' y' Hin. apply H. right; exact Hin.
Qed.

(* ------------------------------------------------------------------------------------ *)
(* the quantifier *)

Lemma nonneg_endpoint_iff e : nonneg_endpoint_b e = true <-> nonneg_endpoint e.
Proof.
  unfold nonneg_endpoint_b, nonneg_endpoint. rewrite !andb_true_iff, !Z.leb_le. tauto.
Qed.

Lemma forallb_is_jstr_dec a : forallb is_jstr a = true \/ forallb is_jstr a <> true.
Proof. destruct (forallb is_jstr a); [left; reflexivity|right; discriminate]. Qed.

Lemma merge_section_typed_iff x : merge_section_typed_b x = true <-> merge_section_typed x.
Proof.
  unfold merge_section_typed_b, merge_section_typed.
  destruct (lookup ns_proxy x) as [v|] eqn:E.
  2:{ split; [intros _ e He; discriminate|reflexivity]. }
  destruct v; try (split; [intros _ e He; discriminate|reflexivity]).
  rewrite andb_true_iff. split.
  - intros [H1 H2] e He. inversion He; subst e. split.
    + intros v Hv. rewrite Hv in H1. exact H1.
    + intros a Ha. rewrite Ha in H2. exact H2.
  - intros H. destruct (H m eq_refl) as [H1 H2]. split.
    + destruct (lookup "combiner" m) as [v|]; [apply H1; reflexivity|reflexivity].
    + destruct (lookup "sequential_propagated_params" m) as [[| | | |a| |]|]; try reflexivity.
      apply H2. reflexivity.
Qed.

Lemma well_typed_iff s : well_typed_b s = true <-> well_typed s.
Proof.
  unfold well_typed_b, well_typed, nonneg_cfg. rewrite !andb_true_iff, !Z.leb_le.
  rewrite (forallb_Forall _ nonneg_endpoint) by apply nonneg_endpoint_iff.
  assert (Hh : forall b, nonempty (b_host b) || nonempty (s_host s) = true <-> has_host s b).
  { intros b. unfold has_host. rewrite orb_true_iff, !nonempty_iff. tauto. }
  rewrite (forallb_Forall _ (fun e => merge_section_typed (e_extra e) /\ Forall (has_host s) (e_backends e))).
  2:{ intros e. rewrite andb_true_iff, merge_section_typed_iff.
      rewrite (forallb_Forall _ (has_host s)) by exact Hh. tauto. }
  rewrite (forallb_Forall _ (agent_typed s)).
  2:{ intros a. unfold agent_typed. rewrite !andb_true_iff, Z.leb_le, merge_section_typed_iff.
      rewrite (forallb_Forall _ (has_host s)) by exact Hh. tauto. }
  tauto.
Qed.

(* ------------------------------------------------------------------------------------ *)
(* the rejected class *)

Section RejectIff.
  Variable ch : string -> option string.

  Lemma bad_host_in_iff hs : bad_host_in_b ch hs = true <-> bad_host_in ch hs.
  Proof.
    unfold bad_host_in_b, bad_host_in. apply existsb_ex. intros h. destruct (ch h); split; congruence.
  Qed.

  Lemma undeclared_param_iff s e b : undeclared_param_b s e b = true <-> undeclared_param s e b.
  Proof.
    unfold undeclared_param_b, undeclared_param. apply existsb_ex. intros o.
    rewrite andb_true_iff, !negb_true_iff. split.
    - intros [H1 H2]. split; [exact H1|]. intros Hin. apply str_mem_In in Hin. congruence.
    - intros [H1 H2]. split; [exact H1|]. destruct (str_mem o (declared s e)) eqn:E; [|reflexivity].
      apply str_mem_In in E. contradiction.
  Qed.

  Lemma must_reject_iff s : must_reject_b ch s = true <-> must_reject ch s.
  Proof.
    unfold must_reject_b, must_reject. rewrite !orb_true_iff. rewrite negb_true_iff, Z.eqb_neq.
    rewrite bad_host_in_iff.
    rewrite (existsb_ex _ (fun e => exists b, In b (e_backends e) /\ b_nosan b = false /\ bad_host_in ch (b_host b))).
    2:{ intros e. apply existsb_ex. intros b. rewrite andb_true_iff, negb_true_iff, bad_host_in_iff. tauto. }
    rewrite (existsb_ex _ (fun a => exists b, In b (a_backends a) /\ b_nosan b = false /\ bad_host_in ch (b_host b))).
    2:{ intros a. apply existsb_ex. intros b. rewrite andb_true_iff, negb_true_iff, bad_host_in_iff. tauto. }
    rewrite (existsb_ex _ (fun e => no_backends e \/ bad_path e \/ noop_multi s e \/
                                    exists b, In b (e_backends e) /\ undeclared_param s e b)).
    2:{ intros e. rewrite !orb_true_iff, negb_true_iff, andb_true_iff.
        rewrite (existsb_ex _ (undeclared_param s e)) by (intros; apply undeclared_param_iff).
        unfold no_backends, bad_path, noop_multi. rewrite str_eqb_eq, Nat.leb_le.
        assert (Hn : nonempty (e_backends e) = false <-> e_backends e = []) by (destruct (e_backends e); simpl; split; congruence).
        rewrite Hn. tauto. }
    unfold bad_version, invalid_host. split.
    - intros [[[[H|H]|[e [He [b Hb]]]]|[a [Ha [b Hb]]]]|H];
        [left; exact H|right; left; left; exact H| | |right; right; exact H].
      + right; left; right; left. exists e, b. tauto.
      + right; left; right; right. exists a, b. tauto.
    - intros [H|[[H|[[e [b [He Hb]]]|[a [b [Ha Hb]]]]]|H]];
        [left; left; left; left; exact H|left; left; left; right; exact H| | |right; exact H].
      + left; left; right. exists e. split; [tauto|]. exists b. tauto.
      + left; right. exists a. split; [tauto|]. exists b. tauto.
  Qed.
End RejectIff.

(* ------------------------------------------------------------------------------------ *)
(* the post-conditions on observations *)

Section OracleIff.
  Variable tbl : list (string * option string).

  Lemma sanitised_iff h : sanitised_b tbl h = true <-> sanitised (tbl_fun tbl) h.
  Proof.
    unfold sanitised_b, sanitised. rewrite existsb_exists. split.
    - intros [h0 [_ H]]. exists h0. unfold opt_str_eqb, opt_eqb in H.
      destruct (tbl_fun tbl h0) as [x|]; [|discriminate]. apply str_eqb_eq in H. congruence.
    - intros [h0 H]. exists h0. split.
      + unfold tbl_fun in H. destruct (lookup h0 tbl) eqn:E; [|discriminate]. eapply lookup_Some_in; eauto.
      + rewrite H. simpl. apply str_eqb_refl.
  Qed.

  Lemma canonical_iff h : canonical_b h = true <-> canonical h.
  Proof. unfold canonical_b, canonical. apply str_eqb_eq. Qed.

  Lemma resolvable_iff decl url ks : resolvable_b decl url ks = true <-> placeholders_resolvable decl url ks.
  Proof.
    unfold resolvable_b, placeholders_resolvable. rewrite andb_true_iff.
    rewrite (forallb_Forall _ (fun k => exists o, k = cap o /\ In o (simple_keys (clean_path url)) /\
                                                  (seq_param o = true \/ In o decl))).
    2:{ intros k. rewrite existsb_exists. split.
        - intros [o [Ho H]]. apply andb_true_iff in H. destruct H as [H1 H2].
          exists o. apply str_eqb_eq in H1. apply orb_true_iff in H2. rewrite str_mem_In in H2. tauto.
        - intros [o [H1 [H2 H3]]]. exists o. split; [exact H2|].
          rewrite andb_true_iff, orb_true_iff, str_mem_In, str_eqb_eq. tauto. }
    rewrite forallb_forall. split; intros [H1 H2]; (split; [exact H1|]); intros o Ho.
    - apply str_mem_In. apply H2. exact Ho.
    - apply str_mem_In. apply H2. exact Ho.
  Qed.

  Lemma is_dnil_iff d : negb (is_dnil d) = true <-> d <> DNil.
  Proof. destruct d; simpl; split; congruence. Qed.
  Lemma is_kpanic_iff k : negb (is_kpanic k) = true <-> k <> KPanic.
  Proof. destruct k; simpl; split; congruence. Qed.

  Lemma post_backend_iff decl b o : post_backend_b tbl decl b o = true <-> bobs_ok (tbl_fun tbl) decl b o.
  Proof.
    unfold post_backend_b, bobs_ok. rewrite !andb_true_iff, negb_str_empty, Z.ltb_lt, Z.leb_le, is_dnil_iff,
      nonempty_iff, resolvable_iff, orb_true_iff.
    rewrite (forallb_Forall canonical_b canonical) by apply canonical_iff.
    rewrite (forallb_Forall (sanitised_b tbl) (sanitised (tbl_fun tbl))) by apply sanitised_iff.
    destruct (b_nosan b); intuition congruence.
  Qed.

  Lemma post_endpoint_iff s e o : post_endpoint_b tbl s e o = true <-> eobs_ok (tbl_fun tbl) s e o.
  Proof.
    unfold post_endpoint_b, eobs_ok. rewrite !andb_true_iff, negb_str_empty, Z.ltb_lt, Z.leb_le, is_kpanic_iff.
    rewrite (forallb_Forall canonical_b canonical) by apply canonical_iff.
    rewrite (forallb2_Forall2 _ (bobs_ok (tbl_fun tbl) (declared s e))) by (intros; apply post_backend_iff).
    rewrite orb_true_iff, negb_true_iff.
    rewrite (forallb_Forall _ (fun ob => ob_dec ob = DNoop)) by (intros ob; destruct (ob_dec ob); simpl; split; congruence).
    destruct (str_eqb (eff_enc s e) noop) eqn:E.
    - apply str_eqb_eq in E. intuition congruence.
    - apply str_eqb_neq in E. intuition congruence.
  Qed.

  Lemma post_agent_backend_iff b o : post_agent_backend_b tbl b o = true <-> abobs_ok (tbl_fun tbl) b o.
  Proof.
    unfold post_agent_backend_b, abobs_ok. rewrite !andb_true_iff, negb_str_empty, Z.ltb_lt, is_dnil_iff,
      nonempty_iff, orb_true_iff.
    rewrite (forallb_Forall (sanitised_b tbl) (sanitised (tbl_fun tbl))) by apply sanitised_iff.
    destruct (b_nosan b); intuition congruence.
  Qed.

  Lemma post_agent_iff a o : post_agent_b tbl a o = true <-> aobs_ok (tbl_fun tbl) a o.
  Proof.
    unfold post_agent_b, aobs_ok. rewrite !andb_true_iff, Z.ltb_lt, !Z.leb_le, is_kpanic_iff.
    rewrite (forallb2_Forall2 _ (abobs_ok (tbl_fun tbl))) by (intros; apply post_agent_backend_iff).
    tauto.
  Qed.

  (* the oracle decides the property of an observation *)
  Lemma spec_b_iff s o : spec_b tbl s o = true <-> Spec tbl s o.
  Proof.
    unfold spec_b, Spec. destruct (well_typed_b s) eqn:Ew.
    - apply well_typed_iff in Ew. destruct o as [| |es ags].
      + split; [discriminate|]. intros H. destruct (H Ew) as [H1 _]. congruence.
      + split; [|reflexivity]. intros _ _. repeat split; [discriminate| |]; intros; discriminate.
      + rewrite !andb_true_iff, negb_true_iff.
        rewrite (forallb2_Forall2 _ (eobs_ok (tbl_fun tbl) s)) by (intros; apply post_endpoint_iff).
        rewrite (forallb2_Forall2 _ (aobs_ok (tbl_fun tbl))) by (intros; apply post_agent_iff).
        split.
        * intros [[H1 H2] H3] _. split; [discriminate|]. split.
          -- intros Hr. apply must_reject_iff in Hr. congruence.
          -- intros es' ags' He. inversion He; subst. split; assumption.
        * intros H. destruct (H Ew) as [_ [H2 H3]]. destruct (H3 es ags eq_refl) as [H4 H5].
          split; [split|]; [|exact H4|exact H5].
          destruct (must_reject_b (tbl_fun tbl) s) eqn:Er; [|reflexivity].
          apply must_reject_iff in Er. specialize (H2 Er). discriminate.
    - split; [|reflexivity]. intros _ Hw. apply well_typed_iff in Hw. congruence.
  Qed.

  (* the model's own prediction satisfies the property (totality + rejection + post) *)
  Lemma model_spec rd tl s : tl noop = noop -> Spec tbl s (obs_of rd (init (tbl_fun tbl) tl s)).
  Proof.
    intros Htl Hw. destruct (total (tbl_fun tbl) tl s Hw) as [Hnp Hf].
    pose proof (total_agents (tbl_fun tbl) tl s Hw) as Hfa.
    destruct (init (tbl_fun tbl) tl s) as [c|e|site] eqn:E; simpl.
    - split; [discriminate|]. split.
      + intros Hr. exfalso. exact (ok_not_rejected _ _ _ _ E Hr).
      + intros es ags He. inversion He; subst es ags; clear He. split.
        2:{ pose proof (post_agents (tbl_fun tbl) tl s c Hw E) as PA.
            apply Forall2_map_r. eapply Forall2_imp_In; [|exact PA].
            intros a0 a' Hin [P1 [P2 [P3 P4]]]. unfold aobs_ok, aobs_of. simpl. repeat split; auto.
            - apply Forall2_map_r. eapply Forall2_imp; [|exact P4].
              intros b b' Hb. unfold post_agent_backend in Hb. unfold abobs_ok, bobs_of. simpl. tauto.
            - destruct (agent_factory_new rd a') as [| |st] eqn:Ef; simpl; try discriminate.
              exfalso. exact (Hfa c eq_refl rd a' Hin st Ef). }
        pose proof (post (tbl_fun tbl) tl Htl s c Hw E) as P.
        apply Forall2_map_r. eapply Forall2_imp_In; [|exact P].
        intros e0 e' Hin [P1 [P2 [P3 [P4 [P5 P6]]]]]. unfold eobs_ok, eobs_of. simpl. repeat split; auto.
        3:{ intros Hno. specialize (P6 Hno). apply Forall_forall. intros ob Hob.
            apply in_map_iff in Hob. destruct Hob as [b' [<- Hb']]. rewrite Forall_forall in P6. simpl. apply P6. exact Hb'. }
        * apply Forall2_map_r. eapply Forall2_imp; [|exact P5].
          intros b b' Hb. unfold post_backend in Hb. unfold bobs_ok, bobs_of. simpl. tauto.
        * destruct (factory_new rd e') as [| |st] eqn:Ef; simpl; try discriminate.
          exfalso. exact (Hf c eq_refl rd e' Hin st Ef).
    - repeat split; [discriminate| |]; intros; discriminate.
    - exfalso. exact (Hnp site eq_refl).
  Qed.
End OracleIff.

(* ------------------------------------------------------------------------------------ *)
(* the path scanner is an unanchored search: a path is reserved or malformed exactly when it
   does not start with a slash, or some suffix of it starts with a star followed by a
   non-newline byte, or with /__debug, /__echo or /__health running to the end of the path
   (directly, or through a slash and non-newline bytes) *)
Lemma invalid_anywhere_iff s :
  invalid_anywhere s = true <->
  exists pre rest, s = (pre ++ rest)%string /\ (star_at rest = true \/ reserved_at rest = true).
Proof.
  induction s as [|c r IH].
  - simpl. split; [discriminate|]. intros [pre [rest [H [Hs|Hr]]]].
    + destruct pre; destruct rest; simpl in *; try discriminate.
    + destruct pre; destruct rest; simpl in *; try discriminate.
  - change (invalid_anywhere (String c r)) with (star_at (String c r) || reserved_at (String c r) || invalid_anywhere r).
    rewrite !orb_true_iff, IH. split.
    + intros [[H|H]|[pre [rest [E H]]]].
      * exists EmptyString, (String c r). split; [reflexivity|left; exact H].
      * exists EmptyString, (String c r). split; [reflexivity|right; exact H].
      * exists (String c pre), rest. split; [simpl; rewrite E; reflexivity|exact H].
    + intros [pre [rest [E H]]]. destruct pre as [|a pre'].
      * simpl in E. subst rest. destruct H; [left; left|left; right]; assumption.
      * simpl in E. inversion E; subst. right. exists pre', rest. split; [reflexivity|exact H].
Qed.

Lemma invalid_path_iff s :
  invalid_path s = true <->
  (exists a r, s = String a r /\ is_c c_slash a = false) \/
  (s <> EmptyString /\ exists pre rest, s = (pre ++ rest)%string /\ (star_at rest = true \/ reserved_at rest = true)).
Proof.
  destruct s as [|a r].
  - simpl. split; [discriminate|]. intros [[a [r [H _]]]|[H _]]; [discriminate|congruence].
  - unfold invalid_path. rewrite orb_true_iff, negb_true_iff, invalid_anywhere_iff. split.
    + intros [H|H]; [left; exists a, r; auto|right; split; [discriminate|exact H]].
    + intros [[a' [r' [E H]]]|[_ H]]; [inversion E; subst; left; exact H|right; exact H].
Qed.
