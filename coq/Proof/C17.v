(* C17 - lemmas and proofs. *)
Require Import Verif.Common.Base Verif.Common.Json Verif.Model.C17 Verif.Spec.C17.

(* ------------------------------------------------------------------------------------ *)
(* monadic plumbing *)

Lemma bind_ok {A B} (r : result A) (f : A -> result B) y :
  bind r f = Ok y -> exists x, r = Ok x /\ f x = Ok y.
Proof. destruct r; simpl; intros H; try discriminate. eauto. Qed.

Lemma bind_no_panic {A B} (r : result A) (f : A -> result B) :
  (forall s, r <> Panic s) -> (forall x s, r = Ok x -> f x <> Panic s) -> forall s, bind r f <> Panic s.
Proof.
  intros Hr Hf s. destruct r; simpl.
  - apply Hf. reflexivity.
  - discriminate.
  - exfalso. apply (Hr site). reflexivity.
Qed.

Lemma mapM_ok {A B} (f : A -> result B) l ys :
  mapM f l = Ok ys -> Forall2 (fun x y => f x = Ok y) l ys.
Proof.
  revert ys. induction l as [|x r IH]; simpl; intros ys H.
  - inversion H. constructor.
  - apply bind_ok in H. destruct H as [y [Hy H]].
    apply bind_ok in H. destruct H as [ys' [Hys H]]. inversion H; subst.
    constructor; auto.
Qed.

Lemma mapM_no_panic {A B} (f : A -> result B) l :
  (forall x s, In x l -> f x <> Panic s) -> forall s, mapM f l <> Panic s.
Proof.
  induction l as [|x r IH]; simpl; intros Hf s; [discriminate|].
  apply bind_no_panic.
  - intros s'. apply Hf. left; reflexivity.
  - intros y s' _. apply bind_no_panic.
    + apply IH. intros x' s'' Hin. apply Hf. right; exact Hin.
    + intros; discriminate.
Qed.

Lemma Forall2_imp {A B} (P Q : A -> B -> Prop) l m :
  (forall x y, P x y -> Q x y) -> Forall2 P l m -> Forall2 Q l m.
Proof. intros H F. induction F; constructor; auto. Qed.

(* an element that does not map to Ok makes mapM fail or panic: never Ok *)
Lemma mapM_ok_all {A B} (f : A -> result B) l ys x :
  mapM f l = Ok ys -> In x l -> exists y, f x = Ok y /\ In y ys.
Proof.
  intros H. apply mapM_ok in H. induction H; simpl; intros Hin; [contradiction|].
  destruct Hin as [->|Hin]; [eexists; split; [eassumption|left; reflexivity]|].
  destruct (IHForall2 Hin) as [y' [H1 H2]]. exists y'. split; [assumption|right; assumption].
Qed.

(* ------------------------------------------------------------------------------------ *)
(* strings *)

Lemma get_some s : forall n, (n < String.length s)%nat -> String.get n s <> None.
Proof.
  induction s as [|c r IH]; simpl; intros n Hn; [lia|].
  destruct n; [discriminate|]. apply IH. lia.
Qed.

Lemma substring_all s : String.substring 0 (String.length s) s = s.
Proof. induction s as [|c r IH]; simpl; [reflexivity|]. rewrite IH. reflexivity. Qed.

Lemma str_eqb_false_iff a b : str_eqb a b = false <-> a <> b.
Proof. apply str_eqb_neq. Qed.

(* ------------------------------------------------------------------------------------ *)
(* the scanners only produce non-empty keys *)

Lemma brace_at_nonempty cls s k n : brace_at cls s = Some (k, n) -> k <> EmptyString.
Proof.
  unfold brace_at. destruct s as [|a r]; [discriminate|].
  destruct (is_c c_lbrace a); [|discriminate].
  destruct (span cls r) as [k' rest]. destruct k'; [discriminate|].
  destruct rest; [discriminate|]. destruct (is_c c_rbrace a1); [|discriminate].
  intros H. inversion H; subst. discriminate.
Qed.

Lemma simple_at_nonempty s k n : simple_at s = Some (k, n) -> k <> EmptyString.
Proof. apply brace_at_nonempty. Qed.

Lemma strict_at_nonempty s k n : strict_at s = Some (k, n) -> k <> EmptyString.
Proof.
  unfold strict_at. destruct s as [|a r]; [discriminate|]. destruct (is_c c_slash a); [|discriminate].
  destruct (brace_at strict_class r) as [[k' n']|] eqn:E; [|discriminate].
  intros H. inversion H; subst. eapply brace_at_nonempty; eauto.
Qed.

Lemma find_all_nonempty at_ :
  (forall s k n, at_ s = Some (k, n) -> k <> EmptyString) ->
  forall s skip k, In k (find_all at_ skip s) -> k <> EmptyString.
Proof.
  intros Hat. induction s as [|c r IH]; simpl; intros skip k Hin; [contradiction|].
  destruct skip; [|eapply IH; eauto].
  destruct (at_ (String c r)) as [[key n]|] eqn:E.
  - destruct Hin as [<-|Hin]; [eapply Hat; eauto|eapply IH; eauto].
  - eapply IH; eauto.
Qed.

Lemma simple_keys_nonempty s k : In k (simple_keys s) -> k <> EmptyString.
Proof. apply find_all_nonempty. apply simple_at_nonempty. Qed.
Lemma strict_keys_nonempty s k : In k (strict_keys s) -> k <> EmptyString.
Proof. apply find_all_nonempty. apply strict_at_nonempty. Qed.

(* ------------------------------------------------------------------------------------ *)
(* sort / dedup keep the elements *)

Lemma insert_sorted_In x y l : In y (insert_sorted x l) <-> y = x \/ In y l.
Proof.
  induction l as [|z r IH]; simpl; [intuition|].
  destruct (str_leb x z); simpl; [intuition|]. rewrite IH. intuition.
Qed.

Lemma sort_strings_In y l : In y (sort_strings l) <-> In y l.
Proof.
  induction l as [|x r IH]; simpl; [tauto|]. rewrite insert_sorted_In, IH. intuition.
Qed.

Lemma dedup_In y l : In y (dedup l) <-> In y l.
Proof.
  induction l as [|x r IH]; [simpl; tauto|].
  change (dedup (x :: r)) with (match r with z :: _ => if str_eqb x z then dedup r else x :: dedup r | [] => [x] end).
  destruct r as [|z t].
  - simpl. tauto.
  - destruct (str_eqb x z) eqn:E.
    + apply str_eqb_eq in E. subst z. rewrite IH. simpl. intuition.
    + simpl In at 1. rewrite IH. simpl. intuition.
Qed.

Lemma unique_output_In o l : In o (fst (unique_output l)) <-> In o l.
Proof. unfold unique_output. simpl. rewrite dedup_In, sort_strings_In. tauto. Qed.

(* ------------------------------------------------------------------------------------ *)
(* the URL-mapping loop *)

Lemma slice_head_tail o : o <> EmptyString ->
  exists h t, sliceZ o 0 1 = Some h /\ sliceZ o 1 (Z.of_nat (String.length o)) = Some t /\ (cap h ++ t)%string = cap o.
Proof.
  destruct o as [|c r]; [congruence|]. intros _.
  exists (String c EmptyString), r. unfold sliceZ.
  replace ((0 <=? 0) && (0 <=? 1) && (1 <=? Z.of_nat (String.length (String c r))))%Z with true
    by (simpl String.length; symmetry; repeat (apply andb_true_intro; split); apply Z.leb_le; lia).
  replace ((0 <=? 1) && (1 <=? Z.of_nat (String.length (String c r))) &&
           (Z.of_nat (String.length (String c r)) <=? Z.of_nat (String.length (String c r))))%Z with true
    by (simpl String.length; symmetry; repeat (apply andb_true_intro; split); apply Z.leb_le; lia).
  repeat split.
  - simpl. destruct r; reflexivity.
  - replace (Z.to_nat (Z.of_nat (String.length (String c r)) - 1)) with (String.length r) by (simpl String.length; lia).
    change (Z.to_nat 1) with 1%nat. simpl. rewrite substring_all. reflexivity.
Qed.

Lemma rewrite_keys_no_panic decl outs : (forall o, In o outs -> o <> EmptyString) ->
  forall url keys s, rewrite_keys decl outs url keys <> Panic s.
Proof.
  induction outs as [|o r IH]; simpl; intros Hne url keys s; [discriminate|].
  destruct (negb (seq_param o) && negb (str_mem o decl)); [discriminate|].
  destruct (slice_head_tail o) as [h [t [H1 [H2 _]]]]; [apply Hne; left; reflexivity|].
  rewrite H1, H2. apply IH. intros o' Hin. apply Hne. right; exact Hin.
Qed.

(* what an Ok run of the loop says about the keys *)
Lemma rewrite_keys_ok decl outs : (forall o, In o outs -> o <> EmptyString) ->
  forall url keys url' keys', rewrite_keys decl outs url keys = Ok (url', keys') ->
    keys' = (keys ++ map cap outs)%list /\
    Forall (fun o => seq_param o = true \/ In o decl) outs.
Proof.
  induction outs as [|o r IH]; simpl; intros Hne url keys url' keys' H.
  - inversion H; subst. rewrite app_nil_r. split; [reflexivity|constructor].
  - destruct (negb (seq_param o) && negb (str_mem o decl)) eqn:E; [discriminate|].
    destruct (slice_head_tail o) as [h [t [H1 [H2 H3]]]]; [apply Hne; left; reflexivity|].
    rewrite H1, H2, H3 in H. apply IH in H; [|intros o' Hin; apply Hne; right; exact Hin].
    destruct H as [Hk Hf]. split.
    + rewrite Hk, <- app_assoc. reflexivity.
    + constructor; [|exact Hf].
      apply andb_false_iff in E. destruct E as [E|E]; apply negb_false_iff in E.
      * left; exact E.
      * right. apply str_mem_In. exact E.
Qed.

Lemma ambiguous_go_no_panic ps : (forall p, In p ps -> p <> EmptyString) ->
  forall seen s, ambiguous_go seen ps <> Panic s.
Proof.
  induction ps as [|p r IH]; simpl; intros Hne seen s; [discriminate|].
  destruct (slice_head_tail p) as [h [t [H1 [H2 _]]]]; [apply Hne; left; reflexivity|].
  rewrite H1, H2.
  assert (Hr : forall seen', ambiguous_go seen' r <> Panic s) by (intros; apply IH; intros; apply Hne; right; assumption).
  destruct (lookup (cap h ++ t)%string seen); [|apply Hr].
  destruct (negb (str_eqb s0 p)); [discriminate|apply Hr].
Qed.

(* ------------------------------------------------------------------------------------ *)
(* Init never panics (for every configuration, every sanitiser, every lower-casing) *)

Section InitFacts.
  Variable ch : string -> option string.
  Variable tl : string -> string.

  Lemma keys_of_url_nonempty url o : In o (fst (unique_output (simple_keys url))) -> o <> EmptyString.
  Proof. intros H. apply (proj1 (unique_output_In o (simple_keys url))) in H. exact (simple_keys_nonempty _ _ H). Qed.

  Lemma init_backend_no_panic sh e decl b s : init_backend ch tl sh e decl b <> Panic s.
  Proof.
    unfold init_backend. apply bind_no_panic.
    - intros s'. destruct (b_host b); [discriminate|]. destruct (b_nosan b); [discriminate|].
      destruct (clean_hosts ch (s0 :: l)); discriminate.
    - intros hosts s' _. unfold unique_output. cbv zeta beta iota.
      match goal with |- (if ?c then _ else _) <> _ => destruct c end; [discriminate|].
      apply bind_no_panic.
      + apply rewrite_keys_no_panic. intros o Hin. apply (keys_of_url_nonempty (clean_path (b_url b))).
        unfold unique_output. simpl. exact Hin.
      + intros; discriminate.
  Qed.

  Lemma init_endpoint_no_panic sv e s : init_endpoint ch tl sv e <> Panic s.
  Proof.
    unfold init_endpoint. destruct (invalid_path _); [discriminate|].
    destruct (e_backends e) as [|b0 bs] eqn:Eb; [discriminate|]. cbv zeta.
    apply bind_no_panic.
    - apply ambiguous_go_no_panic. intros p Hp.
      destruct (s_norest sv); [eapply simple_keys_nonempty|eapply strict_keys_nonempty]; exact Hp.
    - intros amb s' _. destruct amb; [discriminate|].
      match goal with |- (if ?c then _ else _) <> _ => destruct c end; [discriminate|].
      apply bind_no_panic.
      + apply mapM_no_panic. intros; apply init_backend_no_panic.
      + intros; discriminate.
  Qed.

  Lemma init_agent_backend_no_panic sh t b s : init_agent_backend ch tl sh t b <> Panic s.
  Proof.
    unfold init_agent_backend. apply bind_no_panic; [|intros; discriminate].
    intros s'. destruct (b_host b); [discriminate|]. destruct (b_nosan b); [discriminate|].
    destruct (clean_hosts ch (s0 :: l)); discriminate.
  Qed.

  Lemma init_agent_no_panic sv a s : init_agent ch tl sv a <> Panic s.
  Proof.
    unfold init_agent. cbv zeta. apply bind_no_panic; [|intros; discriminate].
    apply mapM_no_panic. intros; apply init_agent_backend_no_panic.
  Qed.

  Lemma init_no_panic sv s : init ch tl sv <> Panic s.
  Proof.
    unfold init. destruct (negb _); [discriminate|]. destruct (s_bad_addr sv); [discriminate|].
    destruct (clean_hosts ch (s_host sv)); [|discriminate]. cbv zeta.
    apply bind_no_panic.
    - apply mapM_no_panic. intros; apply init_agent_no_panic.
    - intros ags s' _. apply bind_no_panic.
      + apply mapM_no_panic. intros; apply init_endpoint_no_panic.
      + intros; discriminate.
  Qed.

  (* ---------------------------------------------------------------------------------- *)
  (* what Ok says *)

  Lemma clean_hosts_ok hs hs' : clean_hosts ch hs = Some hs' ->
    Forall (sanitised ch) hs' /\ List.length hs' = List.length hs /\ (forall h, In h hs -> ch h <> None).
  Proof.
    revert hs'. induction hs as [|h r IH]; simpl; intros hs' H.
    - inversion H; subst. repeat split; [constructor|tauto].
    - destruct (ch h) as [h'|] eqn:E; [|discriminate].
      destruct (clean_hosts ch r) as [r'|]; [|discriminate]. inversion H; subst.
      destruct (IH r' eq_refl) as [H1 [H2 H3]]. repeat split.
      + constructor; [exists h; exact E|exact H1].
      + simpl. rewrite H2. reflexivity.
      + intros x [<-|Hin]; [congruence|apply H3; exact Hin].
  Qed.

  Definition backend_facts (sh : list string) (e : endpoint) (decl : list string) (b b' : backend) : Prop :=
    (b_host b = [] -> b_host b' = sh) /\
    (b_host b <> [] -> b_nosan b = true -> b_host b' = b_host b) /\
    (b_host b <> [] -> b_nosan b = false -> clean_hosts ch (b_host b) = Some (b_host b')) /\
    b_method b' = (if str_eqb (b_method b) "" then e_method e else b_method b) /\
    b_timeout b' = e_timeout e /\ b_cc b' = e_cc e /\
    b_dec b' = decoder_of (tl (if str_eqb (e_enc e) noop then noop else b_enc b)) (b_coll b) /\
    b_hdrs b' = map canon_header (b_hdrs b) /\
    b_extra b' = b_extra b /\ b_sd b' = b_sd b /\
    b_keys b' = map cap (fst (unique_output (simple_keys (clean_path (b_url b))))) /\
    Forall (fun o => seq_param o = true \/ In o decl) (fst (unique_output (simple_keys (clean_path (b_url b))))).

  Lemma init_backend_ok sh e decl b b' :
    init_backend ch tl sh e decl b = Ok b' -> backend_facts sh e decl b b'.
  Proof.
    unfold init_backend. intros H. apply bind_ok in H. destruct H as [hosts [Hh H]].
    unfold unique_output in H. cbv zeta beta iota in H.
    match type of H with (if ?c then _ else _) = _ => destruct c end; [discriminate|].
    apply bind_ok in H. destruct H as [[url' keys'] [Hrw H]].
    apply rewrite_keys_ok in Hrw.
    2:{ intros o Hin. apply (keys_of_url_nonempty (clean_path (b_url b))). unfold unique_output. simpl. exact Hin. }
    destruct Hrw as [Hk Hf]. inversion H; subst b'; clear H. unfold backend_facts, unique_output. simpl.
    repeat split; auto.
    - intros E. rewrite E in Hh. inversion Hh. reflexivity.
    - intros Hne Hn. destruct (b_host b); [congruence|]. rewrite Hn in Hh. inversion Hh. reflexivity.
    - intros Hne Hn. destruct (b_host b) as [|h0 r0]; [congruence|]. rewrite Hn in Hh.
      destruct (clean_hosts ch (h0 :: r0)); [inversion Hh; reflexivity|discriminate].
  Qed.

  Definition endpoint_facts (sv : svc) (e e' : endpoint) : Prop :=
    invalid_path (clean_path (e_path e)) = false /\ e_backends e <> [] /\
    e_method e' = (if str_eqb (e_method e) "" then "GET" else e_method e) /\
    e_timeout e' = (if negb (s_timeout sv =? 0)%Z && (e_timeout e =? 0)%Z then s_timeout sv else e_timeout e) /\
    e_cc e' = (if (e_cc e =? 0)%Z then 1%Z else e_cc e) /\
    e_enc e' = eff_enc sv e /\
    e_hdrs e' = map canon_header (e_hdrs e) /\ e_extra e' = e_extra e /\
    (str_eqb (eff_enc sv e) noop && (1 <? List.length (e_backends e))%nat = false) /\
    Forall2 (backend_facts (s_host sv) e' (declared sv e)) (e_backends e) (e_backends e').

  Lemma backend_facts_ext sh e1 e2 decl b b' :
    e_method e1 = e_method e2 -> e_enc e1 = e_enc e2 -> e_timeout e1 = e_timeout e2 -> e_cc e1 = e_cc e2 ->
    backend_facts sh e1 decl b b' -> backend_facts sh e2 decl b b'.
  Proof. unfold backend_facts. intros -> -> -> ->. tauto. Qed.

  Lemma init_endpoint_ok sv e e' : init_endpoint ch tl sv e = Ok e' -> endpoint_facts sv e e'.
  Proof.
    unfold init_endpoint. destruct (invalid_path (clean_path (e_path e))) eqn:Ep; [discriminate|].
    destruct (e_backends e) as [|b0 bs] eqn:Eb; [discriminate|]. cbv zeta. rewrite <- Eb.
    fold (eff_enc sv e). fold (declared sv e).
    intros H. apply bind_ok in H. destruct H as [amb [_ H]]. destruct amb; [discriminate|].
    destruct (str_eqb (eff_enc sv e) noop && (1 <? List.length (e_backends e))%nat) eqn:En; [discriminate|].
    apply bind_ok in H. destruct H as [bs' [Hm H]]. inversion H; subst e'; clear H.
    unfold endpoint_facts. simpl. repeat split; auto; [rewrite Eb; discriminate|].
    apply mapM_ok in Hm. eapply Forall2_imp; [|exact Hm].
    intros b b' Hb. apply init_backend_ok in Hb. eapply backend_facts_ext; [..|exact Hb]; reflexivity.
  Qed.

  Definition svc1 (sv : svc) (hs : list string) : svc :=
    {| s_version := s_version sv; s_bad_addr := false; s_host := hs;
       s_timeout := (if (s_timeout sv =? 0)%Z then default_timeout else s_timeout sv);
       s_cache := s_cache sv; s_enc := s_enc sv; s_norest := s_norest sv; s_endpoints := s_endpoints sv;
       s_agents := s_agents sv |}.

  Definition agent_backend_facts (sh : list string) (timeout : Z) (b b' : backend) : Prop :=
    (b_host b = [] -> b_host b' = sh) /\
    (b_host b <> [] -> b_nosan b = true -> b_host b' = b_host b) /\
    (b_host b <> [] -> b_nosan b = false -> clean_hosts ch (b_host b) = Some (b_host b')) /\
    b_method b' = (if str_eqb (b_method b) "" then "GET" else b_method b) /\
    b_timeout b' = timeout /\ b_dec b' = decoder_of (tl (b_enc b)) (b_coll b) /\
    b_extra b' = b_extra b /\ b_sd b' = b_sd b /\ b_enc b' = b_enc b.

  Lemma init_agent_backend_ok sh t b b' :
    init_agent_backend ch tl sh t b = Ok b' -> agent_backend_facts sh t b b'.
  Proof.
    unfold init_agent_backend. intros H. apply bind_ok in H. destruct H as [hosts [Hh H]].
    inversion H; subst b'; clear H. unfold agent_backend_facts. simpl. repeat split; auto.
    - intros E. rewrite E in Hh. inversion Hh. reflexivity.
    - intros Hne Hn. destruct (b_host b); [congruence|]. rewrite Hn in Hh. inversion Hh. reflexivity.
    - intros Hne Hn. destruct (b_host b) as [|h0 r0]; [congruence|]. rewrite Hn in Hh.
      destruct (clean_hosts ch (h0 :: r0)); [inversion Hh; reflexivity|discriminate].
  Qed.

  Definition agent_facts (sv : svc) (a a' : agent) : Prop :=
    a_timeout a' = (if negb (s_timeout sv =? 0)%Z && (a_timeout a =? 0)%Z then s_timeout sv else a_timeout a) /\
    a_workers a' = (if (a_workers a <? 1)%Z then 1%Z else a_workers a) /\
    a_health a' = (if (a_health a <? second)%Z then second else a_health a) /\
    a_extra a' = a_extra a /\
    Forall2 (agent_backend_facts (s_host sv) (a_timeout a')) (a_backends a) (a_backends a').

  Lemma init_agent_ok sv a a' : init_agent ch tl sv a = Ok a' -> agent_facts sv a a'.
  Proof.
    unfold init_agent. cbv zeta. intros H. apply bind_ok in H. destruct H as [bs [Hm H]].
    inversion H; subst a'; clear H. unfold agent_facts. simpl. repeat split; auto.
    apply mapM_ok in Hm. eapply Forall2_imp; [|exact Hm].
    intros b b' Hb. apply init_agent_backend_ok. exact Hb.
  Qed.

  Lemma init_ok sv c : init ch tl sv = Ok c ->
    s_version sv = config_version /\
    exists hs, clean_hosts ch (s_host sv) = Some hs /\
      Forall2 (endpoint_facts (svc1 sv hs)) (s_endpoints sv) (s_endpoints c) /\
      Forall2 (agent_facts (svc1 sv hs)) (s_agents sv) (s_agents c).
  Proof.
    unfold init. destruct (s_version sv =? config_version)%Z eqn:Ev; simpl; [|discriminate].
    destruct (s_bad_addr sv); [discriminate|].
    destruct (clean_hosts ch (s_host sv)) as [hs|] eqn:Eh; [|discriminate]. cbv zeta.
    intros H. apply bind_ok in H. destruct H as [ags [Ha H]].
    apply bind_ok in H. destruct H as [es [Hm H]]. inversion H; subst c; clear H. simpl.
    split; [apply Z.eqb_eq; exact Ev|]. exists hs. split; [reflexivity|]. split.
    - apply mapM_ok in Hm. eapply Forall2_imp; [|exact Hm].
      intros e e' He. apply init_endpoint_ok in He. exact He.
    - apply mapM_ok in Ha. eapply Forall2_imp; [|exact Ha].
      intros a a' He. apply init_agent_ok in He. exact He.
  Qed.
End InitFacts.

(* ------------------------------------------------------------------------------------ *)
(* the factory *)

Lemma seq_f_no_panic a b : (forall s, a <> FPanic s) -> (forall s, b <> FPanic s) -> forall s, seq_f a b <> FPanic s.
Proof. intros Ha Hb s. destruct a; simpl; auto. Qed.

Lemma all_f_no_panic {A} (f : A -> fres) l :
  (forall x, In x l -> forall s, f x <> FPanic s) -> forall s, all_f f l <> FPanic s.
Proof.
  induction l as [|x r IH]; simpl; intros H s; [discriminate|].
  apply seq_f_no_panic; [apply H; left; reflexivity|apply IH; intros; apply H; right; assumption].
Qed.

Lemma idxZ_some s i : (0 <= i < Z.of_nat (String.length s))%Z -> idxZ s i <> None.
Proof.
  intros H. unfold idxZ. destruct (i <? 0)%Z eqn:E; [apply Z.ltb_lt in E; lia|].
  apply get_some. lia.
Qed.

Lemma sliceZ_some s lo hi : (0 <= lo <= hi)%Z -> (hi <= Z.of_nat (String.length s))%Z -> sliceZ s lo hi <> None.
Proof.
  intros H1 H2. unfold sliceZ.
  replace ((0 <=? lo) && (lo <=? hi) && (hi <=? Z.of_nat (String.length s)))%Z with true; [discriminate|].
  symmetry. repeat (apply andb_true_intro; split); apply Z.leb_le; lia.
Qed.

(* graphql.New after the repair: the length guard covers all four sites *)
Lemma gql_var_no_panic val s : gql_var val <> FPanic s.
Proof.
  unfold gql_var. destruct (2 <? Z.of_nat (String.length val))%Z eqn:E; [|discriminate].
  apply Z.ltb_lt in E.
  destruct (idxZ val 0) eqn:E0; [|exfalso; revert E0; apply idxZ_some; lia].
  destruct (negb (is_c c_lbrace a)); [discriminate|].
  destruct (idxZ val (Z.of_nat (String.length val) - 1)) eqn:E1; [|exfalso; revert E1; apply idxZ_some; lia].
  destruct (negb (is_c c_rbrace a0)); [discriminate|].
  destruct (sliceZ val 1 2) eqn:E2; [|exfalso; revert E2; apply sliceZ_some; lia].
  destruct (sliceZ val 2 (Z.of_nat (String.length val) - 1)) eqn:E3; [|exfalso; revert E3; apply sliceZ_some; lia].
  discriminate.
Qed.

Lemma graphql_mw_no_panic rd extra s : graphql_mw rd extra <> FPanic s.
Proof.
  unfold graphql_mw. destruct (gql_options rd extra); [|discriminate].
  unfold gql_new. apply all_f_no_panic. intros [k v] _ s'. simpl.
  destruct v; try discriminate. apply gql_var_no_panic.
Qed.

Lemma split_dot_nonempty s : split_dot s <> [].
Proof.
  induction s as [|c r IH]; simpl; [discriminate|].
  destruct (is_c c_dot c); [discriminate|]. destruct (split_dot r); discriminate.
Qed.

Lemma rev_nonempty {A} (l : list A) : l <> [] -> rev l <> [].
Proof. destruct l; [congruence|]. simpl. intros _ H. apply app_eq_nil in H. destruct H; discriminate. Qed.

Lemma formatter_new_no_panic b s : formatter_new b <> FPanic s.
Proof.
  unfold formatter_new. destruct (has_flatmap (b_extra b)); [discriminate|].
  apply seq_f_no_panic; apply all_f_no_panic.
  - intros k _ s'. destruct (rev (split_dot k)) eqn:E; [|discriminate].
    exfalso. revert E. apply rev_nonempty, split_dot_nonempty.
  - intros kv _ s'. destruct (split_dot (snd kv)) eqn:E; [|discriminate].
    exfalso. revert E. apply split_dot_nonempty.
Qed.

Lemma stack_new_no_panic rd b : b_host b <> [] -> forall s, stack_new rd b <> FPanic s.
Proof.
  intros Hh. unfold stack_new. apply seq_f_no_panic; [|apply seq_f_no_panic].
  - intros s. destruct (str_eqb (b_enc b) noop); [discriminate|apply formatter_new_no_panic].
  - intros s. unfold subscriber_new. destruct (str_eqb (b_sd b) "dns"); [|discriminate].
    destruct (b_host b); [congruence|discriminate].
  - apply graphql_mw_no_panic.
Qed.

Lemma merge_new_no_panic x : merge_section_typed x -> forall s, merge_new x <> FPanic s.
Proof.
  intros Ht. unfold merge_new. destruct (lookup ns_proxy x) as [[| | | | |e|]|] eqn:E; try discriminate.
  destruct (Ht e E) as [Hc Hp]. apply seq_f_no_panic.
  - intros s. destruct (lookup "combiner" e) as [v|] eqn:Ec; [|discriminate].
    first [specialize (Hc v Ec)|specialize (Hc v eq_refl)]. destruct v; try discriminate.
  - intros s. destruct (lookup "sequential_propagated_params" e) as [[| | | |a| |]|] eqn:Ea; try discriminate.
    first [specialize (Hp a Ea)|specialize (Hp a eq_refl)]. apply all_f_no_panic. intros p Hin s'.
    rewrite forallb_forall in Hp. specialize (Hp p Hin). destruct p; try discriminate.
Qed.

Lemma factory_new_no_panic rd e :
  merge_section_typed (e_extra e) -> Forall (fun b => b_host b <> []) (e_backends e) ->
  forall s, factory_new rd e <> FPanic s.
Proof.
  intros Hm Hb s. unfold factory_new. destruct (e_backends e) as [|b [|b2 r]] eqn:E; [discriminate| |].
  - inversion Hb; subst. apply stack_new_no_panic. assumption.
  - apply seq_f_no_panic; [|apply merge_new_no_panic; exact Hm].
    apply all_f_no_panic. intros x Hin. apply stack_new_no_panic.
    rewrite Forall_forall in Hb. apply Hb. exact Hin.
Qed.

(* ------------------------------------------------------------------------------------ *)
(* totality and rejection *)

Lemma Forall2_In_l {A B} (P : A -> B -> Prop) l m x :
  Forall2 P l m -> In x l -> exists y, In y m /\ P x y.
Proof.
  intros F. induction F; simpl; intros Hin; [contradiction|].
  destruct Hin as [->|Hin]; [eexists; split; [left; reflexivity|assumption]|].
  destruct (IHF Hin) as [y' [H1 H2]]. exists y'. split; [right; assumption|assumption].
Qed.
Lemma Forall2_In_r {A B} (P : A -> B -> Prop) l m y :
  Forall2 P l m -> In y m -> exists x, In x l /\ P x y.
Proof.
  intros F. induction F; simpl; intros Hin; [contradiction|].
  destruct Hin as [->|Hin]; [eexists; split; [left; reflexivity|assumption]|].
  destruct (IHF Hin) as [x' [H1 H2]]. exists x'. split; [right; assumption|assumption].
Qed.

Section Main.
  Variable ch : string -> option string.
  Variable tl : string -> string.

  Lemma backend_hosts_nonempty sv hs e decl b b' :
    clean_hosts ch (s_host sv) = Some hs -> has_host sv b ->
    backend_facts ch tl hs e decl b b' -> b_host b' <> [].
  Proof.
    intros Hs Hh F. destruct F as [F1 [F2 [F3 _]]].
    destruct (b_host b) as [|h0 r0] eqn:Eb.
    - rewrite (F1 eq_refl). destruct Hh as [Hh|Hh]; [congruence|].
      apply (clean_hosts_ok ch tl) in Hs. destruct Hs as [_ [Hl _]].
      destruct hs; [|discriminate]. destruct (s_host sv); [congruence|simpl in Hl; discriminate Hl].
    - destruct (b_nosan b) eqn:En.
      + rewrite F2; [discriminate|discriminate|reflexivity].
      + assert (H : clean_hosts ch (h0 :: r0) = Some (b_host b')) by (apply F3; [discriminate|reflexivity]).
        apply (clean_hosts_ok ch tl) in H. destruct H as [_ [Hl _]]. destruct (b_host b'); [simpl in Hl; discriminate Hl|discriminate].
  Qed.

  Lemma hosts_nonempty_gen sv hs b b' :
    clean_hosts ch (s_host sv) = Some hs -> has_host sv b ->
    (b_host b = [] -> b_host b' = hs) ->
    (b_host b <> [] -> b_nosan b = true -> b_host b' = b_host b) ->
    (b_host b <> [] -> b_nosan b = false -> clean_hosts ch (b_host b) = Some (b_host b')) ->
    b_host b' <> [].
  Proof.
    intros Hs Hh F1 F2 F3.
    destruct (b_host b) as [|h0 r0] eqn:Eb.
    - rewrite (F1 eq_refl). destruct Hh as [Hh|Hh]; [congruence|].
      apply (clean_hosts_ok ch tl) in Hs. destruct Hs as [_ [Hl _]].
      destruct hs; [|discriminate]. destruct (s_host sv); [congruence|simpl in Hl; discriminate Hl].
    - destruct (b_nosan b) eqn:En.
      + rewrite F2; [discriminate|discriminate|reflexivity].
      + assert (H : clean_hosts ch (h0 :: r0) = Some (b_host b')) by (apply F3; [discriminate|reflexivity]).
        apply (clean_hosts_ok ch tl) in H. destruct H as [_ [Hl _]]. destruct (b_host b'); [simpl in Hl; discriminate Hl|discriminate].
  Qed.

  (* the pipe of every async agent is built without a panic as well *)
  Lemma total_agents : forall s, well_typed s ->
    forall c, init ch tl s = Ok c ->
      forall rd a, In a (s_agents c) -> forall site, agent_factory_new rd a <> FPanic site.
  Proof.
    intros s [_ [_ Hag]] c Hc rd a' Hin site. apply init_ok in Hc. destruct Hc as [_ [hs [Hhs [_ F]]]].
    destruct (Forall2_In_r _ _ _ _ F Hin) as [a [Ha Fa]].
    rewrite Forall_forall in Hag. destruct (Hag a Ha) as [_ [Hm Hb]].
    destruct Fa as [_ [_ [_ [Hx Fb]]]].
    unfold agent_factory_new. apply factory_new_no_panic; simpl; [rewrite Hx; exact Hm|].
    apply Forall_forall. intros b' Hb'. destruct (Forall2_In_r _ _ _ _ Fb Hb') as [b [Hbin Fbb]].
    rewrite Forall_forall in Hb. destruct Fbb as [F1 [F2 [F3 _]]].
    eapply hosts_nonempty_gen; [exact Hhs|apply Hb; exact Hbin|exact F1|exact F2|exact F3].
  Qed.

  Lemma total : forall s, well_typed s ->
    (forall site, init ch tl s <> Panic site) /\
    (forall c, init ch tl s = Ok c ->
       forall rd e, In e (s_endpoints c) -> forall site, factory_new rd e <> FPanic site).
  Proof.
    intros s [_ [Hwt _]]. split; [intros; apply init_no_panic|].
    intros c Hc rd e' Hin site. apply init_ok in Hc. destruct Hc as [_ [hs [Hhs [F _]]]].
    destruct (Forall2_In_r _ _ _ _ F Hin) as [e [He Fe]].
    rewrite Forall_forall in Hwt. destruct (Hwt e He) as [Hm Hb].
    destruct Fe as [_ [_ [_ [_ [_ [_ [_ [Hx [_ Fb]]]]]]]]].
    apply factory_new_no_panic; [rewrite Hx; exact Hm|].
    apply Forall_forall. intros b' Hb'. destruct (Forall2_In_r _ _ _ _ Fb Hb') as [b [Hbin Fbb]].
    rewrite Forall_forall in Hb. eapply backend_hosts_nonempty; [exact Hhs|apply Hb; exact Hbin|].
    simpl in Fbb. exact Fbb.
  Qed.

  Lemma ok_not_rejected s c : init ch tl s = Ok c -> ~ must_reject ch s.
  Proof.
    intros Hc. apply init_ok in Hc. destruct Hc as [Hv [hs [Hhs [F FA]]]].
    intros [Hb|[Hb|[e [He Hb]]]].
    - apply Hb. exact Hv.
    - destruct Hb as [[h [Hin Hn]]|[[e [b [He [Hb [Hns [h [Hin Hn]]]]]]]|[a [b [Ha [Hb [Hns [h [Hin Hn]]]]]]]]].
      3:{ destruct (Forall2_In_l _ _ _ _ FA Ha) as [a' [_ Fa]].
          destruct Fa as [_ [_ [_ [_ Fb]]]].
          destruct (Forall2_In_l _ _ _ _ Fb Hb) as [b' [_ [_ [_ [F3 _]]]]].
          assert (Hne : b_host b <> []) by (destruct (b_host b); [contradiction|discriminate]).
          specialize (F3 Hne Hns). apply (clean_hosts_ok ch tl) in F3. destruct F3 as [_ [_ H]]. exact (H h Hin Hn). }
      + apply (clean_hosts_ok ch tl) in Hhs. destruct Hhs as [_ [_ H]]. exact (H h Hin Hn).
      + destruct (Forall2_In_l _ _ _ _ F He) as [e' [_ Fe]].
        destruct Fe as [_ [_ [_ [_ [_ [_ [_ [_ [_ Fb]]]]]]]]].
        destruct (Forall2_In_l _ _ _ _ Fb Hb) as [b' [_ [_ [_ [F3 _]]]]].
        assert (Hne : b_host b <> []) by (destruct (b_host b); [contradiction|discriminate]).
        specialize (F3 Hne Hns). apply (clean_hosts_ok ch tl) in F3. destruct F3 as [_ [_ H]]. exact (H h Hin Hn).
    - destruct (Forall2_In_l _ _ _ _ F He) as [e' [_ Fe]].
      destruct Fe as [Hp [Hnb [_ [_ [_ [_ [_ [_ [Hno Fb]]]]]]]]].
      destruct Hb as [Hb|[Hb|[Hb|[b [Hbin [o [Ho [Hs Hd]]]]]]]].
      + exact (Hnb Hb).
      + unfold bad_path in Hb. congruence.
      + destruct Hb as [Hb1 Hb2]. change (eff_enc (svc1 s hs) e) with (eff_enc s e) in Hno.
        rewrite Hb1, str_eqb_refl in Hno. simpl in Hno. apply Nat.ltb_ge in Hno. lia.
      + destruct (Forall2_In_l _ _ _ _ Fb Hbin) as [b' [_ Fbb]].
        destruct Fbb as [_ [_ [_ [_ [_ [_ [_ [_ [_ [_ [_ Hall]]]]]]]]]]].
        rewrite Forall_forall in Hall.
        assert (Hin : In o (fst (unique_output (simple_keys (clean_path (b_url b)))))) by (apply unique_output_In; exact Ho).
        destruct (Hall o Hin) as [H|H]; [congruence|]. apply Hd. exact H.
  Qed.

  Lemma rejects s : must_reject ch s -> exists e, init ch tl s = Err e.
  Proof.
    intros Hr. destruct (init ch tl s) as [c|e|site] eqn:E.
    - exfalso. exact (ok_not_rejected s c E Hr).
    - eauto.
    - exfalso. exact (init_no_panic ch tl s site E).
  Qed.
End Main.

(* ------------------------------------------------------------------------------------ *)
(* bytes: facts by exhaustive case analysis over the 256 values *)

Ltac all_bytes c := destruct c as [[] [] [] [] [] [] [] []]; vm_compute; reflexivity.

Lemma up_up c : up (up c) = up c.  Proof. all_bytes c. Qed.
Lemma low_low c : low (low c) = low c.  Proof. all_bytes c. Qed.
Lemma token_up c : is_token_byte (up c) = is_token_byte c.  Proof. all_bytes c. Qed.
Lemma token_low c : is_token_byte (low c) = is_token_byte c.  Proof. all_bytes c. Qed.

(* CanonicalMIMEHeaderKey is idempotent: its results are canonical *)
Lemma canon_go_idem s : forall u, canon_go u (canon_go u s) = canon_go u s.
Proof.
  induction s as [|c r IH]; intros u; simpl; [reflexivity|].
  destruct u; [rewrite up_up|rewrite low_low]; rewrite IH; reflexivity.
Qed.
Lemma canon_go_token s : forall u, str_forallb is_token_byte (canon_go u s) = str_forallb is_token_byte s.
Proof.
  induction s as [|c r IH]; intros u; simpl; [reflexivity|].
  rewrite IH. destruct u; [rewrite token_up|rewrite token_low]; reflexivity.
Qed.
Lemma canon_header_canonical s : canonical (canon_header s).
Proof.
  unfold canonical, canon_header. destruct (str_forallb is_token_byte s) eqn:E.
  - rewrite canon_go_token, E. apply canon_go_idem.
  - rewrite E. reflexivity.
Qed.
Lemma map_canonical l : Forall canonical (map canon_header l).
Proof. induction l; simpl; constructor; auto using canon_header_canonical. Qed.

Lemma decoder_of_chosen l c : decoder_of l c <> DNil.
Proof.
  unfold decoder_of. destruct (str_eqb l "safejson"); [discriminate|]. destruct (str_eqb l "string"); [discriminate|].
  destruct (str_eqb l noop); [discriminate|]. destruct c; discriminate.
Qed.

(* ------------------------------------------------------------------------------------ *)
(* post-conditions *)

Section PostFacts.
  Variable ch : string -> option string.
  Variable tl : string -> string.

  Lemma backend_post sv hs e' decl b b' :
    clean_hosts ch (s_host sv) = Some hs -> has_host sv b ->
    e_method e' <> "" -> (0 < e_timeout e')%Z -> (1 <= e_cc e')%Z ->
    backend_facts ch tl hs e' decl b b' -> post_backend ch decl b b'.
  Proof.
    intros Hs Hh Hm Ht Hc F. pose proof (backend_hosts_nonempty ch tl sv hs e' decl b b' Hs Hh F) as Hne.
    destruct F as [F1 [F2 [F3 [F4 [F5 [F6 [F7 [F8 [F9 [F10 [F11 F12]]]]]]]]]]].
    unfold post_backend. repeat split.
    - rewrite F4. destruct (str_eqb (b_method b) "") eqn:E; [exact Hm|]. apply str_eqb_neq. exact E.
    - rewrite F5. exact Ht.
    - rewrite F6. exact Hc.
    - rewrite F7. apply decoder_of_chosen.
    - intros Hns. destruct (b_host b) as [|h0 r0] eqn:Eb.
      + rewrite (F1 eq_refl). apply (clean_hosts_ok ch tl) in Hs. tauto.
      + assert (H : clean_hosts ch (h0 :: r0) = Some (b_host b')) by (apply F3; [discriminate|exact Hns]).
        apply (clean_hosts_ok ch tl) in H. tauto.
    - exact Hne.
    - rewrite F8. apply map_canonical.
    - rewrite F11. apply Forall_forall. intros k Hk. apply in_map_iff in Hk. destruct Hk as [o [<- Ho]].
      exists o. split; [reflexivity|]. split; [apply unique_output_In; exact Ho|].
      rewrite Forall_forall in F12. apply F12. exact Ho.
    - intros o Ho. rewrite F11. apply in_map. apply unique_output_In. exact Ho.
  Qed.

  Lemma post : tl noop = noop -> forall s c, well_typed s -> init ch tl s = Ok c ->
    Forall2 (post_endpoint ch s) (s_endpoints s) (s_endpoints c).
  Proof.
    intros Htl s c [[Hst [_ Hne]] [Hwt _]] Hc. apply init_ok in Hc. destruct Hc as [_ [hs [Hhs [F _]]]].
    assert (Hpos : (0 < s_timeout (svc1 s hs))%Z).
    { simpl. destruct (s_timeout s =? 0)%Z eqn:E; [reflexivity|]. apply Z.eqb_neq in E. lia. }
    revert Hne Hwt. induction F as [|e e' es es' Fe F IH]; intros Hne Hwt; constructor.
    - inversion Hne as [|? ? [Het [_ Hec]] _]; subst. inversion Hwt as [|? ? [_ Hb] _]; subst.
      destruct Fe as [_ [_ [Hm [Ht [Hcc [Henc [Hh [_ [_ Fb]]]]]]]]].
      assert (Hm' : e_method e' <> "").
      { rewrite Hm. destruct (str_eqb (e_method e) "") eqn:E; [discriminate|]. apply str_eqb_neq. exact E. }
      assert (Ht' : (0 < e_timeout e')%Z).
      { rewrite Ht. destruct (negb (s_timeout (svc1 s hs) =? 0)%Z && (e_timeout e =? 0)%Z) eqn:E; [exact Hpos|].
        apply andb_false_iff in E. destruct E as [E|E].
        - apply negb_false_iff, Z.eqb_eq in E. lia.
        - apply Z.eqb_neq in E. lia. }
      assert (Hc' : (1 <= e_cc e')%Z).
      { rewrite Hcc. destruct (e_cc e =? 0)%Z eqn:E; [lia|]. apply Z.eqb_neq in E. lia. }
      unfold post_endpoint. repeat split; auto.
      + rewrite Hh. apply map_canonical.
      + change (declared (svc1 s hs) e) with (declared s e) in Fb.
        clear -Fb Hb Hhs Hm' Ht' Hc'. induction Fb; constructor.
        * inversion Hb; subst. eapply backend_post; eauto.
        * apply IHFb. inversion Hb; assumption.
      + intros Hno. change (eff_enc (svc1 s hs) e) with (eff_enc s e) in Henc. rewrite Hno in Henc.
        apply Forall_forall. intros b' Hb'. destruct (Forall2_In_r _ _ _ _ Fb Hb') as [b [_ Fbb]].
        destruct Fbb as [_ [_ [_ [_ [_ [_ [F7 _]]]]]]]. rewrite F7, Henc, str_eqb_refl, Htl. reflexivity.
    - apply IH; [inversion Hne; assumption|inversion Hwt; assumption].
  Qed.

  Lemma post_agents : forall s c, well_typed s -> init ch tl s = Ok c ->
    Forall2 (post_agent ch) (s_agents s) (s_agents c).
  Proof.
    intros s c [[Hst _] [_ Hag]] Hc. apply init_ok in Hc. destruct Hc as [_ [hs [Hhs [_ F]]]].
    assert (Hpos : (0 < s_timeout (svc1 s hs))%Z).
    { simpl. destruct (s_timeout s =? 0)%Z eqn:E; [reflexivity|]. apply Z.eqb_neq in E. lia. }
    revert Hag. induction F as [|a a' l l' Fa F IH]; intros Hag; constructor.
    - inversion Hag as [|? ? [Hat [_ Hb]] _]; subst.
      destruct Fa as [Ht [Hw [Hh [_ Fb]]]].
      assert (Ht' : (0 < a_timeout a')%Z).
      { rewrite Ht. destruct (negb (s_timeout (svc1 s hs) =? 0)%Z && (a_timeout a =? 0)%Z) eqn:E; [exact Hpos|].
        apply andb_false_iff in E. destruct E as [E|E].
        - apply negb_false_iff, Z.eqb_eq in E. lia.
        - apply Z.eqb_neq in E. lia. }
      unfold post_agent. repeat split.
      + exact Ht'.
      + rewrite Hw. destruct (a_workers a <? 1)%Z eqn:E; [lia|]. apply Z.ltb_ge in E. exact E.
      + rewrite Hh. destruct (a_health a <? second)%Z eqn:E; [lia|]. apply Z.ltb_ge in E. exact E.
      + clear -Fb Hb Hhs Ht'. induction Fb as [|b b' r r' Fbb Fb IHb]; constructor.
        * inversion Hb as [|? ? Hhb _]; subst. destruct Fbb as [F1 [F2 [F3 [F4 [F5 [F6 _]]]]]].
          unfold post_agent_backend. repeat split.
          -- rewrite F4. destruct (str_eqb (b_method b) "") eqn:E; [discriminate|]. apply str_eqb_neq. exact E.
          -- rewrite F5. exact Ht'.
          -- rewrite F6. apply decoder_of_chosen.
          -- intros Hns. destruct (b_host b) as [|h0 r0] eqn:Eb.
             ++ rewrite (F1 eq_refl). apply (clean_hosts_ok ch tl) in Hhs. simpl. tauto.
             ++ assert (H : clean_hosts ch (h0 :: r0) = Some (b_host b')) by (apply F3; [discriminate|exact Hns]).
                apply (clean_hosts_ok ch tl) in H. tauto.
          -- eapply (hosts_nonempty_gen ch tl); [exact Hhs|exact Hhb|exact F1|exact F2|exact F3].
        * apply IHb. inversion Hb; assumption.
    - apply IH. inversion Hag; assumption.
  Qed.
End PostFacts.
