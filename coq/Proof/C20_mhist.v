(* C20 - proofs, part 8: the histories of the interleaving machine are accepted by the history
   oracle.  Any number of threads, any registry program (register / get / clone operations, each
   executing an arbitrary event list that is disciplined on the one lock, writes only the object,
   lookups and snapshots not writing), every schedule: the history recorded by the ghost observer
   of Model/C20.v part (e) - invocation time, return time, and for lookups the value the object
   held at the step of the read - passes hist_ok once every operation has returned.
   Route: (1) the events in the order of their access steps form a sequential history that the
   sequential model reproduces exactly (the object's contents are the model's contents, by
   invariant); the sequential model meets the oracle (C20_hist); (2) real-time precedence of the
   recorded intervals is respected by that order (an operation that returned before another was
   invoked accessed the object before it), and ValidRead transfers along such a re-timing. *)
Require Import Verif.Common.Base Verif.Common.LockEv Verif.Model.C20 Verif.Spec.C20.
Require Import Verif.Proof.C20_race Verif.Proof.C20_lin Verif.Proof.C20_nsgen Verif.Proof.C20_hist.
Open Scope Z_scope.

(* ---- small facts ---- *)
Lemma seq_run_app d a b :
  seq_run d (a ++ b) =
  (fst (seq_run d a) ++ fst (seq_run (snd (seq_run d a)) b), snd (seq_run (snd (seq_run d a)) b)).
Proof.
  revert d. induction a as [|o r IH]; intros d.
  - simpl. destruct (seq_run d b); reflexivity.
  - destruct o as [k v|k x|x]; simpl; rewrite IH.
    + destruct (seq_run (set k v d) r) as [o1 d1]; simpl. destruct (seq_run d1 b); reflexivity.
    + destruct (seq_run d r) as [o1 d1]; simpl. destruct (seq_run d1 b); reflexivity.
    + destruct (seq_run d r) as [o1 d1]; simpl. destruct (seq_run d1 b); reflexivity.
Qed.

Lemma outs_snoc d l o : outs d (l ++ [o]) = outs d l ++ outs (fin d l) [o].
Proof. unfold outs, fin. rewrite seq_run_app. reflexivity. Qed.
Lemma fin_snoc d l o : fin d (l ++ [o]) = fin (fin d l) [o].
Proof. unfold outs, fin. rewrite seq_run_app. reflexivity. Qed.

Lemma skipn_nth {A} (l : list A) n x tl : skipn n l = x :: tl -> nth_error l n = Some x /\ skipn (S n) l = tl.
Proof.
  revert l. induction n as [|n IH]; intros l H.
  - destruct l; simpl in H; [discriminate|]. inversion H; subst. auto.
  - destruct l; simpl in H; [discriminate|]. apply IH. exact H.
Qed.

Lemma gop_body x : o_body (gop x) = snd x.
Proof. unfold gop. destruct (fst x); reflexivity. Qed.
Lemma gop_call x f (r : @res obs) d : o_call (gop x) f r d = (r, d).
Proof. unfold gop. destruct (fst x); reflexivity. Qed.
Lemma gop_wr x d : o_wr (gop x) d = match fst x with GReg k v => set k v d | _ => d end.
Proof. unfold gop. destruct (fst x); reflexivity. Qed.

(* ---- (2) re-timing: ValidRead transfers from the sequential timing of a list of operations
   to any timing whose real-time precedence is respected by the list order ---- *)
Lemma writes_of_nth (L : list hev) k v i r :
  In (k, v, i, r) (writes_of L) <-> exists p, nth_error L p = Some (RReg k v, i, r).
Proof.
  induction L as [|[[o i0] r0] rest IH].
  - simpl. split; [intros []|intros [[|p] H]; discriminate].
  - destruct o as [k0 v0|k0 x|x]; cbn [writes_of flat_map app] in *.
    + split.
      * intros [H|H]; [exists 0%nat; simpl; inversion H; reflexivity|]. apply IH in H. destruct H as [p Hp]. exists (S p). exact Hp.
      * intros [[|p] H]; simpl in H; [left; inversion H; reflexivity|]. right. apply IH. eauto.
    + rewrite IH. split; intros [p H]; [exists (S p); exact H|destruct p; [discriminate|eauto]].
    + rewrite IH. split; intros [p H]; [exists (S p); exact H|destruct p; [discriminate|eauto]].
Qed.

Lemma seq_hist_nth ops : forall n p,
  nth_error (seq_hist n ops) p =
  option_map (fun o => (o, 2 * (n + Z.of_nat p) + 1, 2 * (n + Z.of_nat p) + 2)) (nth_error ops p).
Proof.
  induction ops as [|o rest IH]; intros n p; [destruct p; reflexivity|].
  destruct p as [|p]; cbn [seq_hist nth_error option_map].
  - replace (n + Z.of_nat 0) with n by lia. reflexivity.
  - rewrite IH. replace (n + 1 + Z.of_nat p) with (n + Z.of_nat (S p)) by lia. reflexivity.
Qed.

Section Retime.
  Variable init : rmap.
  Variable L : list hev.
  Let ops : list rop := map (fun e : hev => fst (fst e)) L.
  Let S := seq_hist 0 ops.
  Hypothesis Resp : forall p q a b, nth_error L p = Some a -> nth_error L q = Some b ->
    snd a <= snd (fst b) -> (p < q)%nat.

  Lemma S_write p k v i r : nth_error L p = Some (RReg k v, i, r) ->
    In (k, v, 2 * Z.of_nat p + 1, 2 * Z.of_nat p + 2) (writes_of S).
  Proof.
    intros H. apply writes_of_nth. exists p. unfold S. rewrite seq_hist_nth. unfold ops.
    rewrite nth_error_map, H. reflexivity.
  Qed.

  Lemma S_write_inv k v i r : In (k, v, i, r) (writes_of S) ->
    exists p ip rp, nth_error L p = Some (RReg k v, ip, rp) /\ i = 2 * Z.of_nat p + 1 /\ r = 2 * Z.of_nat p + 2.
  Proof.
    intros H. apply writes_of_nth in H. destruct H as [p Hp]. unfold S in Hp. rewrite seq_hist_nth in Hp.
    unfold ops in Hp. rewrite nth_error_map in Hp. destruct (nth_error L p) as [[[o ip] rp]|] eqn:E; [|discriminate].
    cbn [option_map fst] in Hp.
    assert (Ho : o = RReg k v /\ 2 * (0 + Z.of_nat p) + 1 = i /\ 2 * (0 + Z.of_nat p) + 2 = r) by (repeat split; congruence).
    destruct Ho as [-> [Hi Hr]]. exists p, ip, rp. split; [exact E|split; lia].
  Qed.

  Lemma vr_transfer q oq iq rq k res :
    nth_error L q = Some (oq, iq, rq) ->
    ValidRead init (writes_of S) k res (2 * Z.of_nat q + 1) (2 * Z.of_nat q + 2) ->
    ValidRead init (writes_of L) k res iq rq.
  Proof.
    intros Hq. unfold ValidRead.
    assert (Hbefore : forall v' i' r', In (k, v', i', r') (writes_of L) -> r' < iq ->
              exists p', nth_error L p' = Some (RReg k v', i', r') /\ (p' < q)%nat).
    { intros v' i' r' Hin Hlt. apply writes_of_nth in Hin. destruct Hin as [p' Hp']. exists p'. split; [exact Hp'|].
      apply (Resp p' q _ _ Hp' Hq). simpl. lia. }
    destruct res as [v|].
    - intros [[Hi Hns]|[i [r [Hin [Hlt Hns]]]]].
      + left. split; [exact Hi|]. intros [v' [i' [r' [Hin' [H1 H2]]]]].
        destruct (Hbefore _ _ _ Hin' H1) as [p' [Hp' Hpq]]. apply Hns.
        exists v', (2 * Z.of_nat p' + 1), (2 * Z.of_nat p' + 2). split; [eapply S_write; eauto|lia].
      + right. destruct (S_write_inv _ _ _ _ Hin) as [p [ip [rp [Hp [-> ->]]]]].
        exists ip, rp. split; [apply writes_of_nth; eauto|]. split.
        * destruct (Z.lt_ge_cases ip rq) as [H|H]; [exact H|]. exfalso.
          pose proof (Resp q p _ _ Hq Hp) as Hc. simpl in Hc. specialize (Hc H). lia.
        * intros [v' [i' [r' [Hin' [H1 H2]]]]].
          destruct (Hbefore _ _ _ Hin' H1) as [p' [Hp' Hpq]].
          assert (Hpp : (p < p')%nat) by (apply (Resp p p' _ _ Hp Hp'); simpl; lia).
          apply Hns. exists v', (2 * Z.of_nat p' + 1), (2 * Z.of_nat p' + 2). split; [eapply S_write; eauto|lia].
    - intros [Hi Hno]. split; [exact Hi|]. intros v i r Hin Hlt.
      destruct (Hbefore _ _ _ Hin Hlt) as [p' [Hp' Hpq]].
      apply (Hno v (2 * Z.of_nat p' + 1) (2 * Z.of_nat p' + 2)); [eapply S_write; eauto|lia].
  Qed.

  Lemma retime : Forall (chkP init (writes_of S)) S -> Forall (chkP init (writes_of L)) L.
  Proof.
    intros HS. apply Forall_forall. intros e Hin. apply In_nth_error in Hin. destruct Hin as [q Hq].
    destruct e as [[o iq] rq].
    assert (HSq : nth_error S q = Some (o, 2 * Z.of_nat q + 1, 2 * Z.of_nat q + 2)).
    { unfold S. rewrite seq_hist_nth. unfold ops. rewrite nth_error_map, Hq. reflexivity. }
    rewrite Forall_forall in HS. specialize (HS _ (nth_error_In _ _ HSq)).
    destruct o as [k v|k res|snap]; cbn [chkP] in *.
    - exact I.
    - eapply vr_transfer; eauto.
    - intros k. eapply vr_transfer; eauto.
  Qed.
End Retime.

(* ---- (1) the machine and its ghost observer ---- *)
Section MHist.
  Variable m obj : string.
  Variable init0 : rmap.
  Variable kp : list (list (gkind * list lev)).
  Hypothesis Hkp : kprogs_ok m obj kp.

  Definition gops (g : ghost) : list rop := map ge_op (gh_ents g).

  Definition thr_ok (g : ghost) (t : nat) (th : @thread rmap obs) : Prop :=
    exists kpt, nth_error kp t = Some kpt /\
      t_todo th = map gop (skipn (List.length (t_log th) + match t_cur th with None => 0 | Some _ => 1 end)%nat kpt) /\
      match t_cur th with
      | None => True
      | Some (o, rem, r) =>
          exists x, nth_error kpt (List.length (t_log th)) = Some x /\ o = gop x /\
            (forall ob, In (LWrite ob) rem \/ In (LRead ob) rem -> ob = obj) /\
            match fst x with GReg _ _ => True | _ => existsb is_write rem = false end /\
            0 < gh_inv g t < gh_now g
      end.

  Record MI (s : @state rmap obs) (g : ghost) : Prop := {
    mi_inv : inv m s;
    mi_dat : s_data s obj = Some (fin init0 (gops g)) /\ outs init0 (gops g) = gops g;
    mi_thr : forall t th, nth_error (s_threads s) t = Some th -> thr_ok g t th;
    mi_now : 0 < gh_now g;
    mi_e1 : forall e, In e (gh_ents g) -> 0 < ge_inv e < gh_now g;
    mi_e2 : forall e, In e (gh_ents g) -> ge_ret e = None ->
              exists th, nth_error (s_threads s) (ge_t e) = Some th /\ t_cur th <> None /\ ge_i e = List.length (t_log th);
    mi_e3 : forall p q a b r, nth_error (gh_ents g) p = Some a -> nth_error (gh_ents g) q = Some b ->
              ge_ret a = Some r -> r <= ge_inv b -> (p < q)%nat }.

  Lemma kp_in t kpt i x : nth_error kp t = Some kpt -> nth_error kpt i = Some x ->
    wf_op m (gop x) /\ (forall ob, In (LWrite ob) (snd x) -> ob = obj) /\
    match fst x with GReg _ _ => True | _ => existsb is_write (snd x) = false end /\
    (forall ob, In (LRead ob) (snd x) -> ob = obj).
  Proof.
    intros H1 H2. unfold kprogs_ok in Hkp. rewrite Forall_forall in Hkp.
    pose proof (Hkp kpt (nth_error_In _ _ H1)) as Hl. rewrite Forall_forall in Hl.
    destruct (Hl x (nth_error_In _ _ H2)) as [Hw Hb]. split; [exact Hw|].
    unfold kind_body_ok in Hb. apply andb_true_iff in Hb. destruct Hb as [Hb1 Hb2]. split; [|split].
    - intros ob Hin. rewrite forallb_forall in Hb1. specialize (Hb1 _ Hin). simpl in Hb1. apply String.eqb_eq. exact Hb1.
    - destruct (fst x); [exact I|apply negb_true_iff; exact Hb2|apply negb_true_iff; exact Hb2].
    - intros ob Hin. rewrite forallb_forall in Hb1. specialize (Hb1 _ Hin). simpl in Hb1. apply String.eqb_eq. exact Hb1.
  Qed.

  (* threads other than the one that moved *)
  Lemma thr_other g g' u thu : thr_ok g u thu -> gh_inv g' u = gh_inv g u -> gh_now g <= gh_now g' -> thr_ok g' u thu.
  Proof.
    intros [kpt [H1 [H2 H3]]] Hi Hn. exists kpt. split; [exact H1|split; [exact H2|]].
    destruct (t_cur thu) as [[[o rem] r]|]; [|exact I].
    destruct H3 as [x [A [B [C [D E]]]]]. exists x. rewrite Hi. repeat split; auto; lia.
  Qed.

  (* an event of a body: the ghost ticks and possibly appends entries of the moving operation *)
  Lemma mi_event s g t th o e rem r h' r' dat' extra :
    MI s g -> nth_error (s_threads s) t = Some th -> t_cur th = Some (o, e :: rem, r) ->
    inv m (put s t (mkth h' (Some (o, rem, r')) (t_todo th) (t_log th)) dat') ->
    (forall e0, In e0 extra -> ge_t e0 = t /\ ge_i e0 = List.length (t_log th) /\ ge_inv e0 = gh_inv g t /\ ge_ret e0 = None) ->
    dat' obj = Some (fin init0 (gops g ++ map ge_op extra)) ->
    outs init0 (gops g ++ map ge_op extra) = gops g ++ map ge_op extra ->
    MI (put s t (mkth h' (Some (o, rem, r')) (t_todo th) (t_log th)) dat')
       (mkgh (gh_now g + 1) (gh_inv g) (gh_ents g ++ extra)).
  Proof.
    intros HM Ht Ec Hinv' Hex Hd Ho.
    pose proof (mi_thr s g HM t th Ht) as Hth. unfold thr_ok in Hth. rewrite Ec in Hth.
    destruct Hth as [kpt [Hk [Htodo [x [Hx [Hox [Hw [Hnw Hiv]]]]]]]].
    constructor; simpl.
    - exact Hinv'.
    - unfold gops. simpl. rewrite map_app. split; [exact Hd|exact Ho].
    - intros u thu Hu. destruct (Nat.eq_dec u t) as [->|Hne].
      + rewrite (nth_error_set_nth_eq _ _ _ _ Ht) in Hu. inversion Hu; subst thu.
        exists kpt. simpl. split; [exact Hk|split; [exact Htodo|]].
        exists x. split; [exact Hx|split; [exact Hox|split; [|split]]].
        * intros ob [Hin|Hin]; apply Hw; [left|right]; right; exact Hin.
        * destruct (fst x); [exact I| |]; simpl in Hnw; apply orb_false_iff in Hnw; tauto.
        * lia.
      + rewrite nth_error_set_nth_neq in Hu by exact Hne.
        eapply thr_other; [exact (mi_thr s g HM u thu Hu)|reflexivity|simpl; lia].
    - pose proof (mi_now s g HM). lia.
    - intros e0 Hin. apply in_app_or in Hin. destruct Hin as [Hin|Hin].
      + pose proof (mi_e1 s g HM e0 Hin). lia.
      + destruct (Hex e0 Hin) as [_ [_ [Hi _]]]. rewrite Hi. lia.
    - intros e0 Hin Hr. apply in_app_or in Hin. destruct Hin as [Hin|Hin].
      + destruct (mi_e2 s g HM e0 Hin Hr) as [th0 [H1 [H2 H3]]].
        destruct (Nat.eq_dec (ge_t e0) t) as [Et|Hne].
        * rewrite Et in *. rewrite Ht in H1. inversion H1; subst th0.
          eexists. split; [apply (nth_error_set_nth_eq _ _ _ _ Ht)|]. simpl. split; [discriminate|exact H3].
        * exists th0. rewrite nth_error_set_nth_neq by exact Hne. auto.
      + destruct (Hex e0 Hin) as [Et [Ei _]]. rewrite Et.
        eexists. split; [apply (nth_error_set_nth_eq _ _ _ _ Ht)|]. simpl. split; [discriminate|exact Ei].
    - intros p q a b r0 Hp Hq Hr Hle.
      destruct (Nat.lt_ge_cases p (List.length (gh_ents g))) as [Hpl|Hpl].
      + rewrite nth_error_app1 in Hp by exact Hpl.
        destruct (Nat.lt_ge_cases q (List.length (gh_ents g))) as [Hql|Hql].
        * rewrite nth_error_app1 in Hq by exact Hql. exact (mi_e3 s g HM p q a b r0 Hp Hq Hr Hle).
        * lia.
      + rewrite nth_error_app2 in Hp by exact Hpl. apply nth_error_In in Hp.
        destruct (Hex a Hp) as [_ [_ [_ Hn]]]. congruence.
  Qed.

  Lemma fin_one_reg d k v : fin d [RReg k v] = set k v d.
  Proof. reflexivity. Qed.
  Lemma fin_one_get d k x : fin d [RGet k x] = d.
  Proof. reflexivity. Qed.
  Lemma fin_one_clone d x : fin d [RClone x] = d.
  Proof. reflexivity. Qed.

  Lemma mi_step s g t s' : MI s g -> step s t = Some s' -> MI s' (gstep kp obj s t g).
  Proof.
    intros HM Hs.
    assert (Hinv' : inv m s') by (eapply step_inv; [exact (mi_inv s g HM)|exact Hs]).
    assert (Hex : exists th, nth_error (s_threads s) t = Some th).
    { unfold step in Hs. destruct (nth_error (s_threads s) t) as [th|]; [eauto|discriminate]. }
    destruct Hex as [th Ht].
    pose proof (mi_thr s g HM t th Ht) as Hth.
    destruct (mi_dat s g HM) as [Hd Ho].
    pose proof (proj2 (proj2 (mi_inv s g HM))) as Hclean.
    unfold gstep. rewrite Ht.
    destruct (t_cur th) as [[[o rem] r]|] eqn:Ec.
    - destruct rem as [|e rem].
      + (* return *)
        pose proof (step_return s t th o r s' Ht Ec Hs) as Hs'. subst s'.
        unfold thr_ok in Hth. rewrite Ec in Hth. destruct Hth as [kpt [Hk [Htodo _]]].
        set (f := fun e0 : gentry => if Nat.eqb (ge_t e0) t && Nat.eqb (ge_i e0) (List.length (t_log th))
                                      then mkge (ge_t e0) (ge_i e0) (ge_op e0) (ge_inv e0) (Some (gh_now g)) else e0).
        assert (Hfop : forall e0, ge_op (f e0) = ge_op e0) by (intros e0; unfold f; destruct (_ && _); reflexivity).
        assert (Hfinv : forall e0, ge_inv (f e0) = ge_inv e0) by (intros e0; unfold f; destruct (_ && _); reflexivity).
        assert (Hft : forall e0, ge_t (f e0) = ge_t e0 /\ ge_i (f e0) = ge_i e0) by (intros e0; unfold f; destruct (_ && _); auto).
        assert (Hgops : map ge_op (map f (gh_ents g)) = gops g).
        { unfold gops. rewrite map_map. apply map_ext. exact Hfop. }
        constructor; simpl.
        * exact Hinv'.
        * unfold gops. simpl. rewrite Hgops. auto.
        * intros u thu Hu. destruct (Nat.eq_dec u t) as [->|Hne].
          -- rewrite (nth_error_set_nth_eq _ _ _ _ Ht) in Hu. inversion Hu; subst thu.
             exists kpt. simpl. split; [exact Hk|split; [|exact I]].
             rewrite app_length. simpl. rewrite Htodo. f_equal. f_equal. lia.
          -- rewrite nth_error_set_nth_neq in Hu by exact Hne.
             eapply thr_other; [exact (mi_thr s g HM u thu Hu)|reflexivity|simpl; lia].
        * pose proof (mi_now s g HM). lia.
        * intros e1 Hin. apply in_map_iff in Hin. destruct Hin as [e0 [<- Hin]]. rewrite Hfinv.
          pose proof (mi_e1 s g HM e0 Hin). lia.
        * intros e1 Hin Hr. apply in_map_iff in Hin. destruct Hin as [e0 [<- Hin]].
          destruct (Hft e0) as [Ft Fi]. rewrite Ft, Fi.
          destruct (Nat.eqb (ge_t e0) t && Nat.eqb (ge_i e0) (List.length (t_log th))) eqn:Em.
          -- unfold f in Hr. rewrite Em in Hr. discriminate.
          -- assert (Hfe : f e0 = e0) by (unfold f; rewrite Em; reflexivity). rewrite Hfe in Hr.
             destruct (mi_e2 s g HM e0 Hin Hr) as [th0 [H1 [H2 H3]]].
             destruct (Nat.eq_dec (ge_t e0) t) as [Et|Hne].
             ++ rewrite Et in H1. rewrite Ht in H1. inversion H1; subst th0. exfalso.
                rewrite Et, H3, !Nat.eqb_refl in Em. discriminate.
             ++ exists th0. rewrite nth_error_set_nth_neq by exact Hne. auto.
        * intros p q a b r0 Hp Hq Hr Hle. rewrite nth_error_map in Hp, Hq.
          destruct (nth_error (gh_ents g) p) as [a0|] eqn:Ep; [|discriminate].
          destruct (nth_error (gh_ents g) q) as [b0|] eqn:Eq; [|discriminate].
          simpl in Hp, Hq. inversion Hp; subst a. inversion Hq; subst b. rewrite Hfinv in Hle.
          destruct (Nat.eqb (ge_t a0) t && Nat.eqb (ge_i a0) (List.length (t_log th))) eqn:Em.
          -- unfold f in Hr. rewrite Em in Hr. simpl in Hr. inversion Hr; subst r0.
             pose proof (mi_e1 s g HM b0 (nth_error_In _ _ Eq)). lia.
          -- assert (Hfe : f a0 = a0) by (unfold f; rewrite Em; reflexivity). rewrite Hfe in Hr.
             exact (mi_e3 s g HM p q a0 b0 r0 Ep Eq Hr Hle).
      + (* an event of the body *)
        destruct (step_event s t th o e rem r s' Ht Ec Hs) as [h' [r' [dat' [Hs' Hev]]]]. subst s'.
        unfold thr_ok in Hth. rewrite Ec in Hth. destruct Hth as [kpt [Hk [Htodo [x [Hx [Hox [Hw [Hnw Hiv]]]]]]]].
        assert (Hka : kind_at kp t (List.length (t_log th)) = Some (fst x)) by (unfold kind_at; rewrite Hk, Hx; reflexivity).
        rewrite Hka, Hd.
        assert (Hnext : next_acc th = acc_of e) by (unfold next_acc; rewrite Ec; reflexivity).
        (* the observer only ticks, the contents of obj stay *)
        assert (Htick : dat' obj = s_data s obj ->
                  MI (put s t (mkth h' (Some (o, rem, r')) (t_todo th) (t_log th)) dat')
                     (mkgh (gh_now g + 1) (gh_inv g) (gh_ents g))).
        { intros E. pose proof (mi_event s g t th o e rem r h' r' dat' [] HM Ht Ec Hinv') as HH.
          cbn [map] in HH. rewrite !app_nil_r in HH. apply HH; [intros e0 []|rewrite E; exact Hd|exact Ho]. }
        (* the observer appends one event *)
        assert (Happ : forall ro, dat' obj = Some (fin (fin init0 (gops g)) [ro]) ->
                  outs (fin init0 (gops g)) [ro] = [ro] ->
                  MI (put s t (mkth h' (Some (o, rem, r')) (t_todo th) (t_log th)) dat')
                     (mkgh (gh_now g + 1) (gh_inv g)
                           (gh_ents g ++ [mkge t (List.length (t_log th)) ro (gh_inv g t) None]))).
        { intros ro E1 E2. eapply mi_event; eauto.
          - intros e0 [<-|[]]. simpl. auto.
          - simpl. rewrite fin_snoc. exact E1.
          - simpl. rewrite outs_snoc, Ho, E2. reflexivity. }
        destruct e as [y|y|y|y|ob|ob|ob f].
        * assert (El : is_lin (fst x) (LLock y) = false) by (destruct (fst x); reflexivity). rewrite El.
          apply Htick. destruct Hev as [_ [_ ->]]. reflexivity.
        * assert (El : is_lin (fst x) (LUnlock y) = false) by (destruct (fst x); reflexivity). rewrite El.
          apply Htick. destruct Hev as [_ [_ ->]]. reflexivity.
        * assert (El : is_lin (fst x) (LRLock y) = false) by (destruct (fst x); reflexivity). rewrite El.
          apply Htick. destruct Hev as [_ [_ ->]]. reflexivity.
        * assert (El : is_lin (fst x) (LRUnlock y) = false) by (destruct (fst x); reflexivity). rewrite El.
          apply Htick. destruct Hev as [_ [_ ->]]. reflexivity.
        * (* a read: lookups and snapshots are observed here *)
          destruct Hev as [_ [Hdat _]].
          destruct (fst x) as [k v|k|] eqn:Ek; cbn [is_lin lin_rop].
          -- apply Htick. rewrite Hdat. reflexivity.
          -- apply Happ; [rewrite Hdat; exact Hd|reflexivity].
          -- apply Happ; [rewrite Hdat; exact Hd|reflexivity].
        * (* a write: only a register operation writes, and it writes obj *)
          destruct Hev as [_ [_ Hdat]].
          assert (ob = obj) by (apply Hw; left; left; reflexivity). subst ob.
          destruct (fst x) as [k v|k|] eqn:Ek; cbn [is_lin lin_rop]; try (simpl in Hnw; discriminate).
          apply Happ; [|reflexivity].
          rewrite Hdat. unfold upd. rewrite String.eqb_refl.
          rewrite (inv_not_racy m s t th (obj, true) (mi_inv s g HM) Ht Hnext).
          rewrite Hd. simpl. rewrite Hox, gop_wr, Ek. reflexivity.
        * assert (El : is_lin (fst x) (LSafeCall ob f) = false) by (destruct (fst x); reflexivity). rewrite El.
          apply Htick. destruct Hev as [_ Hev].
          destruct (s_data s ob) as [d0|] eqn:Ed0; [|exfalso; exact (Hclean ob Ed0)].
          destruct Hev as [_ ->]. rewrite Hox, gop_call. simpl. unfold upd.
          destruct (String.eqb obj ob) eqn:E; [|reflexivity]. apply String.eqb_eq in E. subst ob. symmetry. exact Ed0.
    - (* invocation *)
      destruct (step_invoke s t th s' Ht Ec Hs) as [o [rest [Et Hs']]]. subst s'.
      unfold thr_ok in Hth. rewrite Ec, Et in Hth. destruct Hth as [kpt [Hk [Htodo _]]].
      rewrite Nat.add_0_r in Htodo.
      destruct (skipn (List.length (t_log th)) kpt) as [|x tl] eqn:Esk; [discriminate|].
      simpl in Htodo. injection Htodo as Hox Hrest. subst o rest.
      destruct (skipn_nth _ _ _ _ Esk) as [Hx Htl].
      destruct (kp_in t kpt _ x Hk Hx) as [_ [Hwx [Hnwx Hrx]]].
      constructor; simpl.
      + exact Hinv'.
      + split; [exact Hd|exact Ho].
      + intros u thu Hu. destruct (Nat.eq_dec u t) as [->|Hne].
        * rewrite (nth_error_set_nth_eq _ _ _ _ Ht) in Hu. inversion Hu; subst thu.
          exists kpt. simpl. split; [exact Hk|split].
          -- rewrite Nat.add_1_r, Htl. reflexivity.
          -- exists x. rewrite gop_body. split; [exact Hx|split; [reflexivity|split; [intros ob [H|H]; [apply Hwx|apply Hrx]; exact H|split; [exact Hnwx|]]]].
             rewrite Nat.eqb_refl. pose proof (mi_now s g HM). lia.
        * rewrite nth_error_set_nth_neq in Hu by exact Hne.
          eapply thr_other; [exact (mi_thr s g HM u thu Hu)| |simpl; lia].
          simpl. destruct (Nat.eqb u t) eqn:E; [apply Nat.eqb_eq in E; contradiction|reflexivity].
      + pose proof (mi_now s g HM). lia.
      + intros e0 Hin. pose proof (mi_e1 s g HM e0 Hin). lia.
      + intros e0 Hin Hr. destruct (mi_e2 s g HM e0 Hin Hr) as [th0 [H1 [H2 H3]]].
        destruct (Nat.eq_dec (ge_t e0) t) as [Eq|Hne].
        * rewrite Eq, Ht in H1. inversion H1; subst th0. rewrite Ec in H2. contradiction.
        * exists th0. rewrite nth_error_set_nth_neq by exact Hne. auto.
      + exact (mi_e3 s g HM).
  Qed.

  Lemma irun_mi sched : forall s g s' g', MI s g -> irun kp obj s g sched = Some (s', g') -> MI s' g'.
  Proof.
    induction sched as [|t r IH]; intros s g s' g' HM Hr; simpl in Hr.
    - inversion Hr; subst. exact HM.
    - destruct (step s t) as [s1|] eqn:Es; [|discriminate].
      eapply IH; [eapply mi_step; eauto|exact Hr].
  Qed.

  Lemma irun_run sched : forall s g s' g', irun kp obj s g sched = Some (s', g') -> run s sched = Some s'.
  Proof.
    induction sched as [|t r IH]; intros s g s' g' Hr; simpl in *.
    - inversion Hr; reflexivity.
    - destruct (step s t) as [s1|]; [|discriminate]. eapply IH; eauto.
  Qed.

  Lemma mi_init dat : dat obj = Some init0 -> (forall o, dat o <> None) ->
    MI (init (map (map gop) kp) dat) ghost0.
  Proof.
    intros Hd Hne. constructor; simpl.
    - apply init_inv; [|exact Hne]. unfold wf_progs. apply Forall_forall. intros p Hp.
      apply in_map_iff in Hp. destruct Hp as [kpt [<- Hin]]. apply Forall_forall. intros o Ho.
      apply in_map_iff in Ho. destruct Ho as [x [<- Hx]].
      unfold kprogs_ok in Hkp. rewrite Forall_forall in Hkp. pose proof (Hkp kpt Hin) as Hl.
      rewrite Forall_forall in Hl. exact (proj1 (Hl x Hx)).
    - split; [exact Hd|reflexivity].
    - intros t th Ht. rewrite nth_error_map in Ht. rewrite nth_error_map in Ht.
      destruct (nth_error kp t) as [kpt|] eqn:Ek; [|discriminate]. simpl in Ht. inversion Ht; subst th.
      exists kpt. simpl. auto.
    - lia.
    - intros e [].
    - intros e [].
    - intros p q a b r Hp. destruct p; discriminate.
  Qed.

  (* every complete execution: the recorded history passes the oracle *)
  Lemma machine_history_ok dat sched s g :
    dat obj = Some init0 -> (forall o, dat o <> None) ->
    irun kp obj (init (map (map gop) kp) dat) ghost0 sched = Some (s, g) -> finished s = true ->
    hist_ok init0 (hist_of g) = true /\
    (forall e, In e (gh_ents g) -> exists r, ge_ret e = Some r) /\
    s_data s obj = Some (snd (seq_run init0 (map ge_op (gh_ents g)))).
  Proof.
    intros Hd Hne Hr Hf. pose proof (irun_mi sched _ _ _ _ (mi_init dat Hd Hne) Hr) as HM.
    assert (Hret : forall e, In e (gh_ents g) -> exists r, ge_ret e = Some r).
    { intros e Hin. destruct (ge_ret e) as [r|] eqn:E; [eauto|]. exfalso.
      destruct (mi_e2 s g HM e Hin E) as [th [H1 [H2 _]]].
      unfold finished in Hf. rewrite forallb_forall in Hf. specialize (Hf th (nth_error_In _ _ H1)).
      destruct (t_cur th); [discriminate|contradiction]. }
    split; [|split; [exact Hret|exact (proj1 (mi_dat s g HM))]].
    apply hist_ok_of_chkP.
    assert (Hnth : forall p a, nth_error (hist_of g) p = Some a ->
              exists e r, nth_error (gh_ents g) p = Some e /\ ge_ret e = Some r /\ a = (ge_op e, ge_inv e, r)).
    { intros p a Hp. unfold hist_of in Hp. rewrite nth_error_map in Hp.
      destruct (nth_error (gh_ents g) p) as [e|] eqn:Ee; [|discriminate]. simpl in Hp. inversion Hp.
      destruct (Hret e (nth_error_In _ _ Ee)) as [r Hre]. exists e, r. rewrite Hre. auto. }
    apply retime.
    - intros p q a b Hp Hq Hle.
      destruct (Hnth p a Hp) as [ea [ra [Ea [Ra ->]]]]. destruct (Hnth q b Hq) as [eb [rb [Eb [Rb ->]]]].
      simpl in Hle. exact (mi_e3 s g HM p q ea eb ra Ea Eb Ra Hle).
    - assert (Eops : map (fun e : hev => fst (fst e)) (hist_of g) = gops g).
      { unfold hist_of, gops. rewrite map_map. reflexivity. }
      rewrite Eops.
      pose proof (seq_histP init0 (gops g)) as HP. rewrite (proj2 (mi_dat s g HM)) in HP. exact HP.
  Qed.

  (* ---- the recorded events are the machine's own results: what a lookup / snapshot operation
     returns (its entry in the thread's log) is what one of its recorded events observed ---- *)
  Definition res_tied (g : ghost) (t i : nat) (r : @res obs) : Prop :=
    r = RNone \/
    exists e x', In e (gh_ents g) /\ ge_t e = t /\ ge_i e = i /\ obs_of (ge_op e) = Some x' /\ r = RVal x'.

  Definition ents_kept (l l' : list gentry) : Prop :=
    forall e, In e l -> exists e', In e' l' /\ ge_t e' = ge_t e /\ ge_i e' = ge_i e /\ ge_op e' = ge_op e.

  Lemma res_tied_mono g g' t i r : ents_kept (gh_ents g) (gh_ents g') -> res_tied g t i r -> res_tied g' t i r.
  Proof.
    intros Hk [H|[e [x' [Hin [Ht [Hi [Ho Hr]]]]]]]; [left; exact H|]. right.
    destruct (Hk e Hin) as [e' [Hin' [Et [Ei Eo]]]]. exists e', x'. rewrite Et, Ei, Eo. auto.
  Qed.

  Lemma gstep_kept s t g : ents_kept (gh_ents g) (gh_ents (gstep kp obj s t g)).
  Proof.
    assert (Hid : ents_kept (gh_ents g) (gh_ents g)) by (intros e H; exists e; auto).
    unfold gstep. destruct (nth_error (s_threads s) t) as [th|]; [|exact Hid].
    destruct (t_cur th) as [[[o rem] r]|]; [|exact Hid].
    destruct rem as [|e rem].
    - simpl. intros e0 Hin. eexists. split; [apply in_map; exact Hin|]. destruct (_ && _); auto.
    - destruct (kind_at kp t (List.length (t_log th))); [|exact Hid].
      destruct (s_data s obj); [|exact Hid]. destruct (is_lin g0 e); [|exact Hid].
      simpl. intros e0 Hin. exists e0. split; [apply in_or_app; left; exact Hin|auto].
  Qed.

  Definition MT (s : @state rmap obs) (g : ghost) : Prop :=
    forall t th kpt, nth_error (s_threads s) t = Some th -> nth_error kp t = Some kpt ->
      (forall o rem r x, t_cur th = Some (o, rem, r) -> nth_error kpt (List.length (t_log th)) = Some x ->
         (forall k v, fst x <> GReg k v) -> res_tied g t (List.length (t_log th)) r) /\
      (forall i o r x, nth_error (t_log th) i = Some (o, r) -> nth_error kpt i = Some x ->
         (forall k v, fst x <> GReg k v) -> res_tied g t i r).

  Lemma mt_step s g t s' : MI s g -> MT s g -> step s t = Some s' -> MT s' (gstep kp obj s t g).
  Proof.
    intros HM HT Hs.
    assert (Hex : exists th, nth_error (s_threads s) t = Some th).
    { unfold step in Hs. destruct (nth_error (s_threads s) t) as [th|]; [eauto|discriminate]. }
    destruct Hex as [th Ht].
    pose proof (gstep_kept s t g) as Hkept.
    pose proof (mi_thr s g HM t th Ht) as Hth.
    destruct (mi_dat s g HM) as [Hd _].
    pose proof (proj2 (proj2 (mi_inv s g HM))) as Hclean.
    (* threads that did not move *)
    assert (Hother : forall th' dat', s' = put s t th' dat' ->
              forall u thu kpt, u <> t -> nth_error (s_threads s') u = Some thu -> nth_error kp u = Some kpt ->
              (forall o rem r x, t_cur thu = Some (o, rem, r) -> nth_error kpt (List.length (t_log thu)) = Some x ->
                 (forall k v, fst x <> GReg k v) -> res_tied (gstep kp obj s t g) u (List.length (t_log thu)) r) /\
              (forall i o r x, nth_error (t_log thu) i = Some (o, r) -> nth_error kpt i = Some x ->
                 (forall k v, fst x <> GReg k v) -> res_tied (gstep kp obj s t g) u i r)).
    { intros th' dat' -> u thu kpt Hne Hu Hk. simpl in Hu. rewrite nth_error_set_nth_neq in Hu by exact Hne.
      destruct (HT u thu kpt Hu Hk) as [H1 H2]. split.
      - intros o rem r x Hc Hx Hn. eapply res_tied_mono; [exact Hkept|]. eapply H1; eauto.
      - intros i o r x Hl Hx Hn. eapply res_tied_mono; [exact Hkept|]. eapply H2; eauto. }
    destruct (t_cur th) as [[[o rem] r]|] eqn:Ec.
    - destruct rem as [|e rem].
      + (* return *)
        pose proof (step_return s t th o r s' Ht Ec Hs) as Hs'.
        intros u thu kpt Hu Hk. destruct (Nat.eq_dec u t) as [->|Hne]; [|eapply Hother; eauto].
        rewrite Hs' in Hu. simpl in Hu. rewrite (nth_error_set_nth_eq _ _ _ _ Ht) in Hu. inversion Hu; subst thu.
        destruct (HT t th kpt Ht Hk) as [H1 H2]. simpl. split; [intros o0 rem0 r0 x Hc; discriminate|].
        intros i o0 r0 x Hl Hx Hn. eapply res_tied_mono; [exact Hkept|].
        destruct (Nat.lt_ge_cases i (List.length (t_log th))) as [Hlt|Hge].
        * rewrite nth_error_app1 in Hl by exact Hlt. eapply H2; eauto.
        * rewrite nth_error_app2 in Hl by exact Hge.
          destruct (i - List.length (t_log th))%nat as [|j] eqn:Ej; simpl in Hl; [|destruct j; discriminate].
          assert (i = List.length (t_log th)) by lia. subst i. inversion Hl; subst o0 r0. eapply H1; eauto.
      + (* an event *)
        destruct (step_event s t th o e rem r s' Ht Ec Hs) as [h' [r' [dat' [Hs' Hev]]]].
        intros u thu kpt Hu Hk. destruct (Nat.eq_dec u t) as [->|Hne]; [|eapply Hother; eauto].
        rewrite Hs' in Hu. simpl in Hu. rewrite (nth_error_set_nth_eq _ _ _ _ Ht) in Hu. inversion Hu; subst thu.
        destruct (HT t th kpt Ht Hk) as [H1 H2]. simpl. split.
        2:{ intros i o0 r0 x Hl Hx Hn. eapply res_tied_mono; [exact Hkept|]. eapply H2; eauto. }
        intros o0 rem0 r0 x Hc Hx Hn. inversion Hc; subst o0 rem0 r0.
        unfold thr_ok in Hth. rewrite Ec in Hth. destruct Hth as [kpt' [Hk' [_ [x' [Hx' [Hox [Hw _]]]]]]].
        rewrite Hk in Hk'. inversion Hk'; subst kpt'. rewrite Hx in Hx'. inversion Hx'; subst x'.
        assert (Hkeep : r' = r -> res_tied (gstep kp obj s t g) t (List.length (t_log th)) r').
        { intros ->. eapply res_tied_mono; [exact Hkept|]. eapply H1; eauto. }
        destruct e as [y|y|y|y|ob|ob|ob f].
        * apply Hkeep. tauto.
        * apply Hkeep. tauto.
        * apply Hkeep. tauto.
        * apply Hkeep. tauto.
        * (* the read: the new result is the observation just recorded *)
          assert (ob = obj) by (apply Hw; right; left; reflexivity). subst ob.
          assert (Hr' : r' = RVal (o_rd o (fin init0 (gops g)))).
          { unfold step in Hs. rewrite Ht, Ec in Hs.
            assert (Hnext : next_acc th = Some (obj, false)) by (unfold next_acc; rewrite Ec; reflexivity).
            rewrite (inv_not_racy m s t th (obj, false) (mi_inv s g HM) Ht Hnext), Hd in Hs.
            rewrite Hs' in Hs. inversion Hs as [[H0 H3]].
            assert (E := f_equal (fun l => nth_error l t) H0). simpl in E.
            rewrite !(nth_error_set_nth_eq _ _ _ _ Ht) in E. inversion E. reflexivity. }
          right. unfold gstep. rewrite Ht, Ec.
          assert (Hka : kind_at kp t (List.length (t_log th)) = Some (fst x)) by (unfold kind_at; rewrite Hk, Hx; reflexivity).
          rewrite Hka, Hd.
          destruct (fst x) as [k v|k|] eqn:Ek; [exfalso; exact (Hn k v eq_refl)| |]; cbn [is_lin lin_rop gh_ents].
          -- eexists; eexists. split; [apply in_or_app; right; left; reflexivity|]. simpl.
             split; [reflexivity|split; [reflexivity|split; [reflexivity|]]].
             rewrite Hr', Hox. unfold gop. rewrite Ek. reflexivity.
          -- eexists; eexists. split; [apply in_or_app; right; left; reflexivity|]. simpl.
             split; [reflexivity|split; [reflexivity|split; [reflexivity|]]].
             rewrite Hr', Hox. unfold gop. rewrite Ek. reflexivity.
        * apply Hkeep. tauto.
        * apply Hkeep. destruct Hev as [_ Hev].
          destruct (s_data s ob) as [d0|] eqn:Ed0; [|exfalso; exact (Hclean ob Ed0)].
          destruct Hev as [-> _]. rewrite Hox, gop_call. reflexivity.
    - (* invocation *)
      destruct (step_invoke s t th s' Ht Ec Hs) as [o [rest [Et Hs']]].
      intros u thu kpt Hu Hk. destruct (Nat.eq_dec u t) as [->|Hne]; [|eapply Hother; eauto].
      rewrite Hs' in Hu. simpl in Hu. rewrite (nth_error_set_nth_eq _ _ _ _ Ht) in Hu. inversion Hu; subst thu.
      destruct (HT t th kpt Ht Hk) as [H1 H2]. simpl. split.
      + intros o0 rem0 r0 x Hc Hx Hn. inversion Hc. left. reflexivity.
      + intros i o0 r0 x Hl Hx Hn. eapply res_tied_mono; [exact Hkept|]. eapply H2; eauto.
  Qed.

  Lemma irun_mt sched : forall s g s' g', MI s g -> MT s g -> irun kp obj s g sched = Some (s', g') -> MT s' g'.
  Proof.
    induction sched as [|t r IH]; intros s g s' g' HM HT Hr; simpl in Hr.
    - inversion Hr; subst. exact HT.
    - destruct (step s t) as [s1|] eqn:Es; [|discriminate].
      eapply IH; [eapply mi_step; eauto|eapply mt_step; eauto|exact Hr].
  Qed.

  Lemma machine_results_recorded dat sched s g t th kpt i o r x :
    dat obj = Some init0 -> (forall ob, dat ob <> None) ->
    irun kp obj (init (map (map gop) kp) dat) ghost0 sched = Some (s, g) ->
    nth_error (s_threads s) t = Some th -> nth_error kp t = Some kpt ->
    nth_error (t_log th) i = Some (o, r) -> nth_error kpt i = Some x -> (forall k v, fst x <> GReg k v) ->
    res_tied g t i r.
  Proof.
    intros Hd Hne Hr Ht Hk Hl Hx Hn.
    assert (HT0 : MT (init (map (map gop) kp) dat) ghost0).
    { intros u thu kpu Hu Hku. simpl in Hu. rewrite nth_error_map in Hu.
      destruct (nth_error (map (map gop) kp) u) as [p|]; [|discriminate]. inversion Hu; subst thu. simpl. split.
      - intros o0 rem0 r0 x0 Hc. discriminate.
      - intros i0 o0 r0 x0 Hl0. destruct i0; discriminate. }
    pose proof (irun_mt sched _ _ _ _ (mi_init dat Hd Hne) HT0 Hr) as HT.
    destruct (HT t th kpt Ht Hk) as [_ H2]. eapply H2; eauto.
  Qed.
End MHist.

(* the observer is a ghost: every execution of the machine has exactly one observed version *)
Lemma run_irun kp obj sched : forall s g s', run s sched = Some s' -> exists g', irun kp obj s g sched = Some (s', g').
Proof.
  induction sched as [|t r IH]; intros s g s' Hr; simpl in *.
  - inversion Hr; subst. eauto.
  - destruct (step s t) as [s1|]; [|discriminate]. eapply IH; eauto.
Qed.

(* from the regenerated obligations (Generated/Facts_locks_*.v: all_paths_disciplined and the
   name-free all_paths_owner_one_lock) to the hypothesis of the theorems: every path of a method
   is a well-formed body on the method's one lock *)
Lemma facts_bridge_owner {D X : Type} ms x :
  all_paths_disciplined ms = true -> all_paths_owner_one_lock ms = true ->
  In x ms -> is_init (fst x) = false ->
  exists m, forall (o : @op D X), In (o_body o) (snd x) -> wf_op m o.
Proof.
  intros Hd Ho Hx Hi. destruct (owner_one_lock_method ms x Ho Hx Hi) as [m Hm]. exists m.
  intros o Hin. unfold all_paths_disciplined in Hd. rewrite forallb_forall in Hd.
  specialize (Hd x Hx). rewrite Hi in Hd. simpl in Hd.
  unfold paths_disciplined in Hd. unfold paths_one_lock in Hm. rewrite forallb_forall in Hd, Hm.
  split; [apply Hd; exact Hin|]. rewrite <- one_lock_locks_named. apply Hm. exact Hin.
Qed.
