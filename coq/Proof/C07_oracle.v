(* C07 - the oracle: sound w.r.t. the Prop form, and met by the model on every well-formed input. *)
Require Import Verif.Common.Base Verif.Common.Json Verif.Common.JsonFacts.
Require Import Verif.Model.C07 Verif.Spec.C07 Verif.Proof.C07.

(* ---------- jeq is reflexive on well-formed documents ---------- *)

Lemma wfj_obj_eq m : wfj (JObj m) = nodup_keys m && forallb (fun kv => wfj (snd kv)) m.
Proof.
  simpl. f_equal. induction m as [|[k x] r IH]; simpl; [reflexivity|]. rewrite IH. reflexivity.
Qed.

Lemma wfj_arr_eq l : wfj (JArr l) = forallb wfj l.
Proof. simpl. induction l as [|x r IH]; simpl; [reflexivity|]. rewrite IH. reflexivity. Qed.

Lemma wfj_norm v : wfj (norm_json v) = wfj v.
Proof.
  induction v using json_ind'; try reflexivity.
  - change (norm_json (JArr l)) with (JArr (map norm_json l)). rewrite !wfj_arr_eq.
    induction l as [|x r IH]; simpl; [reflexivity|]. inversion H; subst.
    rewrite H2, IH by assumption. reflexivity.
  - change (norm_json (JObj m)) with (JObj (map (fun kv => (fst kv, norm_json (snd kv))) m)).
    rewrite !wfj_obj_eq. unfold nodup_keys. rewrite keys_map_values. f_equal.
    induction m as [|[k x] r IH]; simpl; [reflexivity|]. inversion H; subst. simpl in H2.
    rewrite H2, IH by assumption. reflexivity.
Qed.

Lemma jeq_refl v : wfj v = true -> jeq v v = true.
Proof. intros H. unfold jeq. apply json_eqb_refl. rewrite wfj_norm. exact H. Qed.

Lemma nodup_lookup_in {V} k (v : V) m : nodup_keys m = true -> In (k, v) m -> lookup k m = Some v.
Proof.
  induction m as [|[k' v'] r IH]; simpl; [contradiction|].
  intros Hn [Heq|Hin].
  - inversion Heq; subst. rewrite str_eqb_refl. reflexivity.
  - apply nodup_keys_cons in Hn as [Hnone Hn'].
    destruct (str_eqb k k') eqn:E.
    + apply str_eqb_eq in E. subst k'. exfalso. apply lookup_None_notin in Hnone. apply Hnone.
      unfold keys. apply in_map_iff. exists (k, v). auto.
    + apply IH; assumption.
Qed.

Lemma wfj_members m : wfj (JObj m) = true ->
  nodup_keys m = true /\ forall kv, In kv m -> wfj (snd kv) = true.
Proof.
  intros H. apply wfj_obj_inv in H as [Hn Hall]. split; [exact Hn|].
  rewrite Forall_forall in Hall. exact Hall.
Qed.

(* ---------- the model meets the oracle ---------- *)

Definition wf_input (i : input) : Prop :=
  wfj (JObj (o_vars (opts_of i))) = true /\
  match i_body i with BObject b => wfj (JObj b) = true | _ => True end.

Lemma value_ok_model ps d : wfj d = true -> value_ok_b ps d (bind_value ps d) = true.
Proof.
  intros Hw. destruct d; simpl; try (apply jeq_refl; exact Hw).
  rewrite placeholder_unwrap. destruct (unwrap s) as [n|]; [|apply jeq_refl; reflexivity].
  unfold param. destruct (lookup (config_cap n) ps) as [p|]; [|reflexivity].
  unfold jeq. simpl. apply str_eqb_refl.
Qed.

Lemma query_vars_model ps vars :
  wfj (JObj vars) = true -> query_vars_ok_b ps vars (bind_vars ps vars) = true.
Proof.
  intros Hw. apply wfj_members in Hw as [Hn Hall]. unfold query_vars_ok_b.
  unfold bind_vars at 1. rewrite map_length, Nat.eqb_refl. simpl.
  apply forallb_forall. intros [k d] Hin. simpl.
  rewrite bind_vars_lookup, (nodup_lookup_in k d vars Hn Hin).
  apply value_ok_model. apply (Hall (k, d) Hin).
Qed.

Lemma mutation_vars_model b d :
  wfj (JObj b) = true -> wfj (JObj d) = true -> mutation_vars_ok_b b d (complete b d) = true.
Proof.
  intros Hb Hd. apply wfj_members in Hb as [Hnb Hab]. apply wfj_members in Hd as [Hnd Had].
  unfold mutation_vars_ok_b. apply andb_true_iff. split.
  - unfold complete. rewrite forallb_app. apply andb_true_iff. split.
    + apply forallb_forall. intros [k v] Hin. simpl.
      rewrite (nodup_lookup_in k v b Hnb Hin). apply jeq_refl. apply (Hab (k, v) Hin).
    + apply forallb_forall. intros [k v] Hin. apply filter_In in Hin as [Hin Hp]. simpl in *.
      apply negb_true_iff in Hp. unfold mem in Hp.
      destruct (lookup k b); [discriminate|].
      rewrite (nodup_lookup_in k v d Hnd Hin). apply jeq_refl. apply (Had (k, v) Hin).
  - apply forallb_forall. intros k Hin. unfold mem. rewrite complete_lookup.
    apply in_app_or in Hin as [Hin|Hin]; apply in_keys_lookup in Hin as [v Hv].
    + rewrite Hv. reflexivity.
    + destruct (lookup k b); [reflexivity|]. rewrite Hv. reflexivity.
Qed.

Lemma operation_fields i g : operation i = Some g ->
  g_query g = o_query (opts_of i) /\ g_name g = o_name (opts_of i).
Proof.
  unfold operation, gql_request. destruct (o_type (opts_of i)).
  - intros H; inversion H; auto.
  - destruct (i_body i); try discriminate. intros H; inversion H; auto.
Qed.

Lemma vars_ok_model i g : wf_input i -> operation i = Some g -> vars_ok_b i (g_vars g) = true.
Proof.
  intros [Hv Hb]. unfold operation, gql_request, vars_ok_b.
  destruct (o_type (opts_of i)).
  - intros H; inversion H; simpl. apply query_vars_model. exact Hv.
  - destruct (i_body i) as [b| | |]; try discriminate. intros H; inversion H; simpl.
    apply mutation_vars_model; assumption.
Qed.

Lemma must_fail_operation i : must_fail i = false -> exists g, operation i = Some g.
Proof.
  unfold must_fail, operation, gql_request. destruct (o_type (opts_of i)); [eauto|].
  destruct (i_body i); try discriminate. eauto.
Qed.

Lemma must_fail_true i : must_fail i = true ->
  o_type (opts_of i) = TMutation /\ forall m, i_body i <> BObject m.
Proof.
  unfold must_fail. destruct (o_type (opts_of i)); [discriminate|].
  destruct (i_body i); try discriminate; intros _; split; try reflexivity; intros m; discriminate.
Qed.

Lemma body_json_query g : lookup "query" (unobj (body_json g)) = Some (JStr (g_query g)).
Proof. reflexivity. Qed.

Lemma model_meets_oracle i len : wf_input i -> spec_b i (model i len) = true.
Proof.
  intros Hwf. unfold spec_b. destruct (must_fail i) eqn:Hm.
  - apply must_fail_true in Hm as [Ht Hb]. rewrite (non_object_fails i len Ht Hb). reflexivity.
  - apply must_fail_operation in Hm as [g Hg].
    pose proof (operation_fields i g Hg) as [Hq Hn].
    pose proof (vars_ok_model i g Hwf Hg) as Hv.
    destruct (o_method (opts_of i)) eqn:Hmeth.
    + destruct (post_transport i len g Hg Hmeth) as [s [-> [H1 [H2 [H3 [H4 [H5 [H6 _]]]]]]]].
      unfold post_ok_b. rewrite H1, H2, H3, H4, H5, H6, <- Hq, <- Hn. simpl.
      rewrite str_eqb_refl, Z.eqb_refl. simpl.
      unfold body_json.
      destruct (str_eqb (g_name g) "") eqn:En; destruct (g_vars g) eqn:Ev; simpl;
        rewrite ?str_eqb_refl, Hv; reflexivity.
    + destruct (get_transport i len g Hg Hmeth) as [s [-> [H1 [H2 [H3 H4]]]]].
      unfold get_ok_b. rewrite H1, H2, H3, H4, <- Hq, <- Hn. simpl.
      rewrite str_eqb_refl. simpl.
      destruct (str_eqb (g_name g) "") eqn:En; destruct (g_vars g) eqn:Ev; simpl;
        rewrite ?str_eqb_refl, Hv; reflexivity.
Qed.

(* ---------- the oracle is sound for the Prop form ---------- *)

Lemma value_ok_sound ps d v : value_ok_b ps d v = true -> value_spec ps d v.
Proof.
  unfold value_ok_b, value_spec, jequiv. intros H. split.
  - intros s n p -> Hr Hl. apply unwrap_iff in Hr. rewrite Hr, Hl in H. exact H.
  - intros Hno. destruct d; try exact H.
    destruct (unwrap s) as [n|] eqn:E; [|exact H].
    exfalso. apply (Hno s n); [reflexivity|apply unwrap_iff; exact E].
Qed.

Lemma vars_ok_sound i vs : vars_ok_b i vs = true -> vars_spec i vs.
Proof.
  unfold vars_ok_b, vars_spec. destruct (o_type (opts_of i)).
  - unfold query_vars_ok_b. intros H. apply andb_true_iff in H as [Hl Hf].
    split; [apply Nat.eqb_eq; exact Hl|].
    intros k d Hin. rewrite forallb_forall in Hf. specialize (Hf (k, d) Hin). simpl in Hf.
    destruct (lookup k vs) as [v|]; [|discriminate]. exists v. split; [reflexivity|].
    apply value_ok_sound. exact Hf.
  - destruct (i_body i) as [b| | |]; try discriminate.
    unfold mutation_vars_ok_b. intros H. apply andb_true_iff in H as [H1 H2].
    exists b. split; [reflexivity|]. split.
    + intros k v Hin. rewrite forallb_forall in H1. specialize (H1 (k, v) Hin). simpl in H1.
      destruct (lookup k b); [exact H1|].
      destruct (lookup k (o_vars (opts_of i))) as [d|]; [|discriminate]. exists d. split; [reflexivity|exact H1].
    + intros k Hk. rewrite forallb_forall in H2. apply H2. apply in_or_app. exact Hk.
Qed.

Lemma list_eqb_str a b : list_eqb str_eqb a b = true -> a = b.
Proof. apply list_eqb_eq. intros x y. apply str_eqb_eq. Qed.

Lemma spec_b_sound i o : spec_b i o = true -> Spec i o.
Proof.
  unfold spec_b, Spec. destruct (must_fail i).
  - destruct o; try discriminate. reflexivity.
  - destruct o as [s| | |]; try discriminate. intros H. exists s. split; [reflexivity|].
    destruct (o_method (opts_of i)).
    + unfold post_ok_b in H.
      repeat (apply andb_true_iff in H; destruct H as [H ?]).
      split; [apply str_eqb_eq; exact H|].
      split.
      * destruct (s_body s) as [[| | | | |b|]|]; try discriminate.
        exists b.
        repeat (match goal with Hx : (_ && _)%bool = true |- _ => apply andb_true_iff in Hx; destruct Hx end).
        destruct (as_vars (lookup "variables" b)) as [vs|] eqn:Ev; [|discriminate].
        exists vs. split; [reflexivity|]. split.
        { destruct (lookup "query" b) as [[| | |q| | |]|]; try discriminate.
          f_equal. f_equal. apply str_eqb_eq. assumption. }
        split.
        { destruct (lookup "operationName" b) as [[| | |n| | |]|]; try discriminate.
          - left. f_equal. f_equal. apply str_eqb_eq. assumption.
          - right. split; [reflexivity|]. apply str_eqb_eq. assumption. }
        split; [reflexivity|]. apply vars_ok_sound. assumption.
      * split; [apply Z.eqb_eq; assumption|]. split; [apply list_eqb_str; assumption|].
        destruct (s_ctype s) as [|t [|]]; try discriminate. exists t. split; [reflexivity|assumption].
    + unfold get_ok_b in H.
      repeat (apply andb_true_iff in H; destruct H as [H ?]).
      split; [apply str_eqb_eq; exact H|].
      split; [apply list_eqb_str; assumption|].
      split.
      * destruct (s_name s) as [|n [|]]; try discriminate.
        -- right. split; [reflexivity|]. apply str_eqb_eq. assumption.
        -- left. f_equal. apply str_eqb_eq. assumption.
      * destruct (s_vars s) as [|[| | | | |vs|] [|]]; try discriminate.
        -- exists []. split; [right; split; reflexivity|]. apply vars_ok_sound. assumption.
        -- exists vs. split; [left; reflexivity|]. apply vars_ok_sound. assumption.
Qed.

Lemma model_meets_spec i len : wf_input i -> Spec i (model i len).
Proof. intros H. apply spec_b_sound. apply model_meets_oracle. exact H. Qed.

(* ---------- the body length is the model's own (no oracle) ---------- *)

Lemma predicted_len_operation i g : operation i = Some g -> predicted_len i = body_length g.
Proof. unfold operation, opts_of, predicted_len. intros ->. reflexivity. Qed.

Lemma content_length_is_body_length i g :
  operation i = Some g -> o_method (opts_of i) = TPost ->
  exists s, model_len i = Sent s /\
    s_method s = "POST"%string /\ s_body s = Some (body_json g) /\
    s_body_len s = body_length g /\ s_clen s = body_length g /\
    s_clen_hdr s = [dec_Z (body_length g)] /\
    model_body i = Some (bs (encode_body g)).
Proof.
  intros Hg Hm. unfold model_len. rewrite (predicted_len_operation i g Hg).
  destruct (post_transport i (body_length g) g Hg Hm) as [s [Hs [H1 [H2 [H3 [H4 [H5 _]]]]]]].
  exists s. repeat split; try assumption.
  unfold model_body. unfold operation, opts_of in Hg, Hm. rewrite Hg, Hm. reflexivity.
Qed.

Lemma model_len_meets_oracle i : wf_input i -> spec_b i (model_len i) = true.
Proof. intros H. apply model_meets_oracle. exact H. Qed.

Lemma model_len_meets_spec i : wf_input i -> Spec i (model_len i).
Proof. intros H. apply model_meets_spec. exact H. Qed.

(* concurrent_calls > 1 puts the concurrent stage in front: every attempt runs the rest of the
   stack on its own copy, and what each of them sends is what a single call sends *)
Lemma concurrent_stage_transparent i len :
  model_on (exec_stack true) i len = model_on (exec_stack false) i len.
Proof. reflexivity. Qed.
