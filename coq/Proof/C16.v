(* C16 - proofs, part 1: configuration split, the shadow proxy as a function, contexts. *)
Require Import Verif.Common.Base Verif.Common.Json Verif.Common.Ctx.
Require Import Verif.Model.C16 Verif.Spec.C16.
Close Scope Z_scope.

(* ---- CloneRequest ---- *)
Lemma copy_mmap_id m : copy_mmap m = m.
Proof.
  unfold copy_mmap. induction m as [|[k v] r IH]; simpl; [reflexivity|].
  rewrite map_id. rewrite IH. reflexivity.
Qed.
Lemma copy_par_id m : copy_par m = m.
Proof. unfold copy_par. induction m as [|[k v] r IH]; simpl; [reflexivity|]. rewrite IH. reflexivity. Qed.

(* the argument keeps its contents, the clone has the same contents *)
Lemma clone_request_contents r : clone_request r = (r, r).
Proof.
  unfold clone_request. rewrite copy_mmap_id, copy_par_id. destruct r as [m p h q pa [b|]]; reflexivity.
Qed.

(* ---- invariance, functional form: for every regular proxy p1, whatever the shadow proxy
   is and does (it does not occur in the result), at every time and under every context ---- *)
Lemma shadow_proxy_result {R} (p1 : ctx -> request -> R) tk now timeout c r :
  fst (shadow_proxy p1 tk now timeout c r) = p1 c r.
Proof. unfold shadow_proxy. rewrite clone_request_contents. reflexivity. Qed.

Lemma shadow_proxy_spawned {R} (p1 : ctx -> request -> R) tk now timeout c r :
  snd (shadow_proxy p1 tk now timeout c r) = {| s_ctx := shadow_ctx tk now timeout; s_req := r |}.
Proof. unfold shadow_proxy. rewrite clone_request_contents. reflexivity. Qed.

(* ---- the split ---- *)
Definition shadowb (b : backend) : bool := snd (is_shadow_backend b).
Definition durb (b : backend) : Z := fst (is_shadow_backend b).

Lemma split_loop_spec bs : forall reg sh mx,
  split_loop bs reg sh mx =
  ((reg ++ filter (fun b => negb (shadowb b)) bs)%list,
   (sh ++ filter shadowb bs)%list,
   fold_left (fun m b => if shadowb b then (if (m <? durb b)%Z then durb b else m) else m) bs mx).
Proof.
  induction bs as [|b r IH]; intros reg sh mx; simpl.
  - rewrite !app_nil_r. reflexivity.
  - unfold shadowb, durb. destruct (is_shadow_backend b) as [d s] eqn:E. simpl.
    destruct s; simpl; rewrite IH; unfold shadowb, durb; rewrite <- !app_assoc; reflexivity.
Qed.

Lemma shadow_split_spec bs :
  shadow_split bs =
  (filter (fun b => negb (shadowb b)) bs, filter shadowb bs,
   fold_left (fun m b => if shadowb b then (if (m <? durb b)%Z then durb b else m) else m) bs 0%Z).
Proof. unfold shadow_split. rewrite split_loop_spec. reflexivity. Qed.

(* the maximum: an upper bound of every shadow backend's duration, and reached (or 0) *)
Definition maxdur (bs : list backend) (mx : Z) : Z :=
  fold_left (fun m b => if shadowb b then (if (m <? durb b)%Z then durb b else m) else m) bs mx.

Lemma maxdur_ge_init bs : forall mx, (mx <= maxdur bs mx)%Z.
Proof.
  induction bs as [|b r IH]; intros mx; simpl; [lia|].
  unfold maxdur in *. simpl. destruct (shadowb b); [|apply IH].
  destruct (mx <? durb b)%Z eqn:E; [apply Z.ltb_lt in E; specialize (IH (durb b)); lia|apply IH].
Qed.

Lemma maxdur_upper bs : forall mx b, In b bs -> shadowb b = true -> (durb b <= maxdur bs mx)%Z.
Proof.
  induction bs as [|x r IH]; intros mx b Hin Hs; [contradiction|].
  unfold maxdur in *. simpl. destruct Hin as [->|Hin].
  - rewrite Hs. destruct (mx <? durb b)%Z eqn:E.
    + apply (maxdur_ge_init r (durb b)).
    + apply Z.ltb_ge in E. pose proof (maxdur_ge_init r mx). unfold maxdur in *. lia.
  - apply IH; assumption.
Qed.

Lemma maxdur_reached bs : forall mx,
  maxdur bs mx = mx \/ exists b, In b bs /\ shadowb b = true /\ maxdur bs mx = durb b.
Proof.
  induction bs as [|x r IH]; intros mx; [left; reflexivity|].
  unfold maxdur in *. simpl. destruct (shadowb x) eqn:Hs.
  - destruct (mx <? durb x)%Z.
    + destruct (IH (durb x)) as [H|(b & Hb & Hsb & H)].
      * right. exists x. split; [left; reflexivity|]. split; assumption.
      * right. exists b. split; [right; assumption|]. split; assumption.
    + destruct (IH mx) as [H|(b & Hb & Hsb & H)]; [left; assumption|].
      right. exists b. split; [right; assumption|]. split; assumption.
  - destruct (IH mx) as [H|(b & Hb & Hsb & H)]; [left; assumption|].
    right. exists b. split; [right; assumption|]. split; assumption.
Qed.

(* every backend lands in exactly one of the two lists, order kept, nothing lost or doubled *)
Lemma split_partition bs reg sh mx :
  shadow_split bs = (reg, sh, mx) ->
  reg = filter (fun b => negb (shadowb b)) bs /\ sh = filter shadowb bs /\
  (forall b, In b bs <-> In b reg \/ In b sh) /\
  (forall b, In b reg -> In b sh -> False) /\
  List.length reg + List.length sh = List.length bs.
Proof.
  rewrite shadow_split_spec. intros H. inversion H; subst. clear H.
  split; [reflexivity|]. split; [reflexivity|]. split; [|split].
  - intros b. rewrite !filter_In. destruct (shadowb b); simpl; intuition discriminate.
  - intros b H1 H2. apply filter_In in H1 as [_ H1]. apply filter_In in H2 as [_ H2].
    rewrite H2 in H1. discriminate.
  - induction bs as [|x r IH]; simpl; [reflexivity|]. destruct (shadowb x); simpl; lia.
Qed.

(* a backend is a shadow backend exactly when its proxy namespace is a map whose "shadow"
   entry is the boolean true *)
Lemma shadowb_iff b : shadowb b = true <-> exists t, b_ns b = NsMap (FBool true) t.
Proof.
  unfold shadowb, is_shadow_backend. destruct (b_ns b) as [| |[| |[|]] t]; simpl; split;
    try discriminate; try (intros [t' H]; discriminate).
  - intros _. exists t. reflexivity.
  - reflexivity.
Qed.

(* ---- New: error and factory calls do not depend on the shadow backends ---- *)
Lemma regular_of_new bs : regular_of (shadow_new bs) = filter (fun b => negb (shadowb b)) bs.
Proof.
  unfold shadow_new. destruct bs as [|b r]; [reflexivity|].
  rewrite shadow_split_spec. destruct (filter shadowb (b :: r)); reflexivity.
Qed.
Lemma shadow_of_new bs : shadow_of (shadow_new bs) = filter shadowb bs.
Proof.
  unfold shadow_new. destruct bs as [|b r]; [reflexivity|].
  rewrite shadow_split_spec. destruct (filter shadowb (b :: r)) eqn:E; reflexivity.
Qed.

Lemma new_error_invariant {E} (nb : E) (ferr : list nat -> option E) bs :
  ferr [] = Some nb ->
  new_error nb ferr bs = ferr (ids (filter (fun b => negb (shadowb b)) bs)).
Proof.
  intros Hf. unfold new_error. rewrite <- regular_of_new.
  destruct (shadow_new bs) eqn:E0; simpl; try reflexivity.
  unfold shadow_new in E0. destruct bs; [simpl; symmetry; exact Hf|].
  destruct (shadow_split (b :: bs)) as [[? ?] ?]. destruct l0; discriminate.
Qed.

(* ---- endpoint: the caller's result is the regular endpoint's ---- *)
Lemma endpoint_invariant {R} (F : list backend -> ctx -> request -> R) bs tk now c r :
  bs <> [] ->
  option_map fst (endpoint_call F bs tk now c r) = Some (F (filter (fun b => negb (shadowb b)) bs) c r).
Proof.
  intros Hne. unfold endpoint_call. rewrite <- regular_of_new.
  destruct (shadow_new bs) eqn:E0; simpl.
  - unfold shadow_new in E0. destruct bs; [contradiction|].
    destruct (shadow_split (b :: bs)) as [[? ?] ?]. destruct l0; discriminate.
  - reflexivity.
  - pose proof (shadow_proxy_result (F regular) tk now timeout c r) as H.
    destruct (shadow_proxy (F regular) tk now timeout c r). simpl in *. rewrite H. reflexivity.
Qed.

(* what is spawned: the full request under the detached context with the maximal timeout *)
Lemma endpoint_spawned {R} (F : list backend -> ctx -> request -> R) bs tk now c r x s :
  endpoint_call F bs tk now c r = Some (x, Some s) ->
  s_req s = r /\ s_ctx s = shadow_ctx tk now (maxdur bs 0%Z) /\ filter shadowb bs <> [].
Proof.
  unfold endpoint_call. destruct (shadow_new bs) eqn:E0; try discriminate.
  pose proof (shadow_proxy_spawned (F regular) tk now timeout c r) as H.
  destruct (shadow_proxy (F regular) tk now timeout c r) as [y s']. simpl in H.
  intros E1. inversion E1; subst. simpl.
  unfold shadow_new in E0. destruct bs as [|b rest]; [discriminate|].
  rewrite shadow_split_spec in E0. destruct (filter shadowb (b :: rest)) eqn:Ef; [discriminate|].
  inversion E0; subst. split; [reflexivity|]. split; [reflexivity|]. discriminate.
Qed.

(* ---- contexts ---- *)
(* detached: whatever cancel functions have been called (the client's, the server's: any
   token but the shadow's own), before the shadow deadline the shadow context is alive *)
Lemma shadow_ctx_detached cs now tk t0 timeout :
  ~ In tk cs -> (now < t0 + timeout)%Z -> done cs now (shadow_ctx tk t0 timeout) = false.
Proof. intros. unfold shadow_ctx. apply detached_alive; assumption. Qed.

(* in particular: cancelling every frame of the client's context does not end it *)
Lemma shadow_ctx_survives_client (client : ctx) cs now tk t0 timeout :
  (forall t, In t cs -> exists f, In f client /\ Ctx.tok f = t) ->
  (forall f, In f client -> Ctx.tok f <> tk) ->
  (now < t0 + timeout)%Z ->
  done cs now (shadow_ctx tk t0 timeout) = false.
Proof.
  intros Hcs Hfresh Hn. apply shadow_ctx_detached; [|assumption].
  intros Hin. destruct (Hcs _ Hin) as (f & Hf & Ht). apply (Hfresh f Hf). exact Ht.
Qed.

(* whereas a context derived from the client's would be done *)
Lemma derived_ctx_dies (client : ctx) cs now tk t0 timeout f :
  In f client -> In (Ctx.tok f) cs -> done cs now (with_timeout client tk t0 timeout) = true.
Proof.
  intros Hf Ht. unfold with_timeout. apply done_parent. eapply done_cancelled; eassumption.
Qed.

(* bounded: the deadline is exactly t0 + timeout and from then on the context is done *)
Lemma shadow_ctx_bounded tk t0 timeout :
  deadline (shadow_ctx tk t0 timeout) = Some (t0 + timeout)%Z /\
  forall cs now, (t0 + timeout <= now)%Z -> done cs now (shadow_ctx tk t0 timeout) = true.
Proof.
  split; [apply detached_deadline|]. intros cs now H.
  eapply done_deadline; [apply detached_deadline|exact H].
Qed.

(* the context a shadow backend is called with (behind a merge when there are several) is
   done at the latest at t0 + timeout, and its deadline is the smaller of the two bounds *)
Lemma shadow_backend_ctx_bounded n tk tk2 t0 t1 timeout ep :
  (t0 <= t1)%Z ->
  (forall cs now, (t0 + timeout <= now)%Z -> done cs now (shadow_backend_ctx n tk tk2 t0 t1 timeout ep) = true) /\
  deadline (shadow_backend_ctx n tk tk2 t0 t1 timeout ep) =
    Some (if (2 <=? n)%nat then Z.min (t0 + timeout) (t1 + merge_timeout ep) else (t0 + timeout))%Z.
Proof.
  intros Ht. unfold shadow_backend_ctx. destruct (2 <=? n)%nat.
  - split.
    + intros cs now H. unfold with_timeout at 1. apply done_parent.
      eapply done_deadline; [apply detached_deadline|exact H].
    + rewrite with_timeout_deadline_eq. unfold shadow_ctx. rewrite detached_deadline. reflexivity.
  - split; [apply shadow_ctx_bounded|apply detached_deadline].
Qed.

(* the interval the harness checks: with t0 and t1 inside [0, seen], the deadline lies in
   [e, seen + e] for e = expected_rel_deadline *)
Lemma expected_deadline_interval n t0 t1 timeout ep seen d :
  (0 <= t0)%Z -> (t0 <= t1)%Z -> (t1 <= seen)%Z ->
  d = (if (2 <=? n)%nat then Z.min (t0 + timeout) (t1 + merge_timeout ep) else (t0 + timeout))%Z ->
  (expected_rel_deadline n timeout ep <= d)%Z /\ (d <= seen + expected_rel_deadline n timeout ep)%Z /\
  (d <= seen + timeout)%Z.
Proof.
  intros H0 H1 H2 ->. unfold expected_rel_deadline. destruct (2 <=? n)%nat; lia.
Qed.

(* ---- oracle soundness: the per-backend boolean check implies its Prop reading ---- *)
Lemma spec_shadow_sound T req fc b hang s :
  spec_shadow_b T req fc b hang s = true -> ShadowCallOK T req b hang s.
Proof.
  unfold spec_shadow_b, ShadowCallOK. intros H.
  repeat (apply andb_true_iff in H as [H ?]).
  destruct (so_deadline s) as [d|] eqn:Ed; [|discriminate].
  repeat match goal with H : (_ && _) = true |- _ => apply andb_true_iff in H as [? ?] end.
  split; [apply Nat.eqb_eq; assumption|].
  repeat (split; [assumption|]).
  exists d. split; [reflexivity|]. split; [apply Z.leb_le; assumption|]. split.
  - intros e t Hc. rewrite Hc in *. destruct e; split; try discriminate; try congruence.
    intros _. apply Z.leb_le. assumption.
  - intros Hh. subst hang. simpl in *.
    destruct (so_final s) as [[[| |] t]|]; try discriminate.
    exists t. split; [reflexivity|]. apply Z.leb_le. assumption.
Qed.

(* ---- full copy ---- *)
Lemma body_copy r :
  clone_request r = (r, r) /\
  forall R (p1 : ctx -> request -> R) tk now timeout c,
    FullCopy r (snd (shadow_proxy p1 tk now timeout c r)).
Proof.
  split; [apply clone_request_contents|]. intros. rewrite shadow_proxy_spawned.
  unfold FullCopy. simpl. repeat split; reflexivity.
Qed.

Lemma max_timeout bs :
  (forall b, In b bs -> shadowb b = true -> (durb b <= maxdur bs 0%Z)%Z) /\
  (maxdur bs 0%Z = 0%Z \/ exists b, In b bs /\ shadowb b = true /\ maxdur bs 0%Z = durb b).
Proof. split; [intros; apply maxdur_upper; assumption|apply maxdur_reached]. Qed.

(* ---- the model's observations pass the oracle ---- *)
Definition model_sobs (T : Z) (req : request) (b : backend) (id : nat) (seen t0 tc tf : Z) : sobs :=
  let c := shadow_ctx 0 t0 T in
  {| so_id := id; so_calls := 1; so_req := handed b req;
     so_priv_hdr := true; so_priv_par := true; so_priv_body := true; so_value := true;
     so_deadline := deadline c; so_seen := seen;
     so_cancel := Some (if done [] tc c then CDeadline else CNil, tc);
     so_final := Some (if done [] tf c then CDeadline else CNil, tf) |}.

Lemma list_eqb_refl {A} (f : A -> A -> bool) l : (forall x, f x x = true) -> list_eqb f l l = true.
Proof. intros H. induction l as [|x r IH]; simpl; [reflexivity|]. rewrite H, IH. reflexivity. Qed.

Lemma req_eqb_refl r : req_eqb r r = true.
Proof.
  unfold req_eqb, mmap_eqb, par_eqb. rewrite str_eqb_refl. simpl.
  rewrite !list_eqb_refl.
  - simpl. destruct (q_body r); simpl; [apply str_eqb_refl|reflexivity].
  - intros [k v]. simpl. rewrite !str_eqb_refl. reflexivity.
  - intros [k v]. simpl. rewrite str_eqb_refl. simpl. apply list_eqb_refl. apply str_eqb_refl.
  - intros [k v]. simpl. rewrite str_eqb_refl. simpl. apply list_eqb_refl. apply str_eqb_refl.
Qed.

Lemma model_meets_oracle T req b hang id seen t0 tc tf :
  (0 <= t0)%Z -> (t0 <= seen)%Z -> (tc < t0 + T)%Z -> (t0 + T <= tf)%Z ->
  spec_shadow_b T req true b hang (model_sobs T req b id seen t0 tc tf) = true.
Proof.
  intros H0 H1 H2 H3. unfold spec_shadow_b, model_sobs. cbn [so_calls so_req so_priv_hdr so_priv_par so_priv_body so_deadline so_seen so_cancel so_final].
  rewrite req_eqb_refl. unfold shadow_ctx. rewrite detached_deadline.
  rewrite (detached_alive [] tc 0 t0 T); [|intros []|assumption].
  rewrite (done_deadline [] tf _ (t0 + T)%Z); [|apply detached_deadline|assumption].
  assert (E : opt_eqb str_eqb (q_body (handed b req)) (q_body req) = true).
  { simpl. destruct (q_body req); simpl; [apply str_eqb_refl|reflexivity]. }
  rewrite E. simpl.
  assert (E1 : (t0 + T <=? seen + T)%Z = true) by (apply Z.leb_le; lia).
  assert (E2 : (t0 + T <=? tf)%Z = true) by (apply Z.leb_le; lia).
  rewrite E1, E2. destruct hang; reflexivity.
Qed.

(* ---- the run-level oracle ---- *)
Lemma forallb2_spec {A B} (f : A -> B -> bool) a : forall b,
  forallb2 f a b = true -> List.length a = List.length b /\
  forall x y, In (x, y) (combine a b) -> f x y = true.
Proof.
  induction a as [|x r IH]; intros [|y s] H; simpl in *; try discriminate.
  - split; [reflexivity|intros ? ? []].
  - apply andb_true_iff in H as [H1 H2]. destruct (IH s H2) as [L F]. split; [lia|].
    intros x' y' [E|Hin]; [inversion E; subst; assumption|auto].
Qed.

Lemma run_oracle_sound bs req fc outs plain shadowed pregs sregs shs :
  spec_run_b bs req fc outs plain shadowed pregs sregs shs = true ->
  cres_eqb plain shadowed = true /\ list_eqb robs_eqb pregs sregs = true /\
  map so_id shs = ids (filter shadowb bs) /\
  Forall (fun s => exists b, In b bs /\ b_id b = so_id s /\
                   ShadowCallOK (match shadow_new bs with BShadowed _ _ t => t | _ => 0%Z end) req b (is_hang outs (b_id b)) s) shs.
Proof.
  unfold spec_run_b. rewrite shadow_of_new. intros H.
  apply andb_true_iff in H as [H H3]. apply andb_true_iff in H as [H1 H2].
  split; [assumption|]. split; [assumption|].
  set (T := match shadow_new bs with BShadowed _ _ t => t | _ => 0%Z end) in *.
  assert (Hin : forall b, In b (filter shadowb bs) -> In b bs) by (intros b Hb; apply filter_In in Hb; tauto).
  revert Hin H3. generalize (filter shadowb bs) as l. clear H1 H2.
  induction shs as [|s r IH]; intros [|b l] Hin H3; simpl in *; try discriminate.
  - split; [reflexivity|constructor].
  - apply andb_true_iff in H3 as [Hh Ht]. apply andb_true_iff in Hh as [Hid Hs].
    apply Nat.eqb_eq in Hid. destruct (IH l (fun x Hx => Hin x (or_intror Hx)) Ht) as [E F].
    split; [unfold ids in *; simpl; rewrite Hid, E; reflexivity|].
    constructor; [|assumption]. exists b. split; [apply Hin; left; reflexivity|]. split; [assumption|].
    eapply spec_shadow_sound. exact Hs.
Qed.

Lemma spawned_detached (client : ctx) cs now tk t0 timeout s :
  s_ctx s = shadow_ctx tk t0 timeout ->
  (forall t, In t cs -> exists f, In f client /\ Ctx.tok f = t) ->
  (forall f, In f client -> Ctx.tok f <> tk) ->
  (now < t0 + timeout)%Z ->
  Detached cs now s.
Proof. intros Hs H1 H2 H3. unfold Detached. rewrite Hs. eapply shadow_ctx_survives_client; eassumption. Qed.

Lemma spawned_bounded tk t0 timeout s :
  s_ctx s = shadow_ctx tk t0 timeout -> Bounded t0 timeout s.
Proof. intros Hs. unfold Bounded. rewrite Hs. apply shadow_ctx_bounded. Qed.

(* ---- rebuilding from the same configuration value ---- *)
Lemma rebuilds_same n : forall bs, rebuilds n bs = (repeat (shadow_new bs) n, bs).
Proof.
  induction n as [|n IH]; intros bs; simpl; [reflexivity|]. rewrite IH. reflexivity.
Qed.

Definition rb_reg : backend := {| b_id := 1; b_timeout := 2000; b_ns := NsAbsent; b_method := "GET" |}.
Definition rb_sh : backend := {| b_id := 0; b_timeout := 2000; b_ns := NsMap (FBool true) TAbsent; b_method := "GET" |}.

Lemma inplace_filter_refuted : exists bs,
  fst (new_inplace bs) = BShadowed [rb_reg] [rb_sh] 2000%Z /\
  snd (new_inplace bs) <> bs /\
  fst (new_inplace (snd (new_inplace bs))) = BPlain [rb_reg; rb_reg].
Proof.
  exists [rb_sh; rb_reg]. vm_compute. split; [reflexivity|]. split; [discriminate|reflexivity].
Qed.

(* ---- histories: the client-visible step does not depend on the shadow calls in flight ---- *)
Lemma serve_independent {R} (F : list backend -> ctx -> request -> R) bs inflight tk now c r :
  bs <> [] ->
  fst (serve F bs inflight tk now c r) = Some (F (filter (fun b => negb (shadowb b)) bs) c r).
Proof.
  intros Hne. unfold serve. pose proof (endpoint_invariant F bs tk now c r Hne) as H.
  destruct (endpoint_call F bs tk now c r) as [[x [s|]]|]; simpl in *; try discriminate;
    inversion H; reflexivity.
Qed.

Definition calls_of {R} (F : list backend -> ctx -> request -> R) (reg : list backend) (es : list hevent) : list (option R) :=
  flat_map (fun e => match e with HCall _ _ c r => [Some (F reg c r)] | HShadowEnds _ => [] end) es.

(* for every history (any number of calls, shadow calls ending at any point or never) and
   any shadow calls pending at its start *)
Lemma history_independent {R} (F : list backend -> ctx -> request -> R) bs es :
  bs <> [] -> forall inflight,
  history F bs inflight es = calls_of F (filter (fun b => negb (shadowb b)) bs) es.
Proof.
  intros Hne. induction es as [|[tk now c r|k] rest IH]; intros inflight; simpl; [reflexivity| |apply IH].
  pose proof (serve_independent F bs inflight tk now c r Hne) as H.
  destruct (serve F bs inflight tk now c r) as [x inflight']. simpl in H. subst x.
  rewrite IH. reflexivity.
Qed.

Lemma bounded_blocks {R} cap (F : list backend -> ctx -> request -> R) bs reg sh t inflight tk now c r :
  shadow_new bs = BShadowed reg sh t -> cap <= List.length inflight ->
  fst (serve_bounded cap F bs inflight tk now c r) = None.
Proof.
  intros Hb Hc. unfold serve_bounded. rewrite Hb.
  destruct (cap <=? List.length inflight)%nat eqn:E; [reflexivity|].
  apply Nat.leb_gt in E. lia.
Qed.

(* a copy buffer pre-sized by length changes the body both pipelines read, for every n > 0 *)
Lemma slen_app a b : String.length (a ++ b)%string = String.length a + String.length b.
Proof. induction a as [|c a IH]; simpl; [reflexivity|]. rewrite IH. reflexivity. Qed.
Lemma slen_nul n : String.length (nul_prefix n) = n.
Proof. unfold nul_prefix. induction n as [|n IH]; simpl; [reflexivity|]. rewrite IH. reflexivity. Qed.

Lemma presized_clone_refuted n r b :
  q_body r = Some b -> n <> 0 ->
  q_body (fst (clone_request_presized n r)) <> q_body r /\ q_body (snd (clone_request_presized n r)) <> q_body r.
Proof.
  intros Hb Hn. unfold clone_request_presized. rewrite Hb. simpl.
  assert (H : (nul_prefix n ++ b)%string <> b).
  { intros E. apply (f_equal String.length) in E. rewrite slen_app, slen_nul in E. lia. }
  split; intros E; inversion E; contradiction.
Qed.
