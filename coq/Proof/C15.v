(* C15 - proofs, part 1: arithmetic of normalize / gcd / compact, the sort and the lowest
   priority group, the model meets the Prop, soundness of the boolean oracle. *)
Require Import Verif.Common.Base Verif.Model.C15 Verif.Spec.C15.
From Coq Require Import Permutation Sorted Znumtheory.
Open Scope Z_scope.

(* ---------------------------------------------------------------------------------- *)
(* well-formed inputs: weights are uint16.  No bound on the number of records is needed: the
   conversion uint16(w*scale/sum) never wraps, because the division only happens when
   sum > scale, and then w*scale/sum <= w <= 65535 (quota_range, no_wrap) *)
Definition wf_ws (ws : list Z) : Prop := Forall (fun w => 0 <= w <= 65535) ws.
Definition wf_rs (rs : list srv) : Prop := Forall (fun a => 0 <= weight a <= 65535) rs.

Lemma sumZ_nonneg ws : Forall (fun w => 0 <= w) ws -> 0 <= sumZ ws.
Proof. induction 1; simpl; lia. Qed.

Lemma sumZ_ge ws w : Forall (fun w => 0 <= w) ws -> In w ws -> w <= sumZ ws.
Proof.
  induction 1 as [|x r Hx Hr IH]; simpl; intros Hin; [contradiction|].
  pose proof (sumZ_nonneg r Hr). destruct Hin as [->|Hin]; [lia|]. specialize (IH Hin). lia.
Qed.

Lemma wf_nonneg ws : Forall (fun w => 0 <= w <= 65535) ws -> Forall (fun w => 0 <= w) ws.
Proof. apply Forall_impl. intros; lia. Qed.

(* the floor terms sum to at most the scale *)
Lemma sum_floor_le (sc s : Z) (ws : list Z) : 0 < s -> 0 <= sc -> Forall (fun w => 0 <= w) ws ->
  sumZ (map (fun w => w * sc / s) ws) * s <= sumZ ws * sc.
Proof.
  intros Hs Hsc H. induction H as [|w r Hw Hr IH]; simpl; [lia|].
  pose proof (Z.mul_div_le (w * sc) s Hs). nia.
Qed.

Lemma scale_eq ws : scale_of ws = Z.max 100 (Z.of_nat (List.length ws)).
Proof. reflexivity. Qed.

Lemma quota_unfold ws w :
  quota ws w = if sumZ ws <=? scale_of ws then w else w * scale_of ws / sumZ ws.
Proof. reflexivity. Qed.

Lemma quota_range ws w : wf_ws ws -> In w ws -> 0 <= quota ws w <= scale_of ws /\ quota ws w <= w.
Proof.
  intros Hwf Hin. rewrite quota_unfold.
  pose proof (sumZ_ge ws w (wf_nonneg _ Hwf) Hin) as Hle.
  assert (0 <= w) by (unfold wf_ws in Hwf; rewrite Forall_forall in Hwf; apply Hwf in Hin; lia).
  assert (Hsc : 100 <= scale_of ws) by (rewrite scale_eq; lia).
  destruct (sumZ ws <=? scale_of ws) eqn:E.
  - apply Z.leb_le in E. lia.
  - apply Z.leb_gt in E. split; [split|].
    + apply Z.div_pos; nia.
    + apply Z.div_le_upper_bound; nia.
    + apply Z.div_le_upper_bound; nia.
Qed.

(* the uint16 conversion is the identity *)
Lemma no_wrap ws w : wf_ws ws -> In w ws -> u16 (quota ws w) = quota ws w.
Proof.
  intros Hwf Hin. pose proof (quota_range ws w Hwf Hin) as Hr.
  unfold wf_ws in Hwf. rewrite Forall_forall in Hwf. specialize (Hwf w Hin).
  unfold u16. apply Z.mod_small. lia.
Qed.

Lemma map_ext_in' {A B} (f g : A -> B) l : (forall x, In x l -> f x = g x) -> map f l = map g l.
Proof. apply map_ext_in. Qed.

(* normalize computes the quotas *)
Lemma normalize_spec ws : wf_ws ws -> normalize ws = map (quota ws) ws.
Proof.
  intros Hwf. unfold normalize.
  destruct (sumZ ws <=? scale_of ws) eqn:E.
  - rewrite <- (map_id ws) at 1. apply map_ext_in. intros w _. rewrite quota_unfold, E. reflexivity.
  - apply map_ext_in. intros w Hin. rewrite <- (no_wrap ws w Hwf Hin).
    rewrite quota_unfold, E. reflexivity.
Qed.

(* gcd divides every element *)
Lemma fold_gcd_divides r : forall a, (fold_left Z.gcd r a | a) /\ forall x, In x r -> (fold_left Z.gcd r a | x).
Proof.
  induction r as [|y r IH]; intros a; simpl.
  - split; [apply Z.divide_refl|tauto].
  - destruct (IH (Z.gcd a y)) as [H1 H2]. split.
    + eapply Z.divide_trans; [exact H1|apply Z.gcd_divide_l].
    + intros x [<-|Hin]; [eapply Z.divide_trans; [exact H1|apply Z.gcd_divide_r]|auto].
Qed.

Lemma gcdl_divides ws x : In x ws -> (gcdl ws | x).
Proof.
  destruct ws as [|w r]; simpl; [tauto|].
  destruct (fold_gcd_divides r w) as [H1 H2]. intros [<-|Hin]; auto.
Qed.

Lemma div_mul_exact x d : 0 < d -> (d | x) -> x / d * d = x.
Proof. intros Hd [k ->]. rewrite Z.div_mul by lia. reflexivity. Qed.

(* compact = quotas divided by one common positive divisor that divides them all *)
Lemma compact_spec ws : wf_ws ws ->
  exists d, 0 < d /\ compact ws = map (fun w => quota ws w / d) ws /\
            forall w, In w ws -> quota ws w / d * d = quota ws w.
Proof.
  intros Hwf. unfold compact. rewrite (normalize_spec ws Hwf).
  destruct (gcdl (map (quota ws) ws) <? 2) eqn:E.
  - exists 1. split; [lia|]. split.
    + apply map_ext. intros w. rewrite Z.div_1_r. reflexivity.
    + intros w _. rewrite Z.div_1_r. lia.
  - apply Z.ltb_ge in E. exists (gcdl (map (quota ws) ws)). split; [lia|]. split.
    + rewrite map_map. reflexivity.
    + intros w Hin. apply div_mul_exact; [lia|]. apply gcdl_divides. apply in_map. exact Hin.
Qed.

(* monotone: needs no hypothesis on the weights *)
Lemma quota_mono ws a b : a <= b -> quota ws a <= quota ws b.
Proof.
  intros Hab. rewrite !quota_unfold.
  assert (Hsc : 100 <= scale_of ws) by (rewrite scale_eq; lia).
  destruct (sumZ ws <=? scale_of ws) eqn:E; [exact Hab|].
  apply Z.leb_gt in E. apply Z.div_le_mono; [lia|]. nia.
Qed.

Lemma times_mono ws d a b : 0 < d -> a <= b -> times_of ws d a <= times_of ws d b.
Proof. intros Hd Hab. unfold times_of. apply Z.div_le_mono; [exact Hd|]. apply quota_mono; exact Hab. Qed.

(* the quotas sum to at most the scale *)
Lemma sum_quota_le ws : wf_ws ws -> sumZ (map (quota ws) ws) <= scale_of ws.
Proof.
  intros Hwf.
  assert (Hsc : 100 <= scale_of ws) by (rewrite scale_eq; lia).
  destruct (sumZ ws <=? scale_of ws) eqn:E.
  - rewrite (map_ext_in (quota ws) (fun w => w)).
    + rewrite map_id. apply Z.leb_le. exact E.
    + intros w _. rewrite quota_unfold, E. reflexivity.
  - rewrite (map_ext_in (quota ws) (fun w => w * scale_of ws / sumZ ws)).
    + apply Z.leb_gt in E.
      pose proof (sum_floor_le (scale_of ws) (sumZ ws) ws ltac:(lia) ltac:(lia) (wf_nonneg _ Hwf)). nia.
    + intros w _. rewrite quota_unfold, E. reflexivity.
Qed.

Lemma sum_div_le (f : Z -> Z) d ws : 0 < d -> (forall w, In w ws -> 0 <= f w) ->
  0 <= sumZ (map (fun w => f w / d) ws) <= sumZ (map f ws).
Proof.
  intros Hd. induction ws as [|w r IH]; simpl; intros H; [lia|].
  assert (0 <= f w) by (apply H; left; reflexivity).
  assert (0 <= f w / d <= f w).
  { split; [apply Z.div_pos; lia|]. apply Z.div_le_upper_bound; [lia|nia]. }
  specialize (IH (fun x Hx => H x (or_intror Hx))). lia.
Qed.

(* ---------------------------------------------------------------------------------- *)
(* sort and lowest priority group *)

Lemma insert_perm x l : Permutation (insert_srv x l) (x :: l).
Proof.
  induction l as [|y r IH]; simpl; [reflexivity|].
  destruct (srv_ltb y x); [|reflexivity].
  rewrite IH. apply perm_swap.
Qed.

Lemma sort_perm l : Permutation (sort_srv l) l.
Proof.
  induction l as [|x r IH]; simpl; [constructor|].
  rewrite insert_perm. constructor. exact IH.
Qed.

Lemma ltb_true_prio y x : srv_ltb y x = true -> prio y <= prio x.
Proof.
  unfold srv_ltb. destruct (prio y =? prio x) eqn:E.
  - apply Z.eqb_eq in E. lia.
  - intros H. apply Z.ltb_lt in H. lia.
Qed.
Lemma ltb_false_prio y x : srv_ltb y x = false -> prio x <= prio y.
Proof.
  unfold srv_ltb. destruct (prio y =? prio x) eqn:E.
  - apply Z.eqb_eq in E. lia.
  - intros H. apply Z.ltb_ge in H. lia.
Qed.

Definition ple (a b : srv) : Prop := prio a <= prio b.

Lemma insert_sorted x l : StronglySorted ple l -> StronglySorted ple (insert_srv x l).
Proof.
  induction 1 as [|y r Hs IH Hall]; simpl.
  - constructor; constructor.
  - destruct (srv_ltb y x) eqn:E.
    + constructor; [exact IH|].
      assert (Hp : Permutation (insert_srv x r) (x :: r)) by apply insert_perm.
      rewrite Forall_forall. intros z Hz. apply (Permutation_in _ Hp) in Hz.
      destruct Hz as [<-|Hz]; [apply ltb_true_prio; exact E|].
      rewrite Forall_forall in Hall. apply Hall; exact Hz.
    + apply ltb_false_prio in E. constructor; [constructor; assumption|].
      constructor; [exact E|].
      rewrite Forall_forall in Hall |- *. intros z Hz. specialize (Hall z Hz). unfold ple in *. lia.
Qed.

Lemma sort_sorted l : StronglySorted ple (sort_srv l).
Proof. induction l; simpl; [constructor|apply insert_sorted; assumption]. Qed.

Lemma filter_none {A} (f : A -> bool) l : (forall x, In x l -> f x = false) -> filter f l = [].
Proof.
  induction l as [|x r IH]; simpl; intros H; [reflexivity|].
  rewrite (H x (or_introl eq_refl)). apply IH. intros y Hy. apply H. right; exact Hy.
Qed.

Lemma take_while_sorted p l : StronglySorted ple l ->
  take_while (fun a => negb (p <? prio a)) l = filter (fun a => negb (p <? prio a)) l.
Proof.
  induction 1 as [|x r Hs IH Hall]; simpl; [reflexivity|].
  destruct (p <? prio x) eqn:E; simpl.
  - symmetry. apply filter_none. intros y Hy. rewrite Forall_forall in Hall.
    specialize (Hall y Hy). unfold ple in Hall. apply Z.ltb_lt in E.
    apply negb_false_iff. apply Z.ltb_lt. lia.
  - f_equal. exact IH.
Qed.

Lemma perm_filter {A} (f : A -> bool) l l' : Permutation l l' -> Permutation (filter f l) (filter f l').
Proof.
  induction 1; simpl.
  - constructor.
  - destruct (f x); [constructor|]; assumption.
  - destruct (f x), (f y); try reflexivity. apply perm_swap.
  - etransitivity; eassumption.
Qed.

(* min_prio is below every priority and is one of them *)
Lemma fold_min_le m l : fold_right Z.min m l <= m /\ forall x, In x l -> fold_right Z.min m l <= x.
Proof.
  induction l as [|y r [IH1 IH2]]; simpl; [split; [lia|tauto]|].
  split; [lia|]. intros x [<-|Hin]; [lia|]. specialize (IH2 x Hin). lia.
Qed.
Lemma fold_min_in m l : fold_right Z.min m l = m \/ In (fold_right Z.min m l) l.
Proof.
  induction l as [|y r IH]; simpl; [left; reflexivity|].
  destruct (Z.min_spec y (fold_right Z.min m r)) as [[_ ->]|[_ ->]]; [right; left; reflexivity|].
  destruct IH as [->|IH]; [left; reflexivity|right; right; exact IH].
Qed.

Lemma min_prio_le rs a : In a rs -> min_prio rs <= prio a.
Proof.
  destruct rs as [|r t]; simpl; [tauto|].
  destruct (fold_min_le (prio r) (map prio t)) as [H1 H2].
  intros [<-|Hin]; [exact H1|]. apply H2. apply in_map. exact Hin.
Qed.
Lemma min_prio_in rs : rs <> [] -> exists a, In a rs /\ prio a = min_prio rs.
Proof.
  destruct rs as [|r t]; [congruence|]. intros _. simpl.
  destruct (fold_min_in (prio r) (map prio t)) as [H|H].
  - exists r. split; [left; reflexivity|symmetry; exact H].
  - apply in_map_iff in H. destruct H as [a [Ha Hin]]. exists a. split; [right; exact Hin|exact Ha].
Qed.

(* the group the code selects after sorting is the set of lowest-priority records *)
Lemma low_group_perm rs : Permutation (low_group (sort_srv rs)) (low rs).
Proof.
  pose proof (sort_perm rs) as Hp. pose proof (sort_sorted rs) as Hs.
  unfold low. destruct (sort_srv rs) as [|s0 r] eqn:Es.
  - apply Permutation_nil in Hp. subst rs. simpl. constructor.
  - unfold low_group. rewrite (take_while_sorted (prio s0) (s0 :: r) Hs).
    assert (Hmin : prio s0 = min_prio rs).
    { assert (Hin0 : In s0 rs) by (apply (Permutation_in _ Hp); left; reflexivity).
      pose proof (min_prio_le rs s0 Hin0).
      destruct (min_prio_in rs) as [a [Ha Hpa]]; [intros ->; contradiction|].
      apply (Permutation_in _ (Permutation_sym Hp)) in Ha.
      inversion Hs as [|? ? _ Hall]; subst. destruct Ha as [<-|Ha]; [lia|].
      rewrite Forall_forall in Hall. specialize (Hall a Ha). unfold ple in Hall. lia. }
    rewrite (perm_filter _ _ _ Hp).
    rewrite (filter_ext_in (fun a => negb (prio s0 <? prio a)) (fun a => prio a =? min_prio rs)); [reflexivity|].
    intros a Ha. pose proof (min_prio_le rs a Ha). rewrite Hmin.
    destruct (prio a =? min_prio rs) eqn:E1.
    + apply Z.eqb_eq in E1. apply negb_true_iff. apply Z.ltb_ge. lia.
    + apply Z.eqb_neq in E1. apply negb_false_iff. apply Z.ltb_lt. lia.
Qed.

Lemma low_incl rs a : In a (low rs) -> In a rs /\ prio a = min_prio rs.
Proof. unfold low. rewrite filter_In, Z.eqb_eq. tauto. Qed.

Lemma filter_len_le {A} (f : A -> bool) l : (List.length (filter f l) <= List.length l)%nat.
Proof. induction l as [|x r IH]; simpl; [lia|]. destruct (f x); simpl; lia. Qed.

Lemma low_length rs : (List.length (low rs) <= List.length rs)%nat.
Proof. unfold low. apply filter_len_le. Qed.

(* ---------------------------------------------------------------------------------- *)
(* the model meets the Prop *)

Lemma sumZ_perm a b : Permutation a b -> sumZ a = sumZ b.
Proof. induction 1; simpl; lia. Qed.

(* the quota depends on the weights only through their sum and their number *)
Lemma quota_perm a b w : Permutation a b -> quota a w = quota b w.
Proof. intros H. unfold quota. rewrite (sumZ_perm _ _ H), (Permutation_length H). reflexivity. Qed.

Lemma expand_map (f : srv -> string) (t : Z -> Z) g :
  expand (map f g) (map t (map weight g)) =
  flat_map (fun a => repeat (f a) (Z.to_nat (t (weight a)))) g.
Proof. unfold expand. induction g as [|a r IH]; simpl; [reflexivity|]. rewrite IH. reflexivity. Qed.

Lemma expected_eq scheme g d :
  expected scheme g d =
  flat_map (fun a => repeat (host_of scheme a) (Z.to_nat (times_of (map weight g) d (weight a)))) g.
Proof. reflexivity. Qed.

Lemma len_flat_repeat (f : srv -> string) (t : Z -> Z) g :
  (forall a, In a g -> 0 <= t (weight a)) ->
  Z.of_nat (List.length (flat_map (fun a => repeat (f a) (Z.to_nat (t (weight a)))) g)) =
  sumZ (map t (map weight g)).
Proof.
  induction g as [|a r IH]; simpl; intros H; [reflexivity|].
  rewrite app_length, repeat_length, Nat2Z.inj_add, IH by (intros b Hb; apply H; right; exact Hb).
  rewrite Z2Nat.id by (apply H; left; reflexivity). reflexivity.
Qed.

Lemma resolve_as_flat_map scheme rs : wf_rs rs ->
  let gm := low_group (sort_srv rs) in
  exists d, 0 < d /\
    resolve scheme rs =
      flat_map (fun a => repeat (host_of scheme a) (Z.to_nat (quota (map weight gm) (weight a) / d))) gm /\
    (forall w, In w (map weight gm) -> quota (map weight gm) w / d * d = quota (map weight gm) w) /\
    wf_ws (map weight gm).
Proof.
  intros Hw gm.
  assert (Hp : Permutation gm (low rs)) by apply low_group_perm.
  assert (Hwfm : wf_ws (map weight gm)).
  { unfold wf_ws. rewrite Forall_forall. intros w Hin. apply in_map_iff in Hin. destruct Hin as [a [<- Ha]].
    apply (Permutation_in _ Hp) in Ha. apply low_incl in Ha. destruct Ha as [Ha _].
    unfold wf_rs in Hw. rewrite Forall_forall in Hw. apply Hw; exact Ha. }
  destruct (compact_spec _ Hwfm) as [d [Hd [Hc Hdiv]]].
  exists d. split; [exact Hd|]. split; [|split; assumption].
  unfold resolve. fold gm. rewrite Hc.
  apply (expand_map (host_of scheme) (fun w => quota (map weight gm) w / d)).
Qed.

Lemma resolve_meets_spec scheme rs : wf_rs rs -> Spec scheme rs (resolve scheme rs).
Proof.
  intros Hwf. destruct (resolve_as_flat_map scheme rs Hwf) as [d [Hd [Hres [Hdiv Hwfm]]]].
  set (gm := low_group (sort_srv rs)) in *.
  assert (Hp : Permutation gm (low rs)) by apply low_group_perm.
  assert (Hpw : Permutation (map weight gm) (map weight (low rs))) by (apply Permutation_map; exact Hp).
  unfold Spec. exists d. split; [exact Hd|].
  split; [|split; [|split]].
  - intros a Ha. unfold times_of. rewrite <- (quota_perm _ _ _ Hpw). apply Hdiv.
    apply in_map. apply (Permutation_in _ (Permutation_sym Hp)). exact Ha.
  - rewrite Hres, expected_eq.
    rewrite (flat_map_ext _ (fun a => repeat (host_of scheme a)
                 (Z.to_nat (times_of (map weight (low rs)) d (weight a))))).
    + apply Permutation_flat_map. exact Hp.
    + intros a. unfold times_of. rewrite (quota_perm _ _ _ Hpw). reflexivity.
  - intros a b _ _ Hab. apply times_mono; assumption.
  - rewrite Hres.
    rewrite (len_flat_repeat (host_of scheme) (fun w => quota (map weight gm) w / d)).
    + pose proof (sum_div_le (quota (map weight gm)) d (map weight gm) Hd) as Hs.
      pose proof (sum_quota_le _ Hwfm) as Hq. rewrite scale_eq, map_length in Hq.
      assert (forall w, In w (map weight gm) -> 0 <= quota (map weight gm) w)
        by (intros w Hin; apply (quota_range _ _ Hwfm Hin)).
      specialize (Hs H). rewrite (Permutation_length Hp) in Hq. pose proof (low_length rs). lia.
    + intros a Ha. apply Z.div_pos; [|exact Hd].
      apply (quota_range _ _ Hwfm). apply in_map. exact Ha.
Qed.

(* ---------------------------------------------------------------------------------- *)
(* soundness of the boolean oracle *)

Lemma perm_b_sound a b : perm_b a b = true -> Permutation a b.
Proof.
  unfold perm_b. intros H. apply (list_eqb_eq str_eqb str_eqb_eq) in H.
  etransitivity; [apply StrSort.Permuted_sort|]. rewrite H. symmetry. apply StrSort.Permuted_sort.
Qed.

Lemma mod0_div_mul x d : d <> 0 -> x mod d = 0 -> x / d * d = x.
Proof. intros Hd H. apply (Z.div_exact x d Hd) in H. lia. Qed.

Lemma spec_b_sound scheme rs obs : spec_b scheme rs obs = true -> Spec scheme rs obs.
Proof.
  unfold spec_b, Spec. cbv zeta.
  set (ws := map weight (low rs)).
  set (d := divisor_for _ _).
  rewrite !andb_true_iff. intros [[[Hd Hall] Hperm] Hb].
  apply Z.ltb_lt in Hd. apply Z.leb_le in Hb. apply perm_b_sound in Hperm.
  exists d. split; [exact Hd|]. split; [|split; [|split]].
  - intros a Ha. unfold times_of. apply mod0_div_mul; [lia|].
    rewrite forallb_forall in Hall. apply Z.eqb_eq. apply Hall.
    apply in_map_iff. exists (weight a). split; [reflexivity|apply in_map; exact Ha].
  - exact Hperm.
  - intros a b _ _ Hab. apply times_mono; assumption.
  - exact Hb.
Qed.

Lemma forall2b_Forall2 {A B} (f : A -> B -> bool) (P : A -> B -> Prop) :
  (forall x y, f x y = true -> P x y) -> forall a b, forall2b f a b = true -> Forall2 P a b.
Proof.
  intros Hf. induction a as [|x r IH]; destruct b as [|y s]; simpl; try discriminate.
  - constructor.
  - rewrite andb_true_iff. intros [H1 H2]. constructor; auto.
Qed.

Lemma spec_compact_b_sound ws out : spec_compact_b ws out = true -> SpecCompact ws out.
Proof.
  unfold spec_compact_b, SpecCompact. cbv zeta. set (d := divisor_for _ _).
  rewrite !andb_true_iff. intros [[Hd Hall] Hb].
  apply Z.ltb_lt in Hd. apply Z.leb_le in Hb.
  exists d. split; [exact Hd|]. split; [|exact Hb].
  revert Hall. apply forall2b_Forall2. intros w t H. apply Z.eqb_eq in H. exact H.
Qed.

Lemma Forall2_map_div (q : Z -> Z) d ws : (forall w, In w ws -> q w / d * d = q w) ->
  Forall2 (fun w t => t * d = q w) ws (map (fun w => q w / d) ws).
Proof.
  induction ws as [|w r IH]; simpl; intros H; constructor.
  - apply H. left; reflexivity.
  - apply IH. intros x Hx. apply H. right; exact Hx.
Qed.

Lemma compact_meets_spec ws : wf_ws ws -> SpecCompact ws (compact ws).
Proof.
  intros Hwf. destruct (compact_spec ws Hwf) as [d [Hd [Hc Hdiv]]].
  exists d. split; [exact Hd|]. split.
  - rewrite Hc. apply Forall2_map_div. exact Hdiv.
  - rewrite Hc.
    pose proof (sum_div_le (quota ws) d ws Hd) as Hs.
    pose proof (sum_quota_le _ Hwf) as Hq. rewrite scale_eq in Hq.
    assert (forall w, In w ws -> 0 <= quota ws w) by (intros w Hin; apply (quota_range _ _ Hwf Hin)).
    specialize (Hs H). lia.
Qed.

Lemma spec_hist_b_sound scheme evs : forall cur obs,
  spec_hist_b scheme cur evs obs = true -> SpecHist scheme cur evs obs.
Proof.
  induction evs as [|e r IH]; intros cur obs; simpl.
  - destruct obs; [reflexivity|discriminate].
  - destruct e as [ok rs| |k m].
    + destruct ok; apply IH.
    + destruct obs as [|o obs']; [discriminate|].
      rewrite andb_true_iff. intros [H1 H2]. split; [|apply IH; exact H2].
      destruct cur as [rs|].
      * apply spec_b_sound; exact H1.
      * destruct o; [reflexivity|discriminate].
    + apply IH.
Qed.

(* ---------------------------------------------------------------------------------- *)
(* the statements of Properties/C15.v *)

Lemma expand_in h hs ts : In h (expand hs ts) -> In h hs.
Proof.
  unfold expand. revert ts. induction hs as [|x r IH]; intros [|t ts]; simpl; try tauto.
  rewrite in_app_iff. intros [H|H]; [left; apply repeat_spec in H; congruence|right; eapply IH; exact H].
Qed.

(* only targets of the lowest priority value, whatever the weights *)
Lemma lowest_priority_only scheme rs h : In h (resolve scheme rs) ->
  exists a, In a rs /\ h = host_of scheme a /\ forall b, In b rs -> prio a <= prio b.
Proof.
  unfold resolve. intros H. apply expand_in in H. apply in_map_iff in H.
  destruct H as [a [<- Ha]].
  apply (Permutation_in _ (low_group_perm rs)) in Ha. apply low_incl in Ha. destruct Ha as [Ha Hp].
  exists a. split; [exact Ha|]. split; [reflexivity|].
  intros b Hb. rewrite Hp. apply min_prio_le; exact Hb.
Qed.

(* never more often than a heavier target, position by position *)
Lemma compact_monotone ws i j wi wj ti tj : wf_ws ws ->
  nth_error ws i = Some wi -> nth_error ws j = Some wj ->
  nth_error (compact ws) i = Some ti -> nth_error (compact ws) j = Some tj ->
  wi <= wj -> ti <= tj.
Proof.
  intros Hwf Hi Hj Hti Htj Hle. destruct (compact_spec ws Hwf) as [d [Hd [Hc _]]].
  rewrite Hc in Hti, Htj.
  rewrite (map_nth_error _ _ _ Hi) in Hti. rewrite (map_nth_error _ _ _ Hj) in Htj.
  inversion Hti; inversion Htj; subst. apply (times_mono ws d wi wj Hd Hle).
Qed.

Lemma compact_length ws : List.length (compact ws) = List.length ws.
Proof.
  unfold compact, normalize.
  destruct (sumZ ws <=? scale_of ws); destruct (_ <? 2); rewrite ?map_length; reflexivity.
Qed.

Lemma resolve_bound scheme rs : wf_rs rs ->
  Z.of_nat (List.length (resolve scheme rs)) <= Z.max 100 (Z.of_nat (List.length rs)).
Proof. intros H. destruct (resolve_meets_spec scheme rs H) as [d [_ [_ [_ [_ Hb]]]]]. exact Hb. Qed.

Lemma host_format scheme a : has_colon (target a) = false ->
  host_of scheme a = (scheme ++ "://" ++ target a ++ ":" ++ dec (port a))%string.
Proof. intros H. unfold host_of, join_host_port. rewrite H. reflexivity. Qed.

Lemma flat_repeat_nil (f : srv -> string) (t : Z -> Z) g :
  (forall a, In a g -> t (weight a) = 0) ->
  flat_map (fun a => repeat (f a) (Z.to_nat (t (weight a)))) g = [].
Proof.
  induction g as [|a r IH]; simpl; intros H; [reflexivity|].
  rewrite (H a (or_introl eq_refl)). simpl. apply IH. intros b Hb. apply H. right; exact Hb.
Qed.

(* noted in DESIGN.md: all weights 0 yield no host at all *)
Lemma zero_weights_empty scheme rs : Forall (fun a => weight a = 0) rs -> resolve scheme rs = [].
Proof.
  intros H.
  destruct (resolve_as_flat_map scheme rs) as [d [Hd [Hres _]]].
  { unfold wf_rs. eapply Forall_impl; [|exact H]. simpl. intros a ->. lia. }
  rewrite Hres. set (gm := low_group (sort_srv rs)).
  apply (flat_repeat_nil (host_of scheme) (fun w => quota (map weight gm) w / d)).
  intros a Ha. apply (Permutation_in _ (low_group_perm rs)) in Ha. apply low_incl in Ha.
  rewrite Forall_forall in H. rewrite (H a (proj1 Ha)).
  rewrite quota_unfold. destruct (_ <=? _); rewrite ?Z.mul_0_l, ?Z.div_0_l; try reflexivity.
  - pose proof (scale_eq (map weight gm)). lia.
  - lia.
Qed.

(* the divisor compact uses is the gcd of the quotas (1 when that gcd is 0 or 1) *)
Definition compact_div (ws : list Z) : Z := Z.max 1 (gcdl (map (quota ws) ws)).

Lemma compact_div_spec ws : wf_ws ws ->
  compact ws = map (fun w => quota ws w / compact_div ws) ws /\
  forall w, In w ws -> (compact_div ws | quota ws w).
Proof.
  intros Hwf. unfold compact, compact_div. rewrite (normalize_spec ws Hwf).
  destruct (gcdl (map (quota ws) ws) <? 2) eqn:E.
  - apply Z.ltb_lt in E. rewrite Z.max_l by lia. split.
    + apply map_ext. intros w. rewrite Z.div_1_r. reflexivity.
    + intros w _. apply Z.divide_1_l.
  - apply Z.ltb_ge in E. rewrite Z.max_r by lia. split.
    + rewrite map_map. reflexivity.
    + intros w Hin. apply gcdl_divides. apply in_map. exact Hin.
Qed.
