(* C06 - proofs, part b: the allow dictionary built from a prefix-free list has exactly the
   listed paths as leaves; the allow filter is exactly the projection (list level). *)
Require Import Verif.Common.Base Verif.Common.Json Verif.Common.JsonFacts.
Require Import Verif.Model.C06 Verif.Spec.C06 Verif.Proof.C06_a.

(* ---------- walking lemmas ---------- *)
Lemma leaf_of_cons w k r :
  leaf_of w (k :: r) = match lookup k w with
                       | Some WLeaf => is_nil r
                       | Some (WNode s) => leaf_of s r
                       | None => false
                       end.
Proof. reflexivity. Qed.

Lemma leaf_of_nil_tree l : leaf_of [] l = false.
Proof. destruct l; reflexivity. Qed.

Lemma leaf_status_covered : forall l w p,
  leaf_of w l = true -> prefix l p = true -> status_of w p = Covered.
Proof.
  induction l as [|k r IH]; intros w p Hl Hp; [discriminate|].
  destruct p as [|k' r']; [discriminate|]. apply prefix_cons in Hp as [<- Hp].
  cbn [leaf_of] in Hl. cbn [status_of].
  destruct (lookup k w) as [[|s]|]; [reflexivity| |discriminate].
  eapply IH; eassumption.
Qed.

Lemma status_covered_leaf : forall p w,
  status_of w p = Covered -> exists l, prefix l p = true /\ leaf_of w l = true.
Proof.
  induction p as [|k r IH]; intros w H; [discriminate|].
  cbn [status_of] in H. destruct (lookup k w) as [[|s]|] eqn:E; [| |discriminate].
  - exists [k]. split; [cbn [prefix]; rewrite str_eqb_refl; reflexivity|].
    cbn [leaf_of]. rewrite E. reflexivity.
  - destruct (IH s H) as [l [Hp Hl]]. exists (k :: l).
    split; [cbn [prefix]; rewrite str_eqb_refl; exact Hp|].
    cbn [leaf_of]. rewrite E. exact Hl.
Qed.

Lemma leaf_below : forall p w l,
  leaf_of w l = true -> strict_prefix p l = true ->
  exists s l', l = (p ++ l')%list /\ status_of w p = Inner s /\ leaf_of s l' = true.
Proof.
  induction p as [|k r IH]; intros w l Hl Hs.
  - exists w, l. auto.
  - destruct l as [|k' lr]; [rewrite strict_prefix_nil_r in Hs; discriminate|].
    apply strict_prefix_cons in Hs as [<- Hs]. cbn [leaf_of] in Hl. cbn [status_of].
    destruct (lookup k w) as [[|s0]|]; [| |discriminate].
    + apply is_nil_true in Hl. subst lr. rewrite strict_prefix_nil_r in Hs. discriminate.
    + destruct (IH s0 lr Hl Hs) as [s [l' [-> [Hst Hl']]]]. exists s, l'. auto.
Qed.

Lemma leaf_above : forall p w s l',
  status_of w p = Inner s -> leaf_of s l' = true -> leaf_of w (p ++ l') = true.
Proof.
  induction p as [|k r IH]; intros w s l' Hst Hl.
  - cbn in Hst. inversion Hst; subst. exact Hl.
  - cbn [status_of] in Hst. cbn [app leaf_of].
    destruct (lookup k w) as [[|s0]|]; try discriminate. eapply IH; eassumption.
Qed.

Lemma strict_prefix_app p : forall l', l' <> [] -> strict_prefix p (p ++ l') = true.
Proof.
  induction p as [|k r IH]; intros l' H.
  - apply strict_prefix_nil_l. exact H.
  - cbn [app]. apply strict_prefix_cons. split; [reflexivity|apply IH; exact H].
Qed.

Lemma present_below_nonobj v p l' x :
  get_path v p = Some x -> is_obj x = false -> l' <> [] -> present v (p ++ l') = false.
Proof.
  intros Hg Hx Hl. unfold present. rewrite get_path_app, Hg.
  destruct l' as [|k r]; [congruence|]. rewrite get_path_nonobj; auto.
Qed.

(* ---------- inserting one path ---------- *)
Lemma insert_allow_leaves : forall q w, q <> [] ->
  (forall l, leaf_of w l = true -> prefix l q = true -> l = q) ->
  (forall l, leaf_of w l = true -> prefix q l = true -> l = q) ->
  forall l, leaf_of (insert_allow q w) l = true <-> (l = q \/ leaf_of w l = true).
Proof.
  induction q as [|k rest IH]; intros w Hne H1 H2 l; [congruence|].
  destruct rest as [|k2 rest2].
  - (* a single field: overwritten by a leaf *)
    cbn [insert_allow]. destruct l as [|k' r'].
    + cbn [leaf_of]. split; [discriminate|intros [E|E]; discriminate].
    + rewrite (leaf_of_cons (set k WLeaf w)), lookup_set.
      destruct (str_eqb k' k) eqn:E.
      * apply str_eqb_eq in E. subst k'. split.
        -- intros Hn. apply is_nil_true in Hn. subst. left. reflexivity.
        -- intros [Eq|Hl]; [inversion Eq; reflexivity|].
           assert (Hq : k :: r' = [k]).
           { apply H2; [exact Hl|]. cbn [prefix]. rewrite str_eqb_refl. reflexivity. }
           inversion Hq. reflexivity.
      * split; [intros H; right; rewrite leaf_of_cons; exact H|].
        intros [Eq|H]; [inversion Eq; subst; rewrite str_eqb_refl in E; discriminate|].
        rewrite leaf_of_cons in H. exact H.
  - (* at least two fields *)
    set (rest := k2 :: rest2) in *.
    assert (Hgen : forall sub,
              (lookup k w = Some (WNode sub) \/ (sub = [] /\ lookup k w = None)) ->
              (leaf_of (set k (WNode (insert_allow rest sub)) w) l = true <->
               (l = k :: rest \/ leaf_of w l = true))).
    { intros sub Hsub.
      assert (Hsubleaf : forall x, leaf_of sub x = true -> leaf_of w (k :: x) = true).
      { intros x Hx. rewrite leaf_of_cons. destruct Hsub as [-> | [-> _]]; [exact Hx|].
        rewrite leaf_of_nil_tree in Hx. discriminate. }
      assert (IHs : forall x, leaf_of (insert_allow rest sub) x = true <->
                              (x = rest \/ leaf_of sub x = true)).
      { apply IH.
        - unfold rest. discriminate.
        - intros x Hx Hp. assert (E : k :: x = k :: rest).
          { apply H1; [apply Hsubleaf; exact Hx|]. apply prefix_cons. auto. }
          inversion E. reflexivity.
        - intros x Hx Hp. assert (E : k :: x = k :: rest).
          { apply H2; [apply Hsubleaf; exact Hx|]. apply prefix_cons. auto. }
          inversion E. reflexivity. }
      destruct l as [|k' r'].
      - cbn [leaf_of]. split; [discriminate|intros [E|E]; discriminate].
      - rewrite (leaf_of_cons (set _ _ _)), lookup_set.
        destruct (str_eqb k' k) eqn:E.
        + apply str_eqb_eq in E. subst k'. rewrite IHs. rewrite (leaf_of_cons w).
          destruct Hsub as [-> | [-> ->]].
          * split; (intros [Eq|Hl]; [left; congruence|right; exact Hl]).
          * rewrite leaf_of_nil_tree.
            split; (intros [Eq|Hl]; [left; congruence|discriminate]).
        + rewrite <- (leaf_of_cons w). split; [intros H; right; exact H|].
          intros [Eq|H]; [inversion Eq; subst; rewrite str_eqb_refl in E; discriminate|exact H]. }
    cbn [insert_allow]. fold rest.
    destruct (lookup k w) as [[|sub]|] eqn:Ew.
    + (* a leaf [k] that is a proper prefix of q: excluded *)
      exfalso. assert (E : [k] = k :: rest).
      { apply H1; [cbn [leaf_of]; rewrite Ew; reflexivity|].
        cbn [prefix]. rewrite str_eqb_refl. reflexivity. }
      unfold rest in E. discriminate.
    + apply Hgen. left. reflexivity.
    + apply Hgen. right. auto.
Qed.

(* ---------- the whole list ---------- *)
Lemma build_allow_leaves_gen : forall L w,
  (forall q, In q L -> q <> []) ->
  (forall l1 l2, (leaf_of w l1 = true \/ In l1 L) -> (leaf_of w l2 = true \/ In l2 L) ->
                 prefix l1 l2 = true -> l1 = l2) ->
  forall l, leaf_of (fold_left (fun t p => insert_allow p t) L w) l = true <->
            (leaf_of w l = true \/ In l L).
Proof.
  induction L as [|q L IH]; intros w Hne Hpf l; cbn [fold_left].
  - cbn [In]. tauto.
  - assert (Hins : forall l, leaf_of (insert_allow q w) l = true <-> (l = q \/ leaf_of w l = true)).
    { apply insert_allow_leaves; [apply Hne; left; reflexivity| |].
      - intros l0 Hl0 Hp. apply Hpf; [left; exact Hl0|right; left; reflexivity|exact Hp].
      - intros l0 Hl0 Hp. symmetry. apply Hpf; [right; left; reflexivity|left; exact Hl0|exact Hp]. }
    assert (Hcl : forall x, (leaf_of (insert_allow q w) x = true \/ In x L) ->
                            (leaf_of w x = true \/ In x (q :: L))).
    { intros x [Hx|Hx]; [apply Hins in Hx as [->|Hx]; [right; left; reflexivity|left; exact Hx]|].
      right. right. exact Hx. }
    rewrite IH.
    + rewrite Hins. cbn [In]. split.
      * intros [[->|H]|H]; auto.
      * intros [H|[->|H]]; auto.
    + intros q0 Hq0. apply Hne. right. exact Hq0.
    + intros l1 l2 Hl1 Hl2 Hp. apply Hpf; [apply Hcl; exact Hl1|apply Hcl; exact Hl2|exact Hp].
Qed.

Lemma build_allow_leaves L : nonempty_paths L -> prefix_free L ->
  forall l, leaf_of (build_allow L) l = true <-> In l L.
Proof.
  intros Hne Hpf l. unfold build_allow. rewrite build_allow_leaves_gen.
  - rewrite leaf_of_nil_tree. split; [intros [H|H]; [discriminate|exact H]|auto].
  - exact Hne.
  - intros l1 l2 [H1|H1] [H2|H2] Hp; try (rewrite leaf_of_nil_tree in *; discriminate).
    apply Hpf; assumption.
Qed.

(* ---------- the allow filter is exactly the projection ---------- *)
(* for ANY allow dictionary whose leaves are exactly the paths of L *)
Theorem allow_exact_tree : forall w L d,
  (forall l, leaf_of w l = true <-> In l L) -> wfj (JObj d) = true ->
  forall p, p <> [] ->
  allow_exact_at L (JObj d) (JObj (allow_filter w d)) p.
Proof.
  intros w L d HL Hwf p Hp.
  assert (Hgp : get_path (JObj (allow_filter w d)) p = tspec w (JObj d) p).
  { rewrite <- prune_obj_shape. apply prune_gp. exact Hwf. }
  unfold allow_exact_at. split.
  - intros Hc. unfold covered in Hc. apply existsb_exists in Hc as [l [Hin Hpre]].
    rewrite Hgp. unfold tspec.
    rewrite (leaf_status_covered l w p); [reflexivity|apply HL; exact Hin|exact Hpre].
  - intros Hc.
    assert (Hnc : status_of w p <> Covered).
    { intros E. apply status_covered_leaf in E as [l [Hpre Hl]]. apply HL in Hl.
      assert (covered L p = true) by (apply existsb_exists; exists l; auto). congruence. }
    unfold present at 1 3. rewrite Hgp. unfold tspec.
    destruct (status_of w p) as [|s|] eqn:Est; [congruence| |].
    + destruct p as [|k r]; [congruence|].
      destruct (get_path (JObj d) (k :: r)) as [x|] eqn:Eg.
      2:{ cbv beta iota. split; [split; [discriminate|]|discriminate].
          intros [l [Hin [Hs Hpr]]]. unfold strict_prefix in Hs.
          apply andb_true_iff in Hs as [Hs _].
          pose proof (present_prefix _ _ _ Hs Hpr) as Hpp. unfold present in Hpp.
          rewrite Eg in Hpp. discriminate. }
      assert (Hbelow : forall l, In l L -> strict_prefix (k :: r) l = true ->
                exists l', l = ((k :: r) ++ l')%list /\ l' <> [] /\ leaf_of s l' = true).
      { intros l Hin Hs. apply HL in Hin.
        destruct (leaf_below _ _ _ Hin Hs) as [s' [l' [-> [Hst Hl']]]].
        rewrite Est in Hst. inversion Hst; subst s'.
        exists l'. split; [reflexivity|]. split; [|exact Hl'].
        intros ->. discriminate. }
      destruct x as [|xb|xn|xs|xl|dd|xt].
      1-5,7: (cbv beta iota; split; [split; [discriminate|]|discriminate];
              intros [l [Hin [Hs Hpr]]];
              destruct (Hbelow l Hin Hs) as [l' [-> [Hl'ne _]]];
              rewrite (present_below_nonobj _ _ l' _ Eg) in Hpr; [discriminate|reflexivity|exact Hl'ne]).
      assert (Hwdd : wfj (JObj dd) = true) by (eapply wfj_get_path; [exact Hwf|exact Eg]).
      destruct (allow_filter s dd) as [|e m] eqn:Ef.
      * cbv beta iota. split; [split; [discriminate|]|discriminate].
        intros [l [Hin [Hs Hpr]]].
        destruct (Hbelow l Hin Hs) as [l' [-> [Hl'ne Hl']]].
        unfold present in Hpr. rewrite get_path_app, Eg in Hpr.
        exfalso. eapply (leaf_present_nonempty l' s dd); eauto.
      * cbv beta iota. split; [split; [intros _|reflexivity]|intros _; eexists; reflexivity].
        destruct (nonempty_leaf_present (JObj dd) Hwdd s dd eq_refl) as [l' [Hl' Hp']];
          [rewrite Ef; discriminate|].
        exists ((k :: r) ++ l')%list. split; [|split].
        -- apply HL. eapply leaf_above; eassumption.
        -- apply strict_prefix_app. intros ->. discriminate.
        -- unfold present. rewrite get_path_app, Eg. exact Hp'.
    + cbv beta iota. split; [split; [discriminate|]|discriminate].
      intros [l [Hin [Hs Hpr]]]. apply HL in Hin.
      destruct (leaf_below p w l Hin Hs) as [s [l' [_ [Hst _]]]]. congruence.
Qed.

Theorem allow_exact : forall L d,
  nonempty_paths L -> prefix_free L -> wfj (JObj d) = true ->
  forall p, p <> [] ->
  allow_exact_at L (JObj d) (JObj (allow_filter (build_allow L) d)) p.
Proof.
  intros L d Hne Hpf Hwf p Hp. apply allow_exact_tree; [|exact Hwf|exact Hp].
  apply build_allow_leaves; assumption.
Qed.
