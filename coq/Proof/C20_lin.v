(* C20 - proofs, part 3: every lookup is atomic.  Under the lock discipline, for every number of
   threads and every schedule, the result of every completed lookup operation (a body that reads
   the object and calls nothing) is the observation of the object's contents at some point of the
   execution at which the operation was in flight (between its invocation and its return). *)
Require Import Verif.Common.Base Verif.Common.LockEv Verif.Model.C20 Verif.Spec.C20.
Require Import Verif.Proof.C20_race.

Section Lin.
  Context {D X : Type}.
  Variable m : string.

  Lemma run_app (s : @state D X) a b :
    run s (a ++ b) = match run s a with Some s1 => run s1 b | None => None end.
  Proof.
    revert s. induction a as [|t r IH]; intros s; simpl; [reflexivity|].
    destruct (step s t); [apply IH|reflexivity].
  Qed.

  Lemma run_snoc (s0 : @state D X) sched t s' :
    run s0 (sched ++ [t]) = Some s' -> exists s, run s0 sched = Some s /\ step s t = Some s'.
  Proof.
    rewrite run_app. destruct (run s0 sched) as [s|]; [|discriminate]. simpl.
    destruct (step s t) as [s1|] eqn:E; [|discriminate]. intros H. inversion H; subst. eauto.
  Qed.

  Lemma lin_point_mono (s0 : @state D X) sched ext t i o r :
    lin_point s0 sched t i o r -> lin_point s0 (sched ++ ext) t i o r.
  Proof.
    intros [s1 [s2 [smid [ob [d [H1 H2]]]]]]. exists s1, (s2 ++ ext), smid, ob, d.
    split; [rewrite H1; symmetry; apply app_assoc|exact H2].
  Qed.

  (* what one step does to the thread that moves *)
  Inductive moved (s : @state D X) (t : nat) (th th' : @thread D X) : Prop :=
  | MInvoke o rest : t_cur th = None -> t_todo th = o :: rest ->
      t_cur th' = Some (o, o_body o, RNone) -> t_log th' = t_log th -> moved s t th th'
  | MReturn o r : t_cur th = Some (o, [], r) -> t_cur th' = None -> t_log th' = t_log th ++ [(o, r)] -> moved s t th th'
  | MEvent o e rem r r' : t_cur th = Some (o, e :: rem, r) -> t_cur th' = Some (o, rem, r') -> t_log th' = t_log th ->
      match e with
      | LRead ob => r' = if racy s t (ob, false) then RTorn
                         else match s_data s ob with Some d => RVal (o_rd o d) | None => RTorn end
      | LSafeCall _ _ => True
      | _ => r' = r
      end -> moved s t th th'.

  Lemma step_moved s t s' : step s t = Some s' ->
    exists th th', nth_error (s_threads s) t = Some th /\ s_threads s' = set_nth (s_threads s) t th' /\ moved s t th th'.
  Proof.
    unfold step. destruct (nth_error (s_threads s) t) as [th|] eqn:Ht; [|discriminate].
    destruct (t_cur th) as [[[o rem] r]|] eqn:Ec.
    - destruct rem as [|e rem].
      + intros H. inversion H; subst. eexists; eexists; split; [reflexivity|split; [reflexivity|]].
        apply (MReturn _ _ _ _ o r Ec); reflexivity.
      + destruct e as [x|x|x|x|ob|ob|ob f].
        * destruct (lock_free_for s t (LLock x)); [|discriminate]. destruct (lev_step (t_held th) (LLock x)); [|discriminate].
          intros H. inversion H; subst. eexists; eexists; split; [reflexivity|split; [reflexivity|]].
          apply (MEvent _ _ _ _ o (LLock x) rem r r Ec); reflexivity.
        * destruct (lock_free_for s t (LUnlock x)); [|discriminate]. destruct (lev_step (t_held th) (LUnlock x)); [|discriminate].
          intros H. inversion H; subst. eexists; eexists; split; [reflexivity|split; [reflexivity|]].
          apply (MEvent _ _ _ _ o (LUnlock x) rem r r Ec); reflexivity.
        * destruct (lock_free_for s t (LRLock x)); [|discriminate]. destruct (lev_step (t_held th) (LRLock x)); [|discriminate].
          intros H. inversion H; subst. eexists; eexists; split; [reflexivity|split; [reflexivity|]].
          apply (MEvent _ _ _ _ o (LRLock x) rem r r Ec); reflexivity.
        * destruct (lock_free_for s t (LRUnlock x)); [|discriminate]. destruct (lev_step (t_held th) (LRUnlock x)); [|discriminate].
          intros H. inversion H; subst. eexists; eexists; split; [reflexivity|split; [reflexivity|]].
          apply (MEvent _ _ _ _ o (LRUnlock x) rem r r Ec); reflexivity.
        * intros H. inversion H; subst. eexists; eexists; split; [reflexivity|split; [reflexivity|]].
          eapply (MEvent _ _ _ _ o (LRead ob) rem r _ Ec); reflexivity.
        * intros H. inversion H; subst. eexists; eexists; split; [reflexivity|split; [reflexivity|]].
          apply (MEvent _ _ _ _ o (LWrite ob) rem r r Ec); reflexivity.
        * destruct (s_data s ob) as [d|].
          -- destruct (o_call o f r d) as [r' d']. intros H. inversion H; subst.
             eexists; eexists; split; [reflexivity|split; [reflexivity|]].
             apply (MEvent _ _ _ _ o (LSafeCall ob f) rem r r' Ec); try reflexivity; exact I.
          -- intros H. inversion H; subst. eexists; eexists; split; [reflexivity|split; [reflexivity|]].
             apply (MEvent _ _ _ _ o (LSafeCall ob f) rem r RTorn Ec); try reflexivity; exact I.
    - destruct (t_todo th) as [|o rest] eqn:Et; [discriminate|].
      intros H. inversion H; subst. eexists; eexists; split; [reflexivity|split; [reflexivity|]].
      apply (MInvoke _ _ _ _ o rest Ec Et); reflexivity.
  Qed.

  (* the invariant carried along the schedule *)
  Definition lin_inv (s0 : @state D X) (sched : list nat) (s : @state D X) : Prop :=
    forall t th, nth_error (s_threads s) t = Some th ->
      (forall i o r, nth_error (t_log th) i = Some (o, r) -> lookup_body (o_body o) = true ->
         lin_point s0 sched t i o r) /\
      (forall o rem r, t_cur th = Some (o, rem, r) -> lookup_body (o_body o) = true ->
         existsb is_call rem = false /\ (exists pre, o_body o = pre ++ rem) /\
         (existsb is_read rem = true \/ lin_point s0 sched t (List.length (t_log th)) o r)).

  Lemma lookup_body_parts l : lookup_body l = true -> existsb is_read l = true /\ existsb is_call l = false.
  Proof. unfold lookup_body. rewrite andb_true_iff, negb_true_iff. tauto. Qed.

  Lemma lin_step s0 sched s t s' :
    run s0 sched = Some s -> inv m s -> lin_inv s0 sched s -> step s t = Some s' ->
    lin_inv s0 (sched ++ [t]) s'.
  Proof.
    intros Hrun Hinv HJ Hs.
    destruct (step_moved s t s' Hs) as [th [th' [Ht [Hths Hm]]]].
    intros u thu Hu. rewrite Hths in Hu.
    destruct (Nat.eq_dec u t) as [->|Hne].
    2:{ rewrite nth_error_set_nth_neq in Hu by exact Hne. destruct (HJ u thu Hu) as [J1 J2]. split.
        - intros i o r Hi Hl. apply lin_point_mono. eapply J1; eauto.
        - intros o rem r Hc Hl. destruct (J2 o rem r Hc Hl) as [A [B C]]. split; [exact A|split; [exact B|]].
          destruct C as [C|C]; [left; exact C|right; apply lin_point_mono; exact C]. }
    rewrite (nth_error_set_nth_eq _ _ _ _ Ht) in Hu. inversion Hu; subst thu; clear Hu.
    destruct (HJ t th Ht) as [J1 J2].
    destruct Hm as [o rest Hc Htd Hc' Hl' | o r Hc Hc' Hl' | o e rem r r' Hc Hc' Hl' He].
    - (* invocation *)
      split.
      + rewrite Hl'. intros i o1 r1 Hi Hlb. apply lin_point_mono. eapply J1; eauto.
      + intros o1 rem1 r1 Hcur Hlb. rewrite Hc' in Hcur. inversion Hcur; subst.
        destruct (lookup_body_parts _ Hlb) as [Hr Hcall].
        split; [exact Hcall|split; [exists []; reflexivity|left; exact Hr]].
    - (* return *)
      split.
      + rewrite Hl'. intros i o1 r1 Hi Hlb.
        destruct (Nat.lt_ge_cases i (List.length (t_log th))) as [Hlt|Hge].
        * rewrite nth_error_app1 in Hi by exact Hlt. apply lin_point_mono. eapply J1; eauto.
        * rewrite nth_error_app2 in Hi by exact Hge.
          destruct (i - List.length (t_log th)) as [|k] eqn:Ek; simpl in Hi; [|destruct k; discriminate].
          inversion Hi; subst o1 r1.
          assert (i = List.length (t_log th)) by lia. subst i.
          destruct (J2 o [] r Hc Hlb) as [_ [_ [C|C]]]; [discriminate|].
          apply lin_point_mono. exact C.
      + intros o1 rem1 r1 Hcur. rewrite Hc' in Hcur. discriminate.
    - (* an event of the body *)
      split.
      + rewrite Hl'. intros i o1 r1 Hi Hlb. apply lin_point_mono. eapply J1; eauto.
      + intros o1 rem1 r1 Hcur Hlb. rewrite Hc' in Hcur. inversion Hcur; subst o1 rem1 r1. rewrite Hl'.
        destruct (J2 o (e :: rem) r Hc Hlb) as [Hcall [[pre Hpre] Hpend]].
        simpl in Hcall. apply orb_false_iff in Hcall. destruct Hcall as [Hce Hcall].
        split; [exact Hcall|]. split; [exists (pre ++ [e]); rewrite <- app_assoc; exact Hpre|].
        assert (Hnext : next_acc th = acc_of e) by (unfold next_acc; rewrite Hc; reflexivity).
        destruct e as [x|x|x|x|ob|ob|ob f]; try discriminate Hce.
        * subst r'. simpl in Hpend. destruct Hpend as [P|P]; [left; exact P|right; apply lin_point_mono; exact P].
        * subst r'. simpl in Hpend. destruct Hpend as [P|P]; [left; exact P|right; apply lin_point_mono; exact P].
        * subst r'. simpl in Hpend. destruct Hpend as [P|P]; [left; exact P|right; apply lin_point_mono; exact P].
        * subst r'. simpl in Hpend. destruct Hpend as [P|P]; [left; exact P|right; apply lin_point_mono; exact P].
        * (* the read: this is the linearisation point *)
          right. rewrite (inv_not_racy m s t th (ob, false) Hinv Ht Hnext) in He.
          destruct (s_data s ob) as [d|] eqn:Ed; [|exfalso; exact (proj2 (proj2 Hinv) ob Ed)].
          exists sched, [t], s, ob, d. split; [reflexivity|split; [exact Hrun|split; [|split; [|split; [exact Ed|exact He]]]]].
          -- exists th. split; [exact Ht|split; [reflexivity|rewrite Hc; discriminate]].
          -- rewrite Hpre. apply in_or_app. right. left. reflexivity.
        * subst r'. simpl in Hpend. destruct Hpend as [P|P]; [left; exact P|right; apply lin_point_mono; exact P].
  Qed.

  Lemma lin_init progs dat : lin_inv (@init D X progs dat) [] (init progs dat).
  Proof.
    intros t th Ht. simpl in Ht. rewrite nth_error_map in Ht.
    destruct (nth_error progs t); [|discriminate]. inversion Ht; subst. split.
    - intros i o r Hi. destruct i; discriminate.
    - intros o rem r Hc. discriminate.
  Qed.

  Lemma lin_run progs dat : wf_progs m progs -> (forall o, dat o <> None) ->
    forall sched s, run (@init D X progs dat) sched = Some s -> lin_inv (init progs dat) sched s.
  Proof.
    intros Hw Hd sched. induction sched as [|t r IH] using rev_ind; intros s Hr.
    - simpl in Hr. inversion Hr; subst. apply lin_init.
    - apply run_snoc in Hr. destruct Hr as [s1 [Hr1 Hst]].
      apply (lin_step _ _ s1); auto.
      eapply run_inv; [apply init_inv; eauto|exact Hr1].
  Qed.

  Lemma lookup_atomic progs dat sched s t th i o r :
    wf_progs m progs -> (forall ob, dat ob <> None) ->
    run (@init D X progs dat) sched = Some s ->
    nth_error (s_threads s) t = Some th -> nth_error (t_log th) i = Some (o, r) ->
    lookup_body (o_body o) = true ->
    lin_point (init progs dat) sched t i o r.
  Proof.
    intros Hw Hd Hr Ht Hi Hl. exact (proj1 (lin_run progs dat Hw Hd sched s Hr t th Ht) i o r Hi Hl).
  Qed.
End Lin.

(* the contents of the objects change only by the write (or self-locking call) of an operation
   that is in flight, in one step, to exactly what that operation writes *)
Section Contents.
  Context {D X : Type}.
  Variable m : string.

  Definition written_by (s : @state D X) (t : nat) (s' : @state D X) : Prop :=
    exists th o e rem r ob d,
      nth_error (s_threads s) t = Some th /\ t_cur th = Some (o, e :: rem, r) /\
      s_data s ob = Some d /\
      ((e = LWrite ob /\ s_data s' = upd (s_data s) ob (Some (o_wr o d))) \/
       (exists f, e = LSafeCall ob f /\ s_data s' = upd (s_data s) ob (Some (snd (o_call o f r d))))).

  Lemma step_contents s t s' : inv m s -> step s t = Some s' ->
    s_data s' = s_data s \/ written_by s t s'.
  Proof.
    intros Hi Hs. pose proof (proj2 (proj2 Hi)) as Hclean. unfold step in Hs.
    destruct (nth_error (s_threads s) t) as [th|] eqn:Ht; [|discriminate].
    destruct (t_cur th) as [[[o rem] r]|] eqn:Ec.
    - destruct rem as [|e rem].
      + inversion Hs; subst. left; reflexivity.
      + assert (Hnext : next_acc th = acc_of e) by (unfold next_acc; rewrite Ec; reflexivity).
        destruct e as [x|x|x|x|ob|ob|ob f].
        * destruct (lock_free_for s t (LLock x)); [|discriminate]. destruct (lev_step (t_held th) (LLock x)); [|discriminate].
          inversion Hs; subst. left; reflexivity.
        * destruct (lock_free_for s t (LUnlock x)); [|discriminate]. destruct (lev_step (t_held th) (LUnlock x)); [|discriminate].
          inversion Hs; subst. left; reflexivity.
        * destruct (lock_free_for s t (LRLock x)); [|discriminate]. destruct (lev_step (t_held th) (LRLock x)); [|discriminate].
          inversion Hs; subst. left; reflexivity.
        * destruct (lock_free_for s t (LRUnlock x)); [|discriminate]. destruct (lev_step (t_held th) (LRUnlock x)); [|discriminate].
          inversion Hs; subst. left; reflexivity.
        * inversion Hs; subst. left; reflexivity.
        * right. rewrite (inv_not_racy m s t th (ob, true) Hi Ht Hnext) in Hs.
          destruct (s_data s ob) as [d|] eqn:Ed; [|exfalso; exact (Hclean ob Ed)].
          inversion Hs; subst. exists th, o, (LWrite ob), rem, r, ob, d.
          split; [exact Ht|split; [exact Ec|split; [exact Ed|left; split; reflexivity]]].
        * right. destruct (s_data s ob) as [d|] eqn:Ed; [|exfalso; exact (Hclean ob Ed)].
          destruct (o_call o f r d) as [r' d'] eqn:Eo. inversion Hs; subst.
          exists th, o, (LSafeCall ob f), rem, r, ob, d.
          split; [exact Ht|split; [exact Ec|split; [exact Ed|right; exists f; split; [reflexivity|rewrite Eo; reflexivity]]]].
    - destruct (t_todo th); [discriminate|]. inversion Hs; subst. left; reflexivity.
  Qed.

  Lemma contents_by_registrations progs dat sched s t s' :
    wf_progs m progs -> (forall o, dat o <> None) ->
    run (@init D X progs dat) sched = Some s -> step s t = Some s' ->
    s_data s' = s_data s \/ written_by s t s'.
  Proof.
    intros Hw Hd Hr Hs. apply step_contents; [|exact Hs].
    eapply run_inv; [apply init_inv; eauto|exact Hr].
  Qed.
End Contents.
