(* C16 - proofs, part 3: one call of the shadow proxy as a transition system (the shadow
   proxy's return value is an explicit event that can come at any time, or never). *)
Require Import Verif.Common.Base Verif.Common.Ctx.
Require Import Verif.Model.C16 Verif.Proof.C16.
Close Scope Z_scope.

Section Call.
  Variables R S : Type.
  Variable p1 : bool -> request -> R.

  (* what the caller's side can see of a state *)
  Definition cv (a b : cstate R S) : Prop :=
    c_phase a = c_phase b /\ c_src a = c_src b /\ c_clone a = c_clone b /\
    c_result a = c_result b /\ c_client_cancelled a = c_client_cancelled b.

  Lemma cv_refl a : cv a a.
  Proof. repeat split. Qed.
  Lemma cv_trans a b c : cv a b -> cv b c -> cv a c.
  Proof. unfold cv. intros (?&?&?&?&?) (?&?&?&?&?). repeat split; congruence. Qed.
  Lemma cv_sym a b : cv a b -> cv b a.
  Proof. unfold cv. intros (?&?&?&?&?). repeat split; congruence. Qed.

  (* a step of the shadow goroutine changes nothing the caller's side can see *)
  Lemma shadow_step_invisible s l s' :
    is_shadow_label l = true -> cstep p1 s l = Some s' -> cv s s'.
  Proof.
    destruct l; simpl; try discriminate; intros _ H.
    - destruct (c_shadow_running s); [|discriminate]. inversion H; subst. repeat split.
    - destruct (c_shadow_value s); [|discriminate]. destruct (c_shadow_cancelled s); [discriminate|].
      inversion H; subst. repeat split.
  Qed.

  (* a step of the caller's side (or of the client's context) is enabled, and has the same
     visible effect, whatever the shadow goroutine has done so far *)
  Lemma caller_step_sim a b l a' :
    is_shadow_label l = false -> cv a b -> cstep p1 a l = Some a' ->
    exists b', cstep p1 b l = Some b' /\ cv a' b'.
  Proof.
    intros Hl (Hp & Hs & Hc & Hr & Hk) H. destruct l; simpl in *; try discriminate.
    - rewrite <- Hp. destruct (c_phase a); try discriminate. rewrite <- Hs.
      destruct (clone_request (c_src a)) as [src cl]. inversion H; subst.
      eexists. split; [reflexivity|]. repeat split; simpl; congruence.
    - rewrite <- Hp. destruct (c_phase a); try discriminate. inversion H; subst.
      eexists. split; [reflexivity|]. repeat split; simpl; congruence.
    - rewrite <- Hp. destruct (c_phase a); try discriminate. inversion H; subst.
      eexists. split; [reflexivity|]. repeat split; simpl; congruence.
    - inversion H; subst. eexists. split; [reflexivity|]. repeat split; simpl; congruence.
  Qed.

  Definition erase (ls : list (plabel S)) : list (plabel S) :=
    filter (fun l => negb (is_shadow_label l)) ls.

  (* erasing every event of the shadow goroutine from a run - whatever p2 returned, whenever -
     leaves a run of the caller's side alone with the same visible outcome *)
  Lemma crun_erase : forall ls (a b a' : cstate R S),
    cv a b -> crun p1 a ls = Some a' ->
    exists b', crun p1 b (erase ls) = Some b' /\ cv a' b'.
  Proof.
    induction ls as [|l r IH]; intros a b a' Hab H; simpl in *.
    - inversion H; subst. exists b. split; [reflexivity|assumption].
    - destruct (cstep p1 a l) as [a1|] eqn:E; [|discriminate].
      destruct (is_shadow_label l) eqn:El; simpl.
      + apply (IH a1 b a'); [|assumption].
        eapply cv_trans; [apply cv_sym; eapply shadow_step_invisible; eassumption|assumption].
      + destruct (caller_step_sim a b l a1 El Hab E) as (b1 & Eb & Hab1).
        rewrite Eb. eapply IH; eassumption.
  Qed.

  (* the invariant of every run from the initial state: the request the regular proxy is (or
     was) handed has its whole body, the shadow request is a full copy, and the caller's result
     is p1 applied to that request - never anything the shadow side produced *)
  Definition call_inv (r : request) (s : cstate R S) : Prop :=
    c_src s = r /\
    (c_phase s <> PStart -> c_clone s = Some r) /\
    (c_shadow_running s = true -> c_phase s = PSpawned \/ c_phase s = PReturned) /\
    match c_result s with
    | None => c_phase s <> PReturned
    | Some x => c_phase s = PReturned /\ exists cc, x = p1 cc r
    end.

  Lemma call_inv_init r : call_inv r (cinit r).
  Proof. unfold call_inv, cinit. simpl. repeat split; try discriminate. intros H. contradiction. Qed.

  Lemma call_inv_step r s l s' : call_inv r s -> cstep p1 s l = Some s' -> call_inv r s'.
  Proof.
    intros (Hs & Hc & Hrun & Hr) H. destruct l; simpl in H.
    - destruct (c_phase s) eqn:Ep; try discriminate. rewrite Hs, clone_request_contents in H.
      inversion H; subst s'. unfold call_inv. simpl.
      split; [reflexivity|]. split; [reflexivity|]. split; [discriminate|].
      destruct (c_result s) as [x|]; [destruct Hr as [Hr _]; congruence|discriminate].
    - destruct (c_phase s) eqn:Ep; try discriminate. inversion H; subst s'. unfold call_inv. simpl.
      split; [assumption|]. split; [intros _; apply Hc; congruence|]. split; [auto|].
      destruct (c_result s) as [x|]; [destruct Hr as [Hr _]; congruence|discriminate].
    - destruct (c_phase s) eqn:Ep; try discriminate. inversion H; subst s'. unfold call_inv. simpl.
      split; [assumption|]. split; [intros _; apply Hc; congruence|]. split; [auto|].
      split; [reflexivity|]. exists (c_client_cancelled s). rewrite Hs. reflexivity.
    - destruct (c_shadow_running s); [|discriminate]. inversion H; subst s'. unfold call_inv. simpl.
      split; [assumption|]. split; [assumption|]. split; [discriminate|assumption].
    - destruct (c_shadow_value s); [|discriminate]. destruct (c_shadow_cancelled s); [discriminate|].
      inversion H; subst s'. unfold call_inv. simpl.
      split; [assumption|]. split; [assumption|]. split; [discriminate|assumption].
    - inversion H; subst s'. unfold call_inv. simpl. repeat split; auto.
  Qed.

  Lemma call_inv_run r : forall ls (s s' : cstate R S), call_inv r s -> crun p1 s ls = Some s' -> call_inv r s'.
  Proof.
    induction ls as [|l rest IH]; intros s s' Hi H; simpl in H.
    - inversion H; subst. assumption.
    - destruct (cstep p1 s l) as [s1|] eqn:E; [|discriminate].
      eapply IH; [eapply call_inv_step; eassumption|eassumption].
  Qed.

  (* late answers: once the caller has its result nothing changes it any more *)
  Lemma result_stable : forall ls (s s' : cstate R S),
    c_phase s = PReturned -> crun p1 s ls = Some s' ->
    c_phase s' = PReturned /\ c_result s' = c_result s.
  Proof.
    induction ls as [|l rest IH]; intros s s' Hp H; simpl in H.
    - inversion H; subst. auto.
    - destruct (cstep p1 s l) as [s1|] eqn:E; [|discriminate].
      assert (Hs1 : c_phase s1 = PReturned /\ c_result s1 = c_result s).
      { destruct l; simpl in E; try (rewrite Hp in E; discriminate).
        - destruct (c_shadow_running s); [|discriminate]. inversion E; subst. auto.
        - destruct (c_shadow_value s); [|discriminate]. destruct (c_shadow_cancelled s); [discriminate|].
          inversion E; subst. auto.
        - inversion E; subst. auto. }
      destruct Hs1 as [Hp1 Hr1]. destruct (IH s1 s' Hp1 H) as [A B]. split; [assumption|congruence].
  Qed.

  (* the statement used in Properties *)
  Lemma call_noninfluence r ls (s : cstate R S) :
    crun p1 (cinit r) ls = Some s ->
    (* (1) the same run without any shadow event exists and gives the caller the same *)
    (exists s0, crun p1 (cinit r) (erase ls) = Some s0 /\ c_result s0 = c_result s /\ c_phase s0 = c_phase s) /\
    (* (2) the regular proxy was handed the whole request; the shadow request is a full copy *)
    c_src s = r /\ (c_phase s <> PStart -> c_clone s = Some r) /\
    (* (3) the result is the regular proxy's, on that request *)
    (forall x, c_result s = Some x -> exists cc, x = p1 cc r).
  Proof.
    intros H. split.
    - destruct (crun_erase ls (cinit r) (cinit r) s (cv_refl _) H) as (s0 & E & (Hp & _ & _ & Hr & _)).
      exists s0. split; [assumption|]. split; congruence.
    - destruct (call_inv_run r ls _ _ (call_inv_init r) H) as (Hs & Hc & _ & Hr).
      split; [assumption|]. split; [assumption|].
      intros x Hx. rewrite Hx in Hr. destruct Hr as [_ Hr]. exact Hr.
  Qed.

  (* two runs that differ only in what the shadow side did (values, timing, presence) *)
  Lemma call_any_shadow r ls1 ls2 (s1 s2 : cstate R S) :
    erase ls1 = erase ls2 ->
    crun p1 (cinit r) ls1 = Some s1 -> crun p1 (cinit r) ls2 = Some s2 ->
    c_result s1 = c_result s2.
  Proof.
    intros He H1 H2.
    destruct (crun_erase ls1 _ _ s1 (cv_refl (cinit r)) H1) as (a & Ea & (_ & _ & _ & Ra & _)).
    destruct (crun_erase ls2 _ _ s2 (cv_refl (cinit r)) H2) as (b & Eb & (_ & _ & _ & Rb & _)).
    rewrite He in Ea. rewrite Ea in Eb. inversion Eb; subst. congruence.
  Qed.
End Call.

(* the shadow context's cancel() is called by the shadow goroutine only, after p2 returned *)
Lemma shadow_cancel_only_after_return {R S} (p1 : bool -> request -> R) : forall ls (s s' : cstate R S),
  (c_shadow_cancelled s = true -> c_shadow_value s <> None) ->
  crun p1 s ls = Some s' ->
  c_shadow_cancelled s' = true -> c_shadow_value s' <> None.
Proof.
  induction ls as [|l rest IH]; intros s s' Hi H; simpl in H.
  - inversion H; subst. assumption.
  - destruct (cstep p1 s l) as [s1|] eqn:E; [|discriminate]. apply (IH s1 s'); [|assumption].
    destruct l; simpl in E.
    + destruct (c_phase s); try discriminate. destruct (clone_request (c_src s)). inversion E; subst. assumption.
    + destruct (c_phase s); try discriminate. inversion E; subst. assumption.
    + destruct (c_phase s); try discriminate. inversion E; subst. assumption.
    + destruct (c_shadow_running s); [|discriminate]. inversion E; subst. simpl. intros _. discriminate.
    + destruct (c_shadow_value s) eqn:Ev; [|discriminate]. destruct (c_shadow_cancelled s); [discriminate|].
      inversion E; subst. simpl. intros _. try rewrite Ev. discriminate.
    + inversion E; subst. assumption.
Qed.

Lemma shadow_cancel_after_return_init {R S} (p1 : bool -> request -> R) r (ls : list (plabel S)) (s : cstate R S) :
  crun p1 (cinit r) ls = Some s -> c_shadow_cancelled s = true -> c_shadow_value s <> None.
Proof. apply shadow_cancel_only_after_return. simpl. discriminate. Qed.
