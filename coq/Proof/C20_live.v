(* C20 - proofs, part 7: no self-blocking and no deadlock.
   (1) A disciplined path never acquires a lock while it holds one (lev_step refuses a nested
       lock): a goroutine never blocks on a lock it holds itself - in particular no recursive read
       lock, which sync.RWMutex turns into a deadlock as soon as a writer waits in between.
   (2) In the interleaving machine, for any number of threads executing disciplined operations on
       one lock, every reachable state in which some thread has not finished has an enabled step:
       the registries cannot deadlock, under any schedule. *)
Require Import Verif.Common.Base Verif.Common.LockEv Verif.Model.C20 Verif.Spec.C20.
Require Import Verif.Proof.C20_race.

Definition is_acquire (e : lev) : bool := match e with LLock _ | LRLock _ => true | _ => false end.

Lemma lev_run_app h a b : lev_run h (a ++ b) = match lev_run h a with Some h1 => lev_run h1 b | None => None end.
Proof.
  revert h. induction a as [|e r IH]; intros h; simpl; [reflexivity|].
  destruct (lev_step h e); [apply IH|reflexivity].
Qed.

Lemma acquire_needs_none h e h1 : is_acquire e = true -> lev_step h e = Some h1 -> h = HNone.
Proof. destruct e; try discriminate; destruct h; simpl; intros _ H; try discriminate; reflexivity. Qed.

Lemma disciplined_no_nested_lock l pre e post h :
  disciplined l = true -> l = pre ++ e :: post -> lev_run HNone pre = Some h -> is_acquire e = true ->
  h = HNone.
Proof.
  intros Hd -> Hpre Ha. apply disciplined_run in Hd. rewrite lev_run_app, Hpre in Hd.
  apply lev_run_cons in Hd. destruct Hd as [h1 [Hs _]]. eapply acquire_needs_none; eauto.
Qed.

Section NoDeadlock.
  Context {D X : Type}.
  Variable m : string.

  Definition holds_lock (th : @thread D X) : bool :=
    match t_held th with HNone => false | _ => true end.
  Definition unfinished (th : @thread D X) : bool :=
    match t_cur th, t_todo th with None, [] => false | _, _ => true end.

  Lemma finished_false (s : @state D X) : finished s = false ->
    exists t th, nth_error (s_threads s) t = Some th /\ unfinished th = true.
  Proof.
    unfold finished. intros H.
    assert (E : existsb unfinished (s_threads s) = true).
    { induction (s_threads s) as [|th r IH]; simpl in *; [discriminate|].
      unfold unfinished at 1. destruct (t_cur th); [reflexivity|]. destruct (t_todo th); [|reflexivity].
      simpl in H. simpl. apply IH. exact H. }
    apply existsb_exists in E. destruct E as [th [Hin Hu]]. apply In_nth_error in Hin. destruct Hin as [t Ht]. eauto.
  Qed.

  (* a thread that holds a lock can always move: its next event is not an acquisition *)
  Lemma holder_moves s t th : inv m s -> nth_error (s_threads s) t = Some th -> holds_lock th = true ->
    exists s', step s t = Some s'.
  Proof.
    intros Hi Ht Hh. destruct (proj1 Hi t th Ht) as [_ [Hc _]]. unfold step. rewrite Ht.
    unfold holds_lock in Hh. destruct (t_cur th) as [[[o rem] r]|] eqn:Ec; [|rewrite Hc in Hh; discriminate].
    destruct Hc as [Hr _]. destruct rem as [|e rem].
    - simpl in Hr. inversion Hr as [E]. rewrite E in Hh. discriminate.
    - apply lev_run_cons in Hr. destruct Hr as [h1 [Hs _]].
      destruct e as [x|x|x|x|ob|ob|ob f].
      + destruct (t_held th); simpl in Hs; discriminate.
      + rewrite Hs. simpl. eauto.
      + destruct (t_held th); simpl in Hs; discriminate.
      + rewrite Hs. simpl. eauto.
      + eauto.
      + eauto.
      + destruct (s_data s ob); [destruct (o_call o f r d)|]; eauto.
  Qed.

  (* when nobody holds a lock, every unfinished thread can move *)
  Lemma free_moves s t th : inv m s -> nth_error (s_threads s) t = Some th -> unfinished th = true ->
    (forall u thu, nth_error (s_threads s) u = Some thu -> holds_lock thu = false) ->
    exists s', step s t = Some s'.
  Proof.
    intros Hi Ht Hu Hfree. destruct (proj1 Hi t th Ht) as [_ [Hc _]]. unfold step. rewrite Ht.
    unfold unfinished in Hu.
    assert (Hnone : forall (f : @thread D X -> bool),
              (forall thu, holds_lock thu = false -> f thu = false) -> any_other f (s_threads s) t = false).
    { intros f Hf. apply any_other_false. intros u thu _ Hn. apply Hf. eapply Hfree; eauto. }
    destruct (t_cur th) as [[[o rem] r]|] eqn:Ec.
    - destruct Hc as [Hr _]. destruct rem as [|e rem]; [eauto|].
      apply lev_run_cons in Hr. destruct Hr as [h1 [Hs _]].
      destruct e as [x|x|x|x|ob|ob|ob f].
      + rewrite Hs. simpl. rewrite Hnone; [simpl; eauto|].
        intros thu Hh. unfold holds_lock in Hh. destruct (t_held thu); [reflexivity|discriminate|discriminate].
      + rewrite Hs. simpl. eauto.
      + rewrite Hs. simpl. rewrite Hnone; [simpl; eauto|].
        intros thu Hh. unfold holds_lock in Hh. destruct (t_held thu); [reflexivity|discriminate|discriminate].
      + rewrite Hs. simpl. eauto.
      + eauto.
      + eauto.
      + destruct (s_data s ob); [destruct (o_call o f r d)|]; eauto.
    - destruct (t_todo th); [discriminate|eauto].
  Qed.

  Lemma no_deadlock progs dat sched s :
    wf_progs m progs -> (forall o, dat o <> None) ->
    run (@init D X progs dat) sched = Some s -> finished s = false ->
    exists t s', step s t = Some s'.
  Proof.
    intros Hw Hd Hr Hf. pose proof (run_inv m sched _ _ (init_inv m progs dat Hw Hd) Hr) as Hi.
    destruct (existsb holds_lock (s_threads s)) eqn:E.
    - apply existsb_exists in E. destruct E as [th [Hin Hh]]. apply In_nth_error in Hin. destruct Hin as [t Ht].
      destruct (holder_moves s t th Hi Ht Hh) as [s' Hs]. eauto.
    - destruct (finished_false s Hf) as [t [th [Ht Hu]]].
      assert (Hfree : forall u thu, nth_error (s_threads s) u = Some thu -> holds_lock thu = false).
      { intros u thu Hn. destruct (holds_lock thu) eqn:Eh; [|reflexivity].
        assert (existsb holds_lock (s_threads s) = true)
          by (apply existsb_exists; exists thu; split; [eapply nth_error_In; eauto|exact Eh]).
        congruence. }
      destruct (free_moves s t th Hi Ht Hu Hfree) as [s' Hs]. eauto.
  Qed.
End NoDeadlock.
