(* C06 - proofs, part g: the oracle's closed form of the rename is what the model computes;
   the oracle's stage decomposition holds of the model. *)
Require Import Verif.Common.Base Verif.Common.Json Verif.Common.JsonFacts.
Require Import Verif.Model.C06 Verif.Spec.C06.
Require Import Verif.Proof.C06 Verif.Proof.C06_d Verif.Proof.C06_e Verif.Proof.C06_k.

Theorem rename_lookup_model : forall mp f, names_distinct mp ->
  forall k', lookup k' (apply_mapping mp f) = rename_lookup mp f k'.
Proof.
  intros mp f Hnd k'. pose proof (mapping_renames mp f Hnd k') as R.
  unfold renamed_at in R. unfold rename_lookup.
  destruct (find (fun sd => str_eqb (snd sd) k' && mem (fst sd) f) mp) as [[s t]|] eqn:Ef.
  - apply find_some in Ef as [Hin Hc]. cbn [fst snd] in *.
    apply andb_true_iff in Hc as [Ht Hm]. apply str_eqb_eq in Ht. subst t.
    unfold mem in Hm. destruct (lookup s f) as [v0|] eqn:Es; [|discriminate].
    apply R. left. exists s. split; assumption.
  - assert (Hnone : forall s, In (s, k') mp -> lookup s f = None).
    { intros s Hin. pose proof (find_none _ _ Ef (s, k') Hin) as Hc. cbn [fst snd] in Hc.
      rewrite str_eqb_refl in Hc. cbn in Hc. unfold mem in Hc.
      destruct (lookup s f); [discriminate|reflexivity]. }
    destruct (str_mem k' (map fst mp)) eqn:Em.
    + apply str_mem_In in Em.
      destruct (lookup k' (apply_mapping mp f)) as [v|] eqn:El; [|reflexivity].
      destruct (proj1 (R v) eq_refl) as [[s [Hin Hl]]|[_ [Hni _]]];
        [rewrite (Hnone s Hin) in Hl; discriminate|contradiction].
    + assert (Hni : ~ In k' (map fst mp)) by (intros Hin; apply str_mem_In in Hin; congruence).
      destruct (lookup k' (apply_mapping mp f)) as [v|] eqn:El.
      * destruct (proj1 (R v) eq_refl) as [[s [Hin Hl]]|[_ [_ Hl]]];
          [rewrite (Hnone s Hin) in Hl; discriminate|symmetry; exact Hl].
      * destruct (lookup k' f) as [v|] eqn:Elf; [|reflexivity].
        assert (Hx : None = Some v).
        { apply R. right. split; [exact Hnone|]. split; [exact Hni|reflexivity]. }
        discriminate.
Qed.

Lemma deny_filter_nil t : deny_filter [] t = t.
Proof.
  rewrite deny_filter_members. induction t as [|[k x] r IH]; [reflexivity|].
  cbn [delete_members lookup]. rewrite IH. reflexivity.
Qed.

Lemma filter_stage_plain c t : allow c = [] -> deny c = [] -> filter_stage c t = Ok t.
Proof.
  intros Ha Hd. destruct t as [|e t']; [reflexivity|].
  rewrite filter_stage_deny; [|exact Ha|discriminate].
  rewrite Hd. cbn [map]. unfold build_deny. cbn [fold_left]. rewrite deny_filter_nil. reflexivity.
Qed.

(* ungroup inverts the group stage *)
Lemma ungroup_group c d : ungroup c (group_stage c d) = Some d.
Proof.
  unfold ungroup, group_stage. destruct (str_eqb (group c) "") eqn:E; [reflexivity|].
  rewrite str_eqb_refl. reflexivity.
Qed.

(* the stage decomposition of the oracle, on the model: target as specified, filter output
   passing allow_ok / deny_ok, and the rest is group (mapping f) *)
Theorem stages_model : forall c d,
  wfj (JObj d) = true ->
  exists f,
    format {| target := target c; allow := []; deny := []; mapping := []; group := "" |} d
      = Ok (target_spec c d) /\
    format {| target := target c; allow := allow c; deny := deny c; mapping := []; group := "" |} d
      = Ok f /\
    filter_ok c (target_spec c d) f = true /\
    format c d = Ok (group_stage c (mapping_stage c f)) /\
    ungroup c (group_stage c (mapping_stage c f)) = Some (mapping_stage c f) /\
    (names_distinct (sanitize (mapping c)) -> forall k',
       lookup k' (mapping_stage c f) = rename_lookup (sanitize (mapping c)) f k').
Proof.
  intros c d Hwf.
  assert (Hwt : wfj (JObj (target_spec c d)) = true).
  { destruct (target_spec_path c d) as [-> | [-> | [q Hq]]]; [exact Hwf|reflexivity|].
    eapply wfj_get_path; [exact Hwf|exact Hq]. }
  destruct (pipeline_order c d) as [f [Hf Hfmt]].
  exists f. split; [|split; [|split; [|split; [|split]]]].
  - unfold format. rewrite target_stage_spec.
    change (target_spec {| target := target c; allow := []; deny := []; mapping := []; group := "" |} d)
      with (target_spec c d).
    rewrite filter_stage_plain by reflexivity.
    unfold mapping_stage, group_stage. cbn [mapping group sanitize map apply_mapping fold_left].
    destruct (is_nil (target_spec c d)); reflexivity.
  - unfold format. cbn [mapping group]. rewrite target_stage_spec.
    change (target_spec {| target := target c; allow := allow c; deny := deny c; mapping := []; group := "" |} d)
      with (target_spec c d).
    assert (Hfs : filter_stage {| target := target c; allow := allow c; deny := deny c; mapping := []; group := "" |} (target_spec c d)
                  = filter_stage c (target_spec c d)) by reflexivity.
    rewrite Hfs, Hf. unfold mapping_stage, group_stage. cbn [mapping group sanitize map apply_mapping fold_left].
    destruct (is_nil f); reflexivity.
  - unfold filter_ok. unfold filter_stage in Hf.
    destruct (target_spec c d) as [|e t] eqn:Et.
    + cbn [is_nil] in Hf. inversion Hf; subst f.
      destruct (is_nil (allow c));
        unfold deny_ok, allow_ok; apply forallb_forall; intros p Hp;
        pose proof (probe_nonempty _ _ _ _ Hp) as Hne.
      * apply deny_at_b_iff. split.
        -- intros _. destruct p; [congruence|reflexivity].
        -- intros _. destruct p; [congruence|reflexivity].
      * apply allow_at_b_iff. split.
        -- intros _. destruct p; [congruence|reflexivity].
        -- intros _. destruct p as [|k r]; [congruence|]. unfold present. cbn [get_path lookup].
           split; [split; [discriminate|]|discriminate].
           intros [l [_ [Hs Hpr]]]. unfold strict_prefix in Hs. apply andb_true_iff in Hs as [Hs _].
           destruct l; [discriminate|]. cbn [get_path lookup] in Hpr. discriminate.
    + cbn [is_nil] in Hf. destruct (is_nil (allow c)) eqn:Ea.
      * destruct (deny_panics _ _); [discriminate|]. inversion Hf; subst f.
        apply deny_ok_model; [apply split_paths_nonempty|exact Hwt].
      * inversion Hf; subst f.
        apply allow_ok_model_any; [apply split_paths_nonempty|exact Hwt].
  - exact Hfmt.
  - apply ungroup_group.
  - intros Hnd k'. unfold mapping_stage. destruct f as [|e f']; cbn [is_nil].
    + unfold rename_lookup. cbn [lookup].
      destruct (find _ _) as [sd|] eqn:Ef.
      * apply find_some in Ef as [_ Hc]. apply andb_true_iff in Hc as [_ Hm]. discriminate.
      * destruct (str_mem k' _); reflexivity.
    + apply rename_lookup_model. exact Hnd.
Qed.
