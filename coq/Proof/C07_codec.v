(* C07 - the JSON string escaping on bytes: decoding what the encoder wrote gives back the
   string (with U+FFFD for bytes that are not UTF-8), for every byte string. *)
Require Import Verif.Common.Base.
Require Import Verif.Model.C07 Verif.Proof.C07_bytes.

Local Arguments seq_len : simpl never.
Local Open Scope N_scope.

Lemma drun_app st xs ys :
  drun st (xs ++ ys) =
  match drun st xs with
  | Some (st', o1) => match drun st' ys with
                      | Some (st'', o2) => Some (st'', (o1 ++ o2)%list)
                      | None => None end
  | None => None
  end.
Proof.
  revert st. induction xs as [|c r IH]; intros st; simpl.
  - destruct (drun st ys) as [[st'' o2]|]; reflexivity.
  - destruct (dstep st c) as [[st' o]|]; [|reflexivity]. rewrite IH.
    destruct (drun st' r) as [[st1 o1]|]; [|reflexivity].
    destruct (drun st1 ys) as [[st2 o2]|]; [|reflexivity].
    rewrite app_assoc. reflexivity.
Qed.

(* ---- tokens ---- *)

Definition ascii_tok_ok (b : N) : bool :=
  match drun DNormal (esc_ascii b) with
  | Some (DNormal, [b']) => b' =? b
  | _ => false
  end.

Lemma below_sweep (P : N -> bool) (n : nat) :
  forallb P (map N.of_nat (seq 0 n)) = true -> forall b, b < N.of_nat n -> P b = true.
Proof.
  intros H b Hb. rewrite forallb_forall in H. apply H.
  apply in_map_iff. exists (N.to_nat b). split; [apply N2Nat.id|].
  apply in_seq. lia.
Qed.

Lemma ascii_tok b : b < 128 -> drun DNormal (esc_ascii b) = Some (DNormal, [b]).
Proof.
  intros Hb.
  assert (H : ascii_tok_ok b = true).
  { apply (below_sweep ascii_tok_ok 128); [vm_compute; reflexivity|exact Hb]. }
  unfold ascii_tok_ok in H.
  destruct (drun DNormal (esc_ascii b)) as [[[| |] [|b' [|]]]|]; try discriminate.
  apply N.eqb_eq in H. subst. reflexivity.
Qed.

Lemma fffd_tok : drun DNormal tok_fffd = Some (DNormal, [239; 191; 189]).
Proof. vm_compute. reflexivity. Qed.

Lemma ls_tok x : x = 168 \/ x = 169 -> drun DNormal (tok_ls x) = Some (DNormal, [226; 128; x]).
Proof. intros [-> | ->]; vm_compute; reflexivity. Qed.

Lemma raw_tok bs : Forall (fun b => 128 <= b) bs -> drun DNormal bs = Some (DNormal, bs).
Proof.
  induction 1 as [|b r Hb Hr IH]; [reflexivity|]. simpl.
  destruct (N.eqb_spec b 92); [lia|]. destruct (N.eqb_spec b 34); [lia|].
  destruct (N.ltb_spec b 32); [lia|]. simpl. rewrite IH. reflexivity.
Qed.

(* ---- the counters of sanitize_from / escape_from ---- *)

Lemma sanitize_from_split l : forall k, (k <= List.length l)%nat ->
  sanitize_from l k = (firstn k l ++ sanitize_from (skipn k l) 0)%list.
Proof.
  induction l as [|b r IH]; intros k Hk.
  - destruct k; [reflexivity|simpl in Hk; lia].
  - destruct k as [|k']; [reflexivity|]. simpl in Hk. cbn [sanitize_from firstn skipn app].
    f_equal. apply IH. lia.
Qed.

Lemma escape_from_copy l : forall k, (k <= List.length l)%nat ->
  escape_from l k false = (firstn k l ++ escape_from (skipn k l) 0 false)%list.
Proof.
  induction l as [|b r IH]; intros k Hk.
  - destruct k; [reflexivity|simpl in Hk; lia].
  - destruct k as [|k']; [reflexivity|]. simpl in Hk. cbn [escape_from firstn skipn app].
    f_equal. apply IH. lia.
Qed.

Lemma escape_from_skip0 l : escape_from l 0 true = escape_from l 0 false.
Proof. destruct l; reflexivity. Qed.

Lemma escape_from_skip l : forall k, (k <= List.length l)%nat ->
  escape_from l k true = escape_from (skipn k l) 0 false.
Proof.
  induction l as [|b r IH]; intros k Hk.
  - destruct k; [reflexivity|simpl in Hk; lia].
  - destruct k as [|k']; [apply escape_from_skip0|]. simpl in Hk. cbn [escape_from skipn app].
    apply IH. lia.
Qed.

(* ---- what seq_len guarantees ---- *)

Ltac b2p :=
  repeat match goal with
  | H : (_ && _)%bool = true |- _ => apply andb_true_iff in H; destruct H
  | H : (_ <=? _) = true |- _ => apply N.leb_le in H
  | H : (_ <? _) = true |- _ => apply N.ltb_lt in H
  | H : (_ <? _) = false |- _ => apply N.ltb_ge in H
  | H : (_ =? _) = true |- _ => apply N.eqb_eq in H
  end.

Ltac split_ifs H :=
  repeat match type of H with
  | context [if ?c then _ else _] => destruct c eqn:?
  end.

Lemma seq_len_facts b r n : seq_len (b :: r) = S n ->
  (n <= List.length r)%nat /\
  (n = O -> b < 128) /\
  (n <> O -> 128 <= b /\ Forall (fun x => 128 <= x) (firstn n r)).
Proof.
  unfold seq_len, is_cont, in_range. intros H.
  destruct (b <? 128) eqn:E0.
  - inversion H; subst. b2p. repeat split; [simpl; lia|auto|congruence|congruence].
  - b2p. destruct r as [|b1 [|b2 [|b3 r']]]; split_ifs H; try discriminate;
      inversion H; subst; b2p;
      repeat (match goal with Hx : context [if ?c then _ else _] |- _ => destruct c eqn:? end; b2p);
      cbn [firstn List.length];
      (repeat split; [lia|discriminate|lia|repeat (apply Forall_cons; [lia|]); apply Forall_nil]).
Qed.

Lemma is_ls_facts b r : is_ls (b :: r) = true ->
  exists x r', b = 226 /\ r = 128 :: x :: r' /\ (x = 168 \/ x = 169).
Proof.
  unfold is_ls. destruct r as [|b1 [|b2 r']]; try discriminate. intros H.
  apply andb_true_iff in H as [H H2]. apply andb_true_iff in H as [H0 H1].
  apply N.eqb_eq in H0, H1. apply orb_true_iff in H2.
  exists b2, r'. subst. repeat split.
  destruct H2 as [H2|H2]; apply N.eqb_eq in H2; auto.
Qed.

Lemma ls_seq_len x r' : x = 168 \/ x = 169 -> seq_len (226 :: 128 :: x :: r') = 3%nat.
Proof. intros [-> | ->]; reflexivity. Qed.

(* ---- round trip ---- *)

Lemma roundtrip_le : forall m l, (List.length l <= m)%nat ->
  drun DNormal (escape_from l 0 false) = Some (DNormal, sanitize_from l 0).
Proof.
  induction m as [|m IH]; intros l Hl.
  - destruct l; [reflexivity|simpl in Hl; lia].
  - destruct l as [|b r]; [reflexivity|]. simpl in Hl.
    cbn [escape_from sanitize_from].
    destruct (seq_len (b :: r)) as [|n] eqn:E.
    + rewrite drun_app, fffd_tok, (IH r) by lia. reflexivity.
    + destruct (seq_len_facts b r n E) as [Hn [H0 Hpos]].
      destruct (is_ls (b :: r)) eqn:L.
      * destruct (is_ls_facts b r L) as [x [r' [-> [-> Hx]]]].
        rewrite (ls_seq_len x r' Hx) in E. inversion E; subst n.
        cbn [nth]. rewrite drun_app, (ls_tok x Hx).
        rewrite escape_from_skip by (simpl; lia). cbn [skipn sanitize_from].
        rewrite (IH r') by (simpl in Hl; lia). reflexivity.
      * destruct n as [|n'].
        -- rewrite drun_app, (ascii_tok b (H0 eq_refl)), (IH r) by lia. reflexivity.
        -- destruct Hpos as [Hb Hr]; [discriminate|].
           rewrite (escape_from_copy r (S n')) by exact Hn.
           rewrite (sanitize_from_split r (S n')) by exact Hn.
           change ([b] ++ firstn (S n') r ++ escape_from (skipn (S n') r) 0 false)%list
             with ((b :: firstn (S n') r) ++ escape_from (skipn (S n') r) 0 false)%list.
           rewrite drun_app, raw_tok by (constructor; assumption).
           rewrite IH.
           ++ reflexivity.
           ++ rewrite skipn_length. lia.
Qed.

Lemma codec_roundtrip l : unescape_bytes (escape_bytes l) = Some (sanitize_from l 0).
Proof.
  unfold unescape_bytes, escape_bytes. rewrite (roundtrip_le (List.length l) l (le_n _)). reflexivity.
Qed.

Lemma codec_roundtrip_valid l : valid_from l 0 = true -> unescape_bytes (escape_bytes l) = Some l.
Proof. intros H. rewrite codec_roundtrip, (sanitize_from_valid l 0 H). reflexivity. Qed.
