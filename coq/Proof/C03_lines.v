(* C03 - the object-level access summaries of Model/C03.v are sound with respect to the
   line-level models of Request.Clone, CloneRequest, the two filters and the request builder:
   every event on a memory location is covered by a summary access to the object the location
   belongs to (a write by a write).  Hence no conflict between two summaries means no two
   line-level events of the two pipelines on the same location with a write among them. *)
Require Import Verif.Common.Base Verif.Common.Heap Verif.Model.C03 Verif.Spec.C03.
Require Import Verif.Proof.C03 Verif.Proof.C03_rf.

Lemma cov_rd coarse l : In (Rd (obj_of l)) coarse -> cov coarse (FR l).
Proof. intros H. exists (Rd (obj_of l)). split; [exact H|]. split; [reflexivity|discriminate]. Qed.
Lemma cov_wr coarse l v e : floc e = l -> In (Wr (obj_of l) v) coarse -> cov coarse e.
Proof. intros <- H. exists (Wr (obj_of (floc e)) v). split; [exact H|]. split; reflexivity. Qed.

Lemma Forall_flat_map {A B} (P : B -> Prop) (f : A -> list B) l :
  (forall x, In x l -> Forall P (f x)) -> Forall P (flat_map f l).
Proof.
  intros H. apply Forall_forall. intros y Hy. apply in_flat_map in Hy as [x [Hx Hy]].
  specialize (H x Hx). rewrite Forall_forall in H. auto.
Qed.
Lemma Forall_map' {A B} (P : B -> Prop) (f : A -> B) l : (forall x, In x l -> P (f x)) -> Forall P (map f l).
Proof. intros H. apply Forall_forall. intros y Hy. apply in_map_iff in Hy as [x [<- Hx]]. auto. Qed.

Ltac inn := cbn; repeat (first [left; reflexivity | right]).

(* the generic consequence *)
Theorem covered_no_conflict f1 f2 c1 c2 :
  covers f1 c1 -> covers f2 c2 -> no_conflict obj_eqb c1 c2 = true ->
  forall e1 e2, In e1 f1 -> In e2 f2 -> floc e1 = floc e2 -> is_fw e1 = false /\ is_fw e2 = false.
Proof.
  intros H1 H2 Hnc e1 e2 I1 I2 El. unfold covers in *. rewrite Forall_forall in H1, H2.
  destruct (H1 e1 I1) as [a1 (A1 & O1 & W1)]. destruct (H2 e2 I2) as [a2 (A2 & O2 & W2)].
  pose proof (proj1 (no_conflict_spec obj val obj_eqb c1 c2) Hnc a1 a2 A1 A2) as Hc.
  unfold conflict in Hc. rewrite O1, O2, El in Hc.
  replace (obj_eqb (obj_of (floc e2)) (obj_of (floc e2))) with true in Hc by (symmetry; apply obj_eqb_spec; reflexivity).
  cbn [andb] in Hc. apply orb_false_elim in Hc as [Ha1 Ha2].
  split.
  - destruct (is_fw e1); [rewrite (W1 eq_refl) in Ha1; discriminate|reflexivity].
  - destruct (is_fw e2); [rewrite (W2 eq_refl) in Ha2; discriminate|reflexivity].
Qed.

(* Request.Clone *)
Theorem clone_covered s c : covers (clone_lines s c) (fst (shallow_clone c s)).
Proof.
  unfold covers, clone_lines, shallow_clone, alloc, rd. cbn [fst].
  constructor; [apply cov_rd; inn|]. apply Forall_app. split.
  - apply Forall_map'. intros n _. apply cov_rd. inn.
  - apply Forall_map'. intros n _. eapply cov_wr; [reflexivity|]. inn.
Qed.

(* CloneRequest *)
Theorem clonerequest_covered own st ss so s :
  covers (clonerequest_lines own st ss so s) (fst (fst (deep_clone own st ss so s))).
Proof.
  unfold covers, clonerequest_lines, clone_lines, clone_headers_lines, clone_params_lines.
  unfold deep_clone, alloc, wr, rd.
  destruct (has_body s) eqn:Hb; cbn [fst snd];
    repeat first [apply Forall_nil | apply Forall_cons | apply Forall_app; split
                 | apply Forall_map'; intros ? _ | apply Forall_flat_map; intros ? _ ];
    try (apply cov_rd; inn; fail); try (eapply cov_wr; [reflexivity|inn]; fail).
Qed.

(* the filters *)
Theorem filter_covered own st f n allow s :
  covers (filter_lines own st f n allow s) (fst (filter_stage own st f allow s)).
Proof.
  unfold covers, filter_lines, filter_stage, alloc, rd. destruct allow as [|a0 al]; [constructor|].
  match goal with |- context [all_allowed ?a ?m] => destruct (all_allowed a m) end; cbn [fst snd];
    repeat first [apply Forall_nil | apply Forall_cons | apply Forall_app; split
                 | apply Forall_map'; intros ? _ | apply Forall_flat_map; intros ? _ ];
    try (apply cov_rd; inn; fail); try (eapply cov_wr; [reflexivity|inn]; fail).
  all: destruct (lookup _ _); repeat first [apply Forall_nil | apply Forall_cons];
    try (apply cov_rd; inn; fail); try (eapply cov_wr; [reflexivity|inn]; fail).
Qed.

(* the request builder *)
Theorem builder_covered b s : covers (builder_lines s) (fst (rb_stage b s)).
Proof.
  unfold covers, builder_lines, rb_stage, wr, rd. cbn [fst snd].
  repeat first [apply Forall_nil | apply Forall_cons | apply Forall_app; split | apply Forall_map'; intros ? _ ];
    try (apply cov_rd; inn; fail); try (eapply cov_wr; [reflexivity|inn]; fail).
Qed.
