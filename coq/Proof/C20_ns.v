(* C20 - proofs, part 4: documented witnesses about event-list literals (the code before the two
   repairs) and the bounded sweep for the repaired Namespaced.Register; instances showing that the
   hypotheses of the general theorems are met by the event lists of the sources. *)
Require Import Verif.Common.Base Verif.Common.LockEv Verif.Model.C20 Verif.Spec.C20.
Require Import Verif.Proof.C20_race Verif.Proof.C20_lin.

Definition ns_dat : string -> option nsmap := fun _ => Some [].
Definition ns_progs (body : list lev) : list (list (@op nsmap nobs)) :=
  [[ns_reg_op body "ns" "a" 1%Z]; [ns_reg_op body "ns" "b" 2%Z]].
Definition ns_both (d : option nsmap) : bool :=
  match d with
  | Some dm => ns_all_present [("ns", "a", 1%Z); ("ns", "b", 2%Z)] dm
  | None => false
  end.

(* the two-section Namespaced.Register (as it was before the repair): both goroutines find the
   namespace missing, both store a fresh one: the registration of "a" is lost *)
Lemma ns_lost_update_old :
  disciplined ns_register_old = false /\
  exists sched s,
    run (init (ns_progs ns_register_old) ns_dat) sched = Some s /\ finished s = true /\
    s_data s "data" = Some [("ns", [("b", 2%Z)])] /\ ns_both (s_data s "data") = false.
Proof.
  split; [vm_compute; reflexivity|].
  exists [0; 1; 0; 1; 0; 1; 0; 1].
  eexists. split; [vm_compute; reflexivity|]. split; [vm_compute; reflexivity|].
  split; vm_compute; reflexivity.
Qed.

(* every complete execution of the two goroutines takes 2 * (2 + length body) steps *)
Definition complete_ok (body : list lev) (sched : list nat) : bool :=
  match run (init (ns_progs body) ns_dat) sched with
  | Some s => if finished s then ns_both (s_data s "data") else true
  | None => true
  end.
Definition completes (body : list lev) (sched : list nat) : bool :=
  match run (init (ns_progs body) ns_dat) sched with Some s => finished s | None => false end.

(* the repaired event list: all 2^12 schedules of the two goroutines; every one that is an
   execution and runs both to completion keeps both registrations (and some do complete) *)
Lemma ns_no_lost_update_new :
  disciplined ns_register_new = true /\
  forallb (complete_ok ns_register_new) (all_scheds 2 12) = true /\
  existsb (completes ns_register_new) (all_scheds 2 12) = true.
Proof. split; [|split]; vm_compute; reflexivity. Qed.

(* same sweep over the old list (8 steps): the checker does find the loss *)
Lemma ns_old_sweep_finds_loss :
  forallb (complete_ok ns_register_old) (all_scheds 2 8) = false.
Proof. vm_compute. reflexivity. Qed.

(* an unlocked write (backoff.jitter before the repair: the shared *rand.Rand is mutated without a
   lock; likewise a registry whose Register lost its lock): two goroutines reach a state in which
   both stand before the write, and the racy write destroys the object *)
Definition unlocked_body : list lev := [LWrite "random"].
Definition rng_progs : list (list (@op rmap obs)) :=
  [[reg_op unlocked_body "k" 1%Z]; [reg_op unlocked_body "k" 2%Z]].
Lemma unlocked_write_races :
  disciplined unlocked_body = false /\
  exists s, run (init rng_progs (fun _ => Some [])) [0; 1] = Some s /\
            racy s 0 ("random", true) = true /\
            exists s', step s 0 = Some s' /\ s_data s' "random" = None.
Proof.
  split; [vm_compute; reflexivity|].
  eexists. split; [vm_compute; reflexivity|]. split; [vm_compute; reflexivity|].
  eexists. split; vm_compute; reflexivity.
Qed.

(* the event lists of register.Untyped meet the hypotheses of the general theorems *)
Lemma untyped_bodies_wf k v :
  wf_op "mutex" (reg_op untyped_register_body k v) /\
  wf_op "mutex" (get_op untyped_get_body k) /\
  wf_op "mutex" (clone_op untyped_get_body) /\
  lookup_body untyped_get_body = true.
Proof. repeat split; vm_compute; reflexivity. Qed.

(* a concrete concurrent run: a registration and a lookup of the same key; under this schedule
   the lookup returns the newly registered value, under the other order the previous one *)
Definition ex_progs : list (list (@op rmap obs)) :=
  [[reg_op untyped_register_body "json" 7%Z]; [get_op untyped_get_body "json"]].
Definition ex_dat : string -> option rmap := fun _ => Some [("json", 1%Z)].
Definition log_results (s : @state rmap obs) (t : nat) : list (@res obs) :=
  match nth_error (s_threads s) t with Some th => map snd (t_log th) | None => [] end.
Lemma ex_new_value :
  option_map (fun s => log_results s 1) (run (init ex_progs ex_dat) [0; 1; 0; 0; 0; 1; 1; 1; 1; 0]) =
  Some [RVal (OKey (Some 7%Z))].
Proof. vm_compute. reflexivity. Qed.
Lemma ex_previous_value :
  option_map (fun s => log_results s 1) (run (init ex_progs ex_dat) [0; 1; 1; 1; 1; 1; 0; 0; 0; 0]) =
  Some [RVal (OKey (Some 1%Z))].
Proof. vm_compute. reflexivity. Qed.
(* the writer holds the lock: the reader's RLock is not an execution step *)
Lemma ex_reader_blocked :
  run (init ex_progs ex_dat) [0; 1; 0; 1] = None.
Proof. vm_compute. reflexivity. Qed.
