(* C06 - proofs, part k: allow lists that are NOT prefix-free - the dictionary built by
   newAllowlistingFilter has exactly the paths of the effective list as leaves, for every list;
   hence the filter is exactly the projection onto the effective list. *)
Require Import Verif.Common.Base Verif.Common.Json Verif.Common.JsonFacts.
Require Import Verif.Model.C06 Verif.Spec.C06.
Require Import Verif.Proof.C06_a Verif.Proof.C06_b Verif.Proof.C06 Verif.Proof.C06_d Verif.Proof.C06_e.

Lemma incomparable_cons k q l : incomparable (k :: q) (k :: l) = incomparable q l.
Proof. unfold incomparable. cbn [prefix]. rewrite str_eqb_refl. reflexivity. Qed.

Lemma incomparable_diff k k' q l : str_eqb k' k = false -> incomparable (k :: q) (k' :: l) = true.
Proof.
  intros E. unfold incomparable. cbn [prefix]. rewrite E.
  assert (E' : str_eqb k k' = false) by (apply str_eqb_neq; apply str_eqb_neq in E; congruence).
  rewrite E'. reflexivity.
Qed.

(* inserting one path into ANY dictionary *)
Lemma insert_allow_leaves_any : forall q w, q <> [] ->
  forall l, leaf_of (insert_allow q w) l = true <->
            (l = q \/ (leaf_of w l = true /\ incomparable q l = true)).
Proof.
  induction q as [|k rest IH]; intros w Hne l; [congruence|].
  destruct rest as [|k2 rest2].
  - cbn [insert_allow]. destruct l as [|k' r'].
    + cbn [leaf_of]. split; [discriminate|intros [E|[E _]]; discriminate].
    + rewrite (leaf_of_cons (set k WLeaf w)), lookup_set.
      destruct (str_eqb k' k) eqn:E.
      * apply str_eqb_eq in E. subst k'. split.
        -- intros Hn. apply is_nil_true in Hn. subst. left. reflexivity.
        -- intros [Eq|[_ Hi]]; [inversion Eq; reflexivity|].
           unfold incomparable in Hi. cbn [prefix] in Hi. rewrite str_eqb_refl in Hi. discriminate.
      * rewrite <- (leaf_of_cons w). split.
        -- intros H. right. split; [exact H|apply incomparable_diff; exact E].
        -- intros [Eq|[H _]]; [inversion Eq; subst; rewrite str_eqb_refl in E; discriminate|exact H].
  - set (rest := k2 :: rest2) in *.
    assert (Hrest : rest <> []) by (unfold rest; discriminate).
    assert (Hgen : forall sub,
              (lookup k w = Some (WNode sub) \/ (sub = [] /\ lookup k w <> None /\
                                                  forall s, lookup k w <> Some (WNode s)) \/
               (sub = [] /\ lookup k w = None)) ->
              (leaf_of (set k (WNode (insert_allow rest sub)) w) l = true <->
               (l = k :: rest \/ (leaf_of w l = true /\ incomparable (k :: rest) l = true)))).
    { intros sub Hsub. destruct l as [|k' r'].
      - cbn [leaf_of]. split; [discriminate|intros [E|[E _]]; discriminate].
      - rewrite (leaf_of_cons (set _ _ _)), lookup_set.
        destruct (str_eqb k' k) eqn:E.
        + apply str_eqb_eq in E. subst k'. rewrite (IH sub Hrest r'), incomparable_cons, (leaf_of_cons w).
          destruct Hsub as [-> | [[-> [Hnn Hnot]] | [-> ->]]].
          * split; (intros [Eq|H]; [left; congruence|right; exact H]).
          * (* a leaf [k] above q: replaced by the chain of nodes *)
            rewrite leaf_of_nil_tree. destruct (lookup k w) as [[|s]|]; [| exfalso; eapply Hnot; reflexivity | congruence].
            split; [intros [Eq|[H _]]; [left; congruence|discriminate]|].
            intros [Eq|[H Hi]]; [left; congruence|].
            apply is_nil_true in H. subst r'. unfold incomparable in Hi.
            apply andb_true_iff in Hi as [_ Hi]. cbn in Hi. discriminate.
          * rewrite leaf_of_nil_tree.
            split; (intros [Eq|[H _]]; [left; congruence|discriminate]).
        + rewrite <- (leaf_of_cons w). split.
          * intros H. right. split; [exact H|apply incomparable_diff; exact E].
          * intros [Eq|[H _]]; [inversion Eq; subst; rewrite str_eqb_refl in E; discriminate|exact H]. }
    cbn [insert_allow]. fold rest.
    destruct (lookup k w) as [[|sub]|] eqn:Ew.
    + apply Hgen. right. left. split; [reflexivity|]. split; [discriminate|]. intros s. discriminate.
    + apply Hgen. left. reflexivity.
    + apply Hgen. right. right. auto.
Qed.

Lemma effective_step_in acc q l :
  In l (effective_step acc q) <-> (l = q \/ (In l acc /\ incomparable q l = true)).
Proof.
  unfold effective_step. rewrite in_app_iff, filter_In. cbn [In]. split.
  - intros [H|[H|[]]]; [right; exact H|left; symmetry; exact H].
  - intros [H|H]; [right; left; symmetry; exact H|left; exact H].
Qed.

Lemma build_allow_leaves_any_gen : forall L w E,
  (forall q, In q L -> q <> []) ->
  (forall l, leaf_of w l = true <-> In l E) ->
  forall l, leaf_of (fold_left (fun t p => insert_allow p t) L w) l = true <->
            In l (fold_left effective_step L E).
Proof.
  induction L as [|q L IH]; intros w E Hne HE l; cbn [fold_left]; [apply HE|].
  apply IH; [intros q0 Hq0; apply Hne; right; exact Hq0|].
  intros l0. rewrite insert_allow_leaves_any by (apply Hne; left; reflexivity).
  rewrite effective_step_in, HE. reflexivity.
Qed.

(* the leaves of the dictionary built from ANY list are the paths of its effective list *)
Theorem build_allow_leaves_any : forall L, nonempty_paths L ->
  forall l, leaf_of (build_allow L) l = true <-> In l (effective L).
Proof.
  intros L Hne l. unfold build_allow, effective. apply build_allow_leaves_any_gen; [exact Hne|].
  intros l0. rewrite leaf_of_nil_tree. split; [discriminate|intros []].
Qed.

Lemma effective_subset_gen : forall L E l, In l (fold_left effective_step L E) -> In l E \/ In l L.
Proof.
  induction L as [|q L IH]; intros E l H; cbn [fold_left] in H; [left; exact H|].
  destruct (IH _ _ H) as [H1|H1]; [|right; right; exact H1].
  apply effective_step_in in H1 as [->|[H1 _]]; [right; left; reflexivity|left; exact H1].
Qed.

Lemma effective_subset L l : In l (effective L) -> In l L.
Proof. intros H. destruct (effective_subset_gen L [] l H) as [[]|H1]. exact H1. Qed.

Lemma prefix_antisym a : forall b, prefix a b = true -> prefix b a = true -> a = b.
Proof.
  induction a as [|x a IH]; intros b H1 H2; [apply prefix_nil_r in H2; congruence|].
  destruct b as [|y b]; [discriminate|]. apply prefix_cons in H1 as [-> H1].
  apply prefix_cons in H2 as [_ H2]. f_equal. apply IH; assumption.
Qed.

Lemma effective_prefix_free_gen : forall L E, prefix_free E -> prefix_free (fold_left effective_step L E).
Proof.
  induction L as [|q L IH]; intros E HE; cbn [fold_left]; [exact HE|].
  apply IH. intros l1 l2 H1 H2 Hp.
  apply effective_step_in in H1. apply effective_step_in in H2.
  destruct H1 as [->|[H1 I1]]; destruct H2 as [->|[H2 I2]].
  - reflexivity.
  - unfold incomparable in I2. rewrite Hp in I2. discriminate.
  - unfold incomparable in I1. rewrite Hp, andb_false_r in I1. discriminate.
  - apply HE; assumption.
Qed.

Theorem effective_prefix_free L : prefix_free (effective L).
Proof. apply effective_prefix_free_gen. intros l1 l2 []. Qed.

(* EVERY allow list: the filter is exactly the projection onto the effective list *)
Theorem allow_exact_any : forall L d,
  nonempty_paths L -> wfj (JObj d) = true ->
  forall p, p <> [] ->
  allow_exact_at (effective L) (JObj d) (JObj (allow_filter (build_allow L) d)) p.
Proof.
  intros L d Hne Hwf p Hp. apply allow_exact_tree; [|exact Hwf|exact Hp].
  apply build_allow_leaves_any. exact Hne.
Qed.

(* a prefix-free list is its own effective list (as a set) *)
Theorem effective_of_prefix_free L : nonempty_paths L -> prefix_free L ->
  forall l, In l (effective L) <-> In l L.
Proof.
  intros Hne Hpf l. rewrite <- (build_allow_leaves_any L Hne l). apply build_allow_leaves; assumption.
Qed.

(* the model's output passes the allow oracle for EVERY list *)
Theorem allow_ok_model_any : forall L d,
  nonempty_paths L -> wfj (JObj d) = true ->
  allow_ok (effective L) d (allow_filter (build_allow L) d) = true.
Proof.
  intros L d Hne Hwf. unfold allow_ok. apply forallb_forall. intros p Hp.
  apply allow_at_b_iff. apply allow_exact_obs; [exact Hwf|].
  apply allow_exact_any; try assumption. eapply probe_nonempty. exact Hp.
Qed.

(* the order of a list that is not prefix-free matters *)
Lemma allow_not_prefix_free_order_matters :
  exists L L' d, (forall l, In l L <-> In l L') /\
    allow_filter (build_allow L) d <> allow_filter (build_allow L') d.
Proof.
  exists [["a"]; ["a"; "b"]], [["a"; "b"]; ["a"]], [("a", JObj [("b", JNum "1"); ("c", JNum "2")])].
  split.
  - intros l. cbn. tauto.
  - vm_compute. discriminate.
Qed.

(* the filter stage as configured, for EVERY allow list *)
Theorem allow_exact_cfg_any : forall c t,
  allow c <> [] -> wfj (JObj t) = true ->
  exists f, filter_stage c t = Ok f /\
    forall p, p <> [] ->
    allow_exact_at (effective (map split_dot (allow c))) (JObj t) (JObj f) p.
Proof.
  intros c t Ha Hwf. destruct t as [|e t'].
  - exists []. split; [reflexivity|]. intros p Hp. unfold allow_exact_at.
    destruct p as [|k r]; [congruence|]. unfold present. cbn [get_path lookup]. split.
    + reflexivity.
    + intros _. split; [split; [discriminate|]|discriminate].
      intros [l [_ [Hs Hpr]]]. unfold strict_prefix in Hs. apply andb_true_iff in Hs as [Hs _].
      destruct l as [|k' l']; [discriminate|]. cbn [get_path lookup] in Hpr. discriminate.
  - eexists. split; [apply filter_stage_allow; [exact Ha|discriminate]|].
    apply allow_exact_any; [apply split_paths_nonempty|exact Hwf].
Qed.

(* which formatter: the flatmap formatter takes over exactly when the namespace value is an
   object whose flatmap_filter is a list with some object carrying a string "type" *)
Theorem uses_flatmap_iff ns : uses_flatmap ns = true <->
  exists e vs m t, ns = Some (JObj e) /\ lookup "flatmap_filter" e = Some (JArr vs) /\
                   In (JObj m) vs /\ lookup "type" m = Some (JStr t).
Proof.
  unfold uses_flatmap. split.
  - destruct ns as [[| | | | |e|]|]; try discriminate.
    destruct (lookup "flatmap_filter" e) as [[| | | |vs| |]|] eqn:E; try discriminate.
    intros H. apply existsb_exists in H as [v [Hin Hv]]. unfold usable_op in Hv.
    destruct v as [| | | | |m|]; try discriminate.
    destruct (lookup "type" m) as [[| | |t| | |]|] eqn:Et; try discriminate.
    exists e, vs, m, t. auto.
  - intros [e [vs [m [t [-> [-> [Hin Ht]]]]]]]. apply existsb_exists. exists (JObj m).
    split; [exact Hin|]. unfold usable_op. rewrite Ht. reflexivity.
Qed.
