(* C20 - proofs, part 1: back-off arithmetic (no overflow for attempts 0..30, never negative,
   monotone, jitter bounds) and the link oracle <-> model for the back-off cases. *)
Require Import Verif.Common.Base Verif.Common.LockEv Verif.Model.C20 Verif.Spec.C20.
Open Scope Z_scope.

Ltac Zify.zify_post_hook ::= Z.div_mod_to_equations.

Lemma wrap64_id z : - 2 ^ 63 <= z < 2 ^ 63 -> wrap64 z = z.
Proof.
  change (2 ^ 63) with 9223372036854775808. intros H. unfold wrap64, two63, two64.
  rewrite Z.mod_small; lia.
Qed.

Lemma pow2_bounds i : 0 <= i <= 30 -> 1 <= 2 ^ i <= 2 ^ 30.
Proof.
  intros H. split.
  - assert (0 < 2 ^ i) by (apply Z.pow_pos_nonneg; lia). lia.
  - apply Z.pow_le_mono_r; lia.
Qed.

Lemma pow2_mono i j : 0 <= i <= j -> 2 ^ i <= 2 ^ j.
Proof. intros H. apply Z.pow_le_mono_r; lia. Qed.

Lemma shl1_small i : 0 <= i <= 30 -> shl1 i = 2 ^ i.
Proof.
  intros H. unfold shl1.
  replace ((0 <=? i) && (i <? 64)) with true by (symmetry; apply andb_true_iff; split; [apply Z.leb_le|apply Z.ltb_lt]; lia).
  pose proof (pow2_bounds i H). change (2 ^ 30) with 1073741824 in *.
  rewrite Z.shiftl_1_l.
  apply wrap64_id. change (2 ^ 63) with 9223372036854775808. lia.
Qed.

(* ---- no int64 overflow for the attempts 0..30: the wrapped values are the mathematical ones ---- *)
Lemma linear_exact i : 0 <= i <= 30 -> linear_backoff i = i * second.
Proof.
  intros H. unfold linear_backoff, second. apply wrap64_id.
  change (2 ^ 63) with 9223372036854775808. lia.
Qed.

Lemma exponential_exact i : 0 <= i <= 30 -> exponential_backoff i = 2 ^ i * second.
Proof.
  intros H. unfold exponential_backoff. rewrite shl1_small by exact H.
  pose proof (pow2_bounds i H). change (2 ^ 30) with 1073741824 in *. unfold second.
  apply wrap64_id. change (2 ^ 63) with 9223372036854775808. lia.
Qed.

(* jitter on an argument 0 <= n <= 2^30 (linear: n = i <= 30; exponential: n = 2^i) *)
Lemma jitter_exact n r :
  0 <= n <= 2 ^ 30 -> 0 <= r < 2 * (n * 1000 / 3 + 1) ->
  max_jitter n = n * 1000 / 3 + 1 /\
  jitter n r = (if n * 1000 + (r - (n * 1000 / 3 + 1)) <=? 0 then 1 else n * 1000 + (r - (n * 1000 / 3 + 1))) * millisecond.
Proof.
  change (2 ^ 30) with 1073741824. intros Hn Hr.
  assert (Hm : max_jitter n = n * 1000 / 3 + 1).
  { unfold max_jitter. rewrite wrap64_id by (change (2 ^ 63) with 9223372036854775808; lia).
    rewrite Z.quot_div_nonneg by lia. reflexivity. }
  split; [exact Hm|].
  unfold jitter, jitter_ms. rewrite Hm.
  rewrite (wrap64_id (n * 1000)) by (change (2 ^ 63) with 9223372036854775808; lia).
  rewrite (wrap64_id (r - _)) by (change (2 ^ 63) with 9223372036854775808; lia).
  rewrite (wrap64_id (n * 1000 + _)) by (change (2 ^ 63) with 9223372036854775808; lia).
  unfold millisecond. apply wrap64_id. change (2 ^ 63) with 9223372036854775808.
  destruct (n * 1000 + (r - (n * 1000 / 3 + 1)) <=? 0) eqn:E; [lia|]. apply Z.leb_gt in E. lia.
Qed.

Lemma jitter_bounds n r :
  0 <= n <= 2 ^ 30 -> 0 <= r < 2 * (n * 1000 / 3 + 1) ->
  JitSpec (n * second) (jitter n r).
Proof.
  intros Hn Hr. destruct (jitter_exact n r Hn Hr) as [_ ->].
  change (2 ^ 30) with 1073741824 in Hn. unfold JitSpec, second, millisecond.
  destruct (n * 1000 + (r - (n * 1000 / 3 + 1)) <=? 0) eqn:E.
  - apply Z.leb_le in E. split; [lia|]. apply Z.abs_le. lia.
  - apply Z.leb_gt in E. split; [lia|]. apply Z.abs_le. lia.
Qed.

Lemma jarg_bounds s i : 0 <= i <= 30 -> 0 <= jarg s i <= 2 ^ 30 /\ nominal s i = jarg s i * second.
Proof.
  intros H. destruct s; simpl.
  - split; [change (2 ^ 30) with 1073741824; lia|apply linear_exact; exact H].
  - rewrite shl1_small by exact H. pose proof (pow2_bounds i H).
    split; [lia|apply exponential_exact; exact H].
Qed.

Lemma intn_arg_exact s i : 0 <= i <= 30 ->
  intn_arg s i = 2 * (jarg s i * 1000 / 3 + 1) /\ 0 < intn_arg s i.
Proof.
  intros H. destruct (jarg_bounds s i H) as [Hn _]. change (2 ^ 30) with 1073741824 in Hn.
  unfold intn_arg.
  assert (Hm : max_jitter (jarg s i) = jarg s i * 1000 / 3 + 1).
  { unfold max_jitter. rewrite wrap64_id by (change (2 ^ 63) with 9223372036854775808; lia).
    rewrite Z.quot_div_nonneg by lia. reflexivity. }
  rewrite Hm. rewrite wrap64_id by (change (2 ^ 63) with 9223372036854775808; lia). lia.
Qed.

(* ---- the theorems ---- *)
Lemma backoff_nonneg s i : 0 <= i <= 30 -> 0 <= backoff s i.
Proof.
  intros H. destruct s; simpl.
  - unfold default_backoff, second. lia.
  - rewrite linear_exact by exact H. unfold second. lia.
  - rewrite exponential_exact by exact H. pose proof (pow2_bounds i H). unfold second. lia.
Qed.

Lemma backoff_monotone s i j : 0 <= i -> i <= j -> j <= 30 -> backoff s i <= backoff s j.
Proof.
  intros H0 H1 H2. destruct s; simpl.
  - unfold default_backoff. lia.
  - rewrite !linear_exact by lia. unfold second. lia.
  - rewrite !exponential_exact by lia. pose proof (pow2_mono i j (conj H0 H1)). unfold second. lia.
Qed.

Lemma backoff_no_overflow s i : 0 <= i <= 30 ->
  backoff s i = match s with SDefault => second | SLinear => i * second | SExponential => 2 ^ i * second end.
Proof.
  intros H. destruct s; simpl; [reflexivity|apply linear_exact; exact H|apply exponential_exact; exact H].
Qed.

Lemma jitter_thm s i r : 0 <= i <= 30 -> 0 <= r < intn_arg s i ->
  0 < jbackoff s i r /\ Z.abs (jbackoff s i r - nominal s i) <= nominal s i / 3 + millisecond.
Proof.
  intros H Hr. destruct (jarg_bounds s i H) as [Hn Hnom]. destruct (intn_arg_exact s i H) as [Ha _].
  rewrite Ha in Hr. rewrite Hnom. unfold jbackoff. exact (jitter_bounds _ _ Hn Hr).
Qed.

(* the jittered delay for the attempts 0..30 is the exact (unwrapped) value *)
Lemma jitter_no_overflow s i r : 0 <= i <= 30 -> 0 <= r < intn_arg s i ->
  let ms := jarg s i * 1000 in
  jbackoff s i r = (if ms + (r - (ms / 3 + 1)) <=? 0 then 1 else ms + (r - (ms / 3 + 1))) * millisecond.
Proof.
  intros H Hr. destruct (jarg_bounds s i H) as [Hn _]. destruct (intn_arg_exact s i H) as [Ha _].
  rewrite Ha in Hr. cbv zeta. unfold jbackoff. exact (proj2 (jitter_exact _ _ Hn Hr)).
Qed.

(* ---- reflection of the boolean oracles ---- *)
Lemma jit_spec_b_iff nom d : jit_spec_b nom d = true <-> JitSpec nom d.
Proof.
  unfold jit_spec_b, JitSpec. rewrite andb_true_iff, Z.ltb_lt, Z.leb_le. tauto.
Qed.

Lemma sorted_z_spec l : sorted_z l = true ->
  forall a b x y, nth_error l a = Some x -> nth_error l b = Some y -> (a <= b)%nat -> x <= y.
Proof.
  induction l as [|h r IH]; intros Hs a b x y Ha Hb Hab.
  - destruct a; discriminate.
  - assert (Hr : sorted_z r = true).
    { simpl in Hs. destruct r; [reflexivity|]. apply andb_true_iff in Hs. tauto. }
    assert (Hh : forall n z, nth_error r n = Some z -> h <= z).
    { clear a b x y Ha Hb Hab. intros n. revert h r Hs Hr IH. induction n as [|n IHn]; intros h r Hs Hr IH z Hz.
      - destruct r as [|b r']; [discriminate|]. simpl in Hz. inversion Hz; subst.
        simpl in Hs. apply andb_true_iff in Hs. apply Z.leb_le. tauto.
      - destruct r as [|b r']; [discriminate|]. simpl in Hz.
        assert (h <= b) by (simpl in Hs; apply andb_true_iff in Hs; apply Z.leb_le; tauto).
        assert (b <= z).
        { apply (IH Hr 0%nat (S n) b z); [reflexivity|exact Hz|lia]. }
        lia. }
    destruct a as [|a]; destruct b as [|b]; simpl in *.
    + inversion Ha; inversion Hb; subst. lia.
    + inversion Ha; subst. eapply Hh; eauto.
    + lia.
    + eapply IH; eauto. lia.
Qed.

(* soundness of the oracle of the non-jittered cases: the delays observed for the attempts
   0..30 are never negative and never shrink *)
Lemma back_spec_b_sound from obs : back_spec_b from obs = true ->
  (forall d, In d (in_dom_obs from obs) -> 0 <= d) /\
  (forall a b x y, nth_error (in_dom_obs from obs) a = Some x -> nth_error (in_dom_obs from obs) b = Some y ->
                   (a <= b)%nat -> x <= y).
Proof.
  unfold back_spec_b. intros H. apply andb_true_iff in H. destruct H as [H1 H2]. split.
  - intros d Hd. rewrite forallb_forall in H1. apply Z.leb_le. apply H1. exact Hd.
  - apply sorted_z_spec. exact H2.
Qed.

(* ---- the model meets the oracle: what the model computes for the attempts 0..30 passes
   the jitter oracle, for every value the random source can return ---- *)
Lemma model_meets_jit_oracle s i r : 0 <= i <= 30 -> 0 <= r < intn_arg s i ->
  jit_spec_b (nominal s i) (jbackoff s i r) = true.
Proof. intros H Hr. apply jit_spec_b_iff. exact (jitter_thm s i r H Hr). Qed.

Lemma zseq_length from n : List.length (zseq from n) = n.
Proof. revert from. induction n; intros; simpl; auto. Qed.

Lemma sorted_z_cons a l : sorted_z l = true -> (forall x, In x l -> a <= x) -> sorted_z (a :: l) = true.
Proof.
  intros Hs Ha. destruct l as [|b r]; [reflexivity|].
  change (((a <=? b) && sorted_z (b :: r)) = true). rewrite Hs, andb_true_r. apply Z.leb_le. apply Ha. left; reflexivity.
Qed.

(* the model's delays for any run of consecutive attempts pass the oracle of the non-jittered cases *)
Lemma model_meets_back_oracle s from n : back_spec_b from (map (backoff s) (zseq from n)) = true.
Proof.
  unfold back_spec_b, in_dom_obs. rewrite map_length, zseq_length.
  assert (G : forall n from,
    let l := map snd (filter (fun p => in_domain (fst p)) (combine (zseq from n) (map (backoff s) (zseq from n)))) in
    (forall d, In d l -> exists i, from <= i /\ 0 <= i <= 30 /\ d = backoff s i) /\
    forallb (fun d => 0 <=? d) l = true /\ sorted_z l = true).
  { clear n from. induction n as [|n IH]; intros from; cbv zeta.
    - simpl. split; [intros d []|split; reflexivity].
    - simpl zseq. simpl map. simpl combine. simpl filter.
      destruct (IH (from + 1)) as [I1 [I2 I3]]. cbv zeta in *.
      destruct (in_domain from) eqn:E.
      + simpl map. unfold in_domain in E. apply andb_true_iff in E. destruct E as [E1 E2].
        apply Z.leb_le in E1. apply Z.leb_le in E2. split; [|split].
        * intros d [Hd|Hd]; [exists from; subst; simpl; lia|].
          destruct (I1 d Hd) as [i [Hi1 [Hi2 Hi3]]]. exists i. lia.
        * simpl. rewrite I2, andb_true_r. apply Z.leb_le. apply backoff_nonneg. lia.
        * apply sorted_z_cons; [exact I3|]. intros x Hx. destruct (I1 x Hx) as [i [Hi1 [Hi2 ->]]].
          simpl. apply backoff_monotone; lia.
      + split; [|split; assumption]. intros d Hd. destruct (I1 d Hd) as [i [Hi1 [Hi2 Hi3]]]. exists i. lia. }
  destruct (G n from) as [_ [G2 G3]]. cbv zeta in *. rewrite G2, G3. reflexivity.
Qed.
