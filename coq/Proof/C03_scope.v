(* C03 - a body shared by shallow clones (all backends GET/HEAD) is harmless as long as at
   most one pipeline touches it: GraphQL QUERY backends without concurrent calls replace the
   Body field of their own struct and never read or close the reader they were handed.  This
   widens C03_all_configs from "no sharing" (in_scope_basic) to in_scope. *)
Require Import Verif.Common.Base Verif.Common.Heap Verif.Model.C03 Verif.Spec.C03.
Require Import Verif.Proof.C03 Verif.Proof.C03_rf Verif.Proof.C03_iso.

(* does an operation list touch the body it starts with (before it points Body elsewhere)? *)
Definition is_body (f : field) : bool := match f with FBody => true | _ => false end.
Fixpoint tb (ops : list op) : bool :=
  match ops with
  | [] => false
  | ORd f :: r => is_body f || tb r
  | OWr f _ :: r => is_body f || tb r
  | ONew f _ _ :: r => if is_body f then false else tb r
  end.
Fixpoint nb (ops : list op) : bool :=
  match ops with
  | [] => false
  | ONew f _ _ :: r => is_body f || nb r
  | _ :: r => nb r
  end.
Lemma tb_app a b : tb (a ++ b) = tb a || (negb (nb a) && tb b).
Proof.
  induction a as [|[f|f v|f st v] r IH]; cbn [app tb nb]; auto.
  - rewrite IH, orb_assoc. reflexivity.
  - rewrite IH, orb_assoc. reflexivity.
  - destruct (is_body f); cbn; auto.
Qed.
Lemma nb_app a b : nb (a ++ b) = nb a || nb b.
Proof. induction a as [|[f|f v|f st v] r IH]; cbn [app nb]; auto. rewrite IH, orb_assoc. reflexivity. Qed.

Lemma is_body_true f : is_body f = true -> f = FBody.
Proof. destruct f; try discriminate; reflexivity. Qed.

Lemma interp_notouch own B ops :
  o_fld B = FBody -> o_own B <> own ->
  forall s, typed s -> (pv s FBody = B -> tb ops = false) ->
  forall x, In x (fst (interp own ops s)) -> aobj x <> B.
Proof.
  intros HfB HoB. induction ops as [|[f|f v|f st v] r IH]; intros s Hty Htb x Hx; cbn [interp fst] in Hx.
  - destruct Hx.
  - destruct Hx as [<-|Hx].
    + cbn. intros E. assert (f = FBody) by (rewrite <- (Hty f), E; exact HfB). subst f.
      specialize (Htb E). cbn in Htb. discriminate.
    + apply (IH s Hty); [|exact Hx]. intros E. specialize (Htb E). cbn [tb] in Htb.
      apply orb_false_elim in Htb as [_ H]. exact H.
  - destruct Hx as [<-|Hx].
    + cbn. intros E. assert (f = FBody) by (rewrite <- (Hty f), E; exact HfB). subst f.
      specialize (Htb E). cbn in Htb. discriminate.
    + apply (IH {| pv := pv s; px := vset (px s) f v |} Hty); [|exact Hx]. cbn [pv]. intros E. specialize (Htb E).
      cbn [tb] in Htb. apply orb_false_elim in Htb as [_ H]. exact H.
  - destruct Hx as [<-|Hx].
    + cbn. intros E. apply HoB. rewrite <- E. reflexivity.
    + apply (IH {| pv := vset (pv s) f (Ob own st f); px := vset (px s) f v |}); [| |exact Hx].
      * intros f'. cbn [pv]. unfold vset. destruct (field_eqb f' f) eqn:Ef; [apply field_eqb_spec in Ef; subst; reflexivity|apply Hty].
      * cbn [pv]. unfold vset. destruct (field_eqb FBody f) eqn:Ef.
        -- intros E. exfalso. apply HoB. rewrite <- E. reflexivity.
        -- intros E. specialize (Htb E). cbn [tb] in Htb. destruct (is_body f) eqn:Eb; [|exact Htb].
           apply is_body_true in Eb. subst f. discriminate.
Qed.

(* the stages of a GraphQL query backend *)
Lemma tb_filter_q l x : tb (filter_ops SQF FQry l x) = false /\ nb (filter_ops SQF FQry l x) = false.
Proof.
  unfold filter_ops. destruct l; [auto|].
  match goal with |- context [all_allowed ?a ?m] => destruct (all_allowed a m) end; auto.
Qed.
Lemma tb_filter_h l x : tb (filter_ops SHF FHdr l x) = false /\ nb (filter_ops SHF FHdr l x) = false.
Proof.
  unfold filter_ops. destruct l; [auto|].
  match goal with |- context [all_allowed ?a ?m] => destruct (all_allowed a m) end; auto.
Qed.
Lemma tb_gql_query g x : g_kind g = GQuery -> tb (gql_ops g x) = false /\ nb (gql_ops g x) = gql_ok g.
Proof.
  intros Hk. unfold gql_ops, gql_ok. rewrite Hk. destruct (g_out g) as [[body gq]|]; [destruct (g_get g)|]; auto.
Qed.

Lemma tb_inner_query b g x :
  b_gql b = Some g -> g_kind g = GQuery -> tb (inner_ops b x) = false.
Proof.
  intros Hg Hk. unfold inner_ops. rewrite Hg.
  destruct (tb_filter_q (b_qs b) x) as [T1 N1].
  set (o1 := filter_ops SQF FQry (b_qs b) x) in *.
  destruct (tb_filter_h (b_hdrs b) (opvals o1 x)) as [T2 N2].
  set (o2 := filter_ops SHF FHdr (b_hdrs b) (opvals o1 x)) in *.
  destruct (tb_gql_query g (opvals o2 (opvals o1 x)) Hk) as [T3 N3].
  set (o3 := gql_ops g (opvals o2 (opvals o1 x))) in *.
  destruct (gql_ok g); rewrite !tb_app, T1, T2, T3, N1, N2, ?N3; reflexivity.
Qed.

Lemma touches_false b :
  touches_body b = false -> (b_cc b <= 1) /\ exists g, b_gql b = Some g /\ g_kind g = GQuery.
Proof.
  unfold touches_body. intros H. apply orb_false_elim in H as [H1 H2]. split.
  - apply Nat.leb_gt in H1. lia.
  - destruct (b_gql b) as [g|]; [|discriminate]. exists g. split; [reflexivity|]. destruct (g_kind g); [reflexivity|discriminate].
Qed.

(* such a branch never touches the body reader it is handed *)
Lemma branch_notouch k so b s B :
  touches_body b = false -> typed s -> o_fld B = FBody -> (forall a, o_own B <> WAt k a) ->
  forall x, In x (accs (branch_prog false k so b s)) -> aobj x <> B.
Proof.
  intros Ht Hty HfB HoB x Hx. destruct (touches_false b Ht) as [Hcc [g [Hg Hk]]].
  unfold branch_prog in Hx. rewrite (rb_bridge (WAt k 0)) in Hx.
  destruct (interp (WAt k 0) (rb_ops b (px s)) s) as [a s1] eqn:E.
  assert (Hl : (a ++ inner_accs (WAt k 0) b s1)%list =
               fst (interp (WAt k 0) (rb_ops b (px s) ++ inner_ops b (px s1)) s)).
  { rewrite interp_app, E. cbn [fst snd]. rewrite <- inner_bridge. reflexivity. }
  destruct (b_cc b) as [|[|n]]; [| |lia].
  - rewrite accs_map_Acc, Hl in Hx.
    apply (interp_notouch (WAt k 0) B (rb_ops b (px s) ++ inner_ops b (px s1)) HfB (HoB 0) s Hty); [|exact Hx].
    intros _. rewrite tb_app, (tb_inner_query b g _ Hg Hk). reflexivity.
  - rewrite accs_map_Acc, Hl in Hx.
    apply (interp_notouch (WAt k 0) B (rb_ops b (px s) ++ inner_ops b (px s1)) HfB (HoB 0) s Hty); [|exact Hx].
    intros _. rewrite tb_app, (tb_inner_query b g _ Hg Hk). reflexivity.
Qed.

Lemma no_toucher_at_most_one r : existsb touches_body r = false -> at_most_one_toucher r = true.
Proof.
  induction r as [|b r IH]; [reflexivity|]. cbn. intros H. apply orb_false_elim in H as [H1 H2].
  rewrite H1. auto.
Qed.

(* parallelMerge handing out shallow clones of a request WITH a body *)
Lemma merge_shallow_body bs : forall k s,
  typed s -> endp s -> at_most_one_toucher bs = true ->
  race_free obj_eqb (merge_loop false false bs k s) = true /\
  (forall x, In x (accs (merge_loop false false bs k s)) -> mfoot k x) /\
  (forall x, In x (accs (merge_loop false false bs k s)) -> aobj x = pv s FBody -> existsb touches_body bs = true).
Proof.
  induction bs as [|b r IH]; intros k s Hty Hend Hone.
  { split; [reflexivity|]. split; intros x []. }
  assert (Hwat : forall f a', o_own (pv s f) <> WAt k a') by (intros f a'; rewrite Hend; discriminate).
  assert (Hso : forall a', WBr k <> WAt k a') by (intros; discriminate).
  set (B := pv s FBody).
  assert (HfB : o_fld B = FBody) by apply Hty.
  assert (HoB : o_own B = WEnd) by apply Hend.
  assert (Hone_r : at_most_one_toucher r = true).
  { cbn in Hone. destruct (touches_body b); [|exact Hone]. apply no_toucher_at_most_one. apply negb_true_iff. exact Hone. }
  assert (Hexcl : touches_body b = true -> existsb touches_body r = false).
  { intros T. cbn in Hone. rewrite T in Hone. apply negb_true_iff. exact Hone. }
  destruct (IH (S k) s Hty Hend Hone_r) as (IH1 & IH2 & IH3).
  cbn [merge_loop]. unfold shallow_clone, alloc, rd. cbn [fst snd].
  set (c := {| pv := vset (pv s) FStruct (Ob (WBr k) SMerge FStruct); px := vset (px s) FStruct (px s FStruct) |}).
  assert (Htc : typed c) by (intros f; destruct f; cbn; auto; apply Hty).
  assert (Hnac : forall f a', o_own (pv c f) <> WAt k a').
  { intros f a'. destruct f; cbn; try discriminate; apply Hwat. }
  destruct (branch_ok false k (WBr k) b c Htc Hnac Hso) as [B1 B2].
  assert (Hnt : touches_body b = false -> forall x, In x (accs (branch_prog false k (WBr k) b c)) -> aobj x <> B).
  { intros T. apply (branch_notouch k (WBr k) b c B T Htc HfB). intros a. rewrite HoB. discriminate. }
  assert (Hchild : forall x, In x (accs (branch_prog false k (WBr k) b c)) ->
            own_br k (aobj x) = true \/ (is_wr x = false /\ wend_map (aobj x) = true) \/ aobj x = B).
  { intros x Hx. destruct (B2 x Hx) as [[a' H]|[[H _]|[f (H1 & H2 & H3)]]].
    - left. unfold own_br. rewrite H. apply Nat.eqb_refl.
    - left. unfold own_br. rewrite H. apply Nat.eqb_refl.
    - destruct f.
      + left. rewrite H1. cbn. unfold own_br. cbn. apply Nat.eqb_refl.
      + right; left. split; [destruct (is_wr x); [destruct (H2 eq_refl); discriminate|reflexivity]|].
        rewrite H1. cbn. unfold wend_map. rewrite Hend, Hty. reflexivity.
      + right; left. split; [destruct (is_wr x); [destruct (H2 eq_refl); discriminate|reflexivity]|].
        rewrite H1. cbn. unfold wend_map. rewrite Hend, Hty. reflexivity.
      + right; left. split; [destruct (is_wr x); [destruct (H2 eq_refl); discriminate|reflexivity]|].
        rewrite H1. cbn. unfold wend_map. rewrite Hend, Hty. reflexivity.
      + right; right. rewrite H1. reflexivity.
      + right; left. split; [destruct (is_wr x); [destruct (H2 eq_refl); discriminate|reflexivity]|].
        rewrite H1. cbn. unfold wend_map. rewrite Hend, Hty. reflexivity. }
  assert (HBB : obj_eqb B B = true) by (apply obj_eqb_spec; reflexivity).
  assert (HwB : wend_map B = false) by (unfold wend_map; rewrite HfB; apply andb_false_r).
  assert (HbB : own_br k B = false) by (unfold own_br; rewrite HoB; reflexivity).
  split; [|split].
  - change (map Acc ([Rd (pv s FStruct)] ++ [Wr (Ob (WBr k) SMerge FStruct) (px s FStruct)]) ++
            Fork (branch_prog false k (WBr k) b c) :: merge_loop false false r (S k) s)
      with (map Acc [Rd (pv s FStruct); Wr (Ob (WBr k) SMerge FStruct) (px s FStruct)] ++
            Fork (branch_prog false k (WBr k) b c) :: merge_loop false false r (S k) s).
    rewrite race_free_app_acc, race_free_cons_fork, B1, IH1. cbn [andb].
    apply (no_conflict_classes obj val obj_eqb obj_eqb_spec
             (fun o => own_br k o || (touches_body b && obj_eqb o B))
             (fun o => negb (own_br k o) && negb (wend_map o) && negb (touches_body b && obj_eqb o B))).
    + intros x Hx. destruct (Hchild x Hx) as [H|[[H1 H2]|H]].
      * left. rewrite H. reflexivity.
      * right. split; [exact H1|]. rewrite H2. cbn. rewrite andb_false_r. reflexivity.
      * left. rewrite H, HBB. destruct (touches_body b) eqn:T; [apply orb_true_r|].
        exfalso. apply (Hnt eq_refl x Hx). exact H.
    + intros x Hx.
      assert (T3 : negb (touches_body b && obj_eqb (aobj x) B) = true).
      { destruct (obj_eqb (aobj x) B) eqn:Eb; [|rewrite andb_false_r; reflexivity].
        apply obj_eqb_spec in Eb. pose proof (IH3 x Hx Eb) as Hr.
        destruct (touches_body b) eqn:T; [|reflexivity]. rewrite (Hexcl eq_refl) in Hr. discriminate. }
      destruct (rest_class k x (IH2 x Hx)) as [H|[H1 H2]].
      * left. rewrite H, T3. reflexivity.
      * right. split; [exact H1|]. rewrite H2. apply negb_true_iff in T3. rewrite T3. reflexivity.
    + intros o H1 H2. apply andb_true_iff in H2 as [H2 H3]. apply andb_true_iff in H2 as [H2 _].
      apply negb_true_iff in H2, H3. rewrite H2, H3 in H1. discriminate.
  - intros x Hx. rewrite accs_app, accs_map_Acc, accs_cons_fork in Hx.
    apply in_app_or in Hx as [Hx|Hx]; [|apply in_app_or in Hx as [Hx|Hx]].
    + cbn in Hx. destruct Hx as [<-|[<-|[]]].
      * right. cbn. split; [apply Hend|discriminate].
      * left. exists k. split; [lia|]. cbn. unfold own_br. cbn. apply Nat.eqb_refl.
    + destruct (Hchild x Hx) as [H|[[H1 H2]|H]].
      * left. exists k. auto.
      * apply bclass_mfoot. right. auto.
      * right. rewrite H. split; [exact HoB|]. intros _. right. exact HfB.
    + destruct (IH2 x Hx) as [[k' [Hle H]]|H]; [left; exists k'; split; [lia|exact H]|right; exact H].
  - intros x Hx Ex. rewrite accs_app, accs_map_Acc, accs_cons_fork in Hx. cbn [existsb].
    apply in_app_or in Hx as [Hx|Hx]; [|apply in_app_or in Hx as [Hx|Hx]].
    + exfalso. cbn in Hx. destruct Hx as [<-|[<-|[]]]; cbn in Ex.
      * assert (FStruct = FBody) by (rewrite <- (Hty FStruct), Ex; exact HfB). discriminate.
      * assert (WBr k = WEnd) by (rewrite <- HoB, <- Ex; reflexivity). discriminate.
    + destruct (touches_body b) eqn:T; [reflexivity|]. exfalso. apply (Hnt eq_refl x Hx). exact Ex.
    + rewrite (IH3 x Hx Ex). apply orb_true_r.
Qed.

(* C03_all_configs for the whole scope of the statement *)
Theorem all_configs cfg q : in_scope cfg q = true -> race_free_b cfg q = true.
Proof.
  intros Hsc. destruct cfg as [|b [|b' r]].
  - reflexivity.
  - apply all_configs_basic. reflexivity.
  - unfold in_scope in Hsc. destruct (q_body q) as [body|] eqn:Eb.
    + destruct (has_unsafe (b :: b' :: r)) eqn:U.
      * apply all_configs_basic. unfold in_scope_basic. rewrite Eb. exact U.
      * unfold race_free_b, endpoint_prog, endpoint_prog_gen. rewrite U.
        apply (merge_shallow_body (b :: b' :: r) 0 (init_pst q)); [apply init_typed|intros f; reflexivity|exact Hsc].
    + apply all_configs_basic. unfold in_scope_basic. rewrite Eb. reflexivity.
Qed.

Theorem all_configs_every_interleaving cfg q sched s t k b alone :
  in_scope cfg q = true ->
  run obj_eqb (init (endpoint_prog cfg q) (init_heap q)) sched = Some s ->
  In t (pool s) -> rem t = [] ->
  nth_error cfg k = Some b -> In (tid t) (leaf_tids (List.length cfg) k b) ->
  In alone (sent_seq (solo cfg k) q 0) ->
  sent_of_log (log t) = alone.
Proof. intros H. apply isolated_every_interleaving. apply all_configs. exact H. Qed.
