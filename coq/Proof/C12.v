Require Import Verif.Common.Base Verif.Common.Json Verif.Common.JsonFacts.
Require Import Verif.Model.C12 Verif.Spec.C12.

Lemma ok_status_iff c : ok_status c = true <-> c = 200%Z \/ c = 201%Z.
Proof. unfold ok_status. rewrite orb_true_iff, !Z.eqb_eq. tauto. Qed.

Lemma classify_use_iff m r : classify m r = Use <-> r_code r = 200%Z \/ r_code r = 201%Z.
Proof.
  unfold classify. rewrite <- ok_status_iff.
  destruct (ok_status (r_code r)); [tauto|]. destruct m; split; discriminate.
Qed.

(* 200/201: decoded and used *)
Lemma used_when_ok m r d :
  ok_status (r_code r) = true ->
  http_proxy_outcome m r (Some d) = (Some {| p_data := d; p_complete := true; p_status := 0 |}, ENone).
Proof. intros H. unfold http_proxy_outcome, classify. rewrite H. reflexivity. Qed.

(* default mode, other status: the outcome is one fixed error value, whatever the reply *)
Lemma default_fails m r d :
  ok_status (r_code r) = false -> m = MDefault ->
  http_proxy_outcome m r d = (None, EInvalidStatus).
Proof. intros H ->. unfold http_proxy_outcome, classify. rewrite H. reflexivity. Qed.

Lemma default_sole_backend i r d :
  ok_status (r_code r) = false ->
  client_single i MDefault r d =
  {| c_status := 500; c_completed := "false";
     c_body := match i with Gin => BRaw "" | Mux => BRaw ("invalid status code" ++ nl) end |}.
Proof.
  intros H. unfold client_single. rewrite (default_fails MDefault r d H eq_refl).
  destruct i; reflexivity.
Qed.

(* non-interference form of "none of its body reaches the client" *)
Lemma no_body_leak i r r' d d' :
  ok_status (r_code r) = false -> ok_status (r_code r') = false ->
  client_single i MDefault r d = client_single i MDefault r' d'.
Proof. intros H H'. rewrite !default_sole_backend by assumption. reflexivity. Qed.

Lemma error_code_mode i r d :
  ok_status (r_code r) = false ->
  c_status (client_single i MErrorCode r d) = r_code r /\
  c_completed (client_single i MErrorCode r d) = "false".
Proof.
  intros H. unfold client_single, http_proxy_outcome, classify. rewrite H.
  destruct i; simpl; auto.
Qed.

Lemma details_mode n r d :
  ok_status (r_code r) = false ->
  http_proxy_outcome (MDetails n) r d =
  (Some {| p_data := [(("error_" ++ n)%string, error_object (r_code r) (r_body r) (r_enc r))];
           p_complete := false; p_status := r_code r |}, ENone).
Proof. intros H. unfold http_proxy_outcome, classify. rewrite H. reflexivity. Qed.

Lemma details_ok_model n r :
  details_ok_b n r [(("error_" ++ n)%string, error_object (r_code r) (r_body r) (r_enc r))] = true.
Proof.
  unfold details_ok_b. cbn [lookup]. rewrite str_eqb_refl.
  unfold error_object. cbn [lookup app].
  change (str_eqb "http_status_code" "http_status_code") with true. cbn iota.
  rewrite str_eqb_refl. cbn [andb].
  change (str_eqb "http_body" "http_status_code") with false. cbn iota.
  destruct (str_eqb (r_body r) "") eqn:E.
  - cbn [app]. destruct (str_eqb (r_enc r) ""); reflexivity.
  - cbn [app lookup].
    change (str_eqb "http_body" "http_body") with true. cbn iota.
    apply str_eqb_refl.
Qed.

(* mode selection *)
Lemma mode_selection details code :
  status_mode details code =
  match details with
  | VStr s => if str_eqb s "" then MDefault else MDetails s
  | VAbsent => match code with VBool true => MErrorCode | _ => MDefault end
  | _ => MDefault
  end.
Proof. destruct details; reflexivity. Qed.

(* the model meets the boolean form of the property on every input *)
Lemma single_meets_spec i m r d :
  match d with Some dd => wfj (JObj dd) = true | None => True end ->
  is_infix (r_body r) ("invalid status code" ++ nl) = false ->
  spec_single_b m r d (client_single i m r d) (raw_of (client_single i m r d)) = true.
Proof.
  intros Hwf Hinf. unfold spec_single_b.
  destruct (ok_status (r_code r)) eqn:Hok.
  - destruct d as [dd|].
    + unfold client_single. rewrite used_when_ok by assumption.
      destruct dd as [|kv dd'].
      * destruct i; reflexivity.
      * assert (E : obj_eqb (kv :: dd') (kv :: dd') = true) by (apply obj_eqb_refl; exact Hwf).
        destruct i; cbn - [obj_eqb]; rewrite E; reflexivity.
    + unfold client_single, http_proxy_outcome, classify. rewrite Hok. destruct i; reflexivity.
  - destruct m as [| |n].
    + rewrite default_sole_backend by assumption. cbn [c_status c_completed].
      unfold no_leak_b, raw_of. cbn [c_body].
      destruct i.
      * assert (E : is_infix (r_body r) "" = false).
        { destruct (r_body r) as [|a s]; [simpl in Hinf; discriminate|reflexivity]. }
        rewrite E. cbn. apply orb_true_r.
      * rewrite Hinf. cbn. apply orb_true_r.
    + destruct (error_code_mode i r d Hok) as [H1 H2]. rewrite H1, H2.
      rewrite Z.eqb_refl. reflexivity.
    + unfold client_single. rewrite details_mode by assumption.
      destruct i; cbn [client_of List.length Nat.eqb negb p_data p_complete andb c_completed body_obj c_body];
        rewrite details_ok_model; reflexivity.
Qed.

(* several backends: a failing default-mode backend contributes nothing, whatever it sent *)
Lemma multi_failed_default_invisible i pre post r r' d d' :
  ok_status (r_code r) = false -> ok_status (r_code r') = false ->
  client_multi i (pre ++ (MDefault, r, d) :: post) =
  client_multi i (pre ++ (MDefault, r', d') :: post).
Proof.
  intros H H'. unfold client_multi. rewrite !map_app. cbn [map].
  rewrite (default_fails MDefault r d H eq_refl), (default_fails MDefault r' d' H' eq_refl).
  reflexivity.
Qed.

Lemma merge_outs_incomplete outs :
  existsb (fun o => match fst o with None => true | Some _ => false end) outs = true ->
  match fst (merge_outs outs) with Some p => p_complete p = false | None => True end.
Proof.
  intros H. unfold merge_outs. rewrite H.
  destruct (flat_map _ outs); cbn; [exact I|]. apply andb_false_r.
Qed.

Lemma multi_incomplete i ms m r d :
  In (m, r, d) ms -> ok_status (r_code r) = false -> m = MDefault \/ m = MErrorCode ->
  c_completed (client_multi i ms) = "false".
Proof.
  intros Hin Hok Hm. unfold client_multi.
  set (outs := map _ ms).
  assert (Hex : existsb (fun o => match fst o with None => true | Some _ => false end) outs = true).
  { apply existsb_exists. exists (http_proxy_outcome m r d). split.
    - unfold outs. apply in_map_iff. exists (m, r, d). split; [reflexivity|exact Hin].
    - unfold http_proxy_outcome, classify. rewrite Hok. destruct Hm; subst m; reflexivity. }
  pose proof (merge_outs_incomplete outs Hex) as Hc.
  destruct (merge_outs outs) as [resp anyerr]. cbn [fst] in Hc.
  destruct resp as [p|]; destruct i; unfold client_of; cbn [c_completed].
  - rewrite Hc. rewrite andb_false_r. destruct anyerr; reflexivity.
  - rewrite Hc. rewrite andb_false_r.
    destruct (negb (Nat.eqb (List.length (p_data p)) 0)); [reflexivity|]. destruct anyerr; reflexivity.
  - destruct anyerr; reflexivity.
  - cbn. destruct anyerr; reflexivity.
Qed.

(* z_lit is the decimal text on the whole range of HTTP status codes *)
From Coq Require Import DecimalString.
Definition dec_text (z : Z) : string := NilZero.string_of_int (Z.to_int z).
Definition range (lo : Z) (n : nat) : list Z := map (fun i => (lo + Z.of_nat i)%Z) (seq 0 n).
Lemma z_lit_decimal : forallb (fun c => str_eqb (z_lit c) (dec_text c)) (range 100 500) = true.
Proof. vm_compute. reflexivity. Qed.

(* ======================================================================================
   Extension: raw extra_config, endpoint stages, routers (see Model/C12.v, second part)
   ====================================================================================== *)
From Coq Require Import DecimalZ DecimalPos.

(* ---------- mode selection from the raw map ---------- *)
Lemma status_mode_raw_digest extra :
  status_mode_raw extra =
  match lookup ns_http extra with
  | Some (JObj m) => status_mode (cfgval_of (lookup key_details m)) (cfgval_of (lookup key_code m))
  | _ => MDefault
  end.
Proof.
  unfold status_mode_raw, status_mode, cfgval_of.
  destruct (lookup ns_http extra) as [[| | | | |m|]|]; try reflexivity.
  destruct (lookup key_details m) as [[| | | | | |]|]; try reflexivity.
  destruct (lookup key_code m) as [[|[]| | | | |]|]; reflexivity.
Qed.

Lemma raw_error_code_iff extra :
  status_mode_raw extra = MErrorCode <->
  exists m, lookup ns_http extra = Some (JObj m) /\ lookup key_details m = None /\
            lookup key_code m = Some (JBool true).
Proof.
  unfold status_mode_raw. split.
  - destruct (lookup ns_http extra) as [[| | | | |m|]|] eqn:E1; try discriminate.
    destruct (lookup key_details m) as [[| | |s| | |]|] eqn:E2; try discriminate.
    + destruct (str_eqb s ""); discriminate.
    + destruct (lookup key_code m) as [[|[]| | | | |]|] eqn:E3; try discriminate.
      intros _. exists m. repeat split; assumption.
  - intros (m & -> & -> & ->). reflexivity.
Qed.

Lemma raw_details_iff extra n :
  status_mode_raw extra = MDetails n <->
  exists m, lookup ns_http extra = Some (JObj m) /\ lookup key_details m = Some (JStr n) /\ n <> "".
Proof.
  unfold status_mode_raw. split.
  - destruct (lookup ns_http extra) as [[| | | | |m|]|] eqn:E1; try discriminate.
    destruct (lookup key_details m) as [[| | |s| | |]|] eqn:E2; try discriminate.
    + destruct (str_eqb s "") eqn:E; [discriminate|]. intros [= <-]. exists m. repeat split; try assumption.
      apply str_eqb_neq. exact E.
    + destruct (lookup key_code m) as [[|[]| | | | |]|]; discriminate.
  - intros (m & -> & -> & Hn). apply str_eqb_neq in Hn. rewrite Hn. reflexivity.
Qed.

Lemma raw_default_iff extra :
  status_mode_raw extra = MDefault <->
  ~ (exists m, lookup ns_http extra = Some (JObj m) /\ lookup key_details m = None /\
               lookup key_code m = Some (JBool true)) /\
  ~ (exists m n, lookup ns_http extra = Some (JObj m) /\ lookup key_details m = Some (JStr n) /\ n <> "").
Proof.
  split.
  - intros H. split.
    + intros Hc. apply raw_error_code_iff in Hc. congruence.
    + intros (m & n & Hd). assert (status_mode_raw extra = MDetails n) by (apply raw_details_iff; eauto).
      congruence.
  - intros [H1 H2]. destruct (status_mode_raw extra) as [| |n] eqn:E; [reflexivity| |].
    + exfalso. apply H1. apply raw_error_code_iff. exact E.
    + exfalso. apply H2. apply raw_details_iff in E. destruct E as (m & E). exists m, n. exact E.
Qed.

(* ---------- any other status: failed, in every mode; the decoded body is never used ---------- *)
Lemma other_status_fails m r d :
  ok_status (r_code r) = false ->
  http_proxy_outcome m r d =
  match m with
  | MDefault => (None, EInvalidStatus)
  | MErrorCode => (None, ECode (r_code r) (r_body r) (r_enc r))
  | MDetails n =>
      (Some {| p_data := [(("error_" ++ n)%string, error_object (r_code r) (r_body r) (r_enc r))];
               p_complete := false; p_status := r_code r |}, ENone)
  end.
Proof. intros H. unfold http_proxy_outcome, classify. rewrite H. destruct m; reflexivity. Qed.

Lemma undecodable_fails m r :
  ok_status (r_code r) = true -> http_proxy_outcome m r None = (None, EDecode).
Proof. intros H. unfold http_proxy_outcome, classify. rewrite H. reflexivity. Qed.

Lemma empty_body_error_object c :
  error_object c "" "" = JObj [("http_status_code", JNum (z_lit c))].
Proof. reflexivity. Qed.

(* ---------- decimal text ---------- *)
Lemma z_lit_injective a b : z_lit a = z_lit b -> a = b.
Proof.
  unfold z_lit. intros H.
  assert (Hn : forall z, Z.to_int z <> Decimal.Pos Decimal.Nil /\ Z.to_int z <> Decimal.Neg Decimal.Nil).
  { intros z. destruct z; cbn; split; try discriminate;
      intros E; injection E as E; revert E; apply DecimalPos.Unsigned.to_uint_nonnil. }
  assert (E : Some (Z.to_int a) = Some (Z.to_int b)).
  { rewrite <- (NilZero.isi (Z.to_int a)) by apply Hn.
    rewrite <- (NilZero.isi (Z.to_int b)) by apply Hn. now rewrite H. }
  injection E as E. apply DecimalZ.to_int_inj. exact E.
Qed.

Lemma z_lit3_agrees : forallb (fun c => str_eqb (z_lit3 c) (z_lit c)) (range 0 1000) = true.
Proof. vm_compute. reflexivity. Qed.

(* ---------- the endpoint seen as a function of the backends' outcomes ---------- *)
Definition outcome (b : backend) : pout := let '(m, r, d) := b in http_proxy_outcome m r d.

Definition merged_out (outs : list pout) : eout :=
  let '(resp, anyerr) := merge_outs outs in
  let texts := flat_map (fun o => match snd o with ENone => [] | e => [err_text e] end) outs in
  EOut resp (if anyerr then Some (500%Z, join_nl texts) else None).

Definition outs_out (epx : obj) (o0 : pout) (orest : list pout) : eout :=
  static_stage (static_cfg epx)
    (match orest with
     | [] => EOut (fst o0) (err_of_single (snd o0))
     | _ => flat_stage (flatmap_active epx) (merged_out (o0 :: orest))
     end).

Lemma endpoint_out_outs epx b0 rest :
  endpoint_out epx b0 rest = outs_out epx (outcome b0) (map outcome rest).
Proof.
  unfold endpoint_out, outs_out. f_equal. destruct rest as [|b1 rest].
  - destruct b0 as [[m r] d]. cbn [map single_out outcome].
    destruct (http_proxy_outcome m r d); reflexivity.
  - reflexivity.
Qed.

(* a failing default-mode backend yields one fixed outcome *)
Lemma outcome_default_fixed x r d :
  status_mode_raw x = MDefault -> ok_status (r_code r) = false ->
  outcome (backend_of_raw (x, r, d)) = (None, EInvalidStatus).
Proof. intros Hm Hok. cbn. rewrite Hm. apply (default_fails MDefault r d Hok eq_refl). Qed.

Definition client_endpoint_l (rt : router) (prior : list string) (epx : obj) (ms : list backend) : option cobs :=
  match ms with
  | [] => None
  | b0 :: rest => Some (client_endpoint rt prior epx b0 rest)
  end.

Lemma client_endpoint_l_outs rt prior epx ms ms' :
  map outcome ms = map outcome ms' -> client_endpoint_l rt prior epx ms = client_endpoint_l rt prior epx ms'.
Proof.
  destruct ms as [|b0 rest], ms' as [|b0' rest']; cbn [map]; try discriminate; [reflexivity|].
  intros [= H0 Hr]. unfold client_endpoint_l, client_endpoint.
  rewrite !endpoint_out_outs, H0, Hr. reflexivity.
Qed.

(* default mode: the client observation does not depend on what the failing backend sent *)
Lemma ep_default_independent rt prior epx pre post x x' r r' d d' :
  status_mode_raw x = MDefault -> status_mode_raw x' = MDefault ->
  ok_status (r_code r) = false -> ok_status (r_code r') = false ->
  client_endpoint_l rt prior epx (map backend_of_raw (pre ++ (x, r, d) :: post)) =
  client_endpoint_l rt prior epx (map backend_of_raw (pre ++ (x', r', d') :: post)).
Proof.
  intros Hx Hx' Hr Hr'. apply client_endpoint_l_outs.
  rewrite !map_app. cbn [map]. rewrite !outcome_default_fixed by assumption. reflexivity.
Qed.

(* ---------- static stage facts ---------- *)
Lemma In_remove {V} k k' (v : V) m : k <> k' -> In (k, v) m -> In (k, v) (remove k' m).
Proof.
  intros Hne. induction m as [|[k0 v0] m IH]; cbn; [tauto|].
  intros [E|H].
  - injection E as -> ->. destruct (str_eqb k' k) eqn:Ek.
    + apply str_eqb_eq in Ek. congruence.
    + left. reflexivity.
  - destruct (str_eqb k' k0); [apply IH; exact H | right; apply IH; exact H].
Qed.

Lemma In_overlay data : forall base k v,
  In (k, v) base -> ~ In k (keys data) -> In (k, v) (overlay data base).
Proof.
  unfold overlay. induction data as [|[k0 v0] data IH]; intros base k v Hin Hk; cbn; [exact Hin|].
  apply IH.
  - cbn. right. apply In_remove; [|exact Hin]. intros ->. apply Hk. left. reflexivity.
  - intros H. apply Hk. right. exact H.
Qed.

Lemma overlay_nonempty data : forall base, base <> [] -> overlay data base <> [].
Proof.
  unfold overlay. induction data as [|[k0 v0] data IH]; intros base Hb; cbn; [exact Hb|].
  apply IH. unfold set. discriminate.
Qed.

Lemma static_stage_payload st p err :
  exists p', static_stage st (EOut (Some p) err) = EOut (Some p') err /\
             p_complete p' = p_complete p /\
             (p_data p <> [] -> p_data p' <> []) /\
             (forall k v, In (k, v) (p_data p) -> ~ In k (static_keys st) -> In (k, v) (p_data p')).
Proof.
  destruct st as [[n data]|]; cbn [static_stage static_keys].
  - destruct (static_match n (Some p) match err with Some _ => true | None => false end).
    + eexists. split; [reflexivity|]. cbn. split; [reflexivity|]. split.
      * apply overlay_nonempty.
      * intros k v. apply In_overlay.
    + exists p. repeat split; auto.
  - exists p. repeat split; auto.
Qed.

(* ---------- merger facts ---------- *)
Definition flagged (outs : list pout) : bool :=
  existsb (fun o => match fst o with None => true | Some p => negb (p_complete p) end) outs.

Definition payloads_of (outs : list pout) : list presp :=
  flat_map (fun o : pout => match fst o with Some p => [p] | None => [] end) outs.
Definition anyerr_of (outs : list pout) : bool :=
  existsb (fun o : pout => match fst o with None => true | Some _ => false end) outs.

Lemma merge_outs_eq outs :
  merge_outs outs =
  match payloads_of outs with
  | [] => (None, anyerr_of outs)
  | _ => (Some {| p_data := flat_map p_data (payloads_of outs);
                  p_complete := forallb p_complete (payloads_of outs) && negb (anyerr_of outs);
                  p_status := 0 |}, anyerr_of outs)
  end.
Proof. reflexivity. Qed.

Lemma merge_outs_payload outs p0 e0 :
  In (Some p0, e0) outs ->
  exists p, fst (merge_outs outs) = Some p /\
            (forall k v, In (k, v) (p_data p0) -> In (k, v) (p_data p)) /\
            (flagged outs = true -> p_complete p = false).
Proof.
  intros Hin. rewrite merge_outs_eq.
  assert (Hp : In p0 (payloads_of outs)).
  { unfold payloads_of. apply in_flat_map. exists (Some p0, e0). split; [exact Hin|]. cbn. auto. }
  destruct (payloads_of outs) as [|q qs] eqn:Epay; [destruct Hp|].
  eexists. split; [reflexivity|]. cbn [p_data p_complete]. split.
  - intros k v Hkv. apply in_flat_map. exists p0. split; assumption.
  - intros Hf. unfold flagged in Hf. apply existsb_exists in Hf. destruct Hf as ([resp e] & Ho & Hc).
    cbn [fst] in Hc. destruct resp as [p|].
    + assert (Hq : In p (q :: qs)).
      { rewrite <- Epay. unfold payloads_of. apply in_flat_map. exists (Some p, e). split; [exact Ho|]. cbn. auto. }
      assert (Hfa : forallb p_complete (q :: qs) = false).
      { destruct (forallb p_complete (q :: qs)) eqn:F; [|reflexivity].
        rewrite forallb_forall in F. rewrite (F p Hq) in Hc. discriminate. }
      rewrite Hfa. reflexivity.
    + assert (Ha : anyerr_of outs = true).
      { unfold anyerr_of. apply existsb_exists. exists (None, e). split; [exact Ho|reflexivity]. }
      rewrite Ha. apply andb_false_r.
Qed.

Lemma merge_outs_none outs :
  outs <> [] -> fst (merge_outs outs) = None -> snd (merge_outs outs) = true.
Proof.
  intros Hne. rewrite merge_outs_eq.
  destruct (payloads_of outs) eqn:E; cbn [fst snd]; [|discriminate].
  intros _. destruct outs as [|[resp e] outs]; [congruence|].
  cbn in E. destruct resp as [p|]; [discriminate|]. reflexivity.
Qed.

(* the endpoint never dereferences a nil response *)
Lemma outs_out_no_panic epx (o0 : pout) (orest : list pout) : outs_out epx o0 orest <> EPanic.
Proof.
  unfold outs_out.
  assert (H : forall st x, x <> EPanic -> static_stage st x <> EPanic).
  { intros [[n data]|] [resp err|] Hx; cbn; try assumption; try discriminate.
    destruct (static_match _ _ _); discriminate. }
  apply H. destruct orest as [|o1 orest]; [discriminate|].
  unfold merged_out.
  pose proof (merge_outs_none (o0 :: o1 :: orest)) as Hn.
  destruct (merge_outs (o0 :: o1 :: orest)) as [resp anyerr]. cbn [fst snd] in Hn.
  unfold flat_stage. destruct (flatmap_active epx); [|discriminate].
  destruct resp as [p|].
  - destruct anyerr; discriminate.
  - rewrite Hn by (discriminate || reflexivity). discriminate.
Qed.

Lemma endpoint_no_panic epx b0 rest : endpoint_out epx b0 rest <> EPanic.
Proof. rewrite endpoint_out_outs. apply outs_out_no_panic. Qed.

Lemma merged_out_payload (outs : list pout) p0 e0 :
  In (Some p0, e0) outs ->
  exists p err, merged_out outs = EOut (Some p) err /\
    (forall k v, In (k, v) (p_data p0) -> In (k, v) (p_data p)) /\
    (flagged outs = true -> p_complete p = false).
Proof.
  intros Hin. destruct (merge_outs_payload outs p0 e0 Hin) as (p & Ep & Hi & Hf).
  unfold merged_out. destruct (merge_outs outs) as [resp anyerr]. cbn [fst] in Ep. subst resp.
  eexists. eexists. split; [reflexivity|]. split; assumption.
Qed.

(* a payload that reached the merger (or the sole backend's payload) reaches the router *)
Lemma outs_out_payload epx (o0 : pout) (orest : list pout) p0 (e0 : perr) :
  In (Some p0, e0) (o0 :: orest) -> p_data p0 <> [] -> (orest = [] -> e0 = ENone) ->
  exists p err, outs_out epx o0 orest = EOut (Some p) err /\ p_data p <> [] /\
    (forall k v, In (k, v) (p_data p0) -> ~ In k (static_keys (static_cfg epx)) -> In (k, v) (p_data p)) /\
    (flagged (o0 :: orest) = true -> p_complete p = false).
Proof.
  intros Hin Hne He. unfold outs_out. destruct orest as [|o1 orest].
  - destruct Hin as [->|[]]. rewrite (He eq_refl). cbn [fst snd err_of_single].
    destruct (static_stage_payload (static_cfg epx) p0 None) as (p' & E & Hc & Hn & Hi).
    exists p', None. split; [exact E|]. split; [auto|]. split; [exact Hi|].
    unfold flagged. cbn. rewrite orb_false_r. intros Hf. rewrite Hc.
    destruct (p_complete p0); [discriminate|reflexivity].
  - destruct (merged_out_payload (o0 :: o1 :: orest) p0 e0 Hin) as (p & err & Em & Hi & Hf).
    rewrite Em.
    assert (Hfl : flat_stage (flatmap_active epx) (EOut (Some p) err) = EOut (Some p) err).
    { unfold flat_stage. destruct (flatmap_active epx); [|reflexivity]. destruct err; reflexivity. }
    rewrite Hfl.
    destruct (static_stage_payload (static_cfg epx) p err) as (p' & E & Hc & Hn & Hi').
    exists p', err. split; [exact E|]. split.
    + apply Hn. destruct (p_data p0) as [|[k v] l] eqn:Ed; [congruence|].
      intros Hnil. specialize (Hi k v (or_introl eq_refl)). rewrite Hnil in Hi. destruct Hi.
    + split.
      * intros k v Hkv Hk. apply Hi'; [apply Hi; exact Hkv|exact Hk].
      * intros Hfg. rewrite Hc. apply Hf. exact Hfg.
Qed.

(* what every router does with a non-empty response *)
Lemma client_of_router_payload rt prior p err :
  p_data p <> [] ->
  client_of_router rt prior (Some p) err =
  {| c_status := 200; c_completed := if p_complete p then "true" else "false";
     c_body := BJson (JObj (p_data p)) |}.
Proof.
  intros Hne.
  assert (Hl : negb (Nat.eqb (List.length (p_data p)) 0) = true).
  { destruct (p_data p); [congruence|reflexivity]. }
  destruct rt as [[]| | | | |]; unfold client_of_router, client_of, impl_of; rewrite Hl; cbn [andb];
    destruct err as [[? ?]|]; reflexivity.
Qed.

Lemma outcome_failed_flagged b : b_failed b = true ->
  match fst (outcome b) with None => true | Some p => negb (p_complete p) end = true.
Proof.
  destruct b as [[m r] d]. cbn [b_failed outcome]. intros H.
  destruct (ok_status (r_code r)) eqn:Hok.
  - destruct d as [dd|]; [discriminate|]. rewrite undecodable_fails by assumption. reflexivity.
  - rewrite other_status_fails by assumption. destruct m; reflexivity.
Qed.

(* healthy siblings: their data reaches the client, flagged incomplete *)
Lemma ep_siblings_data rt prior epx b0 rest m r dd bf :
  In (m, r, Some dd) (b0 :: rest) -> ok_status (r_code r) = true -> dd <> [] ->
  In bf (b0 :: rest) -> b_failed bf = true ->
  let o := client_endpoint rt prior epx b0 rest in
  c_status o = 200%Z /\ c_completed o = "false" /\
  exists body, c_body o = BJson (JObj body) /\
    forall k v, In (k, v) dd -> ~ In k (static_keys (static_cfg epx)) -> In (k, v) body.
Proof.
  intros Hin Hok Hdd Hbf Hf o. subst o. unfold client_endpoint. rewrite endpoint_out_outs.
  set (p0 := {| p_data := dd; p_complete := true; p_status := 0 |}).
  assert (Hin' : In (Some p0, ENone) (outcome b0 :: map outcome rest)).
  { change (outcome b0 :: map outcome rest) with (map outcome (b0 :: rest)).
    apply in_map_iff. exists (m, r, Some dd). split; [|exact Hin]. cbn [outcome]. apply used_when_ok. exact Hok. }
  destruct (outs_out_payload epx (outcome b0) (map outcome rest) p0 ENone Hin' Hdd (fun _ => eq_refl))
    as (p & err & E & Hne & Hi & Hc).
  rewrite E, client_of_router_payload by exact Hne.
  assert (Hfl : flagged (outcome b0 :: map outcome rest) = true).
  { unfold flagged. apply existsb_exists. exists (outcome bf). split.
    - change (outcome b0 :: map outcome rest) with (map outcome (b0 :: rest)). apply in_map. exact Hbf.
    - apply outcome_failed_flagged. exact Hf. }
  rewrite (Hc Hfl). cbn. repeat split. exists (p_data p). split; [reflexivity|]. exact Hi.
Qed.

(* return_error_details: error_<name> with the status and the body, flagged incomplete *)
Lemma ep_details rt prior epx b0 rest n r d :
  In (MDetails n, r, d) (b0 :: rest) -> ok_status (r_code r) = false ->
  ~ In ("error_" ++ n)%string (static_keys (static_cfg epx)) ->
  let o := client_endpoint rt prior epx b0 rest in
  c_status o = 200%Z /\ c_completed o = "false" /\
  exists body, c_body o = BJson (JObj body) /\
    In (("error_" ++ n)%string, error_object (r_code r) (r_body r) (r_enc r)) body.
Proof.
  intros Hin Hok Hk o. subst o. unfold client_endpoint. rewrite endpoint_out_outs.
  set (p0 := {| p_data := [(("error_" ++ n)%string, error_object (r_code r) (r_body r) (r_enc r))];
                p_complete := false; p_status := r_code r |}).
  assert (Hin' : In (Some p0, ENone) (outcome b0 :: map outcome rest)).
  { change (outcome b0 :: map outcome rest) with (map outcome (b0 :: rest)).
    apply in_map_iff. exists (MDetails n, r, d). split; [|exact Hin]. cbn [outcome]. apply details_mode. exact Hok. }
  destruct (outs_out_payload epx (outcome b0) (map outcome rest) p0 ENone Hin') as (p & err & E & Hne & Hi & Hc);
    [discriminate|reflexivity|].
  rewrite E, client_of_router_payload by exact Hne.
  assert (Hfl : flagged (outcome b0 :: map outcome rest) = true).
  { unfold flagged. apply existsb_exists. exists (Some p0, ENone). split; [exact Hin'|reflexivity]. }
  rewrite (Hc Hfl). cbn. repeat split. exists (p_data p). split; [reflexivity|].
  apply Hi; [left; reflexivity|exact Hk].
Qed.

(* ---------- a sole backend ---------- *)
Lemma static_stage_failure st (err : Z * string) :
  static_on_failure st = false -> static_stage st (EOut None (Some err)) = EOut None (Some err).
Proof.
  destruct st as [[n data]|]; [|reflexivity]. cbn [static_on_failure static_stage]. intros H.
  apply negb_false_iff, orb_true_iff in H. destruct H as [H|H]; apply str_eqb_eq in H; subst n; reflexivity.
Qed.

Lemma ep_sole_500 rt prior epx x r d :
  status_mode_raw x = MDefault -> ok_status (r_code r) = false ->
  static_on_failure (static_cfg epx) = false ->
  client_endpoint rt prior epx (backend_of_raw (x, r, d)) [] =
  {| c_status := 500; c_completed := "false";
     c_body := match rt with
               | RGin false => BRaw ""
               | RGin true => BRaw "invalid status code"
               | _ => BRaw ("invalid status code" ++ nl)
               end |}.
Proof.
  intros Hm Hok Hst. unfold client_endpoint, endpoint_out, backend_of_raw, single_out. rewrite Hm.
  rewrite (default_fails MDefault r d Hok eq_refl). cbn [err_of_single err_text].
  rewrite static_stage_failure by exact Hst.
  destruct rt as [[]| | | | |]; reflexivity.
Qed.

Lemma ep_error_code_exact rt prior epx x r d :
  status_mode_raw x = MErrorCode -> ok_status (r_code r) = false ->
  static_on_failure (static_cfg epx) = false ->
  c_status (client_endpoint rt prior epx (backend_of_raw (x, r, d)) []) = r_code r /\
  c_completed (client_endpoint rt prior epx (backend_of_raw (x, r, d)) []) = "false".
Proof.
  intros Hm Hok Hst. unfold client_endpoint, endpoint_out, backend_of_raw, single_out. rewrite Hm.
  rewrite other_status_fails by exact Hok. cbn [err_of_single].
  rewrite static_stage_failure by exact Hst.
  destruct rt as [[]| | | | |]; split; reflexivity.
Qed.

(* 200/201: decoded and used, whatever the mode *)
Lemma ep_ok_used rt prior epx x r dd :
  ok_status (r_code r) = true -> static_cfg epx = None ->
  client_endpoint rt prior epx (backend_of_raw (x, r, Some dd)) [] =
  {| c_status := 200;
     c_completed := if Nat.eqb (List.length dd) 0 then "false" else "true";
     c_body := BJson (JObj dd) |}.
Proof.
  intros Hok Hst. unfold client_endpoint, endpoint_out, backend_of_raw, single_out.
  rewrite used_when_ok by exact Hok. rewrite Hst. cbn [static_stage err_of_single].
  destruct dd as [|kv dd']; destruct rt as [[]| | | | |]; reflexivity.
Qed.

(* with static data declared: the data is still delivered, next to the declared keys *)
Lemma ep_ok_used_static rt prior epx x r dd :
  ok_status (r_code r) = true -> dd <> [] ->
  let o := client_endpoint rt prior epx (backend_of_raw (x, r, Some dd)) [] in
  c_status o = 200%Z /\ c_completed o = "true" /\
  exists body, c_body o = BJson (JObj body) /\
    forall k v, In (k, v) dd -> ~ In k (static_keys (static_cfg epx)) -> In (k, v) body.
Proof.
  intros Hok Hdd o. subst o. unfold client_endpoint, endpoint_out, backend_of_raw, single_out.
  rewrite used_when_ok by exact Hok. cbn [err_of_single].
  destruct (static_stage_payload (static_cfg epx) {| p_data := dd; p_complete := true; p_status := 0 |} None)
    as (p' & E & Hc & Hn & Hi).
  rewrite E, client_of_router_payload by (apply Hn; exact Hdd).
  rewrite Hc. cbn. repeat split. exists (p_data p'). split; [reflexivity|exact Hi].
Qed.

(* ---------- routers ---------- *)
Lemma prior_errors_irrelevant rt prior prior' epx b0 rest :
  client_endpoint rt prior epx b0 rest = client_endpoint rt prior' epx b0 rest.
Proof. reflexivity. Qed.

Definition mux_family (rt : router) : bool := match rt with RGin _ => false | _ => true end.

Lemma mux_family_agree rt prior epx b0 rest :
  mux_family rt = true ->
  client_endpoint rt prior epx b0 rest = client_endpoint RMux prior epx b0 rest.
Proof. destruct rt; [discriminate| | | | |]; reflexivity. Qed.

(* return_error_msg changes the body of a bare error reply only *)
Lemma return_error_msg_same_status prior epx b0 rest :
  c_status (client_endpoint (RGin true) prior epx b0 rest) = c_status (client_endpoint (RGin false) prior epx b0 rest) /\
  c_completed (client_endpoint (RGin true) prior epx b0 rest) = c_completed (client_endpoint (RGin false) prior epx b0 rest).
Proof.
  unfold client_endpoint. destruct (endpoint_out epx b0 rest) as [resp err|]; [|split; reflexivity].
  destruct resp as [p|], err as [[st txt]|]; split; reflexivity.
Qed.

Lemma client_endpoint_not_panicked rt prior epx b0 rest :
  client_endpoint rt prior epx b0 rest <> panicked.
Proof.
  unfold client_endpoint. pose proof (endpoint_no_panic epx b0 rest) as Hn.
  destruct (endpoint_out epx b0 rest) as [resp err|]; [|congruence].
  destruct rt as [[]| | | | |], resp as [p|], err as [[st txt]|]; cbn;
    unfold panicked; try discriminate;
    try (destruct (negb (Nat.eqb (List.length (p_data p)) 0) && p_complete p); discriminate);
    try (destruct (negb (Nat.eqb (List.length (p_data p)) 0)); cbn; try discriminate;
         destruct (p_complete p); discriminate).
Qed.

(* ---------- the model meets the endpoint oracle (sole backend, no static data) ---------- *)
Lemma is_prefix_app s : forall t u, is_prefix s t = true -> is_prefix s (t ++ u) = true.
Proof.
  induction s as [|a s IH]; intros t u H; [reflexivity|].
  destruct t as [|b t]; [discriminate|]. cbn in *. apply andb_true_iff in H as [H1 H2].
  rewrite H1. cbn. apply IH. exact H2.
Qed.

Lemma is_infix_app s : forall t u, is_infix s t = true -> is_infix s (t ++ u) = true.
Proof.
  induction t as [|b t IH]; intros u H.
  - cbn in H. rewrite orb_false_r in H. destruct s; [|discriminate]. destruct u; reflexivity.
  - cbn [is_infix] in H. apply orb_true_iff in H as [H|H].
    + pose proof (is_prefix_app s (String b t) u H) as Hp. cbn [append] in Hp |- *.
      cbn [is_infix]. rewrite Hp. reflexivity.
    + cbn [append is_infix]. rewrite (IH u H). apply orb_true_r.
Qed.

Lemma no_leak_empty r : no_leak_b r "" = true.
Proof.
  unfold no_leak_b. destruct (r_body r) as [|a s]; [reflexivity|]. cbn. apply orb_true_r.
Qed.

Lemma no_leak_not_infix r raw : is_infix (r_body r) raw = false -> no_leak_b r raw = true.
Proof. intros H. unfold no_leak_b. rewrite H. apply orb_true_r. Qed.

Lemma not_static_nil (d : obj) : not_static [] d = d.
Proof. unfold not_static. induction d as [|kv d IH]; [reflexivity|]. simpl. f_equal. exact IH. Qed.

Lemma carries_refl dd : wfj (JObj dd) = true -> carries_b dd dd = true.
Proof.
  intros H. pose proof (obj_eqb_refl dd H) as E. unfold obj_eqb in E. rewrite json_eqb_obj in E.
  apply andb_true_iff in E as [_ E]. exact E.
Qed.

Lemma ep_single_meets_oracle rt prior epx m r d :
  static_cfg epx = None ->
  match d with Some dd => wfj (JObj dd) = true | None => True end ->
  is_infix (r_body r) ("invalid status code" ++ nl) = false ->
  spec_endpoint_b rt epx (m, r, d) []
    (client_endpoint rt prior epx (m, r, d) [])
    (raw_of (client_endpoint rt prior epx (m, r, d) [])) = true.
Proof.
  intros Hst Hwf Hinf.
  assert (Hinf' : is_infix (r_body r) "invalid status code" = false).
  { destruct (is_infix (r_body r) "invalid status code") eqn:E; [|reflexivity].
    rewrite (is_infix_app _ _ nl E) in Hinf. discriminate. }
  unfold spec_endpoint_b, client_endpoint, endpoint_out, single_out. rewrite Hst.
  cbn [static_stage static_keys static_on_failure forallb existsb b_failed].
  destruct (ok_status (r_code r)) eqn:Hok.
  - destruct d as [dd|].
    + rewrite used_when_ok by exact Hok. cbn [err_of_single]. rewrite not_static_nil.
      unfold spec_single_b. rewrite Hok.
      destruct dd as [|kv dd'].
      * destruct rt as [[]| | | | |]; reflexivity.
      * pose proof (carries_refl _ Hwf) as Hc. pose proof (obj_eqb_refl _ Hwf) as He.
        destruct rt as [[]| | | | |];
          cbn [client_of_router client_of impl_of List.length Nat.eqb negb andb orb p_data p_complete
               c_status c_completed c_body body_obj Z.eqb Pos.eqb str_eqb];
          rewrite Hc, He; reflexivity.
    + rewrite undecodable_fails by exact Hok. unfold spec_single_b. rewrite Hok.
      destruct rt as [[]| | | | |]; reflexivity.
  - rewrite other_status_fails by exact Hok. unfold spec_single_b. rewrite Hok.
    destruct m as [| |n].
    + cbn [err_of_single err_text].
      destruct rt as [[]| | | | |];
        cbn [client_of_router client_of impl_of c_status c_completed c_body raw_of body_obj negb orb andb];
        rewrite ?no_leak_empty, ?(no_leak_not_infix r _ Hinf), ?(no_leak_not_infix r _ Hinf'); reflexivity.
    + cbn [err_of_single].
      destruct rt as [[]| | | | |];
        cbn [client_of_router client_of impl_of c_status c_completed c_body raw_of body_obj negb orb andb];
        rewrite Z.eqb_refl; reflexivity.
    + cbn [err_of_single].
      destruct rt as [[]| | | | |];
        cbn [client_of_router client_of impl_of List.length Nat.eqb negb andb orb p_data p_complete
             c_status c_completed c_body body_obj raw_of str_mem];
        rewrite details_ok_model; reflexivity.
Qed.

(* a declared fallback (static data that applies to failed requests) replaces the 500 *)
Lemma static_fallback_refutes_500 :
  exists epx x r,
    status_mode_raw x = MDefault /\ ok_status (r_code r) = false /\
    c_status (client_endpoint (RGin false) [] epx (backend_of_raw (x, r, None)) []) = 200%Z.
Proof.
  exists [(ns_proxy, JObj [("static", JObj [("strategy", JStr "errored"); ("data", JObj [("fallback", JBool true)])])])],
         [], {| r_code := 503; r_body := "down"; r_enc := "text/plain" |}.
  vm_compute. repeat split.
Qed.
