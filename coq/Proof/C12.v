Require Import Verif.Common.Base Verif.Common.Json Verif.Common.JsonFacts.
Require Import Verif.Model.C12 Verif.Spec.C12.

Lemma ok_status_iff c : ok_status c = true <-> c = 200%Z \/ c = 201%Z.
Proof. unfold ok_status. rewrite orb_true_iff, !Z.eqb_eq. tauto. Qed.

Lemma classify_use_iff m r : classify m r = Use <-> r_code r = 200%Z \/ r_code r = 201%Z.
Proof.
  unfold classify. rewrite <- ok_status_iff.
  destruct (ok_status (r_code r)); [tauto|]. destruct m; split; discriminate.
Qed.

(* 200/201: decoded and used *)
Lemma used_when_ok m r d :
  ok_status (r_code r) = true ->
  http_proxy_outcome m r (Some d) = (Some {| p_data := d; p_complete := true; p_status := 0 |}, ENone).
Proof. intros H. unfold http_proxy_outcome, classify. rewrite H. reflexivity. Qed.

(* default mode, other status: the outcome is one fixed error value, whatever the reply *)
Lemma default_fails m r d :
  ok_status (r_code r) = false -> m = MDefault ->
  http_proxy_outcome m r d = (None, EInvalidStatus).
Proof. intros H ->. unfold http_proxy_outcome, classify. rewrite H. reflexivity. Qed.

Lemma default_sole_backend i r d :
  ok_status (r_code r) = false ->
  client_single i MDefault r d =
  {| c_status := 500; c_completed := "false";
     c_body := match i with Gin => BRaw "" | Mux => BRaw ("invalid status code" ++ nl) end |}.
Proof.
  intros H. unfold client_single. rewrite (default_fails MDefault r d H eq_refl).
  destruct i; reflexivity.
Qed.

(* non-interference form of "none of its body reaches the client" *)
Lemma no_body_leak i r r' d d' :
  ok_status (r_code r) = false -> ok_status (r_code r') = false ->
  client_single i MDefault r d = client_single i MDefault r' d'.
Proof. intros H H'. rewrite !default_sole_backend by assumption. reflexivity. Qed.

Lemma error_code_mode i r d :
  ok_status (r_code r) = false ->
  c_status (client_single i MErrorCode r d) = r_code r /\
  c_completed (client_single i MErrorCode r d) = "false".
Proof.
  intros H. unfold client_single, http_proxy_outcome, classify. rewrite H.
  destruct i; simpl; auto.
Qed.

Lemma details_mode n r d :
  ok_status (r_code r) = false ->
  http_proxy_outcome (MDetails n) r d =
  (Some {| p_data := [(("error_" ++ n)%string, error_object (r_code r) (r_body r) (r_enc r))];
           p_complete := false; p_status := r_code r |}, ENone).
Proof. intros H. unfold http_proxy_outcome, classify. rewrite H. reflexivity. Qed.

Lemma details_ok_model n r :
  details_ok_b n r [(("error_" ++ n)%string, error_object (r_code r) (r_body r) (r_enc r))] = true.
Proof.
  unfold details_ok_b. cbn [lookup]. rewrite str_eqb_refl.
  unfold error_object. cbn [lookup app].
  change (str_eqb "http_status_code" "http_status_code") with true. cbn iota.
  rewrite str_eqb_refl. cbn [andb].
  change (str_eqb "http_body" "http_status_code") with false. cbn iota.
  destruct (str_eqb (r_body r) "") eqn:E.
  - cbn [app]. destruct (str_eqb (r_enc r) ""); reflexivity.
  - cbn [app lookup].
    change (str_eqb "http_body" "http_body") with true. cbn iota.
    apply str_eqb_refl.
Qed.

(* mode selection *)
Lemma mode_selection details code :
  status_mode details code =
  match details with
  | VStr s => if str_eqb s "" then MDefault else MDetails s
  | VAbsent => match code with VBool true => MErrorCode | _ => MDefault end
  | _ => MDefault
  end.
Proof. destruct details; reflexivity. Qed.

(* the model meets the boolean form of the property on every input *)
Lemma single_meets_spec i m r d :
  match d with Some dd => wfj (JObj dd) = true | None => True end ->
  is_infix (r_body r) ("invalid status code" ++ nl) = false ->
  spec_single_b m r d (client_single i m r d) (raw_of (client_single i m r d)) = true.
Proof.
  intros Hwf Hinf. unfold spec_single_b.
  destruct (ok_status (r_code r)) eqn:Hok.
  - destruct d as [dd|].
    + unfold client_single. rewrite used_when_ok by assumption.
      destruct dd as [|kv dd'].
      * destruct i; reflexivity.
      * assert (E : obj_eqb (kv :: dd') (kv :: dd') = true) by (apply obj_eqb_refl; exact Hwf).
        destruct i; cbn - [obj_eqb]; rewrite E; reflexivity.
    + unfold client_single, http_proxy_outcome, classify. rewrite Hok. destruct i; reflexivity.
  - destruct m as [| |n].
    + rewrite default_sole_backend by assumption. cbn [c_status c_completed].
      unfold no_leak_b, raw_of. cbn [c_body].
      destruct i.
      * assert (E : is_infix (r_body r) "" = false).
        { destruct (r_body r) as [|a s]; [simpl in Hinf; discriminate|reflexivity]. }
        rewrite E. cbn. apply orb_true_r.
      * rewrite Hinf. cbn. apply orb_true_r.
    + destruct (error_code_mode i r d Hok) as [H1 H2]. rewrite H1, H2.
      rewrite Z.eqb_refl. reflexivity.
    + unfold client_single. rewrite details_mode by assumption.
      destruct i; cbn [client_of List.length Nat.eqb negb p_data p_complete andb c_completed body_obj c_body];
        rewrite details_ok_model; reflexivity.
Qed.

(* several backends: a failing default-mode backend contributes nothing, whatever it sent *)
Lemma multi_failed_default_invisible i pre post r r' d d' :
  ok_status (r_code r) = false -> ok_status (r_code r') = false ->
  client_multi i (pre ++ (MDefault, r, d) :: post) =
  client_multi i (pre ++ (MDefault, r', d') :: post).
Proof.
  intros H H'. unfold client_multi. rewrite !map_app. cbn [map].
  rewrite (default_fails MDefault r d H eq_refl), (default_fails MDefault r' d' H' eq_refl).
  reflexivity.
Qed.

Lemma merge_outs_incomplete outs :
  existsb (fun o => match fst o with None => true | Some _ => false end) outs = true ->
  match fst (merge_outs outs) with Some p => p_complete p = false | None => True end.
Proof.
  intros H. unfold merge_outs. rewrite H.
  destruct (flat_map _ outs); cbn; [exact I|]. apply andb_false_r.
Qed.

Lemma multi_incomplete i ms m r d :
  In (m, r, d) ms -> ok_status (r_code r) = false -> m = MDefault \/ m = MErrorCode ->
  c_completed (client_multi i ms) = "false".
Proof.
  intros Hin Hok Hm. unfold client_multi.
  set (outs := map _ ms).
  assert (Hex : existsb (fun o => match fst o with None => true | Some _ => false end) outs = true).
  { apply existsb_exists. exists (http_proxy_outcome m r d). split.
    - unfold outs. apply in_map_iff. exists (m, r, d). split; [reflexivity|exact Hin].
    - unfold http_proxy_outcome, classify. rewrite Hok. destruct Hm; subst m; reflexivity. }
  pose proof (merge_outs_incomplete outs Hex) as Hc.
  destruct (merge_outs outs) as [resp anyerr]. cbn [fst] in Hc.
  destruct resp as [p|]; destruct i; unfold client_of; cbn [c_completed].
  - rewrite Hc. rewrite andb_false_r. destruct anyerr; reflexivity.
  - rewrite Hc. rewrite andb_false_r.
    destruct (negb (Nat.eqb (List.length (p_data p)) 0)); [reflexivity|]. destruct anyerr; reflexivity.
  - destruct anyerr; reflexivity.
  - cbn. destruct anyerr; reflexivity.
Qed.

(* z_lit is the decimal text on the whole range of HTTP status codes *)
From Coq Require Import DecimalString.
Definition dec_text (z : Z) : string := NilZero.string_of_int (Z.to_int z).
Definition range (lo : Z) (n : nat) : list Z := map (fun i => (lo + Z.of_nat i)%Z) (seq 0 n).
Lemma z_lit_decimal : forallb (fun c => str_eqb (z_lit c) (dec_text c)) (range 100 500) = true.
Proof. vm_compute. reflexivity. Qed.

(* ======================================================================================
   Extension: raw extra_config, endpoint stages, routers (see Model/C12.v, second part)
   ====================================================================================== *)
From Coq Require Import DecimalZ DecimalPos.

(* ---------- mode selection from the raw map ---------- *)
Lemma status_mode_raw_digest extra :
  status_mode_raw extra =
  match lookup ns_http extra with
  | Some (JObj m) => status_mode (cfgval_of (lookup key_details m)) (cfgval_of (lookup key_code m))
  | _ => MDefault
  end.
Proof.
  unfold status_mode_raw, status_mode, cfgval_of.
  destruct (lookup ns_http extra) as [[| | | | |m|]|]; try reflexivity.
  destruct (lookup key_details m) as [[| | | | | |]|]; try reflexivity.
  destruct (lookup key_code m) as [[|[]| | | | |]|]; reflexivity.
Qed.

Lemma raw_error_code_iff extra :
  status_mode_raw extra = MErrorCode <->
  exists m, lookup ns_http extra = Some (JObj m) /\ lookup key_details m = None /\
            lookup key_code m = Some (JBool true).
Proof.
  unfold status_mode_raw. split.
  - destruct (lookup ns_http extra) as [[| | | | |m|]|] eqn:E1; try discriminate.
    destruct (lookup key_details m) as [[| | |s| | |]|] eqn:E2; try discriminate.
    + destruct (str_eqb s ""); discriminate.
    + destruct (lookup key_code m) as [[|[]| | | | |]|] eqn:E3; try discriminate.
      intros _. exists m. repeat split; assumption.
  - intros (m & -> & -> & ->). reflexivity.
Qed.

Lemma raw_details_iff extra n :
  status_mode_raw extra = MDetails n <->
  exists m, lookup ns_http extra = Some (JObj m) /\ lookup key_details m = Some (JStr n) /\ n <> "".
Proof.
  unfold status_mode_raw. split.
  - destruct (lookup ns_http extra) as [[| | | | |m|]|] eqn:E1; try discriminate.
    destruct (lookup key_details m) as [[| | |s| | |]|] eqn:E2; try discriminate.
    + destruct (str_eqb s "") eqn:E; [discriminate|]. intros [= <-]. exists m. repeat split; try assumption.
      apply str_eqb_neq. exact E.
    + destruct (lookup key_code m) as [[|[]| | | | |]|]; discriminate.
  - intros (m & -> & -> & Hn). apply str_eqb_neq in Hn. rewrite Hn. reflexivity.
Qed.

Lemma raw_default_iff extra :
  status_mode_raw extra = MDefault <->
  ~ (exists m, lookup ns_http extra = Some (JObj m) /\ lookup key_details m = None /\
               lookup key_code m = Some (JBool true)) /\
  ~ (exists m n, lookup ns_http extra = Some (JObj m) /\ lookup key_details m = Some (JStr n) /\ n <> "").
Proof.
  split.
  - intros H. split.
    + intros Hc. apply raw_error_code_iff in Hc. congruence.
    + intros (m & n & Hd). assert (status_mode_raw extra = MDetails n) by (apply raw_details_iff; eauto).
      congruence.
  - intros [H1 H2]. destruct (status_mode_raw extra) as [| |n] eqn:E; [reflexivity| |].
    + exfalso. apply H1. apply raw_error_code_iff. exact E.
    + exfalso. apply H2. apply raw_details_iff in E. destruct E as (m & E). exists m, n. exact E.
Qed.

(* ---------- any other status: failed, in every mode; the decoded body is never used ---------- *)
Lemma other_status_fails m r d :
  ok_status (r_code r) = false ->
  http_proxy_outcome m r d =
  match m with
  | MDefault => (None, EInvalidStatus)
  | MErrorCode => (None, ECode (r_code r) (r_body r) (r_enc r))
  | MDetails n =>
      (Some {| p_data := [(("error_" ++ n)%string, error_object (r_code r) (r_body r) (r_enc r))];
               p_complete := false; p_status := r_code r |}, ENone)
  end.
Proof. intros H. unfold http_proxy_outcome, classify. rewrite H. destruct m; reflexivity. Qed.

Lemma undecodable_fails m r :
  ok_status (r_code r) = true -> http_proxy_outcome m r None = (None, EDecode).
Proof. intros H. unfold http_proxy_outcome, classify. rewrite H. reflexivity. Qed.

Lemma empty_body_error_object c :
  error_object c "" "" = JObj [("http_status_code", JNum (z_lit c))].
Proof. reflexivity. Qed.

(* ---------- decimal text ---------- *)
Lemma z_lit_injective a b : z_lit a = z_lit b -> a = b.
Proof.
  unfold z_lit. intros H.
  assert (Hn : forall z, Z.to_int z <> Decimal.Pos Decimal.Nil /\ Z.to_int z <> Decimal.Neg Decimal.Nil).
  { intros z. destruct z; cbn; split; try discriminate;
      intros E; injection E as E; revert E; apply DecimalPos.Unsigned.to_uint_nonnil. }
  assert (E : Some (Z.to_int a) = Some (Z.to_int b)).
  { rewrite <- (NilZero.isi (Z.to_int a)) by apply Hn.
    rewrite <- (NilZero.isi (Z.to_int b)) by apply Hn. now rewrite H. }
  injection E as E. apply DecimalZ.to_int_inj. exact E.
Qed.

Lemma z_lit3_agrees : forallb (fun c => str_eqb (z_lit3 c) (z_lit c)) (range 0 1000) = true.
Proof. vm_compute. reflexivity. Qed.

(* ---------- the endpoint seen as a function of the backends' outcomes ---------- *)
Definition outcome (b : backend) : pout := let '(m, r, d) := b in http_proxy_outcome m r d.

Definition merged_out (outs : list pout) : eout :=
  let '(resp, anyerr) := merge_outs outs in
  let texts := flat_map (fun o => match snd o with ENone => [] | e => [err_text e] end) outs in
  EOut resp (if anyerr then Some (500%Z, join_nl texts) else None).

Definition outs_out (epx : obj) (o0 : pout) (orest : list pout) : eout :=
  static_stage (static_cfg epx)
    (match orest with
     | [] => EOut (fst o0) (err_of_single (snd o0))
     | _ => flat_stage (flatmap_active epx) (merged_out (o0 :: orest))
     end).

Lemma endpoint_out_outs epx b0 rest :
  endpoint_out epx b0 rest = outs_out epx (outcome b0) (map outcome rest).
Proof.
  unfold endpoint_out, outs_out. f_equal. destruct rest as [|b1 rest].
  - destruct b0 as [[m r] d]. cbn [map single_out outcome].
    destruct (http_proxy_outcome m r d); reflexivity.
  - reflexivity.
Qed.

(* a failing default-mode backend yields one fixed outcome *)
Lemma outcome_default_fixed x r d :
  status_mode_raw x = MDefault -> ok_status (r_code r) = false ->
  outcome (backend_of_raw (x, r, d)) = (None, EInvalidStatus).
Proof. intros Hm Hok. cbn. rewrite Hm. apply (default_fails MDefault r d Hok eq_refl). Qed.

Definition client_endpoint_l (rt : router) (prior : list string) (epx : obj) (ms : list backend) : option cobs :=
  match ms with
  | [] => None
  | b0 :: rest => Some (client_endpoint rt prior epx b0 rest)
  end.

Lemma client_endpoint_l_outs rt prior epx ms ms' :
  map outcome ms = map outcome ms' -> client_endpoint_l rt prior epx ms = client_endpoint_l rt prior epx ms'.
Proof.
  destruct ms as [|b0 rest], ms' as [|b0' rest']; cbn [map]; try discriminate; [reflexivity|].
  intros [= H0 Hr]. unfold client_endpoint_l, client_endpoint.
  rewrite !endpoint_out_outs, H0, Hr. reflexivity.
Qed.

(* default mode: the client observation does not depend on what the failing backend sent *)
Lemma ep_default_independent rt prior epx pre post x x' r r' d d' :
  status_mode_raw x = MDefault -> status_mode_raw x' = MDefault ->
  ok_status (r_code r) = false -> ok_status (r_code r') = false ->
  client_endpoint_l rt prior epx (map backend_of_raw (pre ++ (x, r, d) :: post)) =
  client_endpoint_l rt prior epx (map backend_of_raw (pre ++ (x', r', d') :: post)).
Proof.
  intros Hx Hx' Hr Hr'. apply client_endpoint_l_outs.
  rewrite !map_app. cbn [map]. rewrite !outcome_default_fixed by assumption. reflexivity.
Qed.

(* ---------- static stage facts ---------- *)
Lemma In_remove {V} k k' (v : V) m : k <> k' -> In (k, v) m -> In (k, v) (remove k' m).
Proof.
  intros Hne. induction m as [|[k0 v0] m IH]; cbn; [tauto|].
  intros [E|H].
  - injection E as -> ->. destruct (str_eqb k' k) eqn:Ek.
    + apply str_eqb_eq in Ek. congruence.
    + left. reflexivity.
  - destruct (str_eqb k' k0); [apply IH; exact H | right; apply IH; exact H].
Qed.

Lemma In_overlay data : forall base k v,
  In (k, v) base -> ~ In k (keys data) -> In (k, v) (overlay data base).
Proof.
  unfold overlay. induction data as [|[k0 v0] data IH]; intros base k v Hin Hk; cbn; [exact Hin|].
  apply IH.
  - cbn. right. apply In_remove; [|exact Hin]. intros ->. apply Hk. left. reflexivity.
  - intros H. apply Hk. right. exact H.
Qed.

Lemma overlay_nonempty data : forall base, base <> [] -> overlay data base <> [].
Proof.
  unfold overlay. induction data as [|[k0 v0] data IH]; intros base Hb; cbn; [exact Hb|].
  apply IH. unfold set. discriminate.
Qed.

Lemma static_stage_payload st p err :
  exists p', static_stage st (EOut (Some p) err) = EOut (Some p') err /\
             p_complete p' = p_complete p /\
             (p_data p <> [] -> p_data p' <> []) /\
             (forall k v, In (k, v) (p_data p) -> ~ In k (static_keys st) -> In (k, v) (p_data p')).
Proof.
  destruct st as [[n data]|]; cbn [static_stage static_keys].
  - destruct (static_match n (Some p) match err with Some _ => true | None => false end).
    + eexists. split; [reflexivity|]. cbn. split; [reflexivity|]. split.
      * apply overlay_nonempty.
      * intros k v. apply In_overlay.
    + exists p. repeat split; auto.
  - exists p. repeat split; auto.
Qed.

(* ---------- merger facts ---------- *)
Definition flagged (outs : list pout) : bool :=
  existsb (fun o => match fst o with None => true | Some p => negb (p_complete p) end) outs.

Definition payloads_of (outs : list pout) : list presp :=
  flat_map (fun o : pout => match fst o with Some p => [p] | None => [] end) outs.
Definition anyerr_of (outs : list pout) : bool :=
  existsb (fun o : pout => match fst o with None => true | Some _ => false end) outs.

Lemma merge_outs_eq outs :
  merge_outs outs =
  match payloads_of outs with
  | [] => (None, anyerr_of outs)
  | _ => (Some {| p_data := flat_map p_data (payloads_of outs);
                  p_complete := forallb p_complete (payloads_of outs) && negb (anyerr_of outs);
                  p_status := 0 |}, anyerr_of outs)
  end.
Proof. reflexivity. Qed.

Lemma merge_outs_payload outs p0 e0 :
  In (Some p0, e0) outs ->
  exists p, fst (merge_outs outs) = Some p /\
            (forall k v, In (k, v) (p_data p0) -> In (k, v) (p_data p)) /\
            (flagged outs = true -> p_complete p = false).
Proof.
  intros Hin. rewrite merge_outs_eq.
  assert (Hp : In p0 (payloads_of outs)).
  { unfold payloads_of. apply in_flat_map. exists (Some p0, e0). split; [exact Hin|]. cbn. auto. }
  destruct (payloads_of outs) as [|q qs] eqn:Epay; [destruct Hp|].
  eexists. split; [reflexivity|]. cbn [p_data p_complete]. split.
  - intros k v Hkv. apply in_flat_map. exists p0. split; assumption.
  - intros Hf. unfold flagged in Hf. apply existsb_exists in Hf. destruct Hf as ([resp e] & Ho & Hc).
    cbn [fst] in Hc. destruct resp as [p|].
    + assert (Hq : In p (q :: qs)).
      { rewrite <- Epay. unfold payloads_of. apply in_flat_map. exists (Some p, e). split; [exact Ho|]. cbn. auto. }
      assert (Hfa : forallb p_complete (q :: qs) = false).
      { destruct (forallb p_complete (q :: qs)) eqn:F; [|reflexivity].
        rewrite forallb_forall in F. rewrite (F p Hq) in Hc. discriminate. }
      rewrite Hfa. reflexivity.
    + assert (Ha : anyerr_of outs = true).
      { unfold anyerr_of. apply existsb_exists. exists (None, e). split; [exact Ho|reflexivity]. }
      rewrite Ha. apply andb_false_r.
Qed.

Lemma merge_outs_none outs :
  outs <> [] -> fst (merge_outs outs) = None -> snd (merge_outs outs) = true.
Proof.
  intros Hne. rewrite merge_outs_eq.
  destruct (payloads_of outs) eqn:E; cbn [fst snd]; [|discriminate].
  intros _. destruct outs as [|[resp e] outs]; [congruence|].
  cbn in E. destruct resp as [p|]; [discriminate|]. reflexivity.
Qed.

(* the endpoint never dereferences a nil response *)
Lemma outs_out_no_panic epx (o0 : pout) (orest : list pout) : outs_out epx o0 orest <> EPanic.
Proof.
  unfold outs_out.
  assert (H : forall st x, x <> EPanic -> static_stage st x <> EPanic).
  { intros [[n data]|] [resp err|] Hx; cbn; try assumption; try discriminate.
    destruct (static_match _ _ _); discriminate. }
  apply H. destruct orest as [|o1 orest]; [discriminate|].
  unfold merged_out.
  pose proof (merge_outs_none (o0 :: o1 :: orest)) as Hn.
  destruct (merge_outs (o0 :: o1 :: orest)) as [resp anyerr]. cbn [fst snd] in Hn.
  unfold flat_stage. destruct (flatmap_active epx); [|discriminate].
  destruct resp as [p|].
  - destruct anyerr; discriminate.
  - rewrite Hn by (discriminate || reflexivity). discriminate.
Qed.

Lemma endpoint_no_panic epx b0 rest : endpoint_out epx b0 rest <> EPanic.
Proof. rewrite endpoint_out_outs. apply outs_out_no_panic. Qed.

Lemma merged_out_payload (outs : list pout) p0 e0 :
  In (Some p0, e0) outs ->
  exists p err, merged_out outs = EOut (Some p) err /\
    (forall k v, In (k, v) (p_data p0) -> In (k, v) (p_data p)) /\
    (flagged outs = true -> p_complete p = false).
Proof.
  intros Hin. destruct (merge_outs_payload outs p0 e0 Hin) as (p & Ep & Hi & Hf).
  unfold merged_out. destruct (merge_outs outs) as [resp anyerr]. cbn [fst] in Ep. subst resp.
  eexists. eexists. split; [reflexivity|]. split; assumption.
Qed.

(* a payload that reached the merger (or the sole backend's payload) reaches the router *)
Lemma outs_out_payload epx (o0 : pout) (orest : list pout) p0 (e0 : perr) :
  In (Some p0, e0) (o0 :: orest) -> p_data p0 <> [] -> (orest = [] -> e0 = ENone) ->
  exists p err, outs_out epx o0 orest = EOut (Some p) err /\ p_data p <> [] /\
    (forall k v, In (k, v) (p_data p0) -> ~ In k (static_keys (static_cfg epx)) -> In (k, v) (p_data p)) /\
    (flagged (o0 :: orest) = true -> p_complete p = false).
Proof.
  intros Hin Hne He. unfold outs_out. destruct orest as [|o1 orest].
  - destruct Hin as [->|[]]. rewrite (He eq_refl). cbn [fst snd err_of_single].
    destruct (static_stage_payload (static_cfg epx) p0 None) as (p' & E & Hc & Hn & Hi).
    exists p', None. split; [exact E|]. split; [auto|]. split; [exact Hi|].
    unfold flagged. cbn. rewrite orb_false_r. intros Hf. rewrite Hc.
    destruct (p_complete p0); [discriminate|reflexivity].
  - destruct (merged_out_payload (o0 :: o1 :: orest) p0 e0 Hin) as (p & err & Em & Hi & Hf).
    rewrite Em.
    assert (Hfl : flat_stage (flatmap_active epx) (EOut (Some p) err) = EOut (Some p) err).
    { unfold flat_stage. destruct (flatmap_active epx); [|reflexivity]. destruct err; reflexivity. }
    rewrite Hfl.
    destruct (static_stage_payload (static_cfg epx) p err) as (p' & E & Hc & Hn & Hi').
    exists p', err. split; [exact E|]. split.
    + apply Hn. destruct (p_data p0) as [|[k v] l] eqn:Ed; [congruence|].
      intros Hnil. specialize (Hi k v (or_introl eq_refl)). rewrite Hnil in Hi. destruct Hi.
    + split.
      * intros k v Hkv Hk. apply Hi'; [apply Hi; exact Hkv|exact Hk].
      * intros Hfg. rewrite Hc. apply Hf. exact Hfg.
Qed.

(* what every router does with a non-empty response *)
Lemma client_of_router_payload rt prior p err :
  p_data p <> [] ->
  client_of_router rt prior (Some p) err =
  {| c_status := 200; c_completed := if p_complete p then "true" else "false";
     c_body := BJson (JObj (p_data p)) |}.
Proof.
  intros Hne.
  assert (Hl : negb (Nat.eqb (List.length (p_data p)) 0) = true).
  { destruct (p_data p); [congruence|reflexivity]. }
  destruct rt as [[]| | | | |]; unfold client_of_router, client_of, impl_of; rewrite Hl; cbn [andb];
    destruct err as [[? ?]|]; reflexivity.
Qed.

Lemma outcome_failed_flagged b : b_failed b = true ->
  match fst (outcome b) with None => true | Some p => negb (p_complete p) end = true.
Proof.
  destruct b as [[m r] d]. cbn [b_failed outcome]. intros H.
  destruct (ok_status (r_code r)) eqn:Hok.
  - destruct d as [dd|]; [discriminate|]. rewrite undecodable_fails by assumption. reflexivity.
  - rewrite other_status_fails by assumption. destruct m; reflexivity.
Qed.

(* healthy siblings: their data reaches the client, flagged incomplete *)
Lemma ep_siblings_data rt prior epx b0 rest m r dd bf :
  In (m, r, Some dd) (b0 :: rest) -> ok_status (r_code r) = true -> dd <> [] ->
  In bf (b0 :: rest) -> b_failed bf = true ->
  let o := client_endpoint rt prior epx b0 rest in
  c_status o = 200%Z /\ c_completed o = "false" /\
  exists body, c_body o = BJson (JObj body) /\
    forall k v, In (k, v) dd -> ~ In k (static_keys (static_cfg epx)) -> In (k, v) body.
Proof.
  intros Hin Hok Hdd Hbf Hf o. subst o. unfold client_endpoint. rewrite endpoint_out_outs.
  set (p0 := {| p_data := dd; p_complete := true; p_status := 0 |}).
  assert (Hin' : In (Some p0, ENone) (outcome b0 :: map outcome rest)).
  { change (outcome b0 :: map outcome rest) with (map outcome (b0 :: rest)).
    apply in_map_iff. exists (m, r, Some dd). split; [|exact Hin]. cbn [outcome]. apply used_when_ok. exact Hok. }
  destruct (outs_out_payload epx (outcome b0) (map outcome rest) p0 ENone Hin' Hdd (fun _ => eq_refl))
    as (p & err & E & Hne & Hi & Hc).
  rewrite E, client_of_router_payload by exact Hne.
  assert (Hfl : flagged (outcome b0 :: map outcome rest) = true).
  { unfold flagged. apply existsb_exists. exists (outcome bf). split.
    - change (outcome b0 :: map outcome rest) with (map outcome (b0 :: rest)). apply in_map. exact Hbf.
    - apply outcome_failed_flagged. exact Hf. }
  rewrite (Hc Hfl). cbn. repeat split. exists (p_data p). split; [reflexivity|]. exact Hi.
Qed.

(* return_error_details: error_<name> with the status and the body, flagged incomplete *)
Lemma ep_details rt prior epx b0 rest n r d :
  In (MDetails n, r, d) (b0 :: rest) -> ok_status (r_code r) = false ->
  ~ In ("error_" ++ n)%string (static_keys (static_cfg epx)) ->
  let o := client_endpoint rt prior epx b0 rest in
  c_status o = 200%Z /\ c_completed o = "false" /\
  exists body, c_body o = BJson (JObj body) /\
    In (("error_" ++ n)%string, error_object (r_code r) (r_body r) (r_enc r)) body.
Proof.
  intros Hin Hok Hk o. subst o. unfold client_endpoint. rewrite endpoint_out_outs.
  set (p0 := {| p_data := [(("error_" ++ n)%string, error_object (r_code r) (r_body r) (r_enc r))];
                p_complete := false; p_status := r_code r |}).
  assert (Hin' : In (Some p0, ENone) (outcome b0 :: map outcome rest)).
  { change (outcome b0 :: map outcome rest) with (map outcome (b0 :: rest)).
    apply in_map_iff. exists (MDetails n, r, d). split; [|exact Hin]. cbn [outcome]. apply details_mode. exact Hok. }
  destruct (outs_out_payload epx (outcome b0) (map outcome rest) p0 ENone Hin') as (p & err & E & Hne & Hi & Hc);
    [discriminate|reflexivity|].
  rewrite E, client_of_router_payload by exact Hne.
  assert (Hfl : flagged (outcome b0 :: map outcome rest) = true).
  { unfold flagged. apply existsb_exists. exists (Some p0, ENone). split; [exact Hin'|reflexivity]. }
  rewrite (Hc Hfl). cbn. repeat split. exists (p_data p). split; [reflexivity|].
  apply Hi; [left; reflexivity|exact Hk].
Qed.

(* ---------- a sole backend ---------- *)
Lemma static_stage_failure st (err : Z * string) :
  static_on_failure st = false -> static_stage st (EOut None (Some err)) = EOut None (Some err).
Proof.
  destruct st as [[n data]|]; [|reflexivity]. cbn [static_on_failure static_stage]. intros H.
  apply negb_false_iff, orb_true_iff in H. destruct H as [H|H]; apply str_eqb_eq in H; subst n; reflexivity.
Qed.

Lemma ep_sole_500 rt prior epx x r d :
  status_mode_raw x = MDefault -> ok_status (r_code r) = false ->
  static_on_failure (static_cfg epx) = false ->
  client_endpoint rt prior epx (backend_of_raw (x, r, d)) [] =
  {| c_status := 500; c_completed := "false";
     c_body := match rt with
               | RGin false => BRaw ""
               | RGin true => BRaw "invalid status code"
               | _ => BRaw ("invalid status code" ++ nl)
               end |}.
Proof.
  intros Hm Hok Hst. unfold client_endpoint, endpoint_out, backend_of_raw, single_out. rewrite Hm.
  rewrite (default_fails MDefault r d Hok eq_refl). cbn [err_of_single err_text].
  rewrite static_stage_failure by exact Hst.
  destruct rt as [[]| | | | |]; reflexivity.
Qed.

Lemma ep_error_code_exact rt prior epx x r d :
  status_mode_raw x = MErrorCode -> ok_status (r_code r) = false ->
  static_on_failure (static_cfg epx) = false ->
  c_status (client_endpoint rt prior epx (backend_of_raw (x, r, d)) []) = r_code r /\
  c_completed (client_endpoint rt prior epx (backend_of_raw (x, r, d)) []) = "false".
Proof.
  intros Hm Hok Hst. unfold client_endpoint, endpoint_out, backend_of_raw, single_out. rewrite Hm.
  rewrite other_status_fails by exact Hok. cbn [err_of_single].
  rewrite static_stage_failure by exact Hst.
  destruct rt as [[]| | | | |]; split; reflexivity.
Qed.

(* 200/201: decoded and used, whatever the mode *)
Lemma ep_ok_used rt prior epx x r dd :
  ok_status (r_code r) = true -> static_cfg epx = None ->
  client_endpoint rt prior epx (backend_of_raw (x, r, Some dd)) [] =
  {| c_status := 200;
     c_completed := if Nat.eqb (List.length dd) 0 then "false" else "true";
     c_body := BJson (JObj dd) |}.
Proof.
  intros Hok Hst. unfold client_endpoint, endpoint_out, backend_of_raw, single_out.
  rewrite used_when_ok by exact Hok. rewrite Hst. cbn [static_stage err_of_single].
  destruct dd as [|kv dd']; destruct rt as [[]| | | | |]; reflexivity.
Qed.

(* with static data declared: the data is still delivered, next to the declared keys *)
Lemma ep_ok_used_static rt prior epx x r dd :
  ok_status (r_code r) = true -> dd <> [] ->
  let o := client_endpoint rt prior epx (backend_of_raw (x, r, Some dd)) [] in
  c_status o = 200%Z /\ c_completed o = "true" /\
  exists body, c_body o = BJson (JObj body) /\
    forall k v, In (k, v) dd -> ~ In k (static_keys (static_cfg epx)) -> In (k, v) body.
Proof.
  intros Hok Hdd o. subst o. unfold client_endpoint, endpoint_out, backend_of_raw, single_out.
  rewrite used_when_ok by exact Hok. cbn [err_of_single].
  destruct (static_stage_payload (static_cfg epx) {| p_data := dd; p_complete := true; p_status := 0 |} None)
    as (p' & E & Hc & Hn & Hi).
  rewrite E, client_of_router_payload by (apply Hn; exact Hdd).
  rewrite Hc. cbn. repeat split. exists (p_data p'). split; [reflexivity|exact Hi].
Qed.

(* ---------- routers ---------- *)
Lemma prior_errors_irrelevant rt prior prior' epx b0 rest :
  client_endpoint rt prior epx b0 rest = client_endpoint rt prior' epx b0 rest.
Proof. reflexivity. Qed.

Definition mux_family (rt : router) : bool := match rt with RGin _ => false | _ => true end.

Lemma mux_family_agree rt prior epx b0 rest :
  mux_family rt = true ->
  client_endpoint rt prior epx b0 rest = client_endpoint RMux prior epx b0 rest.
Proof. destruct rt; [discriminate| | | | |]; reflexivity. Qed.

(* return_error_msg changes the body of a bare error reply only *)
Lemma return_error_msg_same_status prior epx b0 rest :
  c_status (client_endpoint (RGin true) prior epx b0 rest) = c_status (client_endpoint (RGin false) prior epx b0 rest) /\
  c_completed (client_endpoint (RGin true) prior epx b0 rest) = c_completed (client_endpoint (RGin false) prior epx b0 rest).
Proof.
  unfold client_endpoint. destruct (endpoint_out epx b0 rest) as [resp err|]; [|split; reflexivity].
  destruct resp as [p|], err as [[st txt]|]; split; reflexivity.
Qed.

Lemma client_endpoint_not_panicked rt prior epx b0 rest :
  client_endpoint rt prior epx b0 rest <> panicked.
Proof.
  unfold client_endpoint. pose proof (endpoint_no_panic epx b0 rest) as Hn.
  destruct (endpoint_out epx b0 rest) as [resp err|]; [|congruence].
  destruct rt as [[]| | | | |], resp as [p|], err as [[st txt]|]; cbn;
    unfold panicked; try discriminate;
    try (destruct (negb (Nat.eqb (List.length (p_data p)) 0) && p_complete p); discriminate);
    try (destruct (negb (Nat.eqb (List.length (p_data p)) 0)); cbn; try discriminate;
         destruct (p_complete p); discriminate).
Qed.

(* ---------- the model meets the endpoint oracle (sole backend, no static data) ---------- *)
Lemma is_prefix_app s : forall t u, is_prefix s t = true -> is_prefix s (t ++ u) = true.
Proof.
  induction s as [|a s IH]; intros t u H; [reflexivity|].
  destruct t as [|b t]; [discriminate|]. cbn in *. apply andb_true_iff in H as [H1 H2].
  rewrite H1. cbn. apply IH. exact H2.
Qed.

Lemma is_infix_app s : forall t u, is_infix s t = true -> is_infix s (t ++ u) = true.
Proof.
  induction t as [|b t IH]; intros u H.
  - cbn in H. rewrite orb_false_r in H. destruct s; [|discriminate]. destruct u; reflexivity.
  - cbn [is_infix] in H. apply orb_true_iff in H as [H|H].
    + pose proof (is_prefix_app s (String b t) u H) as Hp. cbn [append] in Hp |- *.
      cbn [is_infix]. rewrite Hp. reflexivity.
    + cbn [append is_infix]. rewrite (IH u H). apply orb_true_r.
Qed.

Lemma no_leak_empty r : no_leak_b r "" = true.
Proof.
  unfold no_leak_b. destruct (r_body r) as [|a s]; [reflexivity|]. cbn. apply orb_true_r.
Qed.

Lemma no_leak_not_infix r raw : is_infix (r_body r) raw = false -> no_leak_b r raw = true.
Proof. intros H. unfold no_leak_b. rewrite H. apply orb_true_r. Qed.

Lemma not_static_nil (d : obj) : not_static [] d = d.
Proof. unfold not_static. induction d as [|kv d IH]; [reflexivity|]. simpl. f_equal. exact IH. Qed.

Lemma carries_refl dd : wfj (JObj dd) = true -> carries_b dd dd = true.
Proof.
  intros H. pose proof (obj_eqb_refl dd H) as E. unfold obj_eqb in E. rewrite json_eqb_obj in E.
  apply andb_true_iff in E as [_ E]. exact E.
Qed.

Lemma ep_single_meets_oracle_c rt prior epx m r d :
  static_cfg epx = None ->
  (forall dd, d = Some dd -> ok_status (r_code r) = true -> wfj (JObj dd) = true) ->
  (m = MDefault -> ok_status (r_code r) = false ->
   is_infix (r_body r) ("invalid status code" ++ nl) = false) ->
  spec_endpoint_b rt epx (m, r, d) []
    (client_endpoint rt prior epx (m, r, d) [])
    (raw_of (client_endpoint rt prior epx (m, r, d) [])) = true.
Proof.
  intros Hst Hwf Hinf0.
  unfold spec_endpoint_b, client_endpoint, endpoint_out, single_out. rewrite Hst.
  cbn [static_stage static_keys static_on_failure forallb existsb b_failed].
  destruct (ok_status (r_code r)) eqn:Hok.
  - destruct d as [dd|].
    + rewrite used_when_ok by exact Hok. cbn [err_of_single]. rewrite not_static_nil.
      unfold spec_single_b. rewrite Hok.
      destruct dd as [|kv dd'].
      * destruct rt as [[]| | | | |]; reflexivity.
      * pose proof (carries_refl _ (Hwf _ eq_refl eq_refl)) as Hc. pose proof (obj_eqb_refl _ (Hwf _ eq_refl eq_refl)) as He.
        destruct rt as [[]| | | | |];
          cbn [client_of_router client_of impl_of List.length Nat.eqb negb andb orb p_data p_complete
               c_status c_completed c_body body_obj Z.eqb Pos.eqb str_eqb];
          rewrite Hc, He; reflexivity.
    + rewrite undecodable_fails by exact Hok. unfold spec_single_b. rewrite Hok.
      destruct rt as [[]| | | | |]; reflexivity.
  - rewrite other_status_fails by exact Hok. unfold spec_single_b. rewrite Hok.
    destruct m as [| |n].
    + pose proof (Hinf0 eq_refl eq_refl) as Hinf.
      assert (Hinf' : is_infix (r_body r) "invalid status code" = false).
      { destruct (is_infix (r_body r) "invalid status code") eqn:E; [|reflexivity].
        rewrite (is_infix_app _ _ nl E) in Hinf. discriminate. }
      cbn [err_of_single err_text].
      destruct rt as [[]| | | | |];
        cbn [client_of_router client_of impl_of c_status c_completed c_body raw_of body_obj negb orb andb];
        rewrite ?no_leak_empty, ?(no_leak_not_infix r _ Hinf), ?(no_leak_not_infix r _ Hinf'); reflexivity.
    + cbn [err_of_single].
      destruct rt as [[]| | | | |];
        cbn [client_of_router client_of impl_of c_status c_completed c_body raw_of body_obj negb orb andb];
        rewrite Z.eqb_refl; reflexivity.
    + cbn [err_of_single].
      destruct rt as [[]| | | | |];
        cbn [client_of_router client_of impl_of List.length Nat.eqb negb andb orb p_data p_complete
             c_status c_completed c_body body_obj raw_of str_mem];
        rewrite details_ok_model; reflexivity.
Qed.

Lemma ep_single_meets_oracle rt prior epx m r d :
  static_cfg epx = None ->
  match d with Some dd => wfj (JObj dd) = true | None => True end ->
  is_infix (r_body r) ("invalid status code" ++ nl) = false ->
  spec_endpoint_b rt epx (m, r, d) []
    (client_endpoint rt prior epx (m, r, d) [])
    (raw_of (client_endpoint rt prior epx (m, r, d) [])) = true.
Proof.
  intros Hst Hwf Hinf. apply ep_single_meets_oracle_c; auto.
  intros dd -> _. exact Hwf.
Qed.


(* a declared fallback (static data that applies to failed requests) replaces the 500 *)
Lemma static_fallback_refutes_500 :
  exists epx x r,
    status_mode_raw x = MDefault /\ ok_status (r_code r) = false /\
    c_status (client_endpoint (RGin false) [] epx (backend_of_raw (x, r, None)) []) = 200%Z.
Proof.
  exists [(ns_proxy, JObj [("static", JObj [("strategy", JStr "errored"); ("data", JObj [("fallback", JBool true)])])])],
         [], {| r_code := 503; r_body := "down"; r_enc := "text/plain" |}.
  vm_compute. repeat split.
Qed.

(* ======================================================================================
   The endpoint model meets the endpoint oracle for EVERY endpoint shape (n backends,
   flatmap / static stages, every router).
   ====================================================================================== *)
Definition texts_of (outs : list pout) : list string :=
  flat_map (fun o : pout => match snd o with ENone => [] | e => [err_text e] end) outs.

Definition base_resp (o0 : pout) (orest : list pout) : option presp :=
  match orest with [] => fst o0 | _ => fst (merge_outs (o0 :: orest)) end.

Definition base_err (o0 : pout) (orest : list pout) : option (Z * string) :=
  match orest with
  | [] => err_of_single (snd o0)
  | _ => if anyerr_of (o0 :: orest) then Some (500%Z, join_nl (texts_of (o0 :: orest))) else None
  end.

Definition is_some {A} (x : option A) : bool := match x with Some _ => true | None => false end.

Definition final_resp (st : option (string * obj)) (resp : option presp) (err : option (Z * string)) : option presp :=
  match st with
  | Some (name, data) =>
      if static_match name resp (match err with Some _ => true | None => false end) then
        let p := match resp with
                 | Some p => p
                 | None => {| p_data := []; p_complete := false; p_status := 0 |}
                 end in
        Some {| p_data := overlay data (p_data p); p_complete := p_complete p; p_status := p_status p |}
      else resp
  | None => resp
  end.

Lemma static_stage_final st resp err :
  static_stage st (EOut resp err) = EOut (final_resp st resp err) err.
Proof.
  destruct st as [[n data]|]; [|reflexivity]. cbn [static_stage final_resp].
  destruct (static_match n resp _); reflexivity.
Qed.

Lemma snd_merge_outs outs : snd (merge_outs outs) = anyerr_of outs.
Proof. rewrite merge_outs_eq. destruct (payloads_of outs); reflexivity. Qed.

Lemma outs_out_shape epx (o0 : pout) (orest : list pout) :
  outs_out epx o0 orest =
  EOut (final_resp (static_cfg epx) (base_resp o0 orest) (base_err o0 orest)) (base_err o0 orest).
Proof.
  unfold outs_out. rewrite <- static_stage_final. f_equal.
  destruct orest as [|o1 orest]; [reflexivity|].
  unfold base_resp, base_err, merged_out.
  pose proof (merge_outs_none (o0 :: o1 :: orest)) as Hn.
  pose proof (snd_merge_outs (o0 :: o1 :: orest)) as Hs.
  destruct (merge_outs (o0 :: o1 :: orest)) as [resp anyerr]. cbn [fst snd] in *. subst anyerr.
  fold (texts_of (o0 :: o1 :: orest)).
  unfold flat_stage. destruct (flatmap_active epx); [|reflexivity].
  destruct resp as [p|].
  - destruct (anyerr_of (o0 :: o1 :: orest)); reflexivity.
  - rewrite Hn by (discriminate || reflexivity). reflexivity.
Qed.

Lemma client_shape rt prior epx b0 rest :
  client_endpoint rt prior epx b0 rest =
  client_of_router rt prior
    (final_resp (static_cfg epx) (base_resp (outcome b0) (map outcome rest)) (base_err (outcome b0) (map outcome rest)))
    (base_err (outcome b0) (map outcome rest)).
Proof. unfold client_endpoint. rewrite endpoint_out_outs, outs_out_shape. reflexivity. Qed.

(* ---- association-list facts ---- *)
Lemma lookup_overlay data : forall (base : obj) k,
  ~ In k (keys data) -> lookup k (overlay data base) = lookup k base.
Proof.
  unfold overlay. induction data as [|[k0 v0] data IH]; intros base k Hk; cbn; [reflexivity|].
  rewrite IH by (intros H; apply Hk; right; exact H).
  apply lookup_set_neq. intros ->. apply Hk. left. reflexivity.
Qed.

Lemma nodup_lookup {V} (m : list (string * V)) : forall k v,
  nodup_keys m = true -> In (k, v) m -> lookup k m = Some v.
Proof.
  induction m as [|[k0 v0] m IH]; intros k v Hn Hin; [destruct Hin|].
  apply nodup_keys_cons in Hn as [Hnone Hn]. cbn [lookup]. destruct Hin as [E|Hin].
  - injection E as -> ->. rewrite str_eqb_refl. reflexivity.
  - destruct (str_eqb k k0) eqn:Ek.
    + apply str_eqb_eq in Ek. subst k0. exfalso.
      apply lookup_None_notin in Hnone. apply Hnone. unfold keys. apply in_map_iff. exists (k, v). auto.
    + apply IH; assumption.
Qed.

Lemma wf_member m k v : wfj (JObj m) = true -> In (k, v) m -> lookup k m = Some v /\ json_eqb v v = true.
Proof.
  intros Hwf Hin. apply wfj_obj_inv in Hwf as [Hn Hf]. split.
  - apply nodup_lookup; assumption.
  - apply json_eqb_refl. rewrite Forall_forall in Hf. apply (Hf (k, v) Hin).
Qed.

(* ---- the response before the static stage ---- *)
Lemma complete_eq outs :
  forallb p_complete (payloads_of outs) && negb (anyerr_of outs) = negb (flagged outs).
Proof.
  induction outs as [|[resp e] outs IH]; [reflexivity|].
  unfold payloads_of, anyerr_of, flagged in *. cbn [flat_map existsb fst]. destruct resp as [p|].
  - cbn [app forallb orb]. rewrite <- andb_assoc, IH. rewrite negb_orb, negb_involutive. reflexivity.
  - cbn [app orb negb]. rewrite andb_false_r. reflexivity.
Qed.

Lemma base_resp_some (o0 : pout) (orest : list pout) pb :
  base_resp o0 orest = Some pb ->
  p_data pb = flat_map p_data (payloads_of (o0 :: orest)) /\
  p_complete pb = negb (flagged (o0 :: orest)).
Proof.
  unfold base_resp. destruct orest as [|o1 orest].
  - destruct o0 as [resp e]. cbn [fst]. intros ->. unfold payloads_of, flagged. cbn.
    rewrite app_nil_r, orb_false_r, negb_involutive. split; reflexivity.
  - rewrite merge_outs_eq. pose proof (complete_eq (o0 :: o1 :: orest)) as C.
    destruct (payloads_of (o0 :: o1 :: orest)) eqn:E; cbn [fst]; [discriminate|].
    intros [= <-]. split; [reflexivity|exact C].
Qed.

Lemma base_resp_none (o0 : pout) (orest : list pout) :
  base_resp o0 orest = None -> payloads_of (o0 :: orest) = [].
Proof.
  unfold base_resp. destruct orest as [|o1 orest].
  - destruct o0 as [resp e]. cbn [fst]. intros ->. reflexivity.
  - rewrite merge_outs_eq. destruct (payloads_of (o0 :: o1 :: orest)); cbn [fst]; [reflexivity|discriminate].
Qed.

Lemma payload_in_base (outs : list pout) p0 e0 k v :
  In (Some p0, e0) outs -> In (k, v) (p_data p0) -> In (k, v) (flat_map p_data (payloads_of outs)).
Proof.
  intros Hin Hkv. apply in_flat_map. exists p0. split; [|exact Hkv].
  unfold payloads_of. apply in_flat_map. exists (Some p0, e0). split; [exact Hin|]. cbn. auto.
Qed.

Lemma base_err_text (o0 : pout) (orest : list pout) st txt :
  base_err o0 orest = Some (st, txt) -> txt = join_nl (texts_of (o0 :: orest)).
Proof.
  unfold base_err. destruct orest as [|o1 orest].
  - destruct o0 as [resp e]. cbn [snd]. destruct e; cbn; intros [= _ <-]; reflexivity.
  - destruct (anyerr_of (o0 :: o1 :: orest)); [|discriminate]. intros [= _ <-]. reflexivity.
Qed.

(* ---- the static stage, lookup form ---- *)
Lemma final_resp_some st resp err p :
  final_resp st resp err = Some p ->
  (exists pb, resp = Some pb /\ p_complete p = p_complete pb /\
              (p_data pb <> [] -> p_data p <> []) /\
              forall k, ~ In k (static_keys st) -> lookup k (p_data p) = lookup k (p_data pb)) \/
  (resp = None /\ p_complete p = false).
Proof.
  destruct st as [[n data]|]; cbn [final_resp static_keys].
  - destruct (static_match n resp _).
    + intros [= <-]. destruct resp as [pb|]; [left|right; split; reflexivity].
      exists pb. cbn. repeat split; [apply overlay_nonempty|]. intros k Hk. apply lookup_overlay. exact Hk.
    + intros ->. left. exists p. repeat split; auto.
  - intros ->. left. exists p. repeat split; auto.
Qed.

Lemma final_resp_of_some st pb err :
  exists p, final_resp st (Some pb) err = Some p.
Proof.
  destruct st as [[n data]|]; cbn [final_resp]; [|eauto].
  destruct (static_match n (Some pb) _); eauto.
Qed.

(* ---- what the routers do without a (non-empty) response ---- *)
Lemma client_nopayload rt prior resp err :
  (resp = None \/ exists p, resp = Some p /\ p_data p = []) ->
  let o := client_of_router rt prior resp err in
  c_completed o = "false" /\
  (raw_of o = "" \/ exists st txt, err = Some (st, txt) /\ (raw_of o = txt \/ raw_of o = (txt ++ nl)%string)).
Proof.
  intros [->|(p & -> & Hp)] o; subst o.
  - destruct rt as [[]| | | | |], err as [[st txt]|]; cbn; split; try reflexivity;
      try (left; reflexivity); right; exists st, txt; split; auto.
  - unfold client_of_router, client_of, impl_of. rewrite Hp.
    destruct rt as [[]| | | | |], err as [[st txt]|]; cbn; split; try reflexivity;
      try (left; reflexivity); right; exists st, txt; split; auto.
Qed.

Lemma b_failed_flag b :
  b_failed b = match fst (outcome b) with None => true | Some p => negb (p_complete p) end.
Proof.
  destruct b as [[m r] d]. cbn [b_failed outcome]. destruct (ok_status (r_code r)) eqn:Hok.
  - destruct d as [dd|]; [rewrite used_when_ok by exact Hok|rewrite undecodable_fails by exact Hok]; reflexivity.
  - rewrite other_status_fails by exact Hok. destruct m, d; reflexivity.
Qed.

Lemma anyfail_flagged ms : existsb b_failed ms = flagged (map outcome ms).
Proof.
  unfold flagged. induction ms as [|b ms IH]; [reflexivity|]. cbn [existsb map]. rewrite IH, b_failed_flag. reflexivity.
Qed.

(* ---- hypotheses of the general statement ---- *)
Definition ep_wf (b0 : backend) (rest : list backend) : Prop :=
  let outs := map outcome (b0 :: rest) in
  (* the merged document is well formed: the backends' keys are pairwise distinct *)
  wfj (JObj (flat_map p_data (payloads_of outs))) = true /\
  (* a failing default-mode backend's body is not, by coincidence, part of the error text *)
  forall r d, In (MDefault, r, d) (b0 :: rest) -> ok_status (r_code r) = false ->
    is_infix (r_body r) (join_nl (texts_of outs) ++ nl) = false.

Lemma details_ok_lookup n r body :
  lookup ("error_" ++ n)%string body = Some (error_object (r_code r) (r_body r) (r_enc r)) ->
  details_ok_b n r body = true.
Proof.
  intros H. pose proof (details_ok_model n r) as M. unfold details_ok_b in *. rewrite H.
  cbn [lookup] in M. rewrite str_eqb_refl in M. exact M.
Qed.

Section Meets.
  Variables (rt : router) (prior : list string) (epx : obj) (b0 : backend) (rest : list backend).
  Hypothesis Hwf : ep_wf b0 rest.

  Local Notation ms := (b0 :: rest).
  Local Notation outs := (map outcome (b0 :: rest)).
  Local Notation st := (static_cfg epx).
  Local Notation sk := (static_keys (static_cfg epx)).
  Local Notation br := (base_resp (outcome b0) (map outcome rest)).
  Local Notation be := (base_err (outcome b0) (map outcome rest)).
  Local Notation fr := (final_resp (static_cfg epx) (base_resp (outcome b0) (map outcome rest)) (base_err (outcome b0) (map outcome rest))).
  Local Notation o := (client_endpoint rt prior epx b0 rest).
  Local Notation base := (flat_map p_data (payloads_of (map outcome (b0 :: rest)))).

  Lemma o_shape : o = client_of_router rt prior fr be.
  Proof. apply client_shape. Qed.

  Lemma outs_eq : outcome b0 :: map outcome rest = outs.
  Proof. reflexivity. Qed.

  (* a non-empty payload of any backend makes the client answer 200 with a body that holds it *)
  Lemma payload_delivered p0 e0 :
    In (Some p0, e0) outs -> p_data p0 <> [] ->
    exists p, o = {| c_status := 200; c_completed := if negb (flagged outs) then "true" else "false";
                     c_body := BJson (JObj (p_data p)) |} /\
              forall k, ~ In k sk -> lookup k (p_data p) = lookup k base.
  Proof.
    intros Hin Hne.
    destruct br as [pb|] eqn:Ebr.
    - destruct (base_resp_some _ _ _ Ebr) as [Hd Hc]. rewrite outs_eq in Hd, Hc.
      destruct (final_resp_of_some st pb be) as [p Ep].
      destruct (final_resp_some _ _ _ _ Ep) as [(pb' & [= <-] & Hcp & Hn & Hl)|[[=] _]].
      assert (Hpb : p_data pb <> []).
      { rewrite Hd. destruct (p_data p0) as [|[k v] l] eqn:E0; [congruence|].
        intros Hnil. pose proof (payload_in_base outs p0 e0 k v Hin) as Hi. rewrite E0 in Hi.
        specialize (Hi (or_introl eq_refl)). rewrite Hnil in Hi. destruct Hi. }
      exists p. split.
      + rewrite o_shape. rewrite Ebr, Ep. rewrite client_of_router_payload by (apply Hn; exact Hpb).
        rewrite Hcp, Hc. reflexivity.
      + intros k Hk. rewrite (Hl k Hk), Hd. reflexivity.
    - exfalso. apply base_resp_none in Ebr. rewrite outs_eq in Ebr.
      assert (Hp : In p0 (payloads_of outs)).
      { unfold payloads_of. apply in_flat_map. exists (Some p0, e0). split; [exact Hin|]. cbn. auto. }
      rewrite Ebr in Hp. destruct Hp.
  Qed.

  Lemma base_member k v : In (k, v) base -> lookup k base = Some v /\ json_eqb v v = true.
  Proof. apply wf_member. exact (proj1 Hwf). Qed.

  (* clause: none of a failing default-mode backend's body reaches the client *)
  Lemma clause_no_leak :
    forallb (fun b : backend => let '(m, r, _) := b in
               ok_status (r_code r) || match m with MDefault => no_leak_b r (raw_of o) | _ => true end) ms = true.
  Proof.
    apply forallb_forall. intros [[m r] d] Hb. destruct (ok_status (r_code r)) eqn:Hok; [reflexivity|].
    destruct m; try reflexivity. cbn [orb].
    pose proof (proj2 Hwf r d Hb Hok) as Hinf. change (map outcome (b0 :: rest)) with outs in Hinf.
    assert (Hraw : raw_of o = "" \/ raw_of o = join_nl (texts_of outs) \/
                   raw_of o = (join_nl (texts_of outs) ++ nl)%string).
    { rewrite o_shape. destruct fr as [p|] eqn:Efr.
      - destruct (p_data p) eqn:Ed.
        + destruct (client_nopayload rt prior (Some p) be (or_intror (ex_intro _ p (conj eq_refl Ed)))) as [_ [H|(s & txt & Ebe & H)]];
            [left; exact H|]. apply base_err_text in Ebe. rewrite outs_eq in Ebe. subst txt.
          right. exact H.
        + left. rewrite client_of_router_payload by (rewrite Ed; discriminate). reflexivity.
      - destruct (client_nopayload rt prior None be (or_introl eq_refl)) as [_ [H|(s & txt & Ebe & H)]];
          [left; exact H|]. apply base_err_text in Ebe. rewrite outs_eq in Ebe. subst txt.
        right. exact H. }
    destruct Hraw as [->|[->| ->]].
    - apply no_leak_empty.
    - apply no_leak_not_infix. destruct (is_infix (r_body r) (join_nl (texts_of outs))) eqn:E; [|reflexivity].
      rewrite (is_infix_app _ _ nl E) in Hinf. discriminate.
    - apply no_leak_not_infix. exact Hinf.
  Qed.

  (* clause: a failed backend flags the answer incomplete *)
  Lemma clause_incomplete :
    negb (existsb b_failed ms) || str_eqb (c_completed o) "false" = true.
  Proof.
    rewrite anyfail_flagged. fold outs. destruct (flagged outs) eqn:Hf; [|reflexivity]. cbn [negb orb].
    rewrite o_shape. destruct fr as [p|] eqn:Efr.
    - destruct (p_data p) eqn:Ed.
      + destruct (client_nopayload rt prior (Some p) be (or_intror (ex_intro _ p (conj eq_refl Ed)))) as [-> _]. reflexivity.
      + rewrite client_of_router_payload by (rewrite Ed; discriminate). cbn [c_completed].
        destruct (final_resp_some _ _ _ _ Efr) as [(pb & Ebr & Hcp & _)|[_ Hcp]].
        * destruct (base_resp_some _ _ _ Ebr) as [_ Hc]. rewrite outs_eq in Hc. rewrite Hcp, Hc, Hf. reflexivity.
        * rewrite Hcp. reflexivity.
    - destruct (client_nopayload rt prior None be (or_introl eq_refl)) as [-> _]. reflexivity.
  Qed.

  (* clause: 200/201 replies are used - their data reaches the client *)
  Lemma clause_used :
    forallb (fun b : backend => let '(_, r, d) := b in
               negb (ok_status (r_code r)) ||
               match d with
               | Some dd =>
                   let dd' := not_static sk dd in
                   Nat.eqb (List.length dd') 0 ||
                   ((c_status o =? 200)%Z &&
                    match body_obj o with Some body => carries_b dd' body | None => false end &&
                    (existsb b_failed ms || str_eqb (c_completed o) "true"))
               | None => true
               end) ms = true.
  Proof.
    apply forallb_forall. intros [[m r] d] Hb. destruct (ok_status (r_code r)) eqn:Hok; [|reflexivity].
    cbn [negb orb]. destruct d as [dd|]; [|reflexivity]. cbv zeta.
    destruct (not_static sk dd) as [|kv0 dd0] eqn:Edd; [reflexivity|]. cbn [List.length Nat.eqb orb].
    set (p0 := {| p_data := dd; p_complete := true; p_status := 0 |}).
    assert (Hin : In (Some p0, ENone) outs).
    { apply in_map_iff. exists (m, r, Some dd). split; [|exact Hb]. cbn [outcome]. apply used_when_ok. exact Hok. }
    assert (Hne : p_data p0 <> []).
    { cbn. intros ->. discriminate. }
    destruct (payload_delivered p0 ENone Hin Hne) as (p & Ho & Hl). rewrite Ho. cbn [c_status c_completed c_body body_obj].
    rewrite Z.eqb_refl. cbn [andb].
    assert (Hc : carries_b (kv0 :: dd0) (p_data p) = true).
    { rewrite <- Edd. unfold carries_b. apply forallb_forall. intros [k v] Hkv.
      unfold not_static in Hkv. apply filter_In in Hkv as [Hkv Hk]. cbn [fst snd] in *.
      assert (Hnk : ~ In k sk).
      { intros Hi. apply str_mem_In in Hi. rewrite Hi in Hk. discriminate. }
      rewrite (Hl k Hnk).
      destruct (base_member k v (payload_in_base outs p0 ENone k v Hin Hkv)) as [-> ->]. reflexivity. }
    rewrite Hc. cbn [andb]. rewrite anyfail_flagged. fold outs. destruct (flagged outs); reflexivity.
  Qed.

  (* clause: return_error_details - error_<name> holds the status and the body *)
  Lemma clause_details :
    forallb (fun b : backend => let '(m, r, _) := b in
               ok_status (r_code r) ||
               match m with
               | MDetails n =>
                   str_mem ("error_" ++ n)%string sk ||
                   match body_obj o with Some body => details_ok_b n r body | None => false end
               | _ => true
               end) ms = true.
  Proof.
    apply forallb_forall. intros [[m r] d] Hb. destruct (ok_status (r_code r)) eqn:Hok; [reflexivity|].
    cbn [orb]. destruct m as [| |n]; try reflexivity.
    destruct (str_mem ("error_" ++ n)%string sk) eqn:Hk; [reflexivity|]. cbn [orb].
    set (eo := error_object (r_code r) (r_body r) (r_enc r)).
    set (p0 := {| p_data := [(("error_" ++ n)%string, eo)]; p_complete := false; p_status := r_code r |}).
    assert (Hin : In (Some p0, ENone) outs).
    { apply in_map_iff. exists (MDetails n, r, d). split; [|exact Hb]. cbn [outcome]. apply details_mode. exact Hok. }
    destruct (payload_delivered p0 ENone Hin) as (p & Ho & Hl); [discriminate|].
    rewrite Ho. cbn [c_body body_obj]. apply details_ok_lookup.
    assert (Hnk : ~ In ("error_" ++ n)%string sk).
    { intros Hi. apply str_mem_In in Hi. rewrite Hi in Hk. discriminate. }
    rewrite (Hl _ Hnk).
    apply (base_member _ eo). apply (payload_in_base outs p0 ENone _ _ Hin). left. reflexivity.
  Qed.
End Meets.

(* clause: a sole backend - 500 by default, exactly its status with return_error_code *)
Lemma clause_sole rt prior epx m r d :
  ok_status (r_code r) || static_on_failure (static_cfg epx) ||
  match m with
  | MDefault => (c_status (client_endpoint rt prior epx (m, r, d) []) =? 500)%Z
  | MErrorCode => (c_status (client_endpoint rt prior epx (m, r, d) []) =? r_code r)%Z
  | MDetails _ => true
  end = true.
Proof.
  destruct (ok_status (r_code r)) eqn:Hok; [reflexivity|].
  destruct (static_on_failure (static_cfg epx)) eqn:Hst; [reflexivity|]. cbn [orb].
  destruct m as [| |n]; [| |reflexivity];
    unfold client_endpoint, endpoint_out, single_out; rewrite other_status_fails by exact Hok;
    cbn [err_of_single err_text]; rewrite static_stage_failure by exact Hst.
  - destruct rt as [[]| | | | |]; reflexivity.
  - destruct rt as [[]| | | | |]; cbn; apply Z.eqb_refl.
Qed.

Lemma clause_single rt prior epx m r d :
  ep_wf (m, r, d) [] -> static_cfg epx = None ->
  spec_single_b m r d (client_endpoint rt prior epx (m, r, d) [])
                (raw_of (client_endpoint rt prior epx (m, r, d) [])) = true.
Proof.
  intros [Hw Hl] Hst.
  assert (H : spec_endpoint_b rt epx (m, r, d) [] (client_endpoint rt prior epx (m, r, d) [])
                (raw_of (client_endpoint rt prior epx (m, r, d) [])) = true).
  { apply ep_single_meets_oracle_c; [exact Hst| |].
    - intros dd -> Hok. cbn [map outcome] in Hw. rewrite used_when_ok in Hw by exact Hok.
      unfold payloads_of in Hw. cbn in Hw. rewrite app_nil_r in Hw.
      cbn. exact Hw.
    - intros -> Hok. specialize (Hl r d (or_introl eq_refl) Hok).
      cbn [map outcome] in Hl. rewrite (default_fails MDefault r d Hok eq_refl) in Hl. exact Hl. }
  unfold spec_endpoint_b in H. rewrite Hst in H. apply andb_true_iff in H as [_ H]. exact H.
Qed.

Lemma ep_meets_oracle rt prior epx b0 rest :
  ep_wf b0 rest ->
  spec_endpoint_b rt epx b0 rest (client_endpoint rt prior epx b0 rest)
                  (raw_of (client_endpoint rt prior epx b0 rest)) = true.
Proof.
  intros Hwf. unfold spec_endpoint_b. cbv zeta.
  apply andb_true_iff; split; [apply andb_true_iff; split; [apply andb_true_iff; split; [apply andb_true_iff; split; [apply andb_true_iff; split|]|]|]|].
  - apply clause_no_leak. exact Hwf.
  - apply clause_incomplete.
  - apply clause_used. exact Hwf.
  - apply clause_details. exact Hwf.
  - destruct rest; [|reflexivity]. destruct b0 as [[m r] d]. apply clause_sole.
  - destruct rest; [|reflexivity]. destruct (static_cfg epx) eqn:Hst; [reflexivity|].
    destruct b0 as [[m r] d]. apply clause_single; assumption.
Qed.

(* the hypotheses are satisfiable: a 503 next to a healthy sibling *)
Lemma ep_wf_example :
  ep_wf (MDefault, {| r_code := 503; r_body := "MARKER-secret-body"; r_enc := "text/plain" |}, None)
        [(MErrorCode, {| r_code := 200; r_body := "{...}"; r_enc := "application/json" |}, Some [("ok", JStr "yes")]);
         (MDetails "b2", {| r_code := 404; r_body := "gone"; r_enc := "" |}, None)].
Proof.
  split; [vm_compute; reflexivity|].
  intros r d [E|[E|[E|[]]]] Hok; try discriminate. injection E as <- <-. vm_compute. reflexivity.
Qed.

(* ---- the remaining case kinds: proxy level, and the first version's multi-backend oracle ---- *)
Lemma proxy_meets_oracle m r d :
  (forall dd, d = Some dd -> ok_status (r_code r) = true -> wfj (JObj dd) = true) ->
  proxy_spec_b m r d (http_proxy_outcome m r d) = true.
Proof.
  intros Hwf. unfold proxy_spec_b. destruct (ok_status (r_code r)) eqn:Hok.
  - destruct d as [dd|]; [|reflexivity]. rewrite used_when_ok by exact Hok. cbn [fst snd p_data p_complete].
    rewrite (obj_eqb_refl dd (Hwf dd eq_refl eq_refl)). reflexivity.
  - rewrite other_status_fails by exact Hok. destruct m as [| |n]; cbn [fst snd].
    + reflexivity.
    + apply Z.eqb_refl.
    + cbn. apply details_ok_model.
Qed.

Definition router_of (i : impl) : router := match i with Gin => RGin false | Mux => RMux end.

Lemma client_multi_endpoint i b0 b1 rest :
  client_multi i (b0 :: b1 :: rest) = client_endpoint (router_of i) [] [] b0 (b1 :: rest).
Proof.
  unfold client_multi, client_endpoint, endpoint_out, multi_out. cbn [static_cfg lookup static_stage flatmap_active flat_stage].
  destruct (merge_outs _) as [resp anyerr]. destruct i; reflexivity.
Qed.

Lemma forallb_impl {A} (f g : A -> bool) l :
  (forall x, In x l -> f x = true -> g x = true) -> forallb f l = true -> forallb g l = true.
Proof.
  intros H Hf. apply forallb_forall. intros x Hx. apply H; [exact Hx|].
  rewrite forallb_forall in Hf. apply Hf. exact Hx.
Qed.

Lemma endpoint_oracle_implies_multi rt b0 rest o raw :
  spec_endpoint_b rt [] b0 rest o raw = true -> spec_multi_b (b0 :: rest) o raw = true.
Proof.
  unfold spec_endpoint_b, spec_multi_b. cbn [static_cfg lookup static_keys]. cbv zeta.
  intros H.
  apply andb_true_iff in H as [H _]. apply andb_true_iff in H as [H _].
  apply andb_true_iff in H as [H Hd]. apply andb_true_iff in H as [H Hu]. apply andb_true_iff in H as [Hl Hi].
  apply andb_true_iff; split; [apply andb_true_iff; split; [apply andb_true_iff; split|]|].
  - exact Hl.
  - exact Hi.
  - revert Hu. apply forallb_impl. intros [[m r] d] _ Hx.
    destruct (ok_status (r_code r)); [|reflexivity]. cbn [negb orb] in *.
    destruct d as [dd|]; [|reflexivity]. rewrite not_static_nil in Hx.
    destruct (Nat.eqb (List.length dd) 0); [reflexivity|]. cbn [orb] in *.
    apply andb_true_iff in Hx as [Hx _]. exact Hx.
  - revert Hd. apply forallb_impl. intros [[m r] d] _ Hx.
    destruct (ok_status (r_code r)); [reflexivity|]. cbn [orb] in *.
    destruct m; try reflexivity. cbn [str_mem orb] in Hx. exact Hx.
Qed.

Lemma multi_meets_oracle i b0 b1 rest :
  ep_wf b0 (b1 :: rest) ->
  spec_multi_b (b0 :: b1 :: rest) (client_multi i (b0 :: b1 :: rest))
               (raw_of (client_multi i (b0 :: b1 :: rest))) = true.
Proof.
  intros Hwf. rewrite client_multi_endpoint.
  apply (endpoint_oracle_implies_multi (router_of i)). apply ep_meets_oracle. exact Hwf.
Qed.

(* ---- backend encodings ---- *)
Lemma string_always_decodes m r parsed :
  ok_status (r_code r) = true ->
  http_proxy_outcome_enc EncString m r parsed =
  (Some {| p_data := [("content", JStr (r_body r))]; p_complete := true; p_status := 0 |}, ENone).
Proof. intros H. cbn. apply used_when_ok. exact H. Qed.

Lemma enc_other_status_fails e m r parsed :
  e <> EncNoop -> ok_status (r_code r) = false ->
  http_proxy_outcome_enc e m r parsed =
  match m with
  | MDefault => (None, EInvalidStatus)
  | MErrorCode => (None, ECode (r_code r) (r_body r) (r_enc r))
  | MDetails n =>
      (Some {| p_data := [(("error_" ++ n)%string, error_object (r_code r) (r_body r) (r_enc r))];
               p_complete := false; p_status := r_code r |}, ENone)
  end.
Proof. intros He Hok. destruct e; try congruence; cbn [http_proxy_outcome_enc]; apply other_status_fails; exact Hok. Qed.

Lemma noop_passes_through m r parsed :
  http_proxy_outcome_enc EncNoop m r parsed =
  (Some {| p_data := []; p_complete := true; p_status := r_code r |}, ENone).
Proof. reflexivity. Qed.

Lemma noop_refutes_classification :
  exists m r parsed, ok_status (r_code r) = false /\
    exists p, fst (http_proxy_outcome_enc EncNoop m r parsed) = Some p /\ p_complete p = true.
Proof.
  exists MDefault, {| r_code := 503; r_body := "down"; r_enc := "" |}, None.
  split; [reflexivity|]. eexists. split; reflexivity.
Qed.

Lemma json_decodes_iff body parsed :
  decode_as (EncJson false) body parsed <> None <->
  (exists m, parsed = Some (JObj m)) \/ parsed = Some JNull.
Proof.
  cbn. split.
  - destruct parsed as [[| | | | |m|]|]; intros H; try congruence; [right; reflexivity|left; eauto].
  - intros [[m ->]| ->]; discriminate.
Qed.

Lemma collection_decodes_iff body parsed :
  decode_as (EncJson true) body parsed <> None <->
  (exists l, parsed = Some (JArr l)) \/ parsed = Some JNull.
Proof.
  cbn. split.
  - destruct parsed as [[| | | |l| |]|]; intros H; try congruence; [right; reflexivity|left; eauto].
  - intros [[l ->]| ->]; discriminate.
Qed.

Lemma safejson_decodes_iff body parsed :
  decode_as EncSafeJson body parsed <> None <-> parsed <> None.
Proof.
  cbn. destruct parsed as [[| | | | | |]|]; split; intros H; congruence.
Qed.

Lemma enc_meets_oracle e m r parsed :
  e <> EncNoop ->
  (forall dd, decode_as e (r_body r) parsed = Some dd -> ok_status (r_code r) = true -> wfj (JObj dd) = true) ->
  proxy_spec_b m r (decode_as e (r_body r) parsed) (http_proxy_outcome_enc e m r parsed) = true.
Proof.
  intros He Hwf.
  replace (http_proxy_outcome_enc e m r parsed) with (http_proxy_outcome m r (decode_as e (r_body r) parsed))
    by (destruct e; try congruence; reflexivity).
  apply proxy_meets_oracle. exact Hwf.
Qed.

(* ---- the pass-through proxy is selected by the exact spelling only ---- *)
Lemma enc_of_noop_iff name coll : enc_of name coll = EncNoop <-> name = "no-op".
Proof.
  unfold enc_of. destruct (str_eqb name "no-op") eqn:E.
  - apply str_eqb_eq in E. tauto.
  - apply str_eqb_neq in E. split; [|tauto].
    destruct (str_eqb (lower name) "no-op"); [discriminate|].
    destruct (str_eqb (lower name) "safejson"); [discriminate|].
    destruct (str_eqb (lower name) "string"); discriminate.
Qed.

Lemma other_spelling_classified name coll m r parsed :
  name <> "no-op" -> ok_status (r_code r) = false ->
  http_proxy_outcome_enc (enc_of name coll) m r parsed =
  match m with
  | MDefault => (None, EInvalidStatus)
  | MErrorCode => (None, ECode (r_code r) (r_body r) (r_enc r))
  | MDetails n =>
      (Some {| p_data := [(("error_" ++ n)%string, error_object (r_code r) (r_body r) (r_enc r))];
               p_complete := false; p_status := r_code r |}, ENone)
  end.
Proof.
  intros Hn Hok. apply enc_other_status_fails; [|exact Hok].
  intros E. apply enc_of_noop_iff in E. contradiction.
Qed.
