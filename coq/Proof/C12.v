Require Import Verif.Common.Base Verif.Common.Json Verif.Common.JsonFacts.
Require Import Verif.Model.C12 Verif.Spec.C12.

Lemma ok_status_iff c : ok_status c = true <-> c = 200%Z \/ c = 201%Z.
Proof. unfold ok_status. rewrite orb_true_iff, !Z.eqb_eq. tauto. Qed.

Lemma classify_use_iff m r : classify m r = Use <-> r_code r = 200%Z \/ r_code r = 201%Z.
Proof.
  unfold classify. rewrite <- ok_status_iff.
  destruct (ok_status (r_code r)); [tauto|]. destruct m; split; discriminate.
Qed.

(* 200/201: decoded and used *)
Lemma used_when_ok m r d :
  ok_status (r_code r) = true ->
  http_proxy_outcome m r (Some d) = (Some {| p_data := d; p_complete := true; p_status := 0 |}, ENone).
Proof. intros H. unfold http_proxy_outcome, classify. rewrite H. reflexivity. Qed.

(* default mode, other status: the outcome is one fixed error value, whatever the reply *)
Lemma default_fails m r d :
  ok_status (r_code r) = false -> m = MDefault ->
  http_proxy_outcome m r d = (None, EInvalidStatus).
Proof. intros H ->. unfold http_proxy_outcome, classify. rewrite H. reflexivity. Qed.

Lemma default_sole_backend i r d :
  ok_status (r_code r) = false ->
  client_single i MDefault r d =
  {| c_status := 500; c_completed := "false";
     c_body := match i with Gin => BRaw "" | Mux => BRaw ("invalid status code" ++ nl) end |}.
Proof.
  intros H. unfold client_single. rewrite (default_fails MDefault r d H eq_refl).
  destruct i; reflexivity.
Qed.

(* non-interference form of "none of its body reaches the client" *)
Lemma no_body_leak i r r' d d' :
  ok_status (r_code r) = false -> ok_status (r_code r') = false ->
  client_single i MDefault r d = client_single i MDefault r' d'.
Proof. intros H H'. rewrite !default_sole_backend by assumption. reflexivity. Qed.

Lemma error_code_mode i r d :
  ok_status (r_code r) = false ->
  c_status (client_single i MErrorCode r d) = r_code r /\
  c_completed (client_single i MErrorCode r d) = "false".
Proof.
  intros H. unfold client_single, http_proxy_outcome, classify. rewrite H.
  destruct i; simpl; auto.
Qed.

Lemma details_mode n r d :
  ok_status (r_code r) = false ->
  http_proxy_outcome (MDetails n) r d =
  (Some {| p_data := [(("error_" ++ n)%string, error_object (r_code r) (r_body r) (r_enc r))];
           p_complete := false; p_status := r_code r |}, ENone).
Proof. intros H. unfold http_proxy_outcome, classify. rewrite H. reflexivity. Qed.

Lemma details_ok_model n r :
  details_ok_b n r [(("error_" ++ n)%string, error_object (r_code r) (r_body r) (r_enc r))] = true.
Proof.
  unfold details_ok_b. cbn [lookup]. rewrite str_eqb_refl.
  unfold error_object. cbn [lookup app]. 
  change (str_eqb "http_status_code" "http_status_code") with true. cbn iota.
  rewrite str_eqb_refl. cbn [andb].
  destruct (str_eqb (r_body r) "") eqn:E; [reflexivity|].
  cbn [orb app lookup].
  change (str_eqb "http_body" "http_status_code") with false. cbn iota.
  change (str_eqb "http_body" "http_body") with true. cbn iota.
  apply str_eqb_refl.
Qed.

(* mode selection *)
Lemma mode_selection details code :
  status_mode details code =
  match details with
  | VStr s => if str_eqb s "" then MDefault else MDetails s
  | VAbsent => match code with VBool true => MErrorCode | _ => MDefault end
  | _ => MDefault
  end.
Proof. destruct details; reflexivity. Qed.

(* the model meets the boolean form of the property on every input *)
Lemma single_meets_spec i m r d :
  match d with Some dd => wfj (JObj dd) = true | None => True end ->
  is_infix (r_body r) ("invalid status code" ++ nl) = false ->
  spec_single_b m r d (client_single i m r d) (raw_of (client_single i m r d)) = true.
Proof.
  intros Hwf Hinf. unfold spec_single_b.
  destruct (ok_status (r_code r)) eqn:Hok.
  - destruct d as [dd|].
    + unfold client_single. rewrite used_when_ok by assumption.
      destruct dd as [|kv dd'].
      * destruct i; reflexivity.
      * assert (E : obj_eqb (kv :: dd') (kv :: dd') = true) by (apply obj_eqb_refl; exact Hwf).
        destruct i; cbn - [obj_eqb]; rewrite E; reflexivity.
    + unfold client_single, http_proxy_outcome, classify. rewrite Hok. destruct i; reflexivity.
  - destruct m as [| |n].
    + rewrite default_sole_backend by assumption. cbn [c_status c_completed].
      unfold no_leak_b, raw_of. cbn [c_body].
      destruct i.
      * assert (E : is_infix (r_body r) "" = false).
        { destruct (r_body r) as [|a s]; [simpl in Hinf; discriminate|reflexivity]. }
        rewrite E. cbn. apply orb_true_r.
      * rewrite Hinf. cbn. apply orb_true_r.
    + destruct (error_code_mode i r d Hok) as [H1 H2]. rewrite H1, H2.
      rewrite Z.eqb_refl. reflexivity.
    + unfold client_single. rewrite details_mode by assumption.
      destruct i; cbn [client_of List.length Nat.eqb negb p_data p_complete andb c_completed body_obj c_body];
        rewrite details_ok_model; reflexivity.
Qed.

(* several backends: a failing default-mode backend contributes nothing, whatever it sent *)
Lemma multi_failed_default_invisible i pre post r r' d d' :
  ok_status (r_code r) = false -> ok_status (r_code r') = false ->
  client_multi i (pre ++ (MDefault, r, d) :: post) =
  client_multi i (pre ++ (MDefault, r', d') :: post).
Proof.
  intros H H'. unfold client_multi. rewrite !map_app. cbn [map].
  rewrite (default_fails MDefault r d H eq_refl), (default_fails MDefault r' d' H' eq_refl).
  reflexivity.
Qed.

Lemma merge_outs_incomplete outs :
  existsb (fun o => match fst o with None => true | Some _ => false end) outs = true ->
  match fst (merge_outs outs) with Some p => p_complete p = false | None => True end.
Proof.
  intros H. unfold merge_outs. rewrite H.
  destruct (flat_map _ outs); cbn; [exact I|]. apply andb_false_r.
Qed.

Lemma multi_incomplete i ms m r d :
  In (m, r, d) ms -> ok_status (r_code r) = false -> m = MDefault \/ m = MErrorCode ->
  c_completed (client_multi i ms) = "false".
Proof.
  intros Hin Hok Hm. unfold client_multi.
  set (outs := map _ ms).
  assert (Hex : existsb (fun o => match fst o with None => true | Some _ => false end) outs = true).
  { apply existsb_exists. exists (http_proxy_outcome m r d). split.
    - unfold outs. apply in_map_iff. exists (m, r, d). split; [reflexivity|exact Hin].
    - unfold http_proxy_outcome, classify. rewrite Hok. destruct Hm; subst m; reflexivity. }
  pose proof (merge_outs_incomplete outs Hex) as Hc.
  destruct (merge_outs outs) as [resp anyerr]. cbn [fst] in Hc.
  destruct resp as [p|]; destruct i; unfold client_of; cbn [c_completed].
  - rewrite Hc. rewrite andb_false_r. destruct anyerr; reflexivity.
  - rewrite Hc. rewrite andb_false_r.
    destruct (negb (Nat.eqb (List.length (p_data p)) 0)); [reflexivity|]. destruct anyerr; reflexivity.
  - destruct anyerr; reflexivity.
  - cbn. destruct anyerr; reflexivity.
Qed.

(* z_lit is the decimal text on the whole range of HTTP status codes *)
From Coq Require Import DecimalString.
Definition dec_text (z : Z) : string := NilZero.string_of_int (Z.to_int z).
Definition range (lo : Z) (n : nat) : list Z := map (fun i => (lo + Z.of_nat i)%Z) (seq 0 n).
Lemma z_lit_decimal : forallb (fun c => str_eqb (z_lit c) (dec_text c)) (range 100 500) = true.
Proof. vm_compute. reflexivity. Qed.
