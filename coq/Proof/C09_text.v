(* C09 - proofs, part 2: the text level.  The scanners read tokenised patterns back, the
   rewriting loop of Init turns every {n} into {{.Cap n}}, GeneratePath turns every {{.K}}
   into the value, whatever the iteration order of the Params map. *)
Require Import Verif.Common.Base Verif.Model.C09 Verif.Spec.C09 Verif.Proof.C09.
From Coq Require Import Permutation.

Local Open Scope string_scope.

(* ---- strings ---- *)
Lemma app_assoc_s (a b c : string) : (a ++ b) ++ c = a ++ (b ++ c).
Proof. induction a as [|x a IH]; simpl; [reflexivity|rewrite IH; reflexivity]. Qed.

Lemma app_nil_r_s (a : string) : a ++ "" = a.
Proof. induction a as [|x a IH]; simpl; [reflexivity|rewrite IH; reflexivity]. Qed.

Lemma length_app_s (a b : string) : String.length (a ++ b) = String.length a + String.length b.
Proof. induction a as [|x a IH]; simpl; [reflexivity|rewrite IH; reflexivity]. Qed.

Lemma prefix_app p s : prefix p (p ++ s) = true.
Proof. induction p as [|x p IH]; simpl; [reflexivity|rewrite Ascii.eqb_refl, IH; reflexivity]. Qed.

Lemma has_char_app c a b : has_char c (a ++ b) = has_char c a || has_char c b.
Proof. induction a as [|x a IH]; simpl; [reflexivity|rewrite IH, orb_assoc; reflexivity]. Qed.

Lemma all_chars_app p a b : all_chars p (a ++ b) = all_chars p a && all_chars p b.
Proof. induction a as [|x a IH]; simpl; [reflexivity|rewrite IH, andb_assoc; reflexivity]. Qed.

Lemma all_chars_no_char (p : ascii -> bool) c s :
  p c = false -> all_chars p s = true -> has_char c s = false.
Proof.
  intros Hc. induction s as [|x s IH]; simpl; [reflexivity|].
  intros H. apply andb_true_iff in H. destruct H as [Hx Hs].
  rewrite (IH Hs), orb_false_r. destruct (Ascii.eqb c x) eqn:E; [|reflexivity].
  apply Ascii.eqb_eq in E. subst x. congruence.
Qed.

(* character classes exclude the delimiters *)
Lemma name_char_lbrace : name_char lbrace = false. Proof. reflexivity. Qed.
Lemma name_char_rbrace : name_char rbrace = false. Proof. reflexivity. Qed.
Lemma name_char_slash : name_char slash = false. Proof. reflexivity. Qed.
Lemma name_char_dot : name_char "."%char = false. Proof. reflexivity. Qed.
Lemma out_char_lbrace : out_char lbrace = false. Proof. reflexivity. Qed.
Lemma out_char_rbrace : out_char rbrace = false. Proof. reflexivity. Qed.
Lemma unres_lbrace : unreserved_char lbrace = false. Proof. reflexivity. Qed.
Lemma unres_rbrace : unreserved_char rbrace = false. Proof. reflexivity. Qed.
Lemma unres_slash : unreserved_char slash = false. Proof. reflexivity. Qed.

Lemma name_char_out c : name_char c = true -> out_char c = true.
Proof.
  unfold name_char, out_char. intros H.
  repeat (apply orb_true_iff in H; destruct H as [H|H]); rewrite H; repeat rewrite orb_true_r; reflexivity.
Qed.

Lemma all_chars_impl (p q : ascii -> bool) s :
  (forall c, p c = true -> q c = true) -> all_chars p s = true -> all_chars q s = true.
Proof.
  intros Hpq. induction s as [|x s IH]; simpl; [reflexivity|].
  intros H. apply andb_true_iff in H. destruct H as [Hx Hs]. rewrite (Hpq _ Hx), (IH Hs). reflexivity.
Qed.

Lemma name_char_upper c : name_char c = true -> name_char (to_upper c) = true.
Proof.
  destruct c as [b0 b1 b2 b3 b4 b5 b6 b7];
  destruct b0, b1, b2, b3, b4, b5, b6, b7; vm_compute; intros H; try reflexivity; discriminate.
Qed.

(* ---- span and the brace matcher ---- *)
Lemma span_app p n d t : all_chars p n = true -> p d = false ->
  span p (n ++ String d t) = (n, String d t).
Proof.
  intros Hn Hd. induction n as [|x n IH]; simpl.
  - rewrite Hd. reflexivity.
  - simpl in Hn. apply andb_true_iff in Hn. destruct Hn as [Hx Hn]. rewrite Hx, (IH Hn). reflexivity.
Qed.

Lemma placeholder_app n rest : placeholder n ++ rest = String lbrace (n ++ String rbrace rest).
Proof. unfold placeholder, lb, rb. simpl. rewrite app_assoc_s. reflexivity. Qed.

Lemma brace_at_lb p X : brace_at p (String lbrace X) =
  let '(n, t) := span p X in
  match n, t with
  | String _ _, String d _ => if Ascii.eqb d rbrace then Some n else None
  | _, _ => None
  end.
Proof. unfold brace_at. rewrite Ascii.eqb_refl. reflexivity. Qed.

Lemma brace_at_placeholder p n rest : n <> "" -> all_chars p n = true -> p rbrace = false ->
  brace_at p (placeholder n ++ rest) = Some n.
Proof.
  intros Hne Hn Hr. rewrite placeholder_app, brace_at_lb.
  rewrite (span_app p n rbrace rest Hn Hr).
  destruct n; [congruence|]. rewrite Ascii.eqb_refl. reflexivity.
Qed.

Lemma brace_at_other p c r : Ascii.eqb c lbrace = false -> brace_at p (String c r) = None.
Proof. intros H. unfold brace_at. rewrite H. reflexivity. Qed.

(* ---- ReplaceAll ---- *)
Lemma replace_go_0 old new c r :
  replace_go old new 0 (String c r) =
  if prefix old (String c r) then new ++ replace_go old new (String.length old - 1) r
  else String c (replace_go old new 0 r).
Proof. reflexivity. Qed.

Lemma replace_skip old new w rest :
  replace_go old new (String.length w) (w ++ rest) = replace_go old new 0 rest.
Proof. induction w as [|x w IH]; simpl; [destruct rest; reflexivity|exact IH]. Qed.

Lemma replace_copy o0 oldr new w rest : has_char o0 w = false ->
  replace_go (String o0 oldr) new 0 (w ++ rest) = w ++ replace_go (String o0 oldr) new 0 rest.
Proof.
  induction w as [|x w IH]; intros H; [reflexivity|].
  simpl in H. apply orb_false_iff in H. destruct H as [Hx Hw].
  change (String x w ++ rest) with (String x (w ++ rest)). rewrite replace_go_0.
  simpl prefix. rewrite Hx. simpl. rewrite (IH Hw). reflexivity.
Qed.

Lemma replace_match o0 oldr new rest :
  replace_go (String o0 oldr) new 0 (String o0 oldr ++ rest) =
  new ++ replace_go (String o0 oldr) new 0 rest.
Proof.
  change (String o0 oldr ++ rest) with (String o0 (oldr ++ rest)). rewrite replace_go_0.
  change (String o0 (oldr ++ rest)) with (String o0 oldr ++ rest). rewrite prefix_app.
  replace (String.length (String o0 oldr) - 1) with (String.length oldr) by (simpl; lia).
  rewrite replace_skip. reflexivity.
Qed.

Lemma replace_nomatch old new c r : prefix old (String c r) = false ->
  replace_go old new 0 (String c r) = String c (replace_go old new 0 r).
Proof. intros H. rewrite replace_go_0, H. reflexivity. Qed.

(* two brace-delimited names: one is a prefix of the other only when they are equal *)
Lemma has_char_cons c d r : has_char c (String d r) = Ascii.eqb c d || has_char c r.
Proof. reflexivity. Qed.
Lemma prefix_cons a p b s : prefix (String a p) (String b s) = Ascii.eqb a b && prefix p s.
Proof. reflexivity. Qed.

Lemma prefix_delim o n X Y : has_char rbrace o = false -> has_char rbrace n = false ->
  prefix (o ++ String rbrace X) (n ++ String rbrace Y) = true -> o = n.
Proof.
  revert n. induction o as [|a o IH]; intros n Ho Hn H.
  - destruct n as [|c n]; [reflexivity|].
    change (prefix (String rbrace X) (String c (n ++ String rbrace Y)) = true) in H.
    rewrite prefix_cons in H. apply andb_true_iff in H. destruct H as [H _].
    rewrite has_char_cons, H in Hn. discriminate.
  - destruct n as [|c n].
    + change (prefix (String a (o ++ String rbrace X)) (String rbrace Y) = true) in H.
      rewrite prefix_cons in H. apply andb_true_iff in H. destruct H as [H _].
      apply Ascii.eqb_eq in H. subst a. rewrite has_char_cons, Ascii.eqb_refl in Ho. discriminate.
    + change (prefix (String a (o ++ String rbrace X)) (String c (n ++ String rbrace Y)) = true) in H.
      rewrite prefix_cons in H. apply andb_true_iff in H. destruct H as [H1 H2].
      apply Ascii.eqb_eq in H1. subst c.
      rewrite has_char_cons in Ho, Hn. apply orb_false_iff in Ho. apply orb_false_iff in Hn.
      f_equal. apply IH; tauto.
Qed.

(* ---- intermediate patterns: literals, placeholders {n}, templates {{.k}} ---- *)
Inductive tk := L (s : string) | P (n : string) | T (k : string).
Definition rtk (t : tk) : string :=
  match t with L s => s | P n => placeholder n | T k => template k end.
Fixpoint rtks (ts : list tk) : string :=
  match ts with [] => "" | t :: r => rtk t ++ rtks r end.
Definition tk_ok (t : tk) : bool :=
  match t with
  | L s => brace_free s
  | P n => match n with "" => false | _ => all_chars out_char n end
  | T k => brace_free k
  end.

Lemma placeholder_eq o : placeholder o = String lbrace (o ++ String rbrace "").
Proof. reflexivity. Qed.

Lemma template_app k rest :
  template k ++ rest = String lbrace (String lbrace (String "."%char (k ++ String rbrace (String rbrace rest)))).
Proof. unfold template, lb, rb. simpl. rewrite !app_assoc_s. reflexivity. Qed.

Lemma brace_free_l s : brace_free s = true -> has_char lbrace s = false.
Proof. unfold brace_free. intros H. apply andb_true_iff in H. destruct H as [H _]. apply negb_true_iff in H. exact H. Qed.
Lemma brace_free_r s : brace_free s = true -> has_char rbrace s = false.
Proof. unfold brace_free. intros H. apply andb_true_iff in H. destruct H as [_ H]. apply negb_true_iff in H. exact H. Qed.

Lemma lb_neq_rb : Ascii.eqb lbrace rbrace = false. Proof. reflexivity. Qed.
Lemma lb_neq_dot : Ascii.eqb lbrace "."%char = false. Proof. reflexivity. Qed.

Lemma class_neq (p : ascii -> bool) a d : p a = true -> p d = false -> Ascii.eqb a d = false.
Proof.
  intros Ha Hd. destruct (Ascii.eqb a d) eqn:E; [|reflexivity].
  apply Ascii.eqb_eq in E. subst. congruence.
Qed.

(* stage 1: one step of the rewriting loop of Init *)
Definition r1 (o new : string) (t : tk) : string :=
  match t with P n => if str_eqb n o then new else placeholder n | _ => rtk t end.
Fixpoint rtks1 (o new : string) (ts : list tk) : string :=
  match ts with [] => "" | t :: r => r1 o new t ++ rtks1 o new r end.

Lemma stage1 o new ts : o <> "" -> all_chars name_char o = true -> forallb tk_ok ts = true ->
  replace_all (placeholder o) new (rtks ts) = rtks1 o new ts.
Proof.
  intros Hne Ho. unfold replace_all. rewrite placeholder_eq.
  assert (Hor : has_char rbrace o = false) by (apply (all_chars_no_char name_char); [reflexivity|exact Ho]).
  induction ts as [|t r IH]; intros Hok; [reflexivity|].
  simpl in Hok. apply andb_true_iff in Hok. destruct Hok as [Ht Hr]. specialize (IH Hr).
  destruct t as [s|n|k]; cbn [rtks rtks1 r1 rtk].
  - simpl in Ht. rewrite replace_copy by (apply brace_free_l; exact Ht). rewrite IH. reflexivity.
  - simpl in Ht. destruct n as [|n0 n']; [discriminate|]. set (n := String n0 n') in *.
    assert (Hnl : has_char lbrace n = false) by (apply (all_chars_no_char out_char); [reflexivity|exact Ht]).
    assert (Hnr : has_char rbrace n = false) by (apply (all_chars_no_char out_char); [reflexivity|exact Ht]).
    destruct (str_eqb n o) eqn:E.
    + apply str_eqb_eq in E. rewrite E. rewrite (placeholder_eq o). rewrite replace_match, IH. reflexivity.
    + rewrite placeholder_app. rewrite replace_nomatch.
      * replace (n ++ String rbrace (rtks r)) with ((n ++ String rbrace "") ++ rtks r)
          by (rewrite app_assoc_s; reflexivity).
        rewrite replace_copy.
        -- rewrite IH. rewrite placeholder_app. rewrite app_assoc_s. reflexivity.
        -- rewrite has_char_app, Hnl. reflexivity.
      * rewrite prefix_cons, Ascii.eqb_refl, andb_true_l.
        destruct (prefix (o ++ String rbrace "") (n ++ String rbrace (rtks r))) eqn:Hp; [|reflexivity].
        apply prefix_delim in Hp; auto. subst o. rewrite str_eqb_refl in E. discriminate.
  - simpl in Ht. destruct o as [|a o']; [congruence|].
    simpl in Ho. apply andb_true_iff in Ho. destruct Ho as [Ha Ho'].
    rewrite template_app.
    rewrite replace_nomatch.
    2:{ rewrite prefix_cons, Ascii.eqb_refl, andb_true_l.
        change (String a o' ++ String rbrace "") with (String a (o' ++ String rbrace "")).
        rewrite prefix_cons. rewrite (class_neq name_char a lbrace Ha eq_refl). reflexivity. }
    rewrite replace_nomatch.
    2:{ rewrite prefix_cons, Ascii.eqb_refl, andb_true_l.
        change (String a o' ++ String rbrace "") with (String a (o' ++ String rbrace "")).
        rewrite prefix_cons. rewrite (class_neq name_char a "."%char Ha eq_refl). reflexivity. }
    replace (String "."%char (k ++ String rbrace (String rbrace (rtks r))))
      with ((String "."%char (k ++ String rbrace (String rbrace ""))) ++ rtks r)
      by (simpl; rewrite app_assoc_s; reflexivity).
    rewrite replace_copy.
    + rewrite IH. rewrite template_app. simpl. rewrite app_assoc_s. reflexivity.
    + rewrite has_char_cons, lb_neq_dot, has_char_app, (brace_free_l _ Ht). reflexivity.
Qed.

(* stage 2: one iteration of GeneratePath *)
Definition r2 (k v : string) (t : tk) : string :=
  match t with T k' => if str_eqb k' k then v else template k' | _ => rtk t end.
Fixpoint rtks2 (k v : string) (ts : list tk) : string :=
  match ts with [] => "" | t :: r => r2 k v t ++ rtks2 k v r end.

Lemma template_eq k :
  template k = String lbrace (String lbrace (String "."%char (k ++ String rbrace (String rbrace "")))).
Proof. reflexivity. Qed.

Lemma stage2 k v ts : brace_free k = true -> forallb tk_ok ts = true ->
  replace_all (template k) v (rtks ts) = rtks2 k v ts.
Proof.
  intros Hk. unfold replace_all. rewrite template_eq.
  induction ts as [|t r IH]; intros Hok; [reflexivity|].
  simpl in Hok. apply andb_true_iff in Hok. destruct Hok as [Ht Hr]. specialize (IH Hr).
  destruct t as [s|n|k']; cbn [rtks rtks2 r2 rtk].
  - simpl in Ht. rewrite replace_copy by (apply brace_free_l; exact Ht). rewrite IH. reflexivity.
  - simpl in Ht. destruct n as [|n0 n']; [discriminate|].
    assert (Hnl : has_char lbrace (String n0 n') = false)
      by (apply (all_chars_no_char out_char); [reflexivity|exact Ht]).
    rewrite placeholder_app. rewrite replace_nomatch.
    2:{ rewrite prefix_cons, Ascii.eqb_refl, andb_true_l.
        change (String n0 n' ++ String rbrace (rtks r)) with (String n0 (n' ++ String rbrace (rtks r))).
        rewrite prefix_cons. simpl in Ht. apply andb_true_iff in Ht. destruct Ht as [Hn0 _].
        rewrite Ascii.eqb_sym, (class_neq out_char n0 lbrace Hn0 eq_refl). reflexivity. }
    replace (String n0 n' ++ String rbrace (rtks r)) with ((String n0 n' ++ String rbrace "") ++ rtks r)
      by (rewrite app_assoc_s; reflexivity).
    rewrite replace_copy.
    + rewrite IH, placeholder_app, app_assoc_s. reflexivity.
    + rewrite has_char_app, Hnl. reflexivity.
  - simpl in Ht. destruct (str_eqb k' k) eqn:E.
    + apply str_eqb_eq in E. subst k'. rewrite (template_eq k), replace_match, IH. reflexivity.
    + rewrite template_app. rewrite replace_nomatch.
      2:{ rewrite !prefix_cons, !Ascii.eqb_refl, !andb_true_l.
          destruct (prefix (k ++ String rbrace (String rbrace "")) (k' ++ String rbrace (String rbrace (rtks r)))) eqn:Hp; [|reflexivity].
          apply prefix_delim in Hp; [|apply brace_free_r; assumption|apply brace_free_r; assumption].
          subst k'. rewrite str_eqb_refl in E. discriminate. }
      rewrite replace_nomatch.
      2:{ rewrite prefix_cons, Ascii.eqb_refl, andb_true_l, prefix_cons, lb_neq_dot. reflexivity. }
      replace (String "."%char (k' ++ String rbrace (String rbrace (rtks r))))
        with ((String "."%char (k' ++ String rbrace (String rbrace ""))) ++ rtks r)
        by (simpl; rewrite app_assoc_s; reflexivity).
      rewrite replace_copy.
      * rewrite IH, template_app. simpl. rewrite app_assoc_s. reflexivity.
      * rewrite has_char_cons, lb_neq_dot, has_char_app, (brace_free_l _ Ht). reflexivity.
Qed.

(* ---- token-level view of the two stages ---- *)
Definition sub1 (o k : string) (t : tk) : tk :=
  match t with P n => if str_eqb n o then T k else t | _ => t end.
Definition sub2 (k v : string) (t : tk) : tk :=
  match t with T k' => if str_eqb k' k then L v else t | _ => t end.

Lemma rtks1_sub1 o k ts : rtks1 o (template k) ts = rtks (map (sub1 o k) ts).
Proof.
  induction ts as [|t r IH]; [reflexivity|].
  destruct t as [s|n|k']; cbn [rtks1 r1 map sub1 rtks rtk]; try (rewrite IH; reflexivity).
  destruct (str_eqb n o); cbn [rtk]; rewrite IH; reflexivity.
Qed.

Lemma rtks2_sub2 k v ts : rtks2 k v ts = rtks (map (sub2 k v) ts).
Proof.
  induction ts as [|t r IH]; [reflexivity|].
  destruct t as [s|n|k']; cbn [rtks2 r2 map sub2 rtks rtk]; try (rewrite IH; reflexivity).
  destruct (str_eqb k' k); cbn [rtk]; rewrite IH; reflexivity.
Qed.

Lemma sub1_ok o k ts : brace_free k = true -> forallb tk_ok ts = true ->
  forallb tk_ok (map (sub1 o k) ts) = true.
Proof.
  intros Hk. induction ts as [|t r IH]; [reflexivity|].
  cbn [forallb map]. intros H. apply andb_true_iff in H. destruct H as [Ht Hr].
  rewrite (IH Hr), andb_true_r. destruct t as [s|n|k']; cbn [sub1]; try exact Ht.
  destruct (str_eqb n o); [exact Hk|exact Ht].
Qed.

Lemma sub2_ok k v ts : brace_free v = true -> forallb tk_ok ts = true ->
  forallb tk_ok (map (sub2 k v) ts) = true.
Proof.
  intros Hv. induction ts as [|t r IH]; [reflexivity|].
  cbn [forallb map]. intros H. apply andb_true_iff in H. destruct H as [Ht Hr].
  rewrite (IH Hr), andb_true_r. destruct t as [s|n|k']; cbn [sub2]; try exact Ht.
  destruct (str_eqb k' k); [exact Hv|exact Ht].
Qed.

(* GeneratePath, whatever the order of the entries: every template whose key is in the
   map is replaced by the value *)
Definition resolve (ps : list (string * string)) (t : tk) : tk :=
  match t with
  | T k => match lookup k ps with Some v => L v | None => t end
  | _ => t
  end.

Lemma generate_tokens ps : forall ts,
  forallb (fun kv => brace_free (fst kv) && brace_free (snd kv)) ps = true ->
  forallb tk_ok ts = true ->
  generate_path (rtks ts) ps = rtks (map (resolve ps) ts).
Proof.
  induction ps as [|[k v] r IH]; intros ts Hps Hts.
  - simpl. f_equal. rewrite <- (map_id ts) at 1. apply map_ext. intros t. destruct t; reflexivity.
  - cbn [forallb fst snd] in Hps. apply andb_true_iff in Hps. destruct Hps as [Hkv Hr].
    apply andb_true_iff in Hkv. destruct Hkv as [Hk Hv].
    cbn [generate_path]. rewrite stage2, rtks2_sub2 by assumption.
    rewrite IH by (try assumption; apply sub2_ok; assumption).
    f_equal. rewrite map_map. apply map_ext. intros t.
    destruct t as [s|n|k']; cbn [sub2 resolve]; try reflexivity.
    cbn [lookup]. destruct (str_eqb k' k); reflexivity.
Qed.

(* the loop of Init over the distinct outputs *)
Definition step1 (t : tk) (o : string) : tk := sub1 o (config_cap o) t.

Lemma grammar_parts o : grammar o -> o <> "" /\ all_chars name_char o = true.
Proof. unfold grammar, grammar_b. destruct o; [discriminate|]. intros H. split; [discriminate|exact H]. Qed.

Lemma cap_name_char o : all_chars name_char o = true -> all_chars name_char (config_cap o) = true.
Proof.
  destruct o as [|c r]; [reflexivity|]. rewrite config_cap_cons. simpl.
  intros H. apply andb_true_iff in H. destruct H as [Hc Hr]. rewrite (name_char_upper c Hc), Hr. reflexivity.
Qed.

Lemma name_chars_brace_free s : all_chars name_char s = true -> brace_free s = true.
Proof.
  intros H. unfold brace_free.
  rewrite (all_chars_no_char name_char lbrace s eq_refl H), (all_chars_no_char name_char rbrace s eq_refl H).
  reflexivity.
Qed.

Lemma loop_tokens ins : forall outs ts keys,
  (forall o, In o outs -> grammar o /\ In o ins) -> forallb tk_ok ts = true ->
  rewrite_loop ins outs (rtks ts) keys =
  Accepted (rtks (map (fun t => fold_left step1 outs t) ts)) (keys ++ map config_cap outs)%list.
Proof.
  induction outs as [|o r IH]; intros ts keys Hall Hts.
  - simpl. rewrite app_nil_r, map_id. reflexivity.
  - destruct (Hall o (or_introl eq_refl)) as [Hg Hin].
    destruct (grammar_parts o Hg) as [Hne Hnc].
    cbn [rewrite_loop]. apply str_mem_In in Hin. rewrite Hin. cbn [negb]. rewrite andb_false_r.
    rewrite stage1, rtks1_sub1 by assumption.
    rewrite IH.
    + rewrite map_map. cbn [map fold_left]. rewrite <- app_assoc. reflexivity.
    + intros o' Ho'. apply Hall. right. exact Ho'.
    + apply sub1_ok; [|exact Hts]. apply name_chars_brace_free, cap_name_char, Hnc.
Qed.

Lemma fold_L outs s : fold_left step1 outs (L s) = L s.
Proof. induction outs; [reflexivity|exact IHouts]. Qed.
Lemma fold_T outs k : fold_left step1 outs (T k) = T k.
Proof. induction outs; [reflexivity|exact IHouts]. Qed.
Lemma fold_P outs n : fold_left step1 outs (P n) = if str_mem n outs then T (config_cap n) else P n.
Proof.
  induction outs as [|o r IH]; [reflexivity|].
  cbn [fold_left str_mem]. unfold step1 at 2. cbn [sub1].
  destruct (str_eqb n o) eqn:E.
  - apply str_eqb_eq in E. subst o. rewrite fold_T. reflexivity.
  - rewrite IH. reflexivity.
Qed.

(* ---- the scanners read tokenised patterns back ---- *)
Lemma backend_outputs_cons c r : backend_outputs (String c r) =
  ((match brace_at out_char (String c r) with Some n => [n] | None => [] end) ++ backend_outputs r)%list.
Proof. reflexivity. Qed.

Lemma bo_copy w rest : has_char lbrace w = false -> backend_outputs (w ++ rest) = backend_outputs rest.
Proof.
  induction w as [|x w IH]; intros H; [reflexivity|].
  rewrite has_char_cons in H. apply orb_false_iff in H. destruct H as [Hx Hw].
  change (String x w ++ rest) with (String x (w ++ rest)).
  rewrite backend_outputs_cons, brace_at_other by (rewrite Ascii.eqb_sym; exact Hx).
  apply IH, Hw.
Qed.

Definition inj (t : tok) : tk := match t with Lit s => L s | Ph n => P n end.

Lemma rtks_inj be : rtks (map inj be) = render be.
Proof. induction be as [|t r IH]; [reflexivity|]. destruct t; cbn [map inj rtks rtk render render_tok]; rewrite IH; reflexivity. Qed.

Lemma be_ok_inj be : forallb be_tok_ok be = true -> forallb tk_ok (map inj be) = true.
Proof.
  induction be as [|t r IH]; [reflexivity|]. cbn [forallb map]. intros H.
  apply andb_true_iff in H. destruct H as [Ht Hr]. rewrite (IH Hr), andb_true_r. destruct t; exact Ht.
Qed.

Lemma bo_tokens be : forallb be_tok_ok be = true -> backend_outputs (render be) = ph_names be.
Proof.
  induction be as [|t r IH]; [reflexivity|]. cbn [forallb]. intros H.
  apply andb_true_iff in H. destruct H as [Ht Hr]. specialize (IH Hr).
  destruct t as [s|n]; cbn [render render_tok ph_names].
  - rewrite bo_copy by (apply brace_free_l; exact Ht). exact IH.
  - cbn [be_tok_ok] in Ht. destruct n as [|n0 n']; [discriminate|]. set (n := String n0 n') in *.
    assert (Hb : brace_at out_char (placeholder n ++ render r) = Some n)
      by (apply brace_at_placeholder; [discriminate|exact Ht|reflexivity]).
    rewrite placeholder_app in *. rewrite backend_outputs_cons, Hb. cbn [app]. f_equal.
    replace (n ++ String rbrace (render r)) with ((n ++ String rbrace "") ++ render r)
      by (rewrite app_assoc_s; reflexivity).
    rewrite bo_copy; [exact IH|].
    rewrite has_char_app, (all_chars_no_char out_char lbrace n eq_refl Ht). reflexivity.
Qed.

Definition starts_slash (s : string) : bool :=
  match s with String c _ => Ascii.eqb c slash | EmptyString => false end.
Lemma clean_path_eq s : clean_path s = if starts_slash s then s else String slash s.
Proof. destruct s as [|c r]; [reflexivity|]. reflexivity. Qed.

Lemma bo_clean s : backend_outputs (clean_path s) = backend_outputs s.
Proof.
  rewrite clean_path_eq. destruct (starts_slash s); [reflexivity|].
  rewrite backend_outputs_cons, brace_at_other by reflexivity. reflexivity.
Qed.

Lemma endpoint_params_cons c r : endpoint_params (String c r) =
  ((if Ascii.eqb c slash then match brace_at name_char r with Some n => [n] | None => [] end else [])
   ++ endpoint_params r)%list.
Proof. reflexivity. Qed.

Lemma ep_copy w rest : has_char slash w = false -> endpoint_params (w ++ rest) = endpoint_params rest.
Proof.
  induction w as [|x w IH]; intros H; [reflexivity|].
  rewrite has_char_cons in H. apply orb_false_iff in H. destruct H as [Hx Hw].
  change (String x w ++ rest) with (String x (w ++ rest)).
  rewrite endpoint_params_cons. rewrite Ascii.eqb_sym in Hx. rewrite Hx. apply IH, Hw.
Qed.

Lemma render_ep_cons t r : render_ep (t :: r) = String slash (render_tok t ++ render_ep r).
Proof. reflexivity. Qed.

Lemma ep_tokens segs : forallb seg_ok segs = true -> endpoint_params (render_ep segs) = ph_names segs.
Proof.
  induction segs as [|t r IH]; [reflexivity|]. cbn [forallb]. intros H.
  apply andb_true_iff in H. destruct H as [Ht Hr]. specialize (IH Hr).
  rewrite render_ep_cons, endpoint_params_cons, Ascii.eqb_refl.
  destruct t as [s|n]; cbn [render_tok ph_names seg_ok] in *.
  - destruct s as [|s0 s']; [discriminate|].
    change (String s0 s' ++ render_ep r) with (String s0 (s' ++ render_ep r)) at 1.
    rewrite brace_at_other.
    2:{ simpl in Ht. apply andb_true_iff in Ht. destruct Ht as [H0 _]. exact (class_neq unreserved_char s0 lbrace H0 eq_refl). }
    cbn [app]. rewrite ep_copy; [exact IH|]. exact (all_chars_no_char unreserved_char slash _ eq_refl Ht).
  - destruct (grammar_parts n Ht) as [Hne Hnc].
    rewrite brace_at_placeholder by (try assumption; reflexivity).
    cbn [app]. f_equal. rewrite ep_copy; [exact IH|].
    unfold placeholder, lb, rb. rewrite !has_char_app, (all_chars_no_char name_char slash n eq_refl Hnc). reflexivity.
Qed.

Lemma ep_clean segs : forallb seg_ok segs = true ->
  endpoint_params (clean_path (render_ep segs)) = ph_names segs.
Proof.
  intros H. destruct segs as [|t r]; [reflexivity|].
  rewrite clean_path_eq, render_ep_cons. cbn [starts_slash]. rewrite Ascii.eqb_refl.
  rewrite <- render_ep_cons. apply ep_tokens, H.
Qed.

(* ---- the Params map: keys are distinct, lookups do not depend on the order ---- *)
Lemma existsb_false {A} (f : A -> bool) l : existsb f l = false -> forall x, In x l -> f x = false.
Proof.
  intros H x Hin. destruct (f x) eqn:E; [|reflexivity].
  assert (existsb f l = true) by (apply existsb_exists; eauto). congruence.
Qed.

Lemma amb_inj l : ambiguous l = false ->
  forall p q, In p l -> In q l -> config_cap p = config_cap q -> p = q.
Proof.
  induction l as [|x r IH]; intros H p q Hp Hq Hc; [destruct Hp|].
  cbn [ambiguous] in H. apply orb_false_iff in H. destruct H as [Hx Hr].
  assert (Hone : forall y, In y r -> config_cap x = config_cap y -> x = y).
  { intros y Hy Hcy. pose proof (existsb_false _ _ Hx y Hy) as E. cbv beta in E.
    rewrite Hcy, str_eqb_refl, andb_true_r in E. apply negb_false_iff, str_eqb_eq in E. exact E. }
  destruct Hp as [<-|Hp], Hq as [<-|Hq]; auto.
  symmetry. apply Hone; auto.
Qed.

Lemma NoDup_map_in {A B} (f : A -> B) l :
  NoDup l -> (forall x y, In x l -> In y l -> f x = f y -> x = y) -> NoDup (map f l).
Proof.
  induction 1 as [|x l Hx Hl IH]; intros Hinj; [constructor|].
  cbn [map]. constructor.
  - intros Hin. apply in_map_iff in Hin. destruct Hin as [y [Hy Hyl]].
    assert (y = x) by (apply Hinj; [right; exact Hyl|left; reflexivity|exact Hy]). subst. contradiction.
  - apply IH. intros a b Ha Hb. apply Hinj; right; assumption.
Qed.

Lemma lookup_nodup {V} (l : list (string * V)) k v : NoDup (keys l) -> In (k, v) l -> lookup k l = Some v.
Proof.
  induction l as [|[k' v'] r IH]; intros Hnd Hin; [destruct Hin|].
  cbn [keys map fst] in Hnd. inversion Hnd as [|? ? Hk' Hr]; subst.
  cbn [lookup]. destruct Hin as [E|Hin].
  - inversion E; subst. rewrite str_eqb_refl. reflexivity.
  - destruct (str_eqb k k') eqn:E.
    + apply str_eqb_eq in E. subst k'. exfalso. apply Hk'. change (In k (keys r)).
      unfold keys. apply in_map_iff. exists (k, v). auto.
    + apply IH; assumption.
Qed.

Lemma lookup_perm {V} (l l' : list (string * V)) k : NoDup (keys l) -> Permutation l l' ->
  lookup k l' = lookup k l.
Proof.
  intros Hnd Hp.
  assert (Hnd' : NoDup (keys l')) by (unfold keys; eapply Permutation_NoDup; [apply Permutation_map, Hp|exact Hnd]).
  destruct (lookup k l) as [v|] eqn:E.
  - apply lookup_nodup; [exact Hnd'|]. eapply Permutation_in; [exact Hp|]. apply lookup_In, E.
  - destruct (lookup k l') as [v'|] eqn:E'; [|reflexivity].
    apply lookup_In in E'. apply Permutation_sym in Hp. pose proof (Permutation_in _ Hp E') as Hin.
    rewrite (lookup_nodup l k v' Hnd Hin) in E. discriminate.
Qed.

Lemma keys_combine (names vals : list string) : List.length vals = List.length names ->
  keys (combine names vals) = names.
Proof.
  revert vals. induction names as [|n r IH]; intros [|v vs] H; try reflexivity; try discriminate.
  cbn [combine keys map fst]. f_equal. apply IH. simpl in H. lia.
Qed.

Lemma env_lookup (names vals : list string) n : List.length vals = List.length names -> In n names ->
  exists v, lookup n (combine names vals) = Some v /\ In v vals.
Proof.
  revert vals. induction names as [|m r IH]; intros [|v vs] H Hin; try destruct Hin; try discriminate.
  - subst m. exists v. cbn [combine lookup]. rewrite str_eqb_refl. split; [reflexivity|left; reflexivity].
  - cbn [combine lookup]. destruct (str_eqb n m) eqn:E.
    + exists v. split; [reflexivity|left; reflexivity].
    + destruct (IH vs) as [v' [Hl Hv]]; [simpl in H; lia|assumption|]. exists v'. split; [exact Hl|right; exact Hv].
Qed.

Definition cap_env (e : list (string * string)) : list (string * string) :=
  map (fun nv => (config_cap (fst nv), snd nv)) e.

Lemma router_params_cap a names vals : router_params a names vals = cap_env (combine names vals).
Proof. unfold router_params, cap_env. apply map_ext. intros [n v]. cbn [fst snd]. rewrite caps_agree_all. reflexivity. Qed.

Lemma lookup_cap_env e n :
  (forall m, In m (keys e) -> config_cap m = config_cap n -> m = n) ->
  lookup (config_cap n) (cap_env e) = lookup n e.
Proof.
  induction e as [|[m v] r IH]; intros Hinj; [reflexivity|].
  cbn [cap_env map fst snd lookup]. fold (cap_env r).
  destruct (str_eqb n m) eqn:E.
  - apply str_eqb_eq in E. subst m. rewrite str_eqb_refl. reflexivity.
  - destruct (str_eqb (config_cap n) (config_cap m)) eqn:E2.
    + apply str_eqb_eq in E2. assert (m = n) by (apply Hinj; [left; reflexivity|congruence]).
      subst m. rewrite str_eqb_refl in E. discriminate.
    + apply IH. intros m' Hm'. apply Hinj. right. exact Hm'.
Qed.

Lemma keys_cap_env e : keys (cap_env e) = map config_cap (keys e).
Proof. unfold keys, cap_env. rewrite !map_map. reflexivity. Qed.

(* values *)
Lemma unreserved_facts v : unreserved_b v = true ->
  brace_free v = true /\ starts_slash v = false /\ v <> "".
Proof.
  unfold unreserved_b. destruct v as [|c r]; [discriminate|]. intros H. split; [|split; [|discriminate]].
  - unfold brace_free.
    rewrite (all_chars_no_char unreserved_char lbrace _ eq_refl H), (all_chars_no_char unreserved_char rbrace _ eq_refl H).
    reflexivity.
  - simpl in H. apply andb_true_iff in H. destruct H as [Hc _]. exact (class_neq unreserved_char c slash Hc eq_refl).
Qed.

Lemma starts_slash_app a b : starts_slash (a ++ b) = match a with EmptyString => starts_slash b | _ => starts_slash a end.
Proof. destruct a; reflexivity. Qed.

Lemma subst_starts be e :
  (forall n, In n (ph_names be) -> exists v, lookup n e = Some v /\ v <> "" /\ starts_slash v = false) ->
  starts_slash (subst be e) = starts_slash (render be).
Proof.
  induction be as [|t r IH]; intros H; [reflexivity|].
  destruct t as [s|n]; cbn [subst render render_tok ph_names] in *.
  - rewrite !starts_slash_app. destruct s; [apply IH, H|reflexivity].
  - destruct (H n (or_introl eq_refl)) as [v [Hl [Hne Hs]]]. rewrite Hl.
    rewrite starts_slash_app. destruct v; [congruence|]. rewrite Hs.
    rewrite placeholder_app. reflexivity.
Qed.

Lemma no_lbrace_no_tpl s : has_char lbrace s = false -> no_placeholder_left s = true.
Proof.
  unfold no_placeholder_left. intros H. apply negb_true_iff.
  induction s as [|c r IH]; [reflexivity|].
  rewrite has_char_cons in H. apply orb_false_iff in H. destruct H as [Hc Hr].
  cbn [infix]. rewrite (IH Hr), orb_false_r.
  unfold tpl_open, lb. cbn [append]. rewrite prefix_cons, Hc. reflexivity.
Qed.

Lemma subst_no_lbrace be e :
  forallb be_tok_ok be = true ->
  (forall n, In n (ph_names be) -> exists v, lookup n e = Some v /\ brace_free v = true) ->
  has_char lbrace (subst be e) = false.
Proof.
  induction be as [|t r IH]; intros Hok H; [reflexivity|].
  cbn [forallb] in Hok. apply andb_true_iff in Hok. destruct Hok as [Ht Hr].
  destruct t as [s|n]; cbn [subst ph_names] in *; rewrite has_char_app.
  - rewrite (brace_free_l _ Ht). apply IH; assumption.
  - destruct (H n (or_introl eq_refl)) as [v [Hl Hv]]. rewrite Hl, (brace_free_l _ Hv).
    apply IH; [assumption|]. intros m Hm. apply H. right. exact Hm.
Qed.

(* what the two stages make of the tokenised url_pattern *)
Lemma final_tokens outs ps e be :
  (forall n, In n (ph_names be) -> str_mem n outs = true /\
     exists v, lookup n e = Some v /\ lookup (config_cap n) ps = Some v) ->
  rtks (map (resolve ps) (map (fun t => fold_left step1 outs t) (map inj be))) = subst be e.
Proof.
  induction be as [|t r IH]; intros H; [reflexivity|].
  destruct t as [s|n]; cbn [map inj subst ph_names] in *.
  - rewrite fold_L. cbn [resolve rtks rtk]. rewrite IH by exact H. reflexivity.
  - destruct (H n (or_introl eq_refl)) as [Hm [v [Hl Hc]]].
    rewrite fold_P, Hm. cbn [resolve]. rewrite Hc, Hl. cbn [rtks rtk].
    rewrite IH; [reflexivity|]. intros m Hin. apply H. right. exact Hin.
Qed.

Lemma rtks_app_pre a b : rtks (a ++ b)%list = rtks a ++ rtks b.
Proof. induction a as [|t r IH]; [reflexivity|]. cbn [app rtks]. rewrite IH, app_assoc_s. reflexivity. Qed.

Theorem substitution a segs be vals pat ks ps :
  wf_route segs be vals = true ->
  (forall n, In n (ph_names be) -> In n (ph_names segs)) ->
  init (render_ep segs) (render be) = Accepted pat ks ->
  Permutation ps (router_params a (ph_names segs) vals) ->
  Substituted segs be vals (generate_path pat ps).
Proof.
  intros Hwf Hdecl Hinit Hperm. unfold wf_route in Hwf.
  repeat (apply andb_true_iff in Hwf; destruct Hwf as [Hwf ?]).
  rename Hwf into Hsegs, H into Hvals, H0 into Hlen, H1 into Hnd, H2 into Hbe.
  apply Nat.eqb_eq in Hlen. apply nodup_str_NoDup in Hnd.
  set (names := ph_names segs) in *. set (e := combine names vals).
  (* Init *)
  unfold init in Hinit. rewrite (ep_clean segs Hsegs) in Hinit. fold names in Hinit.
  destruct (invalid_endpoint (clean_path (render_ep segs))); [discriminate|].
  destruct (ambiguous names) eqn:Hamb; [discriminate|].
  rewrite bo_clean, (bo_tokens be Hbe) in Hinit. unfold unique_output in Hinit.
  set (outs := dedup_adj (sort_str (ph_names be))) in *.
  match type of Hinit with (if ?c then _ else _) = _ => destruct c end; [discriminate|].
  set (pre := if starts_slash (render be) then [] else [L (String slash "")]).
  assert (Hpat : clean_path (render be) = rtks (pre ++ map inj be)%list).
  { rewrite clean_path_eq. unfold pre. destruct (starts_slash (render be)); cbn [app rtks rtk]; rewrite rtks_inj; reflexivity. }
  assert (Hpre_ok : forallb tk_ok (pre ++ map inj be)%list = true).
  { rewrite forallb_app, (be_ok_inj be Hbe), andb_true_r. unfold pre. destruct (starts_slash (render be)); reflexivity. }
  assert (Houts : forall o, In o outs -> In o (ph_names be)).
  { intros o Ho. unfold outs in Ho. apply (proj1 (in_dedup_adj _ _)) in Ho. apply (proj1 (in_sort_str _ _)) in Ho. exact Ho. }
  assert (Hgram : forall n, In n names -> grammar n).
  { intros n Hn. clear - Hsegs Hn. subst names. induction segs as [|t r IH]; [destruct Hn|].
    cbn [forallb] in Hsegs. apply andb_true_iff in Hsegs. destruct Hsegs as [Ht Hr].
    destruct t as [s|m]; cbn [ph_names] in Hn; [apply IH; assumption|].
    destruct Hn as [<-|Hn]; [exact Ht|apply IH; assumption]. }
  rewrite Hpat, loop_tokens in Hinit; [|intros o Ho; split; [apply Hgram|]; apply Hdecl, Houts, Ho|exact Hpre_ok].
  injection Hinit as Hp _. subst pat.
  (* the request *)
  rewrite router_params_cap in Hperm. fold e in Hperm.
  assert (Hkeys : keys e = names) by (apply keys_combine, Hlen).
  assert (Hinj : forall p q, In p names -> In q names -> config_cap p = config_cap q -> p = q)
    by (apply amb_inj, Hamb).
  assert (Hndc : NoDup (keys (cap_env e))).
  { rewrite keys_cap_env, Hkeys. apply NoDup_map_in; assumption. }
  assert (Hval : forall v, In v vals -> unreserved_b v = true) by (apply forallb_forall, Hvals).
  assert (Hps : forallb (fun kv => brace_free (fst kv) && brace_free (snd kv)) ps = true).
  { apply forallb_forall. intros [k v] Hin.
    pose proof (Permutation_in _ Hperm Hin) as Hin'. unfold cap_env in Hin'.
    apply in_map_iff in Hin'. destruct Hin' as [[n v'] [E Hnv]]. cbn [fst snd] in E. inversion E; subst.
    cbn [fst snd]. pose proof (in_combine_l _ _ _ _ Hnv) as Hn. pose proof (in_combine_r _ _ _ _ Hnv) as Hv.
    destruct (grammar_parts n (Hgram n Hn)) as [_ Hnc].
    rewrite (name_chars_brace_free _ (cap_name_char n Hnc)).
    destruct (unreserved_facts v (Hval v Hv)) as [Hb _]. rewrite Hb. reflexivity. }
  rewrite generate_tokens; [|exact Hps|].
  2:{ clear - Hpre_ok Hgram Hdecl Houts. revert Hpre_ok. generalize (pre ++ map inj be)%list as ts.
      assert (Hall : forall o, In o outs -> brace_free (config_cap o) = true).
      { intros o Ho. destruct (grammar_parts o (Hgram o (Hdecl o (Houts o Ho)))) as [_ Hnc].
        apply name_chars_brace_free, cap_name_char, Hnc. }
      clear - Hall. induction outs as [|o r IH]; intros ts Hts.
      - cbn [fold_left]. rewrite map_id. exact Hts.
      - cbn [fold_left].
        replace (map (fun t => fold_left step1 r (step1 t o)) ts)
          with (map (fun t => fold_left step1 r t) (map (sub1 o (config_cap o)) ts))
          by (rewrite map_map; reflexivity).
        apply IH; [intros o' Ho'; apply Hall; right; exact Ho'|].
        apply sub1_ok; [apply Hall; left; reflexivity|exact Hts]. }
  (* every placeholder of the url_pattern resolves to its segment *)
  assert (Hres : forall n, In n (ph_names be) -> str_mem n outs = true /\
            exists v, lookup n e = Some v /\ lookup (config_cap n) ps = Some v).
  { intros n Hn. split.
    - apply str_mem_In. unfold outs. apply (proj2 (in_dedup_adj _ _)), (proj2 (in_sort_str _ _)). exact Hn.
    - destruct (env_lookup names vals n Hlen (Hdecl n Hn)) as [v [Hl _]]. exists v. split; [exact Hl|].
      rewrite (lookup_perm (cap_env e) ps _ Hndc (Permutation_sym Hperm)).
      rewrite lookup_cap_env; [exact Hl|]. intros m Hm Hc. rewrite Hkeys in Hm.
      apply Hinj; auto. }
  assert (Hvalues : forall n, In n (ph_names be) -> exists v, lookup n e = Some v /\ unreserved_b v = true).
  { intros n Hn. destruct (env_lookup names vals n Hlen (Hdecl n Hn)) as [v [Hl Hv]]. eauto. }
  rewrite !map_app, rtks_app_pre.
  rewrite (final_tokens outs ps e be Hres).
  assert (Hexp : expected_path be e = (rtks (map (resolve ps) (map (fun t => fold_left step1 outs t) pre)) ++ subst be e)).
  { unfold expected_path. rewrite clean_path_eq, subst_starts.
    - unfold pre. destruct (starts_slash (render be)); cbn [map]; rewrite ?fold_L; reflexivity.
    - intros n Hn. destruct (Hvalues n Hn) as [v [Hl Hu]]. destruct (unreserved_facts v Hu) as [_ [Hs Hne]]. eauto. }
  split; [symmetry; exact Hexp|].
  apply no_lbrace_no_tpl. rewrite has_char_app.
  rewrite subst_no_lbrace.
  - unfold pre. destruct (starts_slash (render be)); cbn [map]; rewrite ?fold_L; reflexivity.
  - exact Hbe.
  - intros n Hn. destruct (Hvalues n Hn) as [v [Hl Hu]]. destruct (unreserved_facts v Hu) as [Hb _]. eauto.
Qed.

(* ---- consequences for the whole chain and for the oracle ---- *)
Lemma init_accepted_declares segs be pat ks :
  forallb seg_ok segs = true -> forallb be_tok_ok be = true ->
  init (render_ep segs) (render be) = Accepted pat ks ->
  undeclared_b (ph_names segs) (ph_names be) = false.
Proof.
  intros Hsegs Hbe Hinit. destruct (undeclared_b (ph_names segs) (ph_names be)) eqn:E; [|reflexivity].
  apply undeclared_b_iff in E. destruct E as [n [Hin [Hs Hn]]].
  destruct (rejects_undeclared (render_ep segs) (render be) n) as [w Hw].
  - rewrite bo_clean, bo_tokens; assumption.
  - exact Hs.
  - rewrite ep_clean; assumption.
  - congruence.
Qed.

Lemma rejects_undeclared_tokens a segs be vals :
  forallb seg_ok segs = true -> forallb be_tok_ok be = true ->
  Undeclared (ph_names segs) (ph_names be) -> serve a segs be vals = ORejected.
Proof.
  intros Hsegs Hbe Hu. unfold serve.
  destruct (init (render_ep segs) (render be)) as [pat ks|w] eqn:E; [|reflexivity].
  apply undeclared_b_iff in Hu. rewrite (init_accepted_declares segs be pat ks Hsegs Hbe E) in Hu. discriminate.
Qed.

Lemma all_declared names used :
  undeclared_b names used = false -> uses_seq_ref_b names used = false ->
  forall n, In n used -> In n names.
Proof.
  unfold undeclared_b, uses_seq_ref_b. intros H1 H2 n Hn.
  pose proof (existsb_false _ _ H1 n Hn) as E1. pose proof (existsb_false _ _ H2 n Hn) as E2.
  cbv beta in E1, E2. apply str_mem_In.
  destruct (str_mem n names); [reflexivity|]. destruct (seq_ref n); discriminate.
Qed.

Lemma serve_substituted a segs be vals :
  wf_route segs be vals = true ->
  (forall n, In n (ph_names be) -> In n (ph_names segs)) ->
  serve a segs be vals = ORejected \/
  exists p, serve a segs be vals = OPath p /\ Substituted segs be vals p.
Proof.
  intros Hwf Hdecl. unfold serve.
  destruct (init (render_ep segs) (render be)) as [pat ks|w] eqn:E; [right|left; reflexivity].
  eexists. split; [reflexivity|].
  eapply substitution; eauto.
Qed.

Lemma route_meets_oracle a segs be vals :
  wf_route segs be vals = true -> spec_route_b segs be vals (serve a segs be vals) = true.
Proof.
  intros Hwf. unfold serve.
  destruct (init (render_ep segs) (render be)) as [pat ks|w] eqn:E; [|reflexivity].
  assert (Hsegs : forallb seg_ok segs = true /\ forallb be_tok_ok be = true).
  { unfold wf_route in Hwf. repeat (apply andb_true_iff in Hwf; destruct Hwf as [Hwf ?]). auto. }
  destruct Hsegs as [Hsegs Hbe].
  cbn [spec_route_b]. rewrite (init_accepted_declares segs be pat ks Hsegs Hbe E). cbn [negb andb].
  destruct (uses_seq_ref_b (ph_names segs) (ph_names be)) eqn:Es; [reflexivity|]. cbn [orb].
  assert (Hdecl : forall n, In n (ph_names be) -> In n (ph_names segs)).
  { apply all_declared; [eapply init_accepted_declares; eauto|exact Es]. }
  destruct (substitution a segs be vals pat ks _ Hwf Hdecl E (Permutation_refl _)) as [H1 H2].
  rewrite H2, andb_true_r. apply str_eqb_eq. exact H1.
Qed.

Lemma route_oracle_sound segs be vals p :
  spec_route_b segs be vals (OPath p) = true ->
  ~ Undeclared (ph_names segs) (ph_names be) /\
  ((forall n, In n (ph_names be) -> In n (ph_names segs)) -> Substituted segs be vals p).
Proof.
  cbn [spec_route_b]. intros H. apply andb_true_iff in H. destruct H as [H1 H2].
  apply negb_true_iff in H1. split.
  - intros Hu. apply undeclared_b_iff in Hu. congruence.
  - intros Hdecl. destruct (uses_seq_ref_b (ph_names segs) (ph_names be)) eqn:Es.
    + exfalso. unfold uses_seq_ref_b in Es. apply existsb_exists in Es. destruct Es as [n [Hn E]].
      apply andb_true_iff in E. destruct E as [_ E]. apply negb_true_iff in E.
      apply Hdecl, str_mem_In in Hn. congruence.
    + cbn [orb] in H2. apply andb_true_iff in H2. destruct H2 as [Ha Hb].
      apply str_eqb_eq in Ha. split; assumption.
Qed.

Lemma accepted_keys_distinct ep be pat ks : init ep be = Accepted pat ks ->
  forall p q, In p (endpoint_params (clean_path ep)) -> In q (endpoint_params (clean_path ep)) ->
  config_cap p = config_cap q -> p = q.
Proof.
  unfold init. intros H.
  destruct (invalid_endpoint (clean_path ep)); [discriminate|].
  destruct (ambiguous (endpoint_params (clean_path ep))) eqn:E; [discriminate|].
  apply amb_inj, E.
Qed.

Lemma scanners_read_tokens segs be :
  forallb seg_ok segs = true -> forallb be_tok_ok be = true ->
  endpoint_params (clean_path (render_ep segs)) = ph_names segs /\
  backend_outputs (clean_path (render be)) = ph_names be.
Proof. intros H1 H2. split; [apply ep_clean, H1|rewrite bo_clean; apply bo_tokens, H2]. Qed.

(* ---- the order of the declared parameters does not matter to Init ---- *)
Lemma ambiguous_iff l : ambiguous l = true <->
  exists p q, In p l /\ In q l /\ p <> q /\ config_cap p = config_cap q.
Proof.
  split.
  - induction l as [|x r IH]; [discriminate|]. cbn [ambiguous]. intros H.
    apply orb_true_iff in H. destruct H as [H|H].
    + apply existsb_exists in H. destruct H as [q [Hq E]]. apply andb_true_iff in E. destruct E as [E1 E2].
      apply negb_true_iff, str_eqb_neq in E1. apply str_eqb_eq in E2.
      exists x, q. repeat split; auto; [left; reflexivity|right; exact Hq].
    + destruct (IH H) as [p [q [Hp [Hq [Hne Hc]]]]]. exists p, q. repeat split; auto; right; assumption.
  - intros [p [q [Hp [Hq [Hne Hc]]]]]. destruct (ambiguous l) eqn:E; [reflexivity|].
    exfalso. apply Hne. exact (amb_inj l E p q Hp Hq Hc).
Qed.

Lemma ambiguous_perm l l' : Permutation l l' -> ambiguous l = ambiguous l'.
Proof.
  intros Hp. destruct (ambiguous l) eqn:E.
  - symmetry. apply ambiguous_iff. apply ambiguous_iff in E. destruct E as [p [q [H1 [H2 H3]]]].
    exists p, q. repeat split; try tauto; eapply Permutation_in; eauto.
  - destruct (ambiguous l') eqn:E'; [|reflexivity].
    apply ambiguous_iff in E'. destruct E' as [p [q [H1 [H2 H3]]]].
    assert (ambiguous l = true); [|congruence]. apply ambiguous_iff.
    exists p, q. repeat split; try tauto; eapply Permutation_in; try apply Permutation_sym; eauto.
Qed.

Lemma dedup_In x l : In x (dedup l) <-> In x l.
Proof.
  induction l as [|y r IH]; [simpl; tauto|]. cbn [dedup].
  destruct (str_mem y r) eqn:E.
  - rewrite IH. apply str_mem_In in E. split; [right; assumption|intros [<-|H]; assumption].
  - cbn [In]. rewrite IH. tauto.
Qed.

Lemma dedup_NoDup l : NoDup (dedup l).
Proof.
  induction l as [|y r IH]; [constructor|]. cbn [dedup].
  destruct (str_mem y r) eqn:E; [exact IH|].
  constructor; [|exact IH]. rewrite dedup_In. apply str_mem_false. exact E.
Qed.

Lemma dedup_length_perm l l' : Permutation l l' -> List.length (dedup l) = List.length (dedup l').
Proof.
  intros Hp. apply Permutation_length. apply NoDup_Permutation; try apply dedup_NoDup.
  intros x. rewrite !dedup_In. split; intros H.
  - exact (Permutation_in _ Hp H).
  - exact (Permutation_in _ (Permutation_sym Hp) H).
Qed.

Lemma rewrite_loop_mem ins ins' : (forall o, str_mem o ins = str_mem o ins') ->
  forall outs pat ks, rewrite_loop ins outs pat ks = rewrite_loop ins' outs pat ks.
Proof.
  intros H. induction outs as [|o r IH]; intros pat ks; [reflexivity|].
  cbn [rewrite_loop]. rewrite (H o). destruct (negb (seq_ref o) && negb (str_mem o ins')); [reflexivity|apply IH].
Qed.

(* what Init decides from the declared parameters, once the endpoint text is valid *)
Definition init_params (ins : list string) (be : string) : init_result :=
  if ambiguous ins then Rejected RAmbiguous else
  let pat := clean_path be in
  let '(outs, size) := unique_output (backend_outputs pat) in
  if (List.length (dedup ins) <? size)%nat then Rejected RWrongNumber
  else rewrite_loop ins outs pat [].

Lemma init_factors ep be :
  init ep be = if invalid_endpoint (clean_path ep) then Rejected RInvalidEndpoint
               else init_params (endpoint_params (clean_path ep)) be.
Proof. reflexivity. Qed.

Lemma init_params_perm ins ins' be : Permutation ins ins' -> init_params ins be = init_params ins' be.
Proof.
  intros Hp. unfold init_params. rewrite (ambiguous_perm _ _ Hp).
  destruct (ambiguous ins'); [reflexivity|].
  destruct (unique_output (backend_outputs (clean_path be))) as [outs size].
  rewrite (dedup_length_perm _ _ Hp).
  destruct (List.length (dedup ins') <? size)%nat; [reflexivity|].
  apply rewrite_loop_mem. intros o.
  destruct (str_mem o ins) eqn:E, (str_mem o ins') eqn:E'; try reflexivity.
  - apply str_mem_In in E. apply (Permutation_in _ Hp), str_mem_In in E. congruence.
  - apply str_mem_In in E'. apply (Permutation_in _ (Permutation_sym Hp)), str_mem_In in E'. congruence.
Qed.

Lemma ambiguous_never_served a segs be vals p q :
  forallb seg_ok segs = true ->
  In p (ph_names segs) -> In q (ph_names segs) -> p <> q -> config_cap p = config_cap q ->
  serve a segs be vals = ORejected.
Proof.
  intros Hsegs Hp Hq Hne Hc. unfold serve. rewrite init_factors, (ep_clean segs Hsegs).
  destruct (invalid_endpoint (clean_path (render_ep segs))); [reflexivity|].
  unfold init_params.
  assert (E : ambiguous (ph_names segs) = true) by (apply ambiguous_iff; exists p, q; auto).
  rewrite E. reflexivity.
Qed.
