(* C18 - third part of the proofs: values handed from modifier to modifier. *)
Require Import Verif.Common.Base Verif.Common.Json.
Require Import Verif.Model.C18 Verif.Spec.C18 Verif.Proof.C18 Verif.Proof.C18_b.

Lemma tags_cons lv p b l :
  tags lv ((p, b) :: l) = ((if modifies b then [(lv, p)] else []) ++ tags lv l)%list.
Proof. unfold tags. simpl. destruct (modifies b); reflexivity. Qed.

Lemma steps_cons lv m l v : steps lv (m :: l) v = steps lv l (apply_beh lv m v).
Proof. reflexivity. Qed.

Lemma steps_app lv a b v : steps lv (a ++ b) v = steps lv b (steps lv a v).
Proof. unfold steps. apply fold_left_app. Qed.

(* without a stripping modifier the value only grows: initial value plus the tags *)
Lemma steps_tags lv l : forall v,
  Forall (fun m => strips (snd m) = false) l -> steps lv l v = (v ++ tags lv l)%list.
Proof.
  induction l as [|[p b] r IH]; intros v H.
  - simpl. rewrite app_nil_r. reflexivity.
  - inversion H as [|x y Hx Hy]; subst. rewrite steps_cons, tags_cons, IH by exact Hy.
    unfold apply_beh. simpl in *. destruct b; simpl; try reflexivity; try discriminate.
    rewrite <- app_assoc. reflexivity.
Qed.

(* a stripping modifier is not undone: what comes before it does not matter *)
Lemma steps_strip lv pre p post v :
  steps lv (pre ++ (p, BStrip) :: post) v = steps lv post [].
Proof. rewrite steps_app, steps_cons. reflexivity. Qed.

(* the invoked modifiers are those of the order model *)
Lemma thread_called lv l : forall v, map fst (fst (thread lv l v)) = called l.
Proof.
  induction l as [|[p b] r IH]; intros v; [reflexivity|].
  assert (G : forall v', map fst (fst (let '(s, o) := thread lv r v' in ((p, v) :: s, o))) = p :: called r).
  { intros v'. specialize (IH v'). destruct (thread lv r v') as [s o]. simpl in *. congruence. }
  destruct b; simpl; try apply G. reflexivity.
Qed.

(* the value left after the loop *)
Lemma thread_out lv l : forall v, snd (thread lv l v) = out_decl lv l v.
Proof.
  unfold out_decl. induction l as [|[p b] r IH]; intros v; [reflexivity|].
  assert (G : forall v', snd (let '(s, o) := thread lv r v' in ((p, v) :: s, o)) =
                         match failed r with Some _ => None | None => Some (steps lv r v') end).
  { intros v'. specialize (IH v'). destruct (thread lv r v') as [s o]. simpl in *. exact IH. }
  destruct b; simpl; try apply G. reflexivity.
Qed.

Lemma seen_decl_cons lv p b r v :
  is_fail b = false ->
  seen_decl lv ((p, b) :: r) v = (p, v) :: seen_decl lv r (apply_beh lv (p, b) v).
Proof.
  intros Hb. unfold seen_decl. simpl called. rewrite Hb. simpl List.length.
  rewrite <- cons_seq. simpl map. f_equal.
  rewrite <- seq_shift, map_map. apply map_ext. intros i. simpl nth_error. simpl firstn.
  rewrite steps_cons. reflexivity.
Qed.

(* what each invoked modifier saw *)
Lemma thread_seen lv l : forall v, fst (thread lv l v) = seen_decl lv l v.
Proof.
  induction l as [|[p b] r IH]; intros v; [reflexivity|].
  assert (G : forall v', fst (let '(s, o) := thread lv r v' in ((p, v) :: s, o)) = (p, v) :: seen_decl lv r v').
  { intros v'. specialize (IH v'). destruct (thread lv r v') as [s o]. simpl in *. congruence. }
  destruct b; try (rewrite seen_decl_cons by reflexivity; simpl; apply G).
  reflexivity.
Qed.

Lemma thread_decl lv l v : thread lv l v = (seen_decl lv l v, out_decl lv l v).
Proof. rewrite <- thread_seen, <- thread_out. destruct (thread lv l v); reflexivity. Qed.

(* the layer, on values, is the declarative one *)
Lemma plugin_vrun_decl lv rq rs inner v :
  plugin_vrun lv rq rs inner v = vlayer_decl lv rq rs inner v.
Proof.
  unfold plugin_vrun, vlayer_decl. rewrite thread_decl.
  destruct (out_decl lv rq v) as [v'|]; [|reflexivity].
  destruct (inner v') as [li [|t]]; [reflexivity|]. rewrite thread_decl. reflexivity.
Qed.

Lemma vlayer_decl_nil lv inner v : vlayer_decl lv [] [] inner v = inner v.
Proof.
  unfold vlayer_decl, out_decl, seen_decl. simpl.
  destruct (inner v) as [li [|t]]; simpl; rewrite ?app_nil_r; reflexivity.
Qed.

Lemma vlayer_decl_ext lv rq rs inner inner' v :
  (forall x, inner x = inner' x) -> vlayer_decl lv rq rs inner v = vlayer_decl lv rq rs inner' v.
Proof.
  intros H. unfold vlayer_decl. destruct (out_decl lv rq v) as [v'|]; [|reflexivity].
  rewrite H. reflexivity.
Qed.

Lemma plugin_vmw_decl lv R s inner v :
  plugin_vmw lv R s inner v =
  vlayer_decl lv (configured_req R (shape_names s)) (configured_resp R (shape_names s)) inner v.
Proof.
  destruct s; simpl; try (symmetry; apply vlayer_decl_nil).
  rewrite resolve_configured. apply plugin_vrun_decl.
Qed.

Lemma vstack_decl_eq R pe pb t0 v : vstack R pe pb t0 v = vstack_decl R pe pb t0 v.
Proof.
  unfold vstack, vstack_decl. rewrite plugin_vmw_decl. apply vlayer_decl_ext.
  intros x. apply plugin_vmw_decl.
Qed.

(* boolean equalities *)
Lemma tag_eqb_refl a : tag_eqb a a = true.
Proof. unfold tag_eqb. rewrite Nat.eqb_refl, andb_true_r. apply level_eqb_eq. reflexivity. Qed.
Lemma trace_eqb_refl t : trace_eqb t t = true.
Proof. induction t as [|a t IH]; simpl; [reflexivity|]. unfold trace_eqb in *. simpl. rewrite tag_eqb_refl, IH. reflexivity. Qed.
Lemma vevent_eqb_refl e : vevent_eqb e e = true.
Proof.
  assert (L : forall l, level_eqb l l = true) by (intros; apply level_eqb_eq; reflexivity).
  destruct e; simpl; rewrite ?L, ?Nat.eqb_refl, ?trace_eqb_refl; reflexivity.
Qed.
Lemma vcomp_eqb_refl c : vcomp_eqb c c = true.
Proof.
  unfold vcomp_eqb. destruct c as [l r]. simpl. apply andb_true_iff. split.
  - induction l as [|e l IH]; simpl; [reflexivity|]. rewrite vevent_eqb_refl, IH. reflexivity.
  - destruct r; simpl; [reflexivity|apply trace_eqb_refl].
Qed.

Lemma tag_eqb_eq a b : tag_eqb a b = true <-> a = b.
Proof.
  destruct a as [l p], b as [l' p']. unfold tag_eqb. simpl.
  rewrite andb_true_iff, level_eqb_eq, Nat.eqb_eq. split; [intros [-> ->]; reflexivity|intros H; inversion H; auto].
Qed.
Lemma trace_eqb_eq a b : trace_eqb a b = true <-> a = b.
Proof. apply list_eqb_eq. apply tag_eqb_eq. Qed.
Lemma vevent_eqb_eq a b : vevent_eqb a b = true <-> a = b.
Proof.
  destruct a, b; simpl; try (split; congruence);
    rewrite ?andb_true_iff, ?level_eqb_eq, ?Nat.eqb_eq, ?trace_eqb_eq; split;
    try (intros [[-> ->] ->]; reflexivity); try (intros H; inversion H; auto);
    try (intros ->; reflexivity).
Qed.
Lemma vcomp_eqb_eq a b : vcomp_eqb a b = true <-> a = b.
Proof.
  destruct a as [l r], b as [l' r']. unfold vcomp_eqb. simpl.
  rewrite andb_true_iff, (list_eqb_eq vevent_eqb vevent_eqb_eq).
  assert (H : vresult_eqb r r' = true <-> r = r').
  { destruct r, r'; simpl; try (split; congruence). rewrite trace_eqb_eq. split; congruence. }
  rewrite H. split; [intros [-> ->]; reflexivity|intros E; inversion E; auto].
Qed.

(* the oracle of the value cases says exactly: the observation is the declarative stack *)
Lemma thread_spec_b_sound R pe pb v0 t0 obs :
  thread_spec_b R pe pb v0 t0 obs = true -> obs = vstack_decl R pe pb t0 v0.
Proof. unfold thread_spec_b. intros H. apply vcomp_eqb_eq in H. congruence. Qed.

Lemma thread_model_meets_oracle R pe pb v0 t0 :
  thread_spec_b R pe pb v0 t0 (vstack R pe pb t0 v0) = true.
Proof. unfold thread_spec_b. rewrite vstack_decl_eq. apply vcomp_eqb_refl. Qed.

(* explicit forms *)
Lemma failed_none_of_notfail l : Forall notfail l -> failed l = None.
Proof. intros H. apply (run_all_ok l H). Qed.

Lemma called_all_of_notfail l : Forall notfail l -> called l = map fst l.
Proof. intros H. apply (run_all_ok l H). Qed.

(* position i of an all-succeeding list sees the initial value plus the tags of the
   modifying modifiers before it *)
Lemma seen_at lv l v i p b :
  Forall notfail (firstn i l) -> nth_error l i = Some (p, b) ->
  nth_error (seen_decl lv l v) i = Some (p, steps lv (firstn i l) v).
Proof.
  intros Hpre Hn. unfold seen_decl.
  assert (Hlt : i < List.length (called l)).
  { clear v. revert i Hpre Hn. induction l as [|[q c] r IH]; intros i Hpre Hn; [destruct i; discriminate|].
    simpl. destruct i as [|i].
    - destruct (is_fail c); simpl; lia.
    - simpl in Hpre, Hn. inversion Hpre as [|x y Hx Hy]; subst.
      destruct (is_fail c) eqn:E; [apply is_fail_true in E; unfold notfail in Hx; simpl in Hx; contradiction|].
      simpl. specialize (IH i Hy Hn). lia. }
  assert (Hs : nth_error (seq 0 (List.length (called l))) i = Some i).
  { rewrite (nth_error_nth' _ 0) by (rewrite seq_length; exact Hlt).
    rewrite seq_nth by exact Hlt. reflexivity. }
  rewrite (map_nth_error _ _ _ Hs). rewrite Hn. reflexivity.
Qed.

Lemma vlayer_all_ok lv rq rs inner v li t :
  Forall notfail rq -> Forall notfail rs -> inner (steps lv rq v) = (li, VRet t) ->
  vlayer_decl lv rq rs inner v =
  ((vreq lv (seen_decl lv rq v) ++ li ++ vresp lv (seen_decl lv rs t))%list, VRet (steps lv rs t)).
Proof.
  intros Hq Hs Hi. unfold vlayer_decl, out_decl.
  rewrite (failed_none_of_notfail rq Hq), Hi, (failed_none_of_notfail rs Hs). reflexivity.
Qed.

Lemma vlayer_req_abort lv rq rs inner v p :
  failed rq = Some p -> vlayer_decl lv rq rs inner v = (vreq lv (seen_decl lv rq v), VNone).
Proof. intros H. unfold vlayer_decl, out_decl. rewrite H. reflexivity. Qed.

Section ValuesExplicit.
  Variables (R : registry) (pe pb : pshape).
  Let rqe := configured_req R (shape_names pe).
  Let rse := configured_resp R (shape_names pe).
  Let rqb := configured_req R (shape_names pb).
  Let rsb := configured_resp R (shape_names pb).

  Lemma vstack_all_ok v t0 :
    Forall notfail rqe -> Forall notfail rse -> Forall notfail rqb -> Forall notfail rsb ->
    vstack R pe pb (Some t0) v =
    ((vreq LEndpoint (seen_decl LEndpoint rqe v) ++
      (vreq LBackend (seen_decl LBackend rqb (steps LEndpoint rqe v)) ++
       [VBackend (steps LBackend rqb (steps LEndpoint rqe v))] ++
       vresp LBackend (seen_decl LBackend rsb t0)) ++
      vresp LEndpoint (seen_decl LEndpoint rse (steps LBackend rsb t0)))%list,
     VRet (steps LEndpoint rse (steps LBackend rsb t0))).
  Proof.
    intros H1 H2 H3 H4. rewrite vstack_decl_eq. unfold vstack_decl. fold rqe rse rqb rsb.
    apply vlayer_all_ok; [exact H1|exact H2|].
    apply vlayer_all_ok; [exact H3|exact H4|]. reflexivity.
  Qed.
End ValuesExplicit.

(* forgetting the values gives the call log of the order model: C18_order and its
   corollaries speak about the same run *)
Lemma erase_vreq lv s : map erase (vreq lv s) = map (EvReq lv) (map fst s).
Proof. unfold vreq. rewrite !map_map. reflexivity. Qed.
Lemma erase_vresp lv s : map erase (vresp lv s) = map (EvResp lv) (map fst s).
Proof. unfold vresp. rewrite !map_map. reflexivity. Qed.

Lemma vrun_refines_order lv rq rs inner v li ri x :
  inner (steps lv rq v) = (li, ri) ->
  map erase (fst (plugin_vrun lv rq rs inner v)) =
  fst (plugin_run lv rq rs (map erase li,
                            match ri with VRet _ => ORet (Some x) ENone | VNone => ORet None ENone end)).
Proof.
  intros Hi. unfold plugin_vrun, plugin_run.
  rewrite run_mods_called_failed.
  pose proof (thread_called lv rq v) as Hc. pose proof (thread_out lv rq v) as Ho.
  destruct (thread lv rq v) as [s1 o1]. simpl in Hc, Ho. unfold out_decl in Ho.
  destruct (failed rq) as [p|]; subst o1.
  - simpl. rewrite erase_vreq, Hc. reflexivity.
  - rewrite Hi. destruct ri as [|t].
    + simpl. destruct rs; simpl; rewrite map_app, erase_vreq, Hc; reflexivity.
    + simpl is_err. cbv iota.
      pose proof (thread_called lv rs t) as Hc2.
      destruct (thread lv rs t) as [s2 o2]. simpl in Hc2.
      destruct rs as [|m rs'].
      * simpl in Hc2. destruct s2; [|discriminate]. simpl.
        rewrite !map_app, erase_vreq, Hc. simpl. rewrite app_nil_r. reflexivity.
      * rewrite run_mods_called_failed.
        assert (E : map erase (vreq lv s1 ++ li ++ vresp lv s2)%list =
                    (map (EvReq lv) (called rq) ++ map erase li ++ map (EvResp lv) (called (m :: rs')))%list).
        { rewrite !map_app, erase_vreq, erase_vresp, Hc, Hc2. reflexivity. }
        cbv beta iota. destruct (failed (m :: rs')); cbn [fst]; exact E.
Qed.
