(* C15 - proofs, part 6: "never loses hosts".  The list resolved from an answer is non-empty
   exactly when some record of the lowest priority has a positive weight (the heaviest such
   record always gets at least one entry), and along every history a failing refresh, whatever
   it returns, cannot empty a non-empty list. *)
Require Import Verif.Common.Base Verif.Model.C15 Verif.Spec.C15 Verif.Proof.C15 Verif.Proof.C15_hist.
From Coq Require Import Permutation.
Open Scope Z_scope.

Lemma sum_le_len_max ws m : (forall x, In x ws -> x <= m) -> sumZ ws <= Z.of_nat (List.length ws) * m.
Proof.
  induction ws as [|x r IH]; intros H; [simpl; lia|].
  assert (x <= m) by (apply H; left; reflexivity).
  assert (sumZ r <= Z.of_nat (List.length r) * m) by (apply IH; intros y Hy; apply H; right; exact Hy).
  change (sumZ (x :: r)) with (x + sumZ r). change (List.length (x :: r)) with (S (List.length r)).
  rewrite Nat2Z.inj_succ. lia.
Qed.

(* a heaviest record with positive weight gets a positive quota *)
Lemma quota_max_pos ws m : In m ws -> (forall x, In x ws -> x <= m) -> 0 < m -> 1 <= quota ws m.
Proof.
  intros Hin Hmax Hpos. rewrite quota_unfold.
  destruct (sumZ ws <=? scale_of ws) eqn:E; [lia|]. apply Z.leb_gt in E.
  pose proof (sum_le_len_max ws m Hmax) as Hs. pose proof (scale_eq ws) as Hsc.
  apply Z.div_le_lower_bound; [lia|]. nia.
Qed.

Lemma max_exists (g : list srv) : (exists a, In a g /\ 0 < weight a) ->
  exists m, In m g /\ 0 < weight m /\ forall x, In x g -> weight x <= weight m.
Proof.
  induction g as [|a r IH]; intros [b [Hb Hpos]]; [contradiction|].
  destruct (Z_lt_le_dec 0 (sumZ (map (fun x => Z.max 0 (weight x)) r))) as [Hr|Hr].
  - assert (exists c, In c r /\ 0 < weight c) as Hex.
    { clear -Hr. induction r as [|c r IH]; simpl in Hr; [lia|].
      destruct (Z_lt_le_dec 0 (weight c)); [exists c; split; [left; reflexivity|assumption]|].
      destruct IH as [d [Hd Hp]]; [lia|]. exists d. split; [right; exact Hd|exact Hp]. }
    destruct (IH Hex) as [m [Hm [Hmp Hmax]]].
    destruct (Z_le_gt_dec (weight a) (weight m)).
    + exists m. split; [right; exact Hm|]. split; [exact Hmp|]. intros x [<-|Hx]; [assumption|apply Hmax; exact Hx].
    + exists a. split; [left; reflexivity|]. split; [lia|]. intros x [<-|Hx]; [lia|]. specialize (Hmax x Hx). lia.
  - assert (Hall : forall x, In x r -> weight x <= 0).
    { clear -Hr. induction r as [|c r IH]; simpl in *; [tauto|].
      assert (0 <= sumZ (map (fun x => Z.max 0 (weight x)) r)).
      { clear. induction r as [|d r IH]; simpl; lia. }
      intros x [<-|Hx]; [lia|apply IH; [lia|exact Hx]]. }
    destruct Hb as [<-|Hb]; [|specialize (Hall b Hb); lia].
    exists a. split; [left; reflexivity|]. split; [exact Hpos|].
    intros x [<-|Hx]; [lia|]. specialize (Hall x Hx). lia.
Qed.

Lemma in_flat_repeat (f : srv -> string) (t : Z -> Z) g m :
  In m g -> 1 <= t (weight m) ->
  In (f m) (flat_map (fun a => repeat (f a) (Z.to_nat (t (weight a)))) g).
Proof.
  intros Hin Ht. apply in_flat_map. exists m. split; [exact Hin|].
  destruct (Z.to_nat (t (weight m))) eqn:E; [lia|]. simpl. left; reflexivity.
Qed.

(* the heaviest lowest-priority record with a positive weight is in the list *)
Lemma resolve_keeps_heaviest scheme rs : wf_rs rs ->
  (exists a, In a (low rs) /\ 0 < weight a) ->
  exists m, In m (low rs) /\ 0 < weight m /\ (forall x, In x (low rs) -> weight x <= weight m) /\
            In (host_of scheme m) (resolve scheme rs).
Proof.
  intros Hwf Hex. destruct (max_exists (low rs) Hex) as [m [Hm [Hpos Hmax]]].
  exists m. repeat split; try assumption.
  destruct (resolve_as_flat_map scheme rs Hwf) as [d [Hd [Hres [Hdiv Hwfm]]]].
  set (gm := low_group (sort_srv rs)) in *.
  assert (Hp : Permutation gm (low rs)) by apply low_group_perm.
  assert (Hmg : In m gm) by (apply (Permutation_in _ (Permutation_sym Hp)); exact Hm).
  rewrite Hres.
  apply (in_flat_repeat (host_of scheme) (fun w => quota (map weight gm) w / d) gm m Hmg).
  assert (Hq : 1 <= quota (map weight gm) (weight m)).
  { apply quota_max_pos; [apply in_map; exact Hmg| |exact Hpos].
    intros x Hx. apply in_map_iff in Hx. destruct Hx as [b [<- Hb]]. apply Hmax.
    apply (Permutation_in _ Hp). exact Hb. }
  specialize (Hdiv (weight m) (in_map weight gm m Hmg)). nia.
Qed.

Lemma low_zero_empty scheme rs : wf_rs rs -> (forall a, In a (low rs) -> weight a = 0) ->
  resolve scheme rs = [].
Proof.
  intros Hwf H.
  destruct (resolve_as_flat_map scheme rs Hwf) as [d [Hd [Hres _]]].
  rewrite Hres. set (gm := low_group (sort_srv rs)).
  apply (flat_repeat_nil (host_of scheme) (fun w => quota (map weight gm) w / d)).
  intros a Ha. apply (Permutation_in _ (low_group_perm rs)) in Ha. rewrite (H a Ha).
  rewrite quota_unfold. destruct (_ <=? _); rewrite ?Z.mul_0_l, ?Z.div_0_l; try reflexivity.
  - pose proof (scale_eq (map weight gm)). lia.
  - lia.
Qed.

(* non-empty exactly when the lowest priority has a record with a positive weight *)
Lemma resolve_nonempty_iff scheme rs : wf_rs rs ->
  (resolve scheme rs <> [] <-> exists a, In a (low rs) /\ 0 < weight a).
Proof.
  intros Hwf. split.
  - intros Hne.
    destruct (existsb (fun a => 0 <? weight a) (low rs)) eqn:E.
    + apply existsb_exists in E. destruct E as [a [Ha Hp]]. exists a. split; [exact Ha|apply Z.ltb_lt; exact Hp].
    + exfalso. apply Hne. apply low_zero_empty; [exact Hwf|]. intros a Ha.
      assert (Hz : (0 <? weight a) = false).
      { destruct (0 <? weight a) eqn:E2; [|reflexivity].
        assert (existsb (fun a => 0 <? weight a) (low rs) = true) by (apply existsb_exists; exists a; auto). congruence. }
      apply Z.ltb_ge in Hz. apply low_incl in Ha. unfold wf_rs in Hwf. rewrite Forall_forall in Hwf.
      specialize (Hwf a (proj1 Ha)). lia.
  - intros Hex Hnil. destruct (resolve_keeps_heaviest scheme rs Hwf Hex) as [m [_ [_ [_ Hin]]]].
    rewrite Hnil in Hin. contradiction.
Qed.

(* never loses hosts: once a lookup succeeded with a usable answer, every read until the next
   successful lookup returns a non-empty list containing the heaviest lowest-priority target -
   however many refreshes fail in between, whatever they return, whatever callers do *)
Lemma never_loses_hosts scheme pre post rs : last_ok None pre = Some rs -> wf_rs rs ->
  (exists a, In a (low rs) /\ 0 < weight a) ->
  exists l m, nth_error (reads scheme (pre ++ ERead :: post)) (n_reads pre) = Some l /\
              In m (low rs) /\ (forall x, In x (low rs) -> weight x <= weight m) /\
              In (host_of (eff_scheme scheme) m) l.
Proof.
  intros Hlast Hwf Hex. pose proof (history_read scheme pre post) as H. rewrite Hlast in H.
  destruct (resolve_keeps_heaviest (eff_scheme scheme) rs Hwf Hex) as [m [Hm [_ [Hmax Hin]]]].
  exists (resolve (eff_scheme scheme) rs), m. repeat split; assumption.
Qed.

(* the model's reads meet the boolean history oracle (ties spec_hist_b to the model) *)
Require Import Verif.Proof.C15_complete.
Lemma spec_reads_meets_b scheme evs : Forall wf_ev evs -> forall c, wf_cur c ->
  spec_hist_b scheme c evs (spec_reads scheme (val scheme c) evs) = true.
Proof.
  induction 1 as [|e r He Hr IH]; intros c Hc; simpl; [reflexivity|].
  destruct e as [ok rs| |k m]; [destruct ok| |]; simpl.
  - apply (IH (Some rs)). exact He.
  - apply IH; exact Hc.
  - rewrite (IH c Hc), andb_true_r.
    destruct c as [rs|]; simpl; [apply model_meets_oracle; exact Hc|reflexivity].
  - apply IH; exact Hc.
Qed.

Lemma hist_model_meets_oracle scheme evs : Forall wf_ev evs ->
  spec_hist_b (eff_scheme scheme) None evs (reads scheme evs) = true.
Proof. intros H. rewrite reads_spec. apply (spec_reads_meets_b (eff_scheme scheme) evs H None I). Qed.
