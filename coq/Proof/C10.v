(* C10 - proofs: the escape codec, the parameter checker, Values.Encode / ParseQuery,
   GeneratePath adds none of '%' '?' '#', the URL assembly, oracle <-> model. *)
Require Import Verif.Common.Base Verif.Model.C10 Verif.Spec.C10.

Local Open Scope N_scope.

(* ------------------------------------------------------------------------------------ *)
(* 1. escape / unescape *)

Lemma unescape_esc_byte m a r :
  unescape m (esc_byte m a ++ r) = option_map (String a) (unescape m r).
Proof.
  destruct m; destruct a as [[] [] [] [] [] [] [] []]; reflexivity.
Qed.

Lemma escape_roundtrip m s : unescape m (escape m s) = Some s.
Proof.
  induction s as [|c r IH]; simpl; [reflexivity|].
  rewrite unescape_esc_byte, IH. reflexivity.
Qed.

Lemma sapp_assoc (a b c : string) : ((a ++ b) ++ c = a ++ (b ++ c))%string.
Proof. induction a as [|x a IH]; simpl; [reflexivity|rewrite IH; reflexivity]. Qed.

Lemma sapp_nil_r (a : string) : (a ++ "")%string = a.
Proof. induction a as [|x a IH]; simpl; [reflexivity|rewrite IH; reflexivity]. Qed.

Lemma sapp_length (a b : string) : String.length (a ++ b) = (String.length a + String.length b)%nat.
Proof. induction a as [|x a IH]; simpl; [reflexivity|rewrite IH; reflexivity]. Qed.

Lemma escape_app m a b : escape m (a ++ b) = (escape m a ++ escape m b)%string.
Proof.
  induction a as [|c r IH]; simpl; [reflexivity|].
  rewrite IH. rewrite sapp_assoc. reflexivity.
Qed.

(* no '%' : unescape in path mode is the identity *)
Lemma unescape_path_id v : has_byte c_pct v = false -> unescape MPath v = Some v.
Proof.
  induction v as [|c r IH]; simpl; [reflexivity|].
  intros H. apply orb_false_iff in H. destruct H as [H1 H2].
  rewrite H1. rewrite (IH H2). rewrite andb_false_r. reflexivity.
Qed.

Lemma unescape_frag_id v : has_byte c_pct v = false -> unescape MFragment v = Some v.
Proof.
  induction v as [|c r IH]; simpl; [reflexivity|].
  intros H. apply orb_false_iff in H. destruct H as [H1 H2].
  rewrite H1. rewrite (IH H2). rewrite andb_false_r. reflexivity.
Qed.

(* unescape never lengthens, and shortens as soon as there is a '%' *)
Lemma unescape_length_aux m : forall n v s,
  (String.length v <= n)%nat -> unescape m v = Some s ->
  (String.length s <= String.length v)%nat /\
  (has_byte c_pct v = true -> (String.length s < String.length v)%nat).
Proof.
  induction n as [|n IH]; intros v s Hn H.
  - destruct v; simpl in *; [|lia]. inversion H; subst. simpl. split; [lia|discriminate].
  - destruct v as [|c r]; simpl in *.
    + inversion H; subst. simpl. split; [lia|discriminate].
    + destruct (code c =? c_pct) eqn:E.
      * destruct r as [|a [|b r']]; try discriminate.
        destruct (unhex a); try discriminate. destruct (unhex b); try discriminate.
        destruct (unescape m r') eqn:U; try discriminate.
        inversion H; subst. simpl in Hn.
        destruct (IH r' s0 ltac:(lia) U) as [L _]. simpl. split; intros; lia.
      * destruct (unescape m r) eqn:U; try discriminate.
        inversion H; subst. destruct (IH r s0 ltac:(lia) U) as [L1 L2].
        simpl. split; [lia|]. intros Hb. specialize (L2 Hb). lia.
Qed.

Lemma unescape_fixpoint_no_pct m v : unescape m v = Some v -> has_byte c_pct v = false.
Proof.
  intros H. destruct (has_byte c_pct v) eqn:E; [|reflexivity].
  destruct (unescape_length_aux m (String.length v) v v (le_n _) H) as [_ L].
  specialize (L E). lia.
Qed.

(* ------------------------------------------------------------------------------------ *)
(* 2. paramChecker *)

Lemma param_ok_iff v : param_ok v = true <-> tainted v = false.
Proof.
  unfold param_ok, tainted, path_unescape. split.
  - destruct (unescape MPath v) eqn:U; [|discriminate].
    intros H. apply andb_true_iff in H. destruct H as [H H3].
    apply andb_true_iff in H. destruct H as [H1 H2].
    apply str_eqb_eq in H1. subst s.
    rewrite (unescape_fixpoint_no_pct _ _ U).
    apply negb_true_iff in H2. apply negb_true_iff in H3. rewrite H2, H3. reflexivity.
  - intros H. apply orb_false_iff in H. destruct H as [H H3].
    apply orb_false_iff in H. destruct H as [H1 H2].
    rewrite (unescape_path_id _ H1). rewrite str_eqb_refl, H2, H3. reflexivity.
Qed.

Lemma checker_rejects v :
  has_byte c_pct v = true \/ has_byte c_qm v = true \/ has_byte c_hash v = true ->
  param_ok v = false.
Proof.
  intros H. destruct (param_ok v) eqn:E; [|reflexivity].
  apply param_ok_iff in E. unfold tainted in E.
  apply orb_false_iff in E. destruct E as [E E3]. apply orb_false_iff in E. destruct E as [E1 E2].
  destruct H as [H|[H|H]]; congruence.
Qed.

Lemma checker_sound v :
  param_ok v = true ->
  has_byte c_pct v = false /\ has_byte c_qm v = false /\ has_byte c_hash v = false.
Proof.
  intros H. apply param_ok_iff in H. unfold tainted in H.
  apply orb_false_iff in H. destruct H as [H H3]. apply orb_false_iff in H. tauto.
Qed.

(* an accepted parameter is not changed by a second decoding: it cannot be "decoded twice" *)
Lemma checker_decode_stable v : param_ok v = true -> path_unescape v = Some v.
Proof.
  intros H. apply checker_sound in H. apply unescape_path_id. tauto.
Qed.

(* ------------------------------------------------------------------------------------ *)
(* 3. Values.Encode / ParseQuery *)

Lemma has_byte_app n a b : has_byte n (a ++ b) = has_byte n a || has_byte n b.
Proof. induction a as [|c r IH]; simpl; [reflexivity|]. rewrite IH, orb_assoc. reflexivity. Qed.

Lemma esc_byte_query_safe a :
  has_byte c_amp (esc_byte MQuery a) = false /\
  has_byte c_semi (esc_byte MQuery a) = false /\
  has_byte c_eq (esc_byte MQuery a) = false.
Proof. destruct a as [[] [] [] [] [] [] [] []]; repeat split; reflexivity. Qed.

Lemma query_escape_safe s :
  has_byte c_amp (query_escape s) = false /\
  has_byte c_semi (query_escape s) = false /\
  has_byte c_eq (query_escape s) = false.
Proof.
  unfold query_escape. induction s as [|c r [I1 [I2 I3]]]; simpl; [auto|].
  destruct (esc_byte_query_safe c) as [E1 [E2 E3]].
  rewrite !has_byte_app, E1, E2, E3, I1, I2, I3. auto.
Qed.

Lemma cut_found n c a b :
  code c = n -> has_byte n a = false -> cut n (a ++ String c b) = (a, b, true).
Proof.
  intros Hc. induction a as [|x r IH]; simpl; intros H.
  - rewrite Hc, N.eqb_refl. reflexivity.
  - apply orb_false_iff in H. destruct H as [H1 H2]. rewrite H1, (IH H2). reflexivity.
Qed.

Lemma cut_absent n a : has_byte n a = false -> cut n a = (a, EmptyString, false).
Proof.
  induction a as [|x r IH]; simpl; intros H; [reflexivity|].
  apply orb_false_iff in H. destruct H as [H1 H2]. rewrite H1, (IH H2). reflexivity.
Qed.

Lemma split_on_absent n a : has_byte n a = false -> split_on n a = [a].
Proof.
  induction a as [|x r IH]; simpl; intros H; [reflexivity|].
  apply orb_false_iff in H. destruct H as [H1 H2]. rewrite H1, (IH H2). reflexivity.
Qed.

Lemma split_on_found n c a b :
  code c = n -> has_byte n a = false -> split_on n (a ++ String c b) = a :: split_on n b.
Proof.
  intros Hc. induction a as [|x r IH]; simpl; intros H.
  - rewrite Hc, N.eqb_refl. reflexivity.
  - apply orb_false_iff in H. destruct H as [H1 H2]. rewrite H1, (IH H2). reflexivity.
Qed.

Lemma enc_pair_safe kv :
  has_byte c_amp (enc_pair kv) = false /\ has_byte c_semi (enc_pair kv) = false.
Proof.
  unfold enc_pair.
  destruct (query_escape_safe (fst kv)) as [A1 [A2 _]].
  destruct (query_escape_safe (snd kv)) as [B1 [B2 _]].
  rewrite !has_byte_app. simpl. rewrite A1, A2, B1, B2. split; reflexivity.
Qed.

Lemma parse_piece_enc_pair kv : parse_piece (enc_pair kv) = Some (Some kv).
Proof.
  unfold parse_piece. destruct (enc_pair_safe kv) as [_ S]. rewrite S.
  unfold enc_pair.
  destruct (query_escape_safe (fst kv)) as [_ [_ E]].
  assert (C : cut c_eq (query_escape (fst kv) ++ String (chr c_eq) (query_escape (snd kv)))
              = (query_escape (fst kv), query_escape (snd kv), true))
    by (apply cut_found; [reflexivity|exact E]).
  destruct (query_escape (fst kv) ++ String (chr c_eq) (query_escape (snd kv)))%string eqn:P.
  - destruct (query_escape (fst kv)); discriminate.
  - rewrite C. unfold query_unescape, query_escape. rewrite !escape_roundtrip.
    destruct kv; reflexivity.
Qed.

Lemma parse_pieces_enc l : parse_pieces (map enc_pair l) = (l, true).
Proof.
  induction l as [|kv r IH]; simpl; [reflexivity|].
  rewrite IH, parse_piece_enc_pair. reflexivity.
Qed.

Lemma split_join_amp l : l <> [] ->
  split_on c_amp (join_amp (map enc_pair l)) = map enc_pair l.
Proof.
  induction l as [|x r IH]; [congruence|]. intros _.
  destruct r as [|y r'].
  - simpl. apply split_on_absent. apply enc_pair_safe.
  - change (join_amp (map enc_pair (x :: y :: r')))
      with (enc_pair x ++ String (chr c_amp) (join_amp (map enc_pair (y :: r'))))%string.
    rewrite split_on_found; [|reflexivity|apply enc_pair_safe].
    rewrite IH by discriminate. reflexivity.
Qed.

Lemma parse_query_pieces s : parse_query s = parse_pieces (split_on c_amp s).
Proof. destruct s; reflexivity. Qed.

(* ParseQuery (Encode q) gives back exactly the pairs Encode wrote, without error *)
Lemma values_roundtrip_pairs q :
  parse_query (values_encode q) = (pairs_of (sort_keys q), true).
Proof.
  rewrite parse_query_pieces. unfold values_encode.
  destruct (pairs_of (sort_keys q)) as [|x r] eqn:E.
  - reflexivity.
  - rewrite split_join_amp by discriminate. apply parse_pieces_enc.
Qed.

Lemma pvals_app k a b : pvals k (a ++ b) = (pvals k a ++ pvals k b)%list.
Proof. unfold pvals. apply flat_map_app. Qed.

Lemma pvals_map_key k k' vs :
  pvals k (map (fun v => (k', v)) vs) = if str_eqb k k' then vs else [].
Proof.
  induction vs as [|v r IH]; simpl; [destruct (str_eqb k k'); reflexivity|].
  unfold pvals in *. simpl. rewrite IH. destruct (str_eqb k k'); reflexivity.
Qed.

Lemma pvals_pairs_of k q : pvals k (pairs_of q) = vals k q.
Proof.
  induction q as [|[k' vs] r IH]; simpl; [reflexivity|].
  unfold pairs_of in *. simpl. rewrite pvals_app, pvals_map_key, IH. reflexivity.
Qed.

Lemma vals_notin k q : ~ In k (keys q) -> vals k q = [].
Proof.
  induction q as [|[k' vs] r IH]; simpl; intros H; [reflexivity|].
  destruct (str_eqb k k') eqn:E.
  - apply str_eqb_eq in E. subst. exfalso. apply H. left. reflexivity.
  - simpl. apply IH. intros Hin. apply H. right. exact Hin.
Qed.

Lemma vals_insert k x l :
  (str_eqb k (fst x) = true -> vals k l = []) ->
  vals k (insert_key x l) = vals k (x :: l).
Proof.
  induction l as [|y r IH]; intros H; simpl; [reflexivity|].
  destruct (str_leb (fst x) (fst y)); [reflexivity|].
  simpl. rewrite IH.
  - simpl. destruct (str_eqb k (fst x)) eqn:E.
    + specialize (H eq_refl). simpl in H. apply app_eq_nil in H. destruct H as [H1 H2].
      rewrite H1, H2. simpl. rewrite app_nil_r. reflexivity.
    + reflexivity.
  - intros E. specialize (H E). simpl in H. apply app_eq_nil in H. tauto.
Qed.

Lemma vals_sort k q : nodup_keys q = true -> vals k (sort_keys q) = vals k q.
Proof.
  unfold nodup_keys. induction q as [|x r IH]; simpl; intros H; [reflexivity|].
  apply andb_true_iff in H. destruct H as [H1 H2].
  rewrite vals_insert.
  - simpl. rewrite (IH H2). reflexivity.
  - intros E. rewrite (IH H2). apply vals_notin.
    apply str_eqb_eq in E. subst k.
    apply negb_true_iff in H1. intros Hin. apply str_mem_In in Hin. unfold keys in *. congruence.
Qed.

(* every forwarded key decodes to exactly its list of values, whatever bytes they contain *)
Lemma values_roundtrip q : nodup_keys q = true ->
  exists pairs, parse_query (values_encode q) = (pairs, true) /\ forall k, pvals k pairs = vals k q.
Proof.
  intros H. exists (pairs_of (sort_keys q)). split; [apply values_roundtrip_pairs|].
  intros k. rewrite pvals_pairs_of. apply vals_sort. exact H.
Qed.

(* ------------------------------------------------------------------------------------ *)
(* 4. GeneratePath adds none of the bytes the checker excludes *)

Lemma count_byte_app n a b : count_byte n (a ++ b) = (count_byte n a + count_byte n b)%nat.
Proof.
  induction a as [|c r IH]; simpl; [reflexivity|].
  destruct (code c =? n); rewrite IH; reflexivity.
Qed.

Lemma has_count n s : has_byte n s = false -> count_byte n s = O.
Proof.
  induction s as [|c r IH]; simpl; [reflexivity|].
  intros H. apply orb_false_iff in H. destruct H as [H1 H2]. rewrite H1. auto.
Qed.

Lemma count_has n s : count_byte n s = O -> has_byte n s = false.
Proof.
  induction s as [|c r IH]; simpl; [reflexivity|].
  destruct (code c =? n); [discriminate|]. simpl. exact IH.
Qed.

Lemma is_prefix_split key s : is_prefix key s = true -> s = (key ++ drop (String.length key) s)%string.
Proof.
  revert s. induction key as [|a k IH]; intros s H; simpl in *; [reflexivity|].
  destruct s as [|b s']; [discriminate|].
  apply andb_true_iff in H. destruct H as [H1 H2].
  apply Ascii.eqb_eq in H1. subst b. simpl. rewrite <- (IH s' H2). reflexivity.
Qed.

Lemma count_replace_fuel c key v : has_byte c key = false -> has_byte c v = false ->
  forall f s, count_byte c (replace_fuel f s key v) = count_byte c s.
Proof.
  intros Hk Hv. induction f as [|f IH]; intros s; simpl; [reflexivity|].
  destruct s as [|x r]; [reflexivity|].
  destruct (is_prefix key (String x r)) eqn:P.
  - rewrite count_byte_app, (has_count _ _ Hv), IH.
    pose proof (is_prefix_split _ _ P) as E.
    transitivity (count_byte c (key ++ drop (String.length key) (String x r))).
    + rewrite count_byte_app, (has_count _ _ Hk). reflexivity.
    + rewrite <- E. reflexivity.
  - simpl. rewrite IH. reflexivity.
Qed.

Definition special (c : N) : Prop := c = c_pct \/ c = c_qm \/ c = c_hash.

Lemma placeholder_clean c k : special c -> has_byte c k = false -> has_byte c (placeholder k) = false.
Proof.
  intros Hc Hk. unfold placeholder. rewrite !has_byte_app, Hk.
  destruct Hc as [ Hc | [ Hc | Hc ] ]; subst c; reflexivity.
Qed.

Lemma generate_counts c : special c -> forall params pattern,
  (forall k v, In (k, v) params -> has_byte c k = false /\ has_byte c v = false) ->
  count_byte c (generate_path pattern params) = count_byte c pattern.
Proof.
  intros Hc. unfold generate_path.
  induction params as [|[k v] r IH]; intros pattern H; simpl; [reflexivity|].
  rewrite IH.
  - unfold replace_all. destruct (H k v (or_introl eq_refl)) as [H1 H2].
    apply count_replace_fuel; [apply placeholder_clean; assumption|assumption].
  - intros k' v' Hin. apply H. right. exact Hin.
Qed.

(* ------------------------------------------------------------------------------------ *)
(* 4b. positional form: substitution commutes with the split at a byte that no placeholder
   contains; hence with the first-'?' split of url.Parse *)

Lemma drop_app0 a b : drop (String.length a) (a ++ b) = b.
Proof. induction a as [|c r IH]; simpl; [destruct b; reflexivity|exact IH]. Qed.

Lemma rf_empty f key v : replace_fuel f EmptyString key v = EmptyString.
Proof. destruct f; reflexivity. Qed.

Lemma drop_length n s : (String.length (drop n s) <= String.length s)%nat.
Proof.
  revert s. induction n as [|n IH]; intros s; simpl; [lia|].
  destruct s as [|c r]; simpl; [lia|]. specialize (IH r). lia.
Qed.

(* enough fuel is enough: the result does not depend on it (non-empty key) *)
Lemma rf_fuel key v : key <> EmptyString -> forall f f' s,
  (String.length s <= f)%nat -> (String.length s <= f')%nat ->
  replace_fuel f s key v = replace_fuel f' s key v.
Proof.
  intros Hk. induction f as [|f IH]; intros f' s H H'.
  - destruct s; simpl in H; [|lia]. rewrite !rf_empty. reflexivity.
  - destruct s as [|x r]; [rewrite !rf_empty; reflexivity|].
    destruct f' as [|f']; [simpl in H'; lia|]. simpl in H, H'. simpl.
    destruct (is_prefix key (String x r)) eqn:P.
    + f_equal. destruct key as [|k0 key']; [congruence|]. simpl.
      pose proof (drop_length (String.length key') r). apply IH; lia.
    + f_equal. apply IH; lia.
Qed.

Lemma ascii_eqb_code a b : code a =? code b = false -> Ascii.eqb a b = false.
Proof.
  intros H. destruct (Ascii.eqb a b) eqn:E; [|reflexivity].
  apply Ascii.eqb_eq in E. subst. rewrite N.eqb_refl in H. discriminate.
Qed.

(* a key without byte c cannot match across an occurrence of c *)
Lemma is_prefix_sep key c : has_byte (code c) key = false -> forall a b,
  is_prefix key (a ++ String c b) = is_prefix key a.
Proof.
  induction key as [|k0 key IH]; intros H a b; [destruct a; reflexivity|].
  simpl in H. apply orb_false_iff in H. destruct H as [H0 H1].
  destruct a as [|x a']; simpl.
  - rewrite (ascii_eqb_code _ _ H0). reflexivity.
  - rewrite (IH H1). reflexivity.
Qed.

Lemma rf_split key v c : key <> EmptyString -> has_byte (code c) key = false ->
  forall f a b fa fb,
  (String.length (a ++ String c b) <= f)%nat -> (String.length a <= fa)%nat ->
  (String.length b <= fb)%nat ->
  replace_fuel f (a ++ String c b) key v =
  (replace_fuel fa a key v ++ String c (replace_fuel fb b key v))%string.
Proof.
  intros Hk Hc. induction f as [|f IH]; intros a b fa fb H Ha Hb.
  - destruct a; simpl in H; lia.
  - destruct a as [|x a'].
    + rewrite rf_empty. simpl. simpl in H.
      assert (P : is_prefix key (String c b) = false).
      { pose proof (is_prefix_sep key c Hc EmptyString b) as Q. simpl in Q. rewrite Q.
        destruct key; [congruence|reflexivity]. }
      rewrite P. f_equal. apply rf_fuel; [exact Hk|lia|exact Hb].
    + destruct fa as [|fa]; [simpl in Ha; lia|].
      simpl in H, Ha.
      change ((String x a' ++ String c b)%string) with (String x (a' ++ String c b)).
      simpl replace_fuel.
      pose proof (is_prefix_sep key c Hc (String x a') b) as Q.
      change ((String x a' ++ String c b)%string) with (String x (a' ++ String c b)) in Q.
      rewrite Q. destruct (is_prefix key (String x a')) eqn:P.
      * pose proof (is_prefix_split _ _ P) as E.
        set (a'' := drop (String.length key) (String x a')) in *.
        assert (D : drop (String.length key) (String x (a' ++ String c b)) = (a'' ++ String c b)%string).
        { change (String x (a' ++ String c b)) with ((String x a' ++ String c b)%string).
          rewrite E at 1. rewrite sapp_assoc. apply drop_app0. }
        rewrite D.
        assert (L : (String.length a'' < String.length (String x a'))%nat).
        { rewrite E. rewrite sapp_length. destruct key; [congruence|simpl; lia]. }
        simpl in L. rewrite sapp_length in H. simpl in H.
        rewrite (IH a'' b fa fb); [rewrite sapp_assoc; reflexivity| | |exact Hb].
        -- rewrite sapp_length. simpl. lia.
        -- lia.
      * simpl. f_equal. apply IH; [lia|lia|exact Hb].
Qed.

Lemma replace_all_split key v c a b : key <> EmptyString -> has_byte (code c) key = false ->
  replace_all (a ++ String c b) key v = (replace_all a key v ++ String c (replace_all b key v))%string.
Proof. intros Hk Hc. unfold replace_all. apply rf_split; auto. Qed.

Lemma placeholder_nonempty k : placeholder k <> EmptyString.
Proof. unfold placeholder. simpl. discriminate. Qed.

(* substitution of all parameters commutes with the split at any byte c that no parameter NAME
   contains (and that is none of '{' '.' '}'); no condition on the VALUES *)
Lemma generate_split c : forall params,
  (forall k v, In (k, v) params -> has_byte (code c) (placeholder k) = false) ->
  forall a b,
  generate_path (a ++ String c b) params =
  (generate_path a params ++ String c (generate_path b params))%string.
Proof.
  unfold generate_path. induction params as [|[k v] r IH]; intros H a0 b0; simpl; [reflexivity|].
  rewrite replace_all_split; [|apply placeholder_nonempty|apply (H k v); left; reflexivity].
  apply IH. intros k' v' Hin. apply (H k' v'). right. exact Hin.
Qed.

Lemma cut_rebuild n : forall s a b,
  cut n s = (a, b, true) -> exists c, code c = n /\ s = (a ++ String c b)%string /\ has_byte n a = false.
Proof.
  induction s as [|x r IH]; intros a b H; simpl in H; [discriminate|].
  destruct (code x =? n) eqn:E.
  - injection H as H1 H2. subst a b. exists x. apply N.eqb_eq in E. auto.
  - destruct (cut n r) as [[a' b'] f'] eqn:C. injection H as H1 H2 H3. subst a b' f'.
    destruct (IH a' b eq_refl) as [c [Hc [Hs Ha]]]. exists c. split; [exact Hc|]. split.
    + simpl. rewrite Hs. reflexivity.
    + simpl. rewrite E, Ha. reflexivity.
Qed.

Lemma cut_false n : forall s a b, cut n s = (a, b, false) -> s = a /\ b = EmptyString /\ has_byte n s = false.
Proof.
  induction s as [|x r IH]; intros a b H; simpl in H.
  - injection H as H1 H2. subst. auto.
  - destruct (code x =? n) eqn:E; [discriminate|].
    destruct (cut n r) as [[a' b'] f'] eqn:C. injection H as H1 H2 H3. subst a b' f'.
    destruct (IH a' b eq_refl) as [H1 [H2 H3]]. subst. simpl. rewrite E. auto.
Qed.

Lemma generate_empty params : generate_path EmptyString params = EmptyString.
Proof. unfold generate_path. induction params as [|[k v] r IH]; simpl; [reflexivity|exact IH]. Qed.

(* THE POSITIONAL FORM: for parameters free of '?', the first-'?' split of the generated path is
   the substituted path part and the substituted query part of url_pattern: a parameter written
   in the path part stays in the path part, one written in the static query stays there *)
Lemma generate_positional pattern pp sq f params :
  cut c_qm pattern = (pp, sq, f) ->
  (forall k v, In (k, v) params -> has_byte c_qm k = false /\ has_byte c_qm v = false) ->
  cut c_qm (generate_path pattern params) = (generate_path pp params, generate_path sq params, f).
Proof.
  intros C H.
  assert (Hq : special c_qm) by (unfold special; auto).
  assert (Hpp : forall s, has_byte c_qm s = false -> has_byte c_qm (generate_path s params) = false).
  { intros s Hs. apply count_has. rewrite (generate_counts c_qm Hq params s H). apply has_count. exact Hs. }
  destruct f.
  - destruct (cut_rebuild _ _ _ _ C) as [c [Hc [Hs Ha]]]. subst pattern.
    rewrite generate_split.
    + apply cut_found; [exact Hc|apply Hpp; exact Ha].
    + intros k v Hin. rewrite Hc. apply placeholder_clean; [exact Hq|apply (H k v Hin)].
  - destruct (cut_false _ _ _ _ C) as [H1 [H2 H3]]. subst pp sq.
    rewrite generate_empty. apply cut_absent. apply Hpp. exact H3.
Qed.

(* a pattern part in which no placeholder occurs is left as written *)
Fixpoint occurs (key s : string) : bool :=
  is_prefix key s || match s with EmptyString => false | String _ r => occurs key r end.

Lemma rf_absent key v : forall f s, occurs key s = false -> replace_fuel f s key v = s.
Proof.
  induction f as [|f IH]; intros s H; [reflexivity|].
  destruct s as [|x r]; [reflexivity|].
  simpl in H. apply orb_false_iff in H. destruct H as [H1 H2].
  simpl replace_fuel. rewrite H1. f_equal. apply IH. exact H2.
Qed.

Lemma generate_absent s : forall params,
  (forall k v, In (k, v) params -> occurs (placeholder k) s = false) ->
  generate_path s params = s.
Proof.
  unfold generate_path. induction params as [|[k v] r IH]; intros H; simpl; [reflexivity|].
  unfold replace_all. rewrite rf_absent by (apply (H k v); left; reflexivity).
  apply IH. intros k' v' Hin. apply (H k' v'). right. exact Hin.
Qed.

(* control bytes and the leading '/' survive substitution *)
Lemma has_ctl_app a b : has_ctl (a ++ b) = has_ctl a || has_ctl b.
Proof.
  induction a as [|c r IH]; simpl; [reflexivity|]. rewrite IH. rewrite !orb_assoc. reflexivity.
Qed.

Lemma has_ctl_drop n : forall s, has_ctl s = false -> has_ctl (drop n s) = false.
Proof.
  induction n as [|n IH]; intros s H; simpl; [exact H|].
  destruct s as [|c r]; [reflexivity|]. simpl in H.
  apply orb_false_iff in H. destruct H as [_ H]. apply IH. exact H.
Qed.

Lemma rf_ctl key v : has_ctl v = false -> forall f s,
  has_ctl s = false -> has_ctl (replace_fuel f s key v) = false.
Proof.
  intros Hv. induction f as [|f IH]; intros s H; [exact H|].
  destruct s as [|x r]; [reflexivity|]. simpl replace_fuel.
  destruct (is_prefix key (String x r)).
  - rewrite has_ctl_app, Hv. simpl. apply IH. apply has_ctl_drop. exact H.
  - simpl in *. apply orb_false_iff in H. destruct H as [H1 H2]. rewrite H1. simpl. apply IH. exact H2.
Qed.

Lemma generate_ctl : forall params s,
  (forall k v, In (k, v) params -> has_ctl v = false) -> has_ctl s = false ->
  has_ctl (generate_path s params) = false.
Proof.
  unfold generate_path. induction params as [|[k v] r IH]; intros s H Hs; simpl; [exact Hs|].
  apply IH; [intros k' v' Hin; apply (H k' v'); right; exact Hin|].
  unfold replace_all. apply rf_ctl; [apply (H k v); left; reflexivity|exact Hs].
Qed.

Lemma replace_all_slash s k v : starts_with_slash s = true ->
  starts_with_slash (replace_all s (placeholder k) v) = true.
Proof.
  destruct s as [|x r]; [discriminate|]. intros H.
  assert (P : is_prefix (placeholder k) (String x r) = false).
  { destruct (Ascii.eqb "{" x) eqn:E.
    - apply Ascii.eqb_eq in E. subst x. simpl in H. discriminate.
    - unfold placeholder. cbn [append is_prefix]. rewrite E. reflexivity. }
  unfold replace_all. cbn [String.length replace_fuel]. rewrite P. exact H.
Qed.

Lemma generate_slash : forall params s, starts_with_slash s = true ->
  starts_with_slash (generate_path s params) = true.
Proof.
  unfold generate_path. induction params as [|[k v] r IH]; intros s H; simpl; [exact H|].
  apply IH. apply replace_all_slash. exact H.
Qed.

Definition clean_params (params : list (string * string)) : Prop :=
  forall k v, In (k, v) params -> forall c, special c -> has_byte c k = false /\ has_byte c v = false.

Lemma same_counts_generate s params : clean_params params ->
  same_counts s (generate_path s params) = true.
Proof.
  intros H. unfold same_counts.
  rewrite !generate_counts; [rewrite !Nat.eqb_refl; reflexivity| | | | | |];
    try (unfold special; auto; fail);
    intros k v Hin; apply (H k v Hin); unfold special; auto.
Qed.

Lemma same_counts_pos_generate pattern params : clean_params params ->
  same_counts_pos pattern (generate_path pattern params) = true.
Proof.
  intros H. unfold same_counts_pos.
  destruct (cut c_qm pattern) as [[pp sq] f] eqn:C.
  rewrite (generate_positional pattern pp sq f params C).
  - rewrite Bool.eqb_reflx, !same_counts_generate by exact H. reflexivity.
  - intros k v Hin. apply (H k v Hin). unfold special. auto.
Qed.

(* the count form follows from the positional form *)
Lemma same_counts_pos_counts pattern path :
  same_counts_pos pattern path = true -> same_counts pattern path = true.
Proof.
  unfold same_counts_pos.
  destruct (cut c_qm pattern) as [[pp sq] f] eqn:C. destruct (cut c_qm path) as [[gp gs] gf] eqn:G.
  intros H. apply andb_true_iff in H. destruct H as [H H2]. apply andb_true_iff in H. destruct H as [H0 H1].
  apply Bool.eqb_prop in H0. subst gf.
  unfold same_counts in *.
  apply andb_true_iff in H1. destruct H1 as [H1 H1c]. apply andb_true_iff in H1. destruct H1 as [H1a H1b].
  apply andb_true_iff in H2. destruct H2 as [H2 H2c]. apply andb_true_iff in H2. destruct H2 as [H2a H2b].
  apply Nat.eqb_eq in H1a, H1b, H1c, H2a, H2b, H2c.
  destruct f.
  - destruct (cut_rebuild _ _ _ _ C) as [c [Hc [Hs _]]].
    destruct (cut_rebuild _ _ _ _ G) as [c' [Hc' [Hs' _]]]. subst pattern path.
    rewrite !count_byte_app. simpl. rewrite Hc, Hc'. simpl.
    rewrite H1a, H1b, H1c, H2a, H2b, H2c, !Nat.eqb_refl. reflexivity.
  - destruct (cut_false _ _ _ _ C) as [E1 [E2 _]]. destruct (cut_false _ _ _ _ G) as [E3 [E4 _]].
    subst. rewrite H1a, H1b, H1c, !Nat.eqb_refl. reflexivity.
Qed.

(* ------------------------------------------------------------------------------------ *)
(* 5. URL assembly: the model meets the oracle, the oracle is sound *)

Lemma list_eqb_str_refl l : list_eqb str_eqb l l = true.
Proof. induction l as [|x r IH]; simpl; [reflexivity|]. rewrite str_eqb_refl, IH. reflexivity. Qed.

Lemma list_eqb_str_eq a b : list_eqb str_eqb a b = true -> a = b.
Proof. apply list_eqb_eq. intros x y. apply str_eqb_eq. Qed.

Lemma enc_pair_nonempty kv : str_eqb (enc_pair kv) "" = false.
Proof. unfold enc_pair. destruct (query_escape (fst kv)); reflexivity. Qed.

(* Values.Encode never writes an empty pair *)
Lemma encode_no_empty_piece q : no_empty_piece (values_encode q) = true.
Proof.
  unfold no_empty_piece, values_encode.
  destruct (pairs_of (sort_keys q)) as [|x r] eqn:E; [reflexivity|].
  rewrite split_join_amp by discriminate. apply orb_true_iff. right.
  apply forallb_forall. intros p Hin. apply in_map_iff in Hin. destruct Hin as [kv [Hp _]].
  subst p. rewrite enc_pair_nonempty. reflexivity.
Qed.

Lemma fwd_ok_b_encode q : nodup_keys q = true -> fwd_ok_b q (values_encode q) = true.
Proof.
  intros H. unfold fwd_ok_b. rewrite encode_no_empty_piece. rewrite values_roundtrip_pairs. simpl.
  apply forallb_forall. intros k _.
  rewrite pvals_pairs_of, (vals_sort _ _ H). apply list_eqb_str_refl.
Qed.

Lemma pvals_notin k l : ~ In k (map fst l) -> pvals k l = [].
Proof.
  induction l as [|[k' v] r IH]; simpl; intros H; [reflexivity|].
  destruct (str_eqb k k') eqn:E.
  - apply str_eqb_eq in E. subst. exfalso. apply H. left. reflexivity.
  - simpl. apply IH. intros Hin. apply H. right. exact Hin.
Qed.

Lemma in_dec_str (k : string) (l : list string) : In k l \/ ~ In k l.
Proof.
  destruct (str_mem k l) eqn:E.
  - left. apply str_mem_In. exact E.
  - right. intros H. apply str_mem_In in H. congruence.
Qed.

(* soundness of the boolean oracle *)
Lemma fwd_ok_b_sound q enc : fwd_ok_b q enc = true -> fwd_ok q enc.
Proof.
  unfold fwd_ok_b, fwd_ok. destruct (parse_query enc) as [pairs ok].
  intros H. apply andb_true_iff in H. destruct H as [H0 H].
  apply andb_true_iff in H. destruct H as [H1 H2]. subst ok.
  split; [exact H0|].
  exists pairs. split; [reflexivity|]. intros k.
  rewrite forallb_forall in H2.
  destruct (in_dec_str k (map fst q ++ map fst pairs)%list) as [Hin|Hn].
  - apply list_eqb_str_eq. apply H2. exact Hin.
  - rewrite pvals_notin, vals_notin; [reflexivity| |];
      intros Hin; apply Hn; apply in_or_app; [left|right]; exact Hin.
Qed.

Lemma is_prefix_app a b : is_prefix a (a ++ b) = true.
Proof. induction a as [|c r IH]; simpl; [reflexivity|]. rewrite IH, Ascii.eqb_refl. reflexivity. Qed.

Lemma drop_app a b : drop (String.length a) (a ++ b) = b.
Proof. induction a as [|c r IH]; simpl; [destruct b; reflexivity|exact IH]. Qed.

Lemma query_ok_b_sound static q rq : query_ok_b static q rq = true -> query_ok static q rq.
Proof.
  unfold query_ok_b, query_ok. destruct (str_eqb static "") eqn:E.
  - apply str_eqb_eq in E. subst. intros H. exists rq. split; [apply fwd_ok_b_sound; exact H|].
    left. auto.
  - apply str_eqb_neq in E. intros H. apply andb_true_iff in H. destruct H as [P H].
    pose proof (is_prefix_split _ _ P) as S.
    destruct (drop (String.length static) rq) as [|c r] eqn:D.
    + exists EmptyString. split; [apply fwd_ok_b_sound; exact H|].
      right. left. rewrite sapp_nil_r in S. auto.
    + apply andb_true_iff in H. destruct H as [Hc H]. apply N.eqb_eq in Hc.
      exists r. split; [apply fwd_ok_b_sound; exact H|].
      right. right. split; [exact E|]. rewrite S. f_equal. f_equal.
      unfold code, chr in *. rewrite <- Hc. rewrite ascii_N_embedding. reflexivity.
Qed.

Lemma wire_ok_b_sound pp wire rq : wire_ok_b pp wire rq = true -> wire_ok pp wire rq.
Proof.
  unfold wire_ok_b, wire_ok. destruct (cut c_qm wire) as [[wp wq] f].
  intros H. apply andb_true_iff in H. destruct H as [H1 H2].
  split; [apply str_eqb_eq; exact H1|].
  destruct (valid_encoded MPath pp); [apply str_eqb_eq; exact H2|].
  destruct (path_unescape wp) as [a|]; [|discriminate].
  destruct (path_unescape pp) as [b|]; [|discriminate].
  apply str_eqb_eq in H2. subst b. exists a. auto.
Qed.

Lemma url_ok_b_sound hosts path q o : url_ok_b hosts path q o = true -> url_ok hosts path q o.
Proof.
  unfold url_ok_b, url_ok. destruct (cut c_qm path) as [[pp static] f].
  intros H. apply andb_true_iff in H. destruct H as [H H5].
  apply andb_true_iff in H. destruct H as [H H4].
  apply andb_true_iff in H. destruct H as [H H3].
  apply andb_true_iff in H. destruct H as [H1 H2].
  split; [apply str_mem_In; exact H1|].
  split.
  - unfold opt_str_eqb in H2. destruct (path_unescape pp); [|discriminate].
    apply str_eqb_eq in H2. subst. reflexivity.
  - split; [apply str_eqb_eq; exact H3|].
    split; [apply query_ok_b_sound; exact H4|apply wire_ok_b_sound; exact H5].
Qed.

(* ---- the request target of the model ---- *)
Lemma esc_byte_path_no_qm a : has_byte c_qm (esc_byte MPath a) = false.
Proof. destruct a as [[] [] [] [] [] [] [] []]; reflexivity. Qed.

Lemma escape_path_no_qm s : has_byte c_qm (escape MPath s) = false.
Proof.
  induction s as [|c r IH]; simpl; [reflexivity|].
  rewrite has_byte_app, esc_byte_path_no_qm, IH. reflexivity.
Qed.

Lemma unescape_slash m p dp :
  starts_with_slash p = true -> unescape m p = Some dp -> starts_with_slash dp = true.
Proof.
  destruct p as [|c r]; [discriminate|]. simpl. intros H U.
  apply N.eqb_eq in H. rewrite H in U. simpl in U.
  destruct (unescape m r); [|discriminate].
  inversion U; subst. simpl. rewrite H. reflexivity.
Qed.

Lemma slash_not_star dp : starts_with_slash dp = true -> str_eqb dp "*" = false.
Proof.
  destruct dp as [|c r]; [discriminate|]. intros H.
  apply str_eqb_neq. intros E. inversion E; subst. simpl in H. discriminate.
Qed.

Lemma slash_not_empty p : starts_with_slash p = true -> str_eqb p "" = false.
Proof. destruct p; [discriminate|reflexivity]. Qed.

(* EscapedPath: the path text as written when it is a valid escaped path, else the default
   escaping of the decoded path *)
Lemma escaped_path_cases u p :
  u_rawp u = p -> unescape MPath p = Some (u_path u) -> starts_with_slash p = true ->
  escaped_path u = if valid_encoded MPath p then p else escape MPath (u_path u).
Proof.
  intros Hr U Hs. unfold escaped_path. rewrite Hr.
  pose proof (unescape_slash _ _ _ Hs U) as Hd. rewrite (slash_not_star _ Hd).
  destruct (str_eqb p (escape MPath (u_path u))) eqn:E.
  - simpl. apply str_eqb_eq in E. destruct (valid_encoded MPath p); [symmetry; exact E|reflexivity].
  - rewrite (slash_not_empty _ Hs). simpl. rewrite U. simpl. rewrite str_eqb_refl.
    destruct (valid_encoded MPath p); reflexivity.
Qed.

Lemma wire_ok_model u p :
  u_rawp u = p -> unescape MPath p = Some (u_path u) -> starts_with_slash p = true ->
  has_byte c_qm p = false ->
  wire_ok_b p (escaped_path u ++ query_suffix u) (u_rawquery u) = true.
Proof.
  intros Hr U Hs Hq. unfold wire_ok_b.
  rewrite (escaped_path_cases u p Hr U Hs).
  set (ep := if valid_encoded MPath p then p else escape MPath (u_path u)).
  assert (Hep : has_byte c_qm ep = false).
  { unfold ep. destruct (valid_encoded MPath p); [exact Hq|apply escape_path_no_qm]. }
  assert (C : cut c_qm (ep ++ query_suffix u) = (ep, u_rawquery u, negb (str_eqb (query_suffix u) ""))
              \/ (cut c_qm (ep ++ query_suffix u) = (ep, EmptyString, false) /\ u_rawquery u = EmptyString)).
  { unfold query_suffix. destruct (u_force u || negb (str_eqb (u_rawquery u) "")) eqn:F.
    - left. simpl. apply cut_found; [reflexivity|exact Hep].
    - right. apply orb_false_iff in F. destruct F as [_ F]. apply negb_false_iff in F.
      apply str_eqb_eq in F. rewrite sapp_nil_r. split; [apply cut_absent; exact Hep|exact F]. }
  assert (V : (if valid_encoded MPath p then str_eqb ep p
               else match path_unescape ep, path_unescape p with
                    | Some a, Some b => str_eqb a b | _, _ => false end) = true).
  { unfold ep. destruct (valid_encoded MPath p); [apply str_eqb_refl|].
    unfold path_unescape. rewrite escape_roundtrip, U. apply str_eqb_refl. }
  destruct C as [C|[C E]]; rewrite C.
  - rewrite str_eqb_refl. exact V.
  - rewrite E. simpl. exact V.
Qed.

(* the '?' split of url.parse agrees with a plain cut at the first '?' *)
Definition query_split (pre : string) : string * string * bool :=
  if match last_byte pre with Some n => n =? c_qm | None => false end
     && Nat.eqb (count_byte c_qm pre) 1
  then (drop_last pre, EmptyString, true)
  else let '(a, b, _) := cut c_qm pre in (a, b, false).

Lemma last_byte_count n s : last_byte s = Some n -> (1 <= count_byte n s)%nat.
Proof.
  induction s as [|c r IH]; simpl; [discriminate|].
  destruct r as [|c' r'].
  - intros H. inversion H; subst. rewrite N.eqb_refl. lia.
  - intros H. specialize (IH H). destruct (code c =? n); lia.
Qed.

Lemma force_is_cut : forall pre,
  last_byte pre = Some c_qm -> count_byte c_qm pre = 1%nat ->
  cut c_qm pre = (drop_last pre, EmptyString, true).
Proof.
  induction pre as [|c r IH]; intros L C; [discriminate|].
  simpl in C. simpl cut. destruct (code c =? c_qm) eqn:E.
  - destruct r as [|c' r']; [reflexivity|].
    assert (L' : last_byte (String c' r') = Some c_qm) by exact L.
    apply last_byte_count in L'. lia.
  - destruct r as [|c' r'].
    + simpl in L. inversion L as [L1]. rewrite L1 in E. discriminate.
    + rewrite (IH L C). reflexivity.
Qed.

Lemma query_split_cut pre p rq f :
  query_split pre = (p, rq, f) -> exists f', cut c_qm pre = (p, rq, f').
Proof.
  unfold query_split.
  destruct (last_byte pre) as [n|] eqn:L; simpl.
  - destruct (n =? c_qm) eqn:E; simpl.
    + destruct (Nat.eqb (count_byte c_qm pre) 1) eqn:C.
      * apply N.eqb_eq in E. subst n. apply Nat.eqb_eq in C.
        intros H. inversion H; subst. exists true. apply force_is_cut; assumption.
      * destruct (cut c_qm pre) as [[a b] f']. intros H. inversion H; subst. eauto.
    + destruct (cut c_qm pre) as [[a b] f']. intros H. inversion H; subst. eauto.
  - destruct (cut c_qm pre) as [[a b] f']. intros H. inversion H; subst. eauto.
Qed.

Lemma In_str_mem x l : In x l -> str_mem x l = true.
Proof. apply str_mem_In. Qed.

Lemma query_ok_b_append static q u :
  nodup_keys q = true -> u_rawquery u = static ->
  query_ok_b static q (u_rawquery (append_query u q)) = true.
Proof.
  intros Hn Hs. unfold query_ok_b, append_query.
  destruct q as [|kv q'].
  - rewrite Hs. destruct (str_eqb static "") eqn:E.
    + apply str_eqb_eq in E. rewrite E. reflexivity.
    + assert (P : is_prefix static static = true).
      { pose proof (is_prefix_app static EmptyString) as P. rewrite sapp_nil_r in P. exact P. }
      rewrite P. pose proof (drop_app static EmptyString) as D. rewrite sapp_nil_r in D.
      rewrite D. reflexivity.
  - simpl u_rawquery. rewrite Hs. destruct (str_eqb static "") eqn:E.
    + apply fwd_ok_b_encode. exact Hn.
    + rewrite is_prefix_app, drop_app. simpl.
      apply fwd_ok_b_encode. exact Hn.
Qed.

Lemma assemble_meets_oracle hosts h path q :
  In h hosts -> nodup_keys q = true ->
  asm_spec_b hosts path q (assemble h path q) = true.
Proof.
  intros Hh Hn. unfold asm_spec_b. destruct (has_byte c_hash path) eqn:Hf; [reflexivity|].
  unfold assemble, url_parse.
  destruct (starts_with_slash path) eqn:Hsl; [|rewrite orb_true_r; reflexivity].
  destruct (negb (wf_host h) || negb true); [reflexivity|].
  rewrite (cut_absent _ _ Hf).
  destruct (has_ctl path); [reflexivity|].
  change (if match last_byte path with Some n => n =? c_qm | None => false end
             && Nat.eqb (count_byte c_qm path) 1
          then (drop_last path, EmptyString, true)
          else let '(a, b, _) := cut c_qm path in (a, b, false)) with (query_split path).
  destruct (query_split path) as [[p rq] force] eqn:Q.
  destruct (query_split_cut _ _ _ _ Q) as [f' C].
  destruct (unescape MPath p) as [dp|] eqn:U; [|reflexivity].
  simpl (unescape MFragment EmptyString). cbv iota.
  unfold url_ok_b. rewrite C.
  set (u0 := {| u_host := h; u_path := dp; u_rawp := p; u_force := force; u_rawquery := rq;
                u_frag := EmptyString; u_rawf := EmptyString |}).
  assert (A : forall x, u_host (append_query u0 x) = h /\ u_path (append_query u0 x) = dp /\
                        u_frag (append_query u0 x) = EmptyString).
  { intros x. destruct x; simpl; auto. }
  destruct (A q) as [A1 [A2 A3]]. simpl o_host. simpl o_path. simpl o_frag. simpl o_rawquery.
  rewrite A1, A2, A3. rewrite (In_str_mem _ _ Hh).
  unfold path_unescape. rewrite U. simpl opt_str_eqb. rewrite !str_eqb_refl. simpl.
  rewrite query_ok_b_append by (exact Hn || reflexivity). simpl.
  simpl o_wire.
  assert (Hs : starts_with_slash p = true).
  { destruct path as [|x r]; [discriminate Hsl|]. simpl in Hsl.
    simpl in C. destruct (code x =? c_qm) eqn:E.
    - apply N.eqb_eq in Hsl. rewrite Hsl in E. discriminate.
    - destruct (cut c_qm r) as [[a b] f0]. injection C as C1 C2 C3. rewrite <- C1. exact Hsl. }
  assert (Hq : has_byte c_qm p = false).
  { destruct f'.
    - destruct (cut_rebuild _ _ _ _ C) as [c0 [_ [_ Ha]]]. exact Ha.
    - destruct (cut_false _ _ _ _ C) as [E1 [_ E3]]. rewrite <- E1. exact E3. }
  apply (wire_ok_model (append_query u0 q) p).
  - destruct q; reflexivity.
  - rewrite A2. exact U.
  - exact Hs.
  - exact Hq.
Qed.

(* the explicit shape of the assembled URL for a generated path whose part before the first
   '?' has no '%' (what the checker guarantees for parameters) *)
Lemma assemble_explicit h path pp sq f q :
  wf_host h = true -> starts_with_slash path = true ->
  has_ctl path = false -> has_byte c_hash path = false ->
  cut c_qm path = (pp, sq, f) -> has_byte c_pct pp = false ->
  exists c, assemble h path q = Some c /\
    o_host c = h /\ o_path c = pp /\ o_frag c = EmptyString /\
    o_rawquery c = match q with
                   | [] => sq
                   | _ => if str_eqb sq "" then values_encode q
                          else (sq ++ String (chr c_amp) (values_encode q))%string
                   end.
Proof.
  intros Hw Hs Hc Hf C Hp. unfold assemble, url_parse. rewrite Hw, Hs. simpl negb. simpl orb. cbv iota.
  rewrite (cut_absent _ _ Hf). rewrite Hc.
  change (if match last_byte path with Some n => n =? c_qm | None => false end
             && Nat.eqb (count_byte c_qm path) 1
          then (drop_last path, EmptyString, true)
          else let '(a, b, _) := cut c_qm path in (a, b, false)) with (query_split path).
  destruct (query_split path) as [[p rq] force] eqn:Q.
  destruct (query_split_cut _ _ _ _ Q) as [f' C']. rewrite C in C'. inversion C'; subst p rq f'.
  rewrite (unescape_path_id _ Hp). simpl (unescape MFragment EmptyString). cbv iota.
  eexists. split; [reflexivity|]. destruct q; simpl; auto.
Qed.

(* ------------------------------------------------------------------------------------ *)
(* 6. the gin engine: the model meets the oracle *)

Definition obs_of (r : gin_result) : gin_obs :=
  match r with
  | GReject => {| g_status := 400; g_outer := None; g_inner := None; g_call := None |}
  | GProxy params path qep q c =>
      {| g_status := gin_status r; g_outer := Some (params, qep);
         g_inner := match c with Some _ => Some (path, q) | None => None end; g_call := c |}
  | _ => {| g_status := 404; g_outer := None; g_inner := None; g_call := None |}
  end.

Lemma dedup_notin seen l k : In k (dedup_keys seen l) -> str_mem k seen = false.
Proof.
  revert seen. induction l as [|[k' v] r IH]; intros seen H; simpl in H; [contradiction|].
  destruct (str_mem k' seen) eqn:E.
  - apply IH. exact H.
  - destruct H as [H|H].
    + subst. exact E.
    + specialize (IH _ H). simpl in IH. apply orb_false_iff in IH. tauto.
Qed.

Lemma dedup_nodup l : forall seen, NoDup (dedup_keys seen l).
Proof.
  induction l as [|[k v] r IH]; intros seen; simpl; [constructor|].
  destruct (str_mem k seen); [apply IH|].
  constructor; [|apply IH].
  intros H. apply dedup_notin in H. simpl in H. rewrite str_eqb_refl in H. discriminate.
Qed.

Lemma client_values_nodup pairs : NoDup (keys (client_values pairs)).
Proof.
  unfold client_values, keys. rewrite map_map. simpl. rewrite map_id. apply dedup_nodup.
Qed.

Lemma filter_keys_nodup (f : string * list string -> bool) (q : values) :
  NoDup (keys q) -> NoDup (keys (filter f q)).
Proof.
  unfold keys. induction q as [|x r IH]; simpl; intros H; [constructor|].
  inversion H as [|? ? Hn Hr]; subst.
  destruct (f x); simpl; [|apply IH; exact Hr].
  constructor; [|apply IH; exact Hr].
  intros Hin. apply Hn. apply in_map_iff in Hin. destruct Hin as [y [Hy Hin]].
  apply filter_In in Hin. apply in_map_iff. exists y. tauto.
Qed.

Lemma forwarded_nodup allow be_allow pairs :
  nodup_keys (backend_filter be_allow (forwarded allow pairs)) = true.
Proof.
  unfold nodup_keys. apply nodup_str_NoDup.
  assert (F : NoDup (keys (forwarded allow pairs))).
  { unfold forwarded. destruct (str_mem "*" allow);
      [apply client_values_nodup|apply filter_keys_nodup, client_values_nodup]. }
  unfold backend_filter. destruct be_allow; [exact F|apply filter_keys_nodup; exact F].
Qed.

Lemma match_segs_names r : forall p l n x,
  match_segs r p = Some l -> In (n, x) l -> In (Par n) r.
Proof.
  induction r as [|s r IH]; intros p l n x H Hin.
  - destruct p; simpl in H; [inversion H; subst; contradiction|discriminate].
  - destruct s as [s|name]; destruct p as [|y p]; simpl in H; try discriminate.
    + destruct (str_eqb s y); [|discriminate]. right. eapply IH; eassumption.
    + destruct (str_eqb y ""); [discriminate|].
      destruct (match_segs r p) as [l'|] eqn:M; [|discriminate].
      inversion H; subst. destruct Hin as [Hin|Hin].
      * inversion Hin; subst. left. reflexivity.
      * right. eapply IH; eassumption.
Qed.

Lemma route_match_names route dp ps n x :
  route_match route dp = Some ps -> In (n, x) ps -> In (Par n) route.
Proof.
  unfold route_match. destruct (split_on c_slash dp) as [|s segs]; [discriminate|].
  destruct s; [|discriminate]. apply match_segs_names.
Qed.

Lemma untainted_all_ok ps :
  existsb (fun kv : string * string => tainted (snd kv)) ps = false ->
  forallb (fun kv : string * string => param_ok (snd kv)) ps = true.
Proof.
  induction ps as [|kv r IH]; simpl; [reflexivity|].
  intros H. apply orb_false_iff in H. destruct H as [H1 H2].
  rewrite (proj2 (param_ok_iff _) H1), (IH H2). reflexivity.
Qed.

Lemma tainted_some_rejected ps :
  existsb (fun kv : string * string => tainted (snd kv)) ps = true ->
  forallb (fun kv : string * string => param_ok (snd kv)) ps = false.
Proof.
  induction ps as [|kv r IH]; simpl; [discriminate|].
  intros H. apply orb_true_iff in H. destruct H as [H|H].
  - destruct (param_ok (snd kv)) eqn:E; [|reflexivity].
    apply param_ok_iff in E. congruence.
  - rewrite (IH H). apply andb_false_r.
Qed.

Definition clean_names (route : list seg) : Prop :=
  forall n, In (Par n) route -> tainted (cap_first n) = false.

Lemma tainted_parts v : tainted v = false ->
  forall c, special c -> has_byte c v = false.
Proof.
  unfold tainted. intros H c Hc. apply orb_false_iff in H. destruct H as [H H3].
  apply orb_false_iff in H. destruct H as [H1 H2].
  destruct Hc as [Hc|[Hc|Hc]]; subst c; assumption.
Qed.

Lemma gin_generate_counts route dp ps pattern c :
  clean_names route -> route_match route dp = Some ps ->
  existsb (fun kv : string * string => tainted (snd kv)) ps = false -> special c ->
  count_byte c (generate_path pattern (map (fun kv => (cap_first (fst kv), snd kv)) ps))
  = count_byte c pattern.
Proof.
  intros Hn M T Hc. apply generate_counts; [exact Hc|].
  intros k v Hin. apply in_map_iff in Hin. destruct Hin as [[n x] [E Hin]].
  simpl in E. inversion E; subst k v. split.
  - apply tainted_parts; [|exact Hc]. apply Hn. eapply route_match_names; eassumption.
  - apply tainted_parts; [|exact Hc].
    destruct (tainted x) eqn:Tx; [|reflexivity].
    exfalso. assert (exists kv, In kv ps /\ tainted (snd kv) = true) as Hex by (exists (n, x); auto).
    apply existsb_exists in Hex. congruence.
Qed.

Lemma gin_clean_params route dp ps :
  clean_names route -> route_match route dp = Some ps ->
  existsb (fun kv : string * string => tainted (snd kv)) ps = false ->
  clean_params (map (fun kv => (cap_first (fst kv), snd kv)) ps).
Proof.
  intros Hn M T k v Hin c Hc. apply in_map_iff in Hin. destruct Hin as [[n x] [E Hin]].
  simpl in E. inversion E; subst k v. split.
  - apply tainted_parts; [|exact Hc]. apply Hn. eapply route_match_names; eassumption.
  - apply tainted_parts; [|exact Hc].
    destruct (tainted x) eqn:Tx; [|reflexivity].
    exfalso. assert (exists kv, In kv ps /\ tainted (snd kv) = true) as Hex by (exists (n, x); auto).
    apply existsb_exists in Hex. congruence.
Qed.

Lemma gin_meets_oracle route allow be_allow pattern hosts h target :
  In h hosts -> clean_names route -> has_byte c_hash pattern = false ->
  gin_spec_b (extracted_of route target) pattern hosts
             (obs_of (gin_request route allow be_allow pattern h target)) = true.
Proof.
  intros Hh Hn Hp. unfold extracted_of, gin_request.
  destruct (wire_parse target) as [[dp rawq]|]; [|reflexivity].
  destruct (route_match route dp) as [ps|] eqn:M; [|reflexivity].
  unfold gin_spec_b.
  destruct (existsb (fun kv => tainted (snd kv)) ps) eqn:T.
  - rewrite (tainted_some_rejected _ T). reflexivity.
  - rewrite (untainted_all_ok _ T). simpl obs_of.
    set (params := map (fun kv => (cap_first (fst kv), snd kv)) ps).
    set (path := generate_path pattern params).
    set (q := backend_filter be_allow (forwarded allow (fst (parse_query rawq)))).
    destruct (assemble h path q) as [c|] eqn:A; simpl; [|reflexivity].
    assert (C : forall c0, special c0 -> count_byte c0 path = count_byte c0 pattern).
    { intros c0 Hc. apply (gin_generate_counts route dp ps pattern c0); assumption. }
    unfold path at 1. rewrite (same_counts_pos_generate pattern params)
      by (apply (gin_clean_params route dp ps); assumption).
    simpl.
    pose proof (assemble_meets_oracle hosts h path q Hh (forwarded_nodup _ _ _)) as O.
    unfold asm_spec_b in O. rewrite A in O.
    assert (Hf : has_byte c_hash path = false).
    { apply count_has. rewrite (C c_hash) by (unfold special; auto). apply has_count. exact Hp. }
    rewrite Hf in O. exact O.
Qed.

(* the two halves of the statement about the gin engine, on the model *)
Lemma gin_rejects route allow be_allow pattern h target dp rawq ps :
  wire_parse target = Some (dp, rawq) -> route_match route dp = Some ps ->
  existsb (fun kv => tainted (snd kv)) ps = true ->
  gin_request route allow be_allow pattern h target = GReject.
Proof.
  intros W M T. unfold gin_request. rewrite W, M, (tainted_some_rejected _ T). reflexivity.
Qed.

Lemma gin_no_injection route allow be_allow pattern h target params path qep q c b :
  clean_names route -> special b ->
  gin_request route allow be_allow pattern h target = GProxy params path qep q c ->
  count_byte b path = count_byte b pattern.
Proof.
  intros Hn Hb. unfold gin_request.
  destruct (wire_parse target) as [[dp rawq]|]; [|discriminate].
  destruct (route_match route dp) as [ps|] eqn:M; [|discriminate].
  destruct (existsb (fun kv => tainted (snd kv)) ps) eqn:T.
  - rewrite (tainted_some_rejected _ T). discriminate.
  - rewrite (untainted_all_ok _ T). intros H. inversion H; subst.
    eapply gin_generate_counts; eassumption.
Qed.

(* Prop-level corollary: whenever the model calls a backend, the URL satisfies the property *)
Lemma assemble_url_ok hosts h path q c :
  In h hosts -> nodup_keys q = true -> has_byte c_hash path = false ->
  assemble h path q = Some c -> url_ok hosts path q c.
Proof.
  intros Hh Hn Hf A. apply url_ok_b_sound.
  pose proof (assemble_meets_oracle hosts h path q Hh Hn) as O.
  unfold asm_spec_b in O. rewrite Hf, A in O. exact O.
Qed.

Lemma clean_names_example : clean_names [Lit "a"; Par "p"; Lit "t"; Par "q"].
Proof.
  intros n [H|[H|[H|[H|[]]]]]; try discriminate; inversion H; subst; reflexivity.
Qed.

(* Prop-level end-to-end statement for the gin engine *)
Lemma gin_url_ok route allow be_allow pattern hosts h target params path qep q c :
  In h hosts -> clean_names route -> has_byte c_hash pattern = false ->
  gin_request route allow be_allow pattern h target = GProxy params path qep q (Some c) ->
  url_ok hosts path q c /\
  (forall b, special b -> count_byte b path = count_byte b pattern) /\
  (forall k v, In (k, v) params -> tainted v = false).
Proof.
  intros Hh Hn Hp G.
  assert (C : forall b, special b -> count_byte b path = count_byte b pattern).
  { intros b Hb. eapply gin_no_injection; eassumption. }
  revert G. unfold gin_request.
  destruct (wire_parse target) as [[dp rawq]|]; [|discriminate].
  destruct (route_match route dp) as [ps|] eqn:M; [|discriminate].
  destruct (existsb (fun kv => tainted (snd kv)) ps) eqn:T.
  - rewrite (tainted_some_rejected _ T). discriminate.
  - rewrite (untainted_all_ok _ T). intros G. injection G as E1 E2 E3 E4 E5.
    subst params path qep q.
    split; [|split; [exact C|]].
    + apply (assemble_url_ok hosts h).
      * exact Hh.
      * apply forwarded_nodup.
      * apply count_has. rewrite (C c_hash) by (unfold special; auto).
        apply has_count. exact Hp.
      * exact E5.
    + intros k v Hin. apply in_map_iff in Hin. destruct Hin as [[n x] [E Hin]].
      simpl in E. inversion E; subst k v.
      destruct (tainted x) eqn:Tx; [|reflexivity].
      exfalso. assert (exists kv, In kv ps /\ tainted (snd kv) = true) as Hex by (exists (n, x); auto).
      apply existsb_exists in Hex. congruence.
Qed.

(* ------------------------------------------------------------------------------------ *)
(* 7. positional form, end to end *)

(* url_pattern with parameters free of '%' '?' '#' and control bytes: the backend is called;
   its path is the substituted PATH PART of url_pattern, its query the substituted QUERY PART
   of url_pattern followed by the forwarded parameters; no fragment *)
Lemma positional_url h pattern pp sq f params q :
  wf_host h = true -> starts_with_slash pattern = true -> has_ctl pattern = false ->
  has_byte c_hash pattern = false -> cut c_qm pattern = (pp, sq, f) -> has_byte c_pct pp = false ->
  clean_params params -> (forall k v, In (k, v) params -> has_ctl v = false) ->
  exists c, assemble h (generate_path pattern params) q = Some c /\
    o_host c = h /\ o_path c = generate_path pp params /\ o_frag c = EmptyString /\
    o_rawquery c = match q with
                   | [] => generate_path sq params
                   | _ => if str_eqb (generate_path sq params) "" then values_encode q
                          else (generate_path sq params ++ String (chr c_amp) (values_encode q))%string
                   end.
Proof.
  intros Hw Hs Hc Hh C Hp Hcl Hctl.
  assert (K : forall b s, special b -> has_byte b s = false -> has_byte b (generate_path s params) = false).
  { intros b s Hb H0. apply count_has. rewrite (generate_counts b Hb params s).
    - apply has_count. exact H0.
    - intros k v Hin. apply (Hcl k v Hin b Hb). }
  apply (assemble_explicit h _ (generate_path pp params) (generate_path sq params) f q).
  - exact Hw.
  - apply generate_slash. exact Hs.
  - apply generate_ctl; assumption.
  - apply K; [unfold special; auto|exact Hh].
  - apply generate_positional; [exact C|].
    intros k v Hin. apply (Hcl k v Hin). unfold special. auto.
  - apply K; [unfold special; auto|exact Hp].
Qed.

(* a static query in which no placeholder is written reaches the backend exactly as written *)
Lemma static_query_unchanged pattern pp sq f params :
  cut c_qm pattern = (pp, sq, f) ->
  (forall k v, In (k, v) params -> has_byte c_qm k = false /\ has_byte c_qm v = false) ->
  (forall k v, In (k, v) params -> occurs (placeholder k) sq = false) ->
  cut c_qm (generate_path pattern params) = (generate_path pp params, sq, f).
Proof.
  intros C H Ho. rewrite (generate_positional pattern pp sq f params C H).
  rewrite (generate_absent sq params Ho). reflexivity.
Qed.

(* the gin engine: whenever the proxy is reached, the generated path splits where url_pattern does *)
Lemma gin_positional route allow be_allow pattern h target params path qep q c pp sq f :
  clean_names route -> cut c_qm pattern = (pp, sq, f) ->
  gin_request route allow be_allow pattern h target = GProxy params path qep q c ->
  cut c_qm path = (generate_path pp params, generate_path sq params, f).
Proof.
  intros Hn C. unfold gin_request.
  destruct (wire_parse target) as [[dp rawq]|]; [|discriminate].
  destruct (route_match route dp) as [ps|] eqn:M; [|discriminate].
  destruct (existsb (fun kv => tainted (snd kv)) ps) eqn:T.
  - rewrite (tainted_some_rejected _ T). discriminate.
  - rewrite (untainted_all_ok _ T). intros G. injection G as E1 E2 E3 E4 E5. subst params path.
    apply generate_positional; [exact C|].
    intros k v Hin. apply (gin_clean_params route dp ps Hn M T k v Hin). unfold special. auto.
Qed.

(* what the gin checker does NOT exclude: '&' and '=' pass it, so a placeholder written INSIDE the
   static query of url_pattern lets an accepted path parameter add a query pair: the backend URL
   carries admin=true although neither url_pattern nor the client's (empty) query has that key *)
Lemma static_query_placeholder_refuted :
  exists target params path c,
    gin_request [Lit "a"; Par "p"] ["*"] [] "/b?id={{.P}}&s=1" "http://h" target
      = GProxy params path [] [] (Some c) /\
    forallb (fun kv => param_ok (snd kv)) params = true /\
    pvals "admin" (fst (parse_query "id={{.P}}&s=1")) = [] /\
    pvals "admin" (fst (parse_query (o_rawquery c))) = ["true"] /\
    same_counts_pos "/b?id={{.P}}&s=1" path = true.
Proof.
  exists "/a/x&admin=true", [("P", "x&admin=true")], "/b?id=x&admin=true&s=1",
    {| o_host := "http://h"; o_path := "/b"; o_rawquery := "id=x&admin=true&s=1";
       o_frag := ""; o_wire := "/b?id=x&admin=true&s=1" |}.
  vm_compute. repeat split; reflexivity.
Qed.

(* the request target carries the generated path byte for byte whenever that path is a valid
   escaped path (in particular: %2F stays %2F, ! ' ( ) * [ ] stay raw) *)
Lemma wire_exact hosts h path q c pp sq f :
  In h hosts -> nodup_keys q = true -> has_byte c_hash path = false ->
  assemble h path q = Some c -> cut c_qm path = (pp, sq, f) -> valid_encoded MPath pp = true ->
  exists f', cut c_qm (o_wire c) = (pp, o_rawquery c, f').
Proof.
  intros Hh Hn Hf A C V.
  pose proof (assemble_url_ok hosts h path q c Hh Hn Hf A) as U.
  unfold url_ok in U. rewrite C in U. destruct U as [_ [_ [_ [_ W]]]].
  unfold wire_ok in W. destruct (cut c_qm (o_wire c)) as [[wp wq] f'].
  rewrite V in W. destruct W as [W1 W2]. subst. eauto.
Qed.

(* ------------------------------------------------------------------------------------ *)
(* 8. no new delimiter: what escape can emit, for ALL byte strings *)

Lemma valid_encoded_app m a b : valid_encoded m (a ++ b) = valid_encoded m a && valid_encoded m b.
Proof.
  induction a as [|c r IH]; simpl; [reflexivity|]. rewrite IH, andb_assoc. reflexivity.
Qed.

Lemma esc_byte_path_valid a : valid_encoded MPath (esc_byte MPath a) = true.
Proof. destruct a as [[] [] [] [] [] [] [] []]; reflexivity. Qed.

Lemma esc_byte_fragment_valid a : valid_encoded MFragment (esc_byte MFragment a) = true.
Proof. destruct a as [[] [] [] [] [] [] [] []]; reflexivity. Qed.

(* the default escaping is always a valid encoding (EscapedPath never has to re-escape it) *)
Lemma escape_valid_path s : valid_encoded MPath (escape MPath s) = true.
Proof.
  induction s as [|c r IH]; simpl; [reflexivity|].
  rewrite valid_encoded_app, esc_byte_path_valid, IH. reflexivity.
Qed.

Lemma escape_valid_fragment s : valid_encoded MFragment (escape MFragment s) = true.
Proof.
  induction s as [|c r IH]; simpl; [reflexivity|].
  rewrite valid_encoded_app, esc_byte_fragment_valid, IH. reflexivity.
Qed.

(* delimiters of the enclosing syntax never come out of escape *)
Definition delimiter_free (m : mode) (s : string) : Prop :=
  has_ctl s = false /\ has_byte c_sp s = false /\ has_byte c_hash s = false /\
  match m with
  | MPath => has_byte c_qm s = false
  | MQuery => has_byte c_qm s = false /\ has_byte c_amp s = false /\ has_byte c_eq s = false /\
              has_byte c_semi s = false /\ has_byte c_slash s = false
  | MFragment => True
  end.

Lemma esc_byte_delimiter_free m a : delimiter_free m (esc_byte m a).
Proof.
  destruct m; destruct a as [[] [] [] [] [] [] [] []]; unfold delimiter_free; simpl; repeat split; reflexivity.
Qed.

Lemma delimiter_free_app m a b : delimiter_free m a -> delimiter_free m b -> delimiter_free m (a ++ b).
Proof.
  unfold delimiter_free. intros [A1 [A2 [A3 A4]]] [B1 [B2 [B3 B4]]].
  rewrite has_ctl_app, !has_byte_app, A1, A2, A3, B1, B2, B3. repeat split; try reflexivity.
  destruct m.
  - try rewrite has_byte_app. rewrite A4, B4. reflexivity.
  - destruct A4 as [A4 [A5 [A6 [A7 A8]]]]. destruct B4 as [B4 [B5 [B6 [B7 B8]]]].
    try rewrite !has_byte_app. rewrite A4, A5, A6, A7, A8, B4, B5, B6, B7, B8. repeat split; reflexivity.
  - exact I.
Qed.

Lemma escape_delimiter_free m s : delimiter_free m (escape m s).
Proof.
  induction s as [|c r IH]; simpl.
  - unfold delimiter_free. destruct m; repeat split; reflexivity.
  - apply delimiter_free_app; [apply esc_byte_delimiter_free|exact IH].
Qed.

(* escaping changes a string only by introducing '%' (path mode): an encoded parameter that is
   encoded once more and decoded once by the router still contains '%', hence is rejected *)
Lemma esc_byte_path_id_or_pct a :
  esc_byte MPath a = String a EmptyString \/ has_byte c_pct (esc_byte MPath a) = true.
Proof. destruct a as [[] [] [] [] [] [] [] []]; (left; reflexivity) || (right; reflexivity). Qed.

Lemma escape_path_no_pct_id s : has_byte c_pct (escape MPath s) = false -> escape MPath s = s.
Proof.
  induction s as [|c r IH]; simpl; [reflexivity|].
  rewrite has_byte_app. intros H. apply orb_false_iff in H. destruct H as [H1 H2].
  destruct (esc_byte_path_id_or_pct c) as [E|E]; [|congruence].
  rewrite E. simpl. rewrite (IH H2). reflexivity.
Qed.

Lemma double_encoding_rejected v : escape MPath v <> v -> param_ok (escape MPath v) = false.
Proof.
  intros H. apply checker_rejects. left.
  destruct (has_byte c_pct (escape MPath v)) eqn:E; [reflexivity|].
  exfalso. apply H. apply escape_path_no_pct_id. exact E.
Qed.

(* unescape is compositional: a prefix that decodes, decodes the same way in front of anything *)
Lemma unescape_app m : forall n a a' b, (String.length a <= n)%nat ->
  unescape m a = Some a' ->
  unescape m (a ++ b) = option_map (fun t => (a' ++ t)%string) (unescape m b).
Proof.
  induction n as [|n IH]; intros a a' b Hn U.
  - destruct a; simpl in Hn; [|lia]. simpl in U. inversion U; subst. simpl.
    destruct (unescape m b); reflexivity.
  - destruct a as [|c r].
    + simpl in U. inversion U; subst. simpl. destruct (unescape m b); reflexivity.
    + simpl in U. simpl. destruct (code c =? c_pct) eqn:E.
      * destruct r as [|x [|y r']]; try discriminate. simpl.
        destruct (unhex x); try discriminate. destruct (unhex y); try discriminate.
        destruct (unescape m r') as [t|] eqn:U'; try discriminate. inversion U; subst.
        simpl in Hn. rewrite (IH r' t b ltac:(lia) U').
        destruct (unescape m b); reflexivity.
      * destruct (unescape m r) as [t|] eqn:U'; try discriminate. inversion U; subst.
        simpl in Hn. rewrite (IH r t b ltac:(lia) U').
        destruct (unescape m b); reflexivity.
Qed.

Lemma unescape_app' m a a' b : unescape m a = Some a' ->
  unescape m (a ++ b) = option_map (fun t => (a' ++ t)%string) (unescape m b).
Proof. apply (unescape_app m (String.length a)). apply le_n. Qed.

(* ------------------------------------------------------------------------------------ *)
(* 9. NewHTTPProxyDetailed re-parses URL.String(): identity on what the executor sees *)

Lemma last_byte_cons c r : r <> EmptyString -> last_byte (String c r) = last_byte r.
Proof. destruct r; [congruence|reflexivity]. Qed.

Lemma sapp_nonempty_r (a b : string) : b <> EmptyString -> (a ++ b)%string <> EmptyString.
Proof. destruct a; simpl; [auto|discriminate]. Qed.

Lemma last_byte_app a b : b <> EmptyString -> last_byte (a ++ b) = last_byte b.
Proof.
  intros H. induction a as [|c r IH]; [reflexivity|].
  change ((String c r ++ b)%string) with (String c (r ++ b)).
  rewrite last_byte_cons; [exact IH|apply sapp_nonempty_r; exact H].
Qed.

Lemma drop_last_cons c r : r <> EmptyString -> drop_last (String c r) = String c (drop_last r).
Proof. destruct r; [congruence|reflexivity]. Qed.

Lemma drop_last_snoc a c : drop_last (a ++ String c EmptyString) = a.
Proof.
  induction a as [|x r IH]; [reflexivity|].
  change ((String x r ++ String c "")%string) with (String x (r ++ String c "")).
  rewrite drop_last_cons; [rewrite IH; reflexivity|apply sapp_nonempty_r; discriminate].
Qed.

Lemma query_split_none ep : has_byte c_qm ep = false -> query_split ep = (ep, EmptyString, false).
Proof.
  intros H. unfold query_split. rewrite (has_count _ _ H). simpl Nat.eqb. rewrite andb_false_r.
  rewrite (cut_absent _ _ H). reflexivity.
Qed.

Lemma query_split_some ep rq : has_byte c_qm ep = false ->
  query_split (ep ++ String (chr c_qm) rq) = (ep, rq, str_eqb rq "").
Proof.
  intros H. unfold query_split. rewrite count_byte_app, (has_count _ _ H).
  destruct rq as [|x r].
  - rewrite last_byte_app by discriminate. simpl. rewrite drop_last_snoc. reflexivity.
  - rewrite last_byte_app by discriminate.
    rewrite (last_byte_cons (chr c_qm) (String x r)) by discriminate.
    assert (F : (match last_byte (String x r) with Some n => n =? c_qm | None => false end
                 && Nat.eqb (0 + count_byte c_qm (String (chr c_qm) (String x r))) 1) = false).
    { change (count_byte c_qm (String (chr c_qm) (String x r))) with (S (count_byte c_qm (String x r))).
      destruct (count_byte c_qm (String x r)) eqn:Cn.
      - destruct (last_byte (String x r)) as [n|] eqn:L; [|reflexivity].
        destruct (n =? c_qm) eqn:En; [|reflexivity].
        apply N.eqb_eq in En. subst n. apply last_byte_count in L. lia.
      - simpl. apply andb_false_r. }
    rewrite F. rewrite (cut_found c_qm (chr c_qm) ep (String x r) eq_refl H). reflexivity.
Qed.

Lemma enc_pair_clean kv : has_ctl (enc_pair kv) = false /\ has_byte c_hash (enc_pair kv) = false.
Proof.
  unfold enc_pair, query_escape.
  destruct (escape_delimiter_free MQuery (fst kv)) as [A1 [_ [A3 _]]].
  destruct (escape_delimiter_free MQuery (snd kv)) as [B1 [_ [B3 _]]].
  rewrite has_ctl_app, has_byte_app. simpl. rewrite A1, A3, B1, B3. split; reflexivity.
Qed.

Lemma join_amp_clean l :
  has_ctl (join_amp (map enc_pair l)) = false /\ has_byte c_hash (join_amp (map enc_pair l)) = false.
Proof.
  induction l as [|x r [I1 I2]]; [split; reflexivity|].
  destruct (enc_pair_clean x) as [E1 E2].
  destruct r as [|y r']; [simpl; auto|].
  change (join_amp (map enc_pair (x :: y :: r')))
    with (enc_pair x ++ String (chr c_amp) (join_amp (map enc_pair (y :: r'))))%string.
  rewrite has_ctl_app, has_byte_app. simpl. simpl in I1, I2. rewrite E1, E2, I1, I2. split; reflexivity.
Qed.

Lemma values_encode_clean q :
  has_ctl (values_encode q) = false /\ has_byte c_hash (values_encode q) = false.
Proof. unfold values_encode. apply join_amp_clean. Qed.

Lemma slash_app p x : starts_with_slash p = true -> starts_with_slash (p ++ x) = true.
Proof. destruct p; [discriminate|]. simpl. auto. Qed.

Lemma escape_slash dp : starts_with_slash dp = true -> starts_with_slash (escape MPath dp) = true.
Proof.
  destruct dp as [|c r]; [discriminate|]. simpl. intros H. apply N.eqb_eq in H.
  assert (E : esc_byte MPath c = String c EmptyString).
  { unfold esc_byte, should_escape. rewrite H. reflexivity. }
  rewrite E. simpl. rewrite H. reflexivity.
Qed.

(* the facts about the parts of a successfully parsed '#'-free path *)
Lemma cut_parts_clean path p rq f :
  cut c_qm path = (p, rq, f) -> has_ctl path = false -> has_byte c_hash path = false ->
  starts_with_slash path = true ->
  has_ctl p = false /\ has_ctl rq = false /\ has_byte c_hash p = false /\ has_byte c_hash rq = false /\
  has_byte c_qm p = false /\ starts_with_slash p = true.
Proof.
  intros C Hc Hh Hs. destruct f.
  - destruct (cut_rebuild _ _ _ _ C) as [c [Hcc [E Ha]]]. subst path.
    rewrite has_ctl_app in Hc. rewrite has_byte_app in Hh. simpl in Hc, Hh.
    apply orb_false_iff in Hc. destruct Hc as [Hc1 Hc2].
    apply orb_false_iff in Hc2. destruct Hc2 as [_ Hc2].
    apply orb_false_iff in Hh. destruct Hh as [Hh1 Hh2].
    apply orb_false_iff in Hh2. destruct Hh2 as [_ Hh2].
    repeat split; try assumption.
    destruct p as [|x r]; [|exact Hs]. simpl in Hs. rewrite Hcc in Hs. discriminate.
  - destruct (cut_false _ _ _ _ C) as [E1 [E2 E3]]. subst p rq. repeat split; auto.
Qed.

Lemma reparse_identity h path q :
  has_byte c_hash path = false -> assemble_glue h path q = assemble h path q.
Proof.
  intros Hf. unfold assemble_glue, assemble, url_parse at 1 3.
  destruct (wf_host h) eqn:Hw; [|reflexivity].
  destruct (starts_with_slash path) eqn:Hsl; [|reflexivity]. simpl negb. simpl orb. cbv iota.
  rewrite (cut_absent _ _ Hf).
  destruct (has_ctl path) eqn:Hc; [reflexivity|].
  change (if match last_byte path with Some n => n =? c_qm | None => false end
             && Nat.eqb (count_byte c_qm path) 1
          then (drop_last path, EmptyString, true)
          else let '(a, b, _) := cut c_qm path in (a, b, false)) with (query_split path).
  destruct (query_split path) as [[p rq] force] eqn:Q.
  destruct (query_split_cut _ _ _ _ Q) as [f' C].
  destruct (cut_parts_clean _ _ _ _ C Hc Hf Hsl) as [Pc [Rc [Ph [Rh [Pq Ps]]]]].
  destruct (unescape MPath p) as [dp|] eqn:U; [|reflexivity].
  simpl (unescape MFragment EmptyString). cbv iota.
  set (u0 := {| u_host := h; u_path := dp; u_rawp := p; u_force := force; u_rawquery := rq;
                u_frag := EmptyString; u_rawf := EmptyString |}).
  assert (Eu : exists rq', append_query u0 q =
                 {| u_host := h; u_path := dp; u_rawp := p; u_force := force; u_rawquery := rq';
                    u_frag := EmptyString; u_rawf := EmptyString |} /\
               has_ctl rq' = false /\ has_byte c_hash rq' = false).
  { destruct (values_encode_clean q) as [V1 V2]. destruct q as [|kv q'].
    - exists rq. auto.
    - simpl. destruct (str_eqb rq ""); eexists; (split; [reflexivity|]).
      + auto.
      + rewrite has_ctl_app, has_byte_app. simpl. rewrite Rc, Rh, V1, V2. auto. }
  destruct Eu as [rq' [Eu [Rc' Rh']]]. rewrite Eu. clear Eu.
  set (u := {| u_host := h; u_path := dp; u_rawp := p; u_force := force; u_rawquery := rq';
               u_frag := EmptyString; u_rawf := EmptyString |}).
  assert (Ep : escaped_path u = if valid_encoded MPath p then p else escape MPath dp)
    by (apply (escaped_path_cases u p eq_refl U Ps)).
  set (ep := if valid_encoded MPath p then p else escape MPath dp) in *.
  pose proof (unescape_slash _ _ _ Ps U) as Ds.
  assert (F1 : starts_with_slash ep = true).
  { unfold ep. destruct (valid_encoded MPath p); [exact Ps|apply escape_slash; exact Ds]. }
  assert (F4 : has_byte c_qm ep = false).
  { unfold ep. destruct (valid_encoded MPath p); [exact Pq|apply escape_path_no_qm]. }
  assert (F23 : has_ctl ep = false /\ has_byte c_hash ep = false).
  { unfold ep. destruct (valid_encoded MPath p); [auto|].
    destruct (escape_delimiter_free MPath dp) as [D1 [_ [D3 _]]]. auto. }
  destruct F23 as [F2 F3].
  assert (F6 : unescape MPath ep = Some dp).
  { unfold ep. destruct (valid_encoded MPath p); [exact U|apply escape_roundtrip]. }
  assert (F7 : valid_encoded MPath ep = true).
  { unfold ep. destruct (valid_encoded MPath p) eqn:V; [exact V|apply escape_valid_path]. }
  unfold url_rest, observe. simpl u_frag. simpl u_host. simpl str_eqb. cbv iota.
  rewrite sapp_nil_r. rewrite Ep.
  (* the serialised query suffix and its re-parse *)
  assert (S : exists force', query_split (ep ++ query_suffix u) = (ep, rq', force') /\
                (if force' || negb (str_eqb rq' "") then String (chr c_qm) rq' else EmptyString)
                = query_suffix u /\
              has_ctl (ep ++ query_suffix u) = false /\ has_byte c_hash (ep ++ query_suffix u) = false).
  { unfold query_suffix. simpl u_force. simpl u_rawquery.
    destruct (force || negb (str_eqb rq' "")) eqn:Fq.
    - exists (str_eqb rq' ""). split; [apply query_split_some; exact F4|].
      split; [destruct (str_eqb rq' ""); reflexivity|].
      rewrite has_ctl_app, has_byte_app. simpl. rewrite F2, F3, Rc', Rh'. auto.
    - apply orb_false_iff in Fq. destruct Fq as [_ Fq]. apply negb_false_iff in Fq.
      apply str_eqb_eq in Fq. subst rq'. exists false. rewrite sapp_nil_r.
      split; [apply query_split_none; exact F4|]. auto. }
  destruct S as [force' [S1 [S2 [S3 S4]]]].
  unfold url_parse. rewrite Hw. rewrite (slash_app _ _ F1). simpl negb. simpl orb. cbv iota.
  rewrite (cut_absent _ _ S4). rewrite S3.
  change (if match last_byte (ep ++ query_suffix u) with Some n => n =? c_qm | None => false end
             && Nat.eqb (count_byte c_qm (ep ++ query_suffix u)) 1
          then (drop_last (ep ++ query_suffix u), EmptyString, true)
          else let '(a, b, _) := cut c_qm (ep ++ query_suffix u) in (a, b, false))
    with (query_split (ep ++ query_suffix u)).
  rewrite S1. rewrite F6. simpl (unescape MFragment EmptyString). cbv iota.
  set (u' := {| u_host := h; u_path := dp; u_rawp := ep; u_force := force'; u_rawquery := rq';
                u_frag := EmptyString; u_rawf := EmptyString |}).
  assert (Ep' : escaped_path u' = if valid_encoded MPath ep then ep else escape MPath dp)
    by (apply (escaped_path_cases u' ep eq_refl F6 F1)).
  rewrite F7 in Ep'.
  rewrite Ep'. unfold query_suffix at 1. simpl u_force. simpl u_rawquery. rewrite S2.
  reflexivity.
Qed.

(* the theorems about the URL transfer to the model with the explicit re-parse *)
Lemma glue_meets_oracle hosts h path q :
  In h hosts -> nodup_keys q = true ->
  asm_spec_b hosts path q (assemble_glue h path q) = true.
Proof.
  intros Hh Hn. destruct (has_byte c_hash path) eqn:Hf.
  - unfold asm_spec_b. rewrite Hf. reflexivity.
  - rewrite (reparse_identity h path q Hf). apply assemble_meets_oracle; assumption.
Qed.

Lemma glue_url_ok hosts h path q c :
  In h hosts -> nodup_keys q = true -> has_byte c_hash path = false ->
  assemble_glue h path q = Some c -> url_ok hosts path q c.
Proof.
  intros Hh Hn Hf A. rewrite (reparse_identity h path q Hf) in A.
  apply (assemble_url_ok hosts h path q c Hh Hn Hf A).
Qed.
