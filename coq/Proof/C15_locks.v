(* C15 - proofs, part 3: "reads are safe while refreshes happen".  Two goroutines run
   sequences of methods given as lock-event lists (Common/LockEv: the form in which
   harness/cmd/facts regenerates subscriber.Hosts and subscriber.update from the sources;
   Generated/Facts_locks_dnssrv.v re-proves `disciplined` for them on every check).  The
   semantics below is that of a sync.RWMutex; accesses are never blocked by anything. *)
Require Import Verif.Common.Base Verif.Common.LockEv.
Open Scope nat_scope.

Definition holds (h : held) (m : string) : bool :=
  match h with HNone => false | HRead m' | HWrite m' => String.eqb m m' end.
Definition wholds (h : held) (m : string) : bool :=
  match h with HWrite m' => String.eqb m m' | _ => false end.

(* may a goroutine in state `me` perform e while the other one is in state `other`?
   Lock waits while the other holds the mutex in any mode, RLock while the other holds it for
   writing; accesses and unlocks always proceed *)
Definition sem_step (me other : held) (e : lev) : option held :=
  match e with
  | LLock m => if holds other m then None else Some (HWrite m)
  | LRLock m => if wholds other m then None else Some (HRead m)
  | LUnlock _ | LRUnlock _ => Some HNone
  | _ => Some me
  end.

(* the shared cell: cell = version currently stored (every write stores a new version),
   committed = version stored when a write lock was last released, rlog = for every read made
   under a read lock: (version read, version committed at that moment) *)
Record mem := Mem { cell : nat; committed : nat; rlog : list (nat * nat) }.
Definition mem_step (me : held) (mm : mem) (e : lev) : mem :=
  match e with
  | LWrite _ => Mem (S (cell mm)) (committed mm) (rlog mm)
  | LUnlock _ => Mem (cell mm) (cell mm) (rlog mm)
  | LRead _ => match me with
               | HRead _ => Mem (cell mm) (committed mm) ((cell mm, committed mm) :: rlog mm)
               | _ => mm
               end
  | _ => mm
  end.

Record cfg := Cfg { h1 : held; p1 : list lev; h2 : held; p2 : list lev; mm : mem }.

Definition step (first : bool) (c : cfg) : option cfg :=
  if first then
    match p1 c with
    | [] => None
    | e :: r => match sem_step (h1 c) (h2 c) e with
                | Some h => Some (Cfg h r (h2 c) (p2 c) (mem_step (h1 c) (mm c) e))
                | None => None
                end
    end
  else
    match p2 c with
    | [] => None
    | e :: r => match sem_step (h2 c) (h1 c) e with
                | Some h => Some (Cfg (h1 c) (p1 c) h r (mem_step (h2 c) (mm c) e))
                | None => None
                end
    end.

(* a schedule: which goroutine moves next *)
Fixpoint exec (c : cfg) (sched : list bool) : option cfg :=
  match sched with
  | [] => Some c
  | b :: r => match step b c with Some c' => exec c' r | None => None end
  end.

Definition access (e : lev) : option (string * bool) :=
  match e with LRead o => Some (o, false) | LWrite o => Some (o, true) | _ => None end.

(* a data race: both goroutines are about to access the same object, one of them writing *)
Definition race (c : cfg) : bool :=
  match p1 c, p2 c with
  | e1 :: _, e2 :: _ =>
      match access e1, access e2 with
      | Some (o1, w1), Some (o2, w2) => String.eqb o1 o2 && (w1 || w2)
      | _, _ => false
      end
  | _, _ => false
  end.

Definition only_mutex (m : string) (l : list lev) : bool :=
  forallb (fun e => match e with
                    | LLock m' | LUnlock m' | LRLock m' | LRUnlock m' => String.eqb m m'
                    | _ => true
                    end) l.

(* a goroutine's program: a sequence of calls of disciplined methods on the one mutex *)
Definition good_methods (m : string) (ms : list (list lev)) : Prop :=
  Forall (fun l => disciplined l = true /\ only_mutex m l = true) ms.

Definition held_ok (m : string) (h : held) : Prop :=
  match h with HNone => True | HRead m' | HWrite m' => m' = m end.
Definition is_w (h : held) : bool := match h with HWrite _ => true | _ => false end.
Definition compat (a b : held) : Prop :=
  (is_w a = true -> b = HNone) /\ (is_w b = true -> a = HNone).

Lemma compat_sym a b : compat a b -> compat b a.
Proof. unfold compat. tauto. Qed.

Lemma disciplined_run l : disciplined l = true -> lev_run HNone l = Some HNone.
Proof.
  unfold disciplined. destruct (lev_run HNone l) as [[| |]|]; try discriminate. reflexivity.
Qed.

Lemma lev_run_app a b h h' : lev_run h a = Some h' -> lev_run h (a ++ b) = lev_run h' b.
Proof.
  revert h. induction a as [|e r IH]; simpl; intros h H; [inversion H; reflexivity|].
  destruct (lev_step h e); [apply IH; exact H|discriminate].
Qed.

Lemma only_mutex_app m a b : only_mutex m (a ++ b) = only_mutex m a && only_mutex m b.
Proof. apply forallb_app. Qed.

Lemma good_concat m ms : good_methods m ms ->
  lev_run HNone (List.concat ms) = Some HNone /\ only_mutex m (List.concat ms) = true.
Proof.
  induction 1 as [|l r [Hd Ho] Hr [IH1 IH2]]; simpl; [split; reflexivity|].
  split.
  - rewrite (lev_run_app l (List.concat r) HNone HNone (disciplined_run l Hd)). exact IH1.
  - rewrite only_mutex_app, Ho, IH2. reflexivity.
Qed.

Ltac cpt := unfold compat; simpl; split; intros; try reflexivity; try discriminate; try congruence.

(* one move of a goroutine whose remaining program follows the discipline *)
Lemma sem_step_pres m me other e r h' :
  lev_run me (e :: r) = Some HNone -> only_mutex m (e :: r) = true ->
  held_ok m me -> held_ok m other -> compat me other ->
  sem_step me other e = Some h' ->
  lev_run h' r = Some HNone /\ only_mutex m r = true /\ held_ok m h' /\ compat h' other /\
  lev_step me e = Some h'.
Proof.
  simpl. intros Hrun Hom Hme Hot Hc Hs.
  apply andb_true_iff in Hom. destruct Hom as [He Hr].
  destruct (lev_step me e) as [hh|] eqn:El; [|discriminate].
  assert (hh = h' /\ held_ok m h' /\ compat h' other) as [-> [H1 H2]].
  { destruct e as [m'|m'|m'|m'|o|o|o f]; simpl in *;
      try (apply String.eqb_eq in He; subst m').
    - destruct me; try discriminate. inversion El; subst hh.
      destruct (holds other m) eqn:Eh; [discriminate|]. inversion Hs; subst h'.
      assert (other = HNone).
      { destruct other as [|m2|m2]; simpl in *; [reflexivity| |]; subst m2; rewrite String.eqb_refl in Eh; discriminate. }
      subst other. split; [reflexivity|]. split; [reflexivity|cpt].
    - inversion Hs; subst h'.
      destruct me as [|m2|m2]; try discriminate.
      destruct (String.eqb m m2); inversion El; subst hh.
      split; [reflexivity|]. split; [exact I|cpt].
    - destruct me; try discriminate. inversion El; subst hh.
      destruct (wholds other m) eqn:Eh; [discriminate|]. inversion Hs; subst h'.
      split; [reflexivity|]. split; [reflexivity|]. split; [simpl; intros; discriminate|].
      intros Hw. destruct other as [|m2|m2]; simpl in *; try discriminate.
      subst m2. rewrite String.eqb_refl in Eh. discriminate.
    - inversion Hs; subst h'.
      destruct me as [|m2|m2]; try discriminate.
      destruct (String.eqb m m2); inversion El; subst hh.
      split; [reflexivity|]. split; [exact I|cpt].
    - inversion Hs; subst h'. destruct me; inversion El; subst hh; auto.
    - inversion Hs; subst h'. destruct me; inversion El; subst hh; auto.
    - inversion Hs; subst h'. inversion El; subst hh; auto. }
  repeat split; try assumption; apply H2.
Qed.

Definition rlog_ok (mm : mem) : Prop := Forall (fun p => fst p = snd p) (rlog mm).

Definition Inv (m : string) (c : cfg) : Prop :=
  lev_run (h1 c) (p1 c) = Some HNone /\ only_mutex m (p1 c) = true /\ held_ok m (h1 c) /\
  lev_run (h2 c) (p2 c) = Some HNone /\ only_mutex m (p2 c) = true /\ held_ok m (h2 c) /\
  compat (h1 c) (h2 c) /\
  (is_w (h1 c) = false -> is_w (h2 c) = false -> cell (mm c) = committed (mm c)) /\
  rlog_ok (mm c).

(* the memory part of one move *)
Lemma mem_step_pres me other h' e mm0 :
  lev_step me e = Some h' -> compat me other -> compat h' other ->
  (is_w me = false -> is_w other = false -> cell mm0 = committed mm0) -> rlog_ok mm0 ->
  (is_w h' = false -> is_w other = false -> cell (mem_step me mm0 e) = committed (mem_step me mm0 e)) /\
  rlog_ok (mem_step me mm0 e).
Proof.
  intros El Hc Hc' Hcell Hlog.
  destruct e as [m'|m'|m'|m'|o|o|o f]; simpl in *.
  - destruct me; try discriminate. inversion El; subst h'. split; [discriminate|exact Hlog].
  - split; [reflexivity|exact Hlog].
  - destruct me; try discriminate. inversion El; subst h'. split; [|exact Hlog]. intros _ Ho. apply Hcell; [reflexivity|exact Ho].
  - destruct me as [|m2|m2]; try discriminate. destruct (String.eqb m' m2); inversion El; subst h'.
    split; [|exact Hlog]. intros _ Ho. apply Hcell; [reflexivity|exact Ho].
  - destruct me as [|m2|m2]; try discriminate; inversion El; subst h'.
    + split; [exact Hcell|]. constructor; [|exact Hlog]. simpl. apply Hcell; [reflexivity|].
      destruct Hc as [_ Hc2]. destruct (is_w other) eqn:E; [|reflexivity]. specialize (Hc2 eq_refl). discriminate.
    + split; [discriminate|exact Hlog].
  - destruct me; try discriminate. inversion El; subst h'. split; [discriminate|exact Hlog].
  - inversion El; subst h'. split; assumption.
Qed.

Lemma step_inv m b c c' : Inv m c -> step b c = Some c' -> Inv m c'.
Proof.
  intros [R1 [O1 [K1 [R2 [O2 [K2 [Hc [Hcell Hlog]]]]]]]] Hs. unfold step in Hs.
  destruct b.
  - destruct (p1 c) as [|e r] eqn:Ep; [discriminate|].
    destruct (sem_step (h1 c) (h2 c) e) as [h|] eqn:Es; [|discriminate]. inversion Hs; subst c'. clear Hs.
    destruct (sem_step_pres m _ _ _ _ _ R1 O1 K1 K2 Hc Es) as [A [B [C [D El]]]].
    destruct (mem_step_pres _ _ _ _ _ El Hc D Hcell Hlog) as [M1 M2].
    unfold Inv; simpl. repeat split; try assumption; apply D.
  - destruct (p2 c) as [|e r] eqn:Ep; [discriminate|].
    destruct (sem_step (h2 c) (h1 c) e) as [h|] eqn:Es; [|discriminate]. inversion Hs; subst c'. clear Hs.
    apply compat_sym in Hc.
    destruct (sem_step_pres m _ _ _ _ _ R2 O2 K2 K1 Hc Es) as [A [B [C [D El]]]].
    destruct (mem_step_pres _ _ _ _ _ El Hc D (fun a b => Hcell b a) Hlog) as [M1 M2].
    unfold Inv; simpl. repeat split; try assumption; try apply D. intros a b. apply M1; assumption.
Qed.

Lemma exec_inv m sched : forall c c', Inv m c -> exec c sched = Some c' -> Inv m c'.
Proof.
  induction sched as [|b r IH]; simpl; intros c c' HI H; [inversion H; subst; exact HI|].
  destruct (step b c) as [c1|] eqn:E; [|discriminate].
  eapply IH; [eapply step_inv; eassumption|exact H].
Qed.

Lemma inv_no_race m c : Inv m c -> race c = false.
Proof.
  intros [R1 [_ [_ [R2 [_ [_ [Hc _]]]]]]]. unfold race.
  destruct (p1 c) as [|e1 r1]; [reflexivity|]. destruct (p2 c) as [|e2 r2]; [reflexivity|].
  simpl in R1, R2.
  destruct (lev_step (h1 c) e1) as [a|] eqn:E1; [|discriminate].
  destruct (lev_step (h2 c) e2) as [b|] eqn:E2; [|discriminate].
  destruct (access e1) as [[o1 w1]|] eqn:A1; [|reflexivity].
  destruct (access e2) as [[o2 w2]|] eqn:A2; [|reflexivity].
  destruct (String.eqb o1 o2); [simpl|reflexivity].
  destruct Hc as [Hc1 Hc2].
  destruct e1; try discriminate; destruct e2; try discriminate;
    inversion A1; inversion A2; subst; simpl; try reflexivity; exfalso;
    destruct (h1 c); try discriminate; destruct (h2 c); try discriminate;
    try (specialize (Hc1 eq_refl); discriminate); try (specialize (Hc2 eq_refl); discriminate).
Qed.

Definition start (ms1 ms2 : list (list lev)) : cfg :=
  Cfg HNone (List.concat ms1) HNone (List.concat ms2) (Mem 0 0 []).

Lemma start_inv m ms1 ms2 : good_methods m ms1 -> good_methods m ms2 -> Inv m (start ms1 ms2).
Proof.
  intros G1 G2. destruct (good_concat m ms1 G1) as [A1 B1]. destruct (good_concat m ms2 G2) as [A2 B2].
  unfold Inv, start; simpl. repeat split; auto; try discriminate. constructor.
Qed.

(* H2 instance: under every schedule, two goroutines calling disciplined methods on one
   mutex never race, and every read made under the read lock returns the version stored by
   the last completed write critical section *)
Lemma disciplined_safe m ms1 ms2 sched c :
  good_methods m ms1 -> good_methods m ms2 -> exec (start ms1 ms2) sched = Some c ->
  race c = false /\ Forall (fun p => fst p = snd p) (rlog (mm c)).
Proof.
  intros G1 G2 He. pose proof (exec_inv m sched _ _ (start_inv m ms1 ms2 G1 G2) He) as HI.
  split; [eapply inv_no_race; exact HI|]. destruct HI as [_ [_ [_ [_ [_ [_ [_ [_ H]]]]]]]]. exact H.
Qed.

(* without the read lock the race is reachable: the discipline is what excludes it *)
Lemma undisciplined_races :
  exists sched c, exec (start [[LRead "cache"]] [[LLock "mutex"; LWrite "cache"; LUnlock "mutex"]]) sched = Some c /\
                  race c = true.
Proof. exists [false]. eexists. split; [reflexivity|reflexivity]. Qed.
