(* C16 - proofs, part 2: non-interference of the shadow pipeline on the request's objects
   (instance of Common/Heap.v H1 for the fork tree "CloneRequest; go shadow; regular"). *)
Require Import Verif.Common.Base Verif.Common.Ctx Verif.Common.Heap.
Require Import Verif.Model.C16.
Close Scope Z_scope.

(* ------------------------------------------------------------------------------------ *)
(* generic facts about the schedule-free semantics of fork trees (any objects/values) *)
Section Generic.
  Variable obj : Type.
  Variable val : Type.
  Variable oeqb : obj -> obj -> bool.

  Notation gitem := (Heap.item obj val).
  Notation gprog := (list (Heap.item obj val)).
  Notation gacc := (Heap.acc obj val).

  Fixpoint isize (i : gitem) : nat :=
    match i with
    | Acc _ => 1
    | Fork p => S ((fix go (p : list gitem) := match p with [] => 0 | x :: r => isize x + go r end) p)
    end.
  Definition psize (p : gprog) : nat := fold_right (fun x n => isize x + n) 0 p.
  Lemma isize_fork p : isize (Fork p) = S (psize p).
  Proof. reflexivity. Qed.

  (* induction over fork trees *)
  Lemma prog_ind' (P : gprog -> Prop) :
    P [] -> (forall a r, P r -> P (Acc a :: r)) -> (forall q r, P q -> P r -> P (Fork q :: r)) ->
    forall p, P p.
  Proof.
    intros H0 Ha Hf.
    assert (H : forall n p, psize p <= n -> P p).
    { induction n as [|n IH]; intros p Hp.
      - destruct p as [|[a|q] r]; [apply H0| |]; cbn [psize fold_right] in Hp.
        + cbn [isize] in Hp. lia.
        + rewrite isize_fork in Hp. lia.
      - destruct p as [|[a|q] r]; [apply H0| |]; cbn [psize fold_right] in Hp.
        + apply Ha. apply IH. cbn [isize] in Hp. unfold psize. lia.
        + rewrite isize_fork in Hp. apply Hf; apply IH; unfold psize in *; lia. }
    intros p. apply (H (psize p)). lia.
  Qed.

  (* the heap after a straight-line list of accesses *)
  Definition apply_accs (l : list gacc) (h : obj -> val) : obj -> val :=
    fold_left (fun h a => match a with Wr o v => upd oeqb h o v | Rd _ => h end) l h.

  Lemma exp_log_app_acc (l : list gacc) : forall (q : gprog) (h : obj -> val),
    exp_log oeqb (map Acc l ++ q) h = (exp_log oeqb (map Acc l) h ++ exp_log oeqb q (apply_accs l h))%list.
  Proof.
    induction l as [|[o|o v] r IH]; intros q h; cbn [map app exp_log apply_accs fold_left].
    - reflexivity.
    - f_equal. apply IH.
    - apply IH.
  Qed.

  Lemma kids_app_acc (l : list gacc) : forall (q : gprog) path (h : obj -> val) n,
    kids oeqb (map Acc l ++ q) path h n = kids oeqb q path (apply_accs l h) n.
  Proof.
    induction l as [|[o|o v] r IH]; intros q path h n; cbn [map app kids apply_accs fold_left].
    - reflexivity.
    - apply IH.
    - apply IH.
  Qed.

  Lemma exp_log_fork (q r : gprog) (h : obj -> val) : exp_log oeqb (Fork q :: r) h = exp_log oeqb r h.
  Proof. reflexivity. Qed.

  (* thread ids below [path] extend it strictly, by a fork number >= n *)
  Lemma kids_tid : forall (q : gprog) path (h : obj -> val) n p lg,
    In (p, lg) (kids oeqb q path h n) -> exists m rest, p = (path ++ m :: rest)%list /\ n <= m.
  Proof.
    intros q. induction q as [|a r IH|q r IHq IHr] using prog_ind'; intros path h n p lg Hin.
    - contradiction.
    - destruct a as [o|o v]; cbn [kids] in Hin; eapply IH; eassumption.
    - cbn [kids] in Hin. apply in_app_or in Hin as [Hin|Hin].
      + rewrite kid_logs_fork in Hin. unfold thread_logs in Hin. destruct Hin as [E|Hin].
        * inversion E; subst. exists n, []. split; [reflexivity|lia].
        * apply IHq in Hin as (m & rest & -> & _). exists n, (m :: rest). split; [|lia].
          rewrite <- app_assoc. reflexivity.
      + apply IHr in Hin as (m & rest & -> & Hm). exists m, rest. split; [reflexivity|lia].
  Qed.

  (* the logs only depend on the heap cells the program touches *)
  Lemma upd_agree (h1 h2 : obj -> val) o v (S : obj -> Prop) :
    (forall x, S x -> h1 x = h2 x) -> forall x, S x -> upd oeqb h1 o v x = upd oeqb h2 o v x.
  Proof. intros H x Hx. unfold upd. destruct (oeqb x o); [reflexivity|auto]. Qed.

  Lemma exp_log_ext : forall (p : gprog) (h1 h2 : obj -> val),
    (forall o, In o (objs_of p) -> h1 o = h2 o) -> exp_log oeqb p h1 = exp_log oeqb p h2.
  Proof.
    induction p as [|[[o|o v]|q] r IH]; intros h1 h2 H; cbn [exp_log].
    - reflexivity.
    - rewrite (H o); [|left; reflexivity]. f_equal. apply IH. intros x Hx. apply H. right. exact Hx.
    - apply IH. intros x Hx. unfold upd. destruct (oeqb x o); [reflexivity|]. apply H. right. exact Hx.
    - apply IH. intros x Hx. apply H. unfold objs_of in *. rewrite accs_cons_fork, map_app.
      apply in_or_app. right. exact Hx.
  Qed.

  Lemma kids_ext : forall (p : gprog) path n (h1 h2 : obj -> val),
    (forall o, In o (objs_of p) -> h1 o = h2 o) -> kids oeqb p path h1 n = kids oeqb p path h2 n.
  Proof.
    intros p. induction p as [|a r IH|q r IHq IHr] using prog_ind'; intros path n h1 h2 H.
    - reflexivity.
    - destruct a as [o|o v]; cbn [kids].
      + apply IH. intros x Hx. apply H. right. exact Hx.
      + apply IH. intros x Hx. unfold upd. destruct (oeqb x o); [reflexivity|]. apply H. right. exact Hx.
    - cbn [kids]. rewrite !kid_logs_fork. unfold thread_logs.
      assert (Hq : forall o, In o (objs_of q) -> h1 o = h2 o).
      { intros x Hx. apply H. unfold objs_of in *. rewrite accs_cons_fork, map_app. apply in_or_app. left. exact Hx. }
      assert (Hr : forall o, In o (objs_of r) -> h1 o = h2 o).
      { intros x Hx. apply H. unfold objs_of in *. rewrite accs_cons_fork, map_app. apply in_or_app. right. exact Hx. }
      rewrite (exp_log_ext q h1 h2 Hq), (IHq _ _ h1 h2 Hq), (IHr _ _ h1 h2 Hr). reflexivity.
  Qed.
End Generic.

Arguments apply_accs {obj val} oeqb l h.

(* ------------------------------------------------------------------------------------ *)
(* the instance *)

Lemma field_eqb_spec a b : field_eqb a b = true <-> a = b.
Proof. destruct a, b; simpl; split; intros H; try reflexivity; try discriminate. Qed.
Lemma owner_eqb_spec a b : owner_eqb a b = true <-> a = b.
Proof.
  destruct a, b; simpl; split; intros H; try reflexivity; try discriminate;
    try (apply Nat.eqb_eq in H; subst; reflexivity); inversion H; subst; apply Nat.eqb_refl.
Qed.
Lemma hobj_eqb_spec a b : hobj_eqb a b = true <-> a = b.
Proof.
  destruct a as [o1 f1], b as [o2 f2]. unfold hobj_eqb. simpl.
  rewrite andb_true_iff, owner_eqb_spec, field_eqb_spec. split.
  - intros [-> ->]. reflexivity.
  - intros H. inversion H. auto.
Qed.

(* what CloneRequest reads, in order: struct, URL, header map, header value slices, params,
   and the body if any *)
Definition clone_reads (r : request) : list val :=
  [VStruct (q_method r) (q_path r); VUrl; VMap (q_hdr r); VMap (q_hdr r); VPar (q_par r)] ++
  match q_body r with None => [] | Some b => [VBody (Some b)] end.

(* goroutines spawned by the caller after the shadow goroutine (fork number >= 1 at the
   root) and their descendants: the regular pipeline's *)
Definition regular_thread (tid : list nat) : bool :=
  match tid with S _ :: _ => true | _ => false end.

Lemma clone_reads_ok r : exp_log hobj_eqb (map Acc (clone_accs r)) (heap_of r) = clone_reads r.
Proof. destruct r as [m p h q pa [b|]]; reflexivity. Qed.

(* CloneRequest leaves every object that is not the clone's as it was *)
Lemma clone_preserves r o :
  o_own o <> OClone -> apply_accs hobj_eqb (clone_accs r) (heap_of r) o = heap_of r o.
Proof.
  intros Ho. destruct o as [own f]. simpl in Ho.
  destruct r as [m p h q pa [b|]]; destruct own; try contradiction; destruct f; reflexivity.
Qed.

Definition shadow_class (o : hobj) : bool :=
  match o_own o with OClone | OShadowPriv _ => true | _ => false end.
Definition regular_class (o : hobj) : bool :=
  match o_own o with
  | OClient => negb (field_eqb (o_fld o) FQry)
  | ORegPriv _ => true
  | _ => false
  end.

Lemma pipelines_do_not_conflict sp rp :
  shadow_disciplined sp = true -> regular_disciplined rp = true ->
  no_conflict hobj_eqb (accs sp) (accs rp) = true.
Proof.
  unfold shadow_disciplined, regular_disciplined. rewrite !forallb_forall. intros Hs Hr.
  apply (no_conflict_classes hobj val hobj_eqb hobj_eqb_spec shadow_class regular_class).
  - intros a Ha. specialize (Hs a Ha). unfold shadow_may in Hs. unfold shadow_class, regular_class.
    destruct (o_own (aobj a)); try (left; reflexivity); try discriminate.
    apply andb_true_iff in Hs as [Hf Hw]. right. rewrite Hf. apply negb_true_iff in Hw. auto.
  - intros b Hb. specialize (Hr b Hb). unfold regular_may in Hr. unfold shadow_class, regular_class.
    destruct (o_own (aobj b)); try (left; reflexivity); try discriminate.
    destruct (field_eqb (o_fld (aobj b)) FQry); simpl in *; [|left; reflexivity].
    right. apply negb_true_iff in Hr. auto.
  - intros o. unfold shadow_class, regular_class. destruct (o_own o); intros; discriminate.
Qed.

Lemma shadowed_race_free r sp rp :
  shadow_disciplined sp = true -> regular_disciplined rp = true ->
  race_free hobj_eqb sp = true -> race_free hobj_eqb rp = true ->
  race_free hobj_eqb (shadowed_prog r sp rp) = true.
Proof.
  intros Hs Hr Hfs Hfr. unfold shadowed_prog.
  rewrite race_free_app_acc, race_free_cons_fork, Hfs, Hfr. simpl.
  apply pipelines_do_not_conflict; assumption.
Qed.

Lemma regular_objs_not_clone rp o :
  regular_disciplined rp = true -> In o (objs_of rp) -> o_own o <> OClone.
Proof.
  unfold regular_disciplined. rewrite forallb_forall. intros H Ho.
  unfold objs_of in Ho. apply in_map_iff in Ho as (a & <- & Ha). specialize (H a Ha).
  unfold regular_may in H. destruct (o_own (aobj a)); try discriminate; intros E; discriminate.
Qed.

(* the schedule-free logs of the whole call *)
Lemma shadowed_seq_logs r sp rp :
  regular_disciplined rp = true ->
  seq_logs hobj_eqb (shadowed_prog r sp rp) (heap_of r) =
  ([], (clone_reads r ++ exp_log hobj_eqb rp (heap_of r))%list) ::
  (kid_logs_item hobj_eqb (Fork sp) [0] (apply_accs hobj_eqb (clone_accs r) (heap_of r)) ++
   kids hobj_eqb rp [] (heap_of r) 1)%list.
Proof.
  intros Hr. unfold seq_logs, thread_logs, shadowed_prog.
  assert (Hag : forall o, In o (objs_of rp) -> apply_accs hobj_eqb (clone_accs r) (heap_of r) o = heap_of r o).
  { intros o Ho. apply clone_preserves. eapply regular_objs_not_clone; eassumption. }
  rewrite exp_log_app_acc, clone_reads_ok, exp_log_fork, kids_app_acc. cbn [kids app].
  rewrite (exp_log_ext hobj val hobj_eqb rp _ _ Hag), (kids_ext hobj val hobj_eqb rp [] 1 _ _ Hag).
  reflexivity.
Qed.

Theorem noninterference r sp rp sched s :
  shadow_disciplined sp = true -> regular_disciplined rp = true ->
  race_free hobj_eqb sp = true -> race_free hobj_eqb rp = true ->
  run hobj_eqb (init (shadowed_prog r sp rp) (heap_of r)) sched = Some s ->
  race_free hobj_eqb (shadowed_prog r sp rp) = true /\
  (forall t, In t (pool s) -> tid t = [] ->
     (log t ++ exp_log hobj_eqb (rem t) (shadow t))%list =
     (clone_reads r ++ exp_log hobj_eqb rp (heap_of r))%list) /\
  (forall t, In t (pool s) -> regular_thread (tid t) = true ->
     In (tid t, (log t ++ exp_log hobj_eqb (rem t) (shadow t))%list)
        (kids hobj_eqb rp [] (heap_of r) 1)).
Proof.
  intros Hs Hr Hfs Hfr Hrun.
  pose proof (shadowed_race_free r sp rp Hs Hr Hfs Hfr) as Hrf.
  split; [exact Hrf|].
  assert (HH : forall t, In t (pool s) ->
             In (tid t, (log t ++ exp_log hobj_eqb (rem t) (shadow t))%list)
                (seq_logs hobj_eqb (shadowed_prog r sp rp) (heap_of r))).
  { intros t Ht. eapply (H1_noninterference hobj val hobj_eqb hobj_eqb_spec); eassumption. }
  split; intros t Ht Htid; specialize (HH t Ht); rewrite (shadowed_seq_logs r sp rp Hr) in HH.
  - rewrite Htid in HH. destruct HH as [E|Hin]; [inversion E; reflexivity|].
    exfalso. apply in_app_or in Hin as [Hin|Hin].
    + rewrite kid_logs_fork in Hin. unfold thread_logs in Hin. destruct Hin as [E|Hin]; [discriminate|].
      apply kids_tid in Hin as (m & rest & E & _). discriminate.
    + apply kids_tid in Hin as (m & rest & E & _). destruct m; discriminate.
  - destruct (tid t) as [|[|n] rest] eqn:Et; try discriminate.
    destruct HH as [E|Hin]; [discriminate|].
    apply in_app_or in Hin as [Hin|Hin]; [|exact Hin]. exfalso.
    rewrite kid_logs_fork in Hin. unfold thread_logs in Hin. destruct Hin as [E|Hin]; [discriminate|].
    apply kids_tid in Hin as (m & rest' & E & _). discriminate.
Qed.

(* ---- the default stack ---- *)
Lemma default_stack_disciplined k :
  shadow_disciplined (shadow_stack k) = true /\ regular_disciplined (regular_stack k) = true /\
  race_free hobj_eqb (shadow_stack k) = true /\ race_free hobj_eqb (regular_stack k) = true.
Proof.
  destruct k as [[|] [|] [|[|]|[|]]]; vm_compute; repeat split.
Qed.

Definition refute_req : request :=
  {| q_method := "GET"; q_path := "/e"; q_hdr := []; q_qry := [("x", ["1"])]; q_par := []; q_body := None |}.

Lemma unrepaired_refuted : exists r rp,
  regular_disciplined rp = true /\
  shadow_disciplined (map Acc (unrepaired_gql_get_accs (root_view OClone (cl FQry)))) = false /\
  race_free hobj_eqb (shadowed_prog r (map Acc (unrepaired_gql_get_accs (root_view OClone (cl FQry)))) rp) = false.
Proof.
  exists refute_req, (regular_stack {| k_qs := false; k_hs := false; k_gql := GNone |}).
  vm_compute. repeat split.
Qed.

(* ---- header value slices ---- *)
(* on the real clone a shadow stage that rewrites header values in place writes the clone's own
   backing arrays: within the discipline, for every regular pipeline no conflict *)
Lemma inplace_writer_disciplined :
  shadow_disciplined (map Acc (inplace_header_writer (sh FHdr) (sh FHdrVals))) = true /\
  race_free hobj_eqb (map Acc (inplace_header_writer (sh FHdr) (sh FHdrVals))) = true.
Proof. vm_compute. split; reflexivity. Qed.

(* with a clone whose value slices alias the client's, the same stage writes the client's
   backing arrays: outside the discipline, and the call has a conflicting unordered pair with
   the regular backend's read of its header values *)
Lemma aliasing_clone_refuted : exists r rp,
  regular_disciplined rp = true /\
  shadow_disciplined (map Acc (inplace_header_writer (sh FHdr) (cl FHdrVals))) = false /\
  race_free hobj_eqb
    (map Acc (aliasing_clone_accs r) ++ Fork (map Acc (inplace_header_writer (sh FHdr) (cl FHdrVals))) :: rp)%list = false.
Proof.
  exists refute_req, (regular_stack {| k_qs := false; k_hs := false; k_gql := GNone |}).
  vm_compute. repeat split.
Qed.

(* ---- sequential merges on both sides ---- *)
Lemma sequential_merge_disciplined deep k1 k2 :
  shadow_disciplined (shadow_seq deep k1 k2) = true /\
  regular_disciplined (regular_seq deep k1 k2) = true /\
  race_free hobj_eqb (shadow_seq deep k1 k2) = true /\ race_free hobj_eqb (regular_seq deep k1 k2) = true.
Proof.
  destruct deep, k1 as [[|] [|] [|[|]|[|]]], k2 as [[|] [|] [|[|]|[|]]]; vm_compute; repeat split.
Qed.

(* hence, by [noninterference]: an endpoint whose regular AND shadow pipelines are sequential
   merges writing propagated values into their Params - the caller's goroutine (which runs the
   whole regular sequential merge) reads exactly what it reads without the shadow side *)
Lemma sequential_noninterference r d1 d2 k1 k2 k3 k4 sched s :
  run hobj_eqb (init (shadowed_prog r (shadow_seq d1 k1 k2) (regular_seq d2 k3 k4)) (heap_of r)) sched = Some s ->
  race_free hobj_eqb (shadowed_prog r (shadow_seq d1 k1 k2) (regular_seq d2 k3 k4)) = true /\
  forall t, In t (pool s) -> tid t = [] ->
    (log t ++ exp_log hobj_eqb (rem t) (shadow t))%list =
    (clone_reads r ++ exp_log hobj_eqb (regular_seq d2 k3 k4) (heap_of r))%list.
Proof.
  intros Hrun.
  destruct (sequential_merge_disciplined d1 k1 k2) as (Hs & _ & Hfs & _).
  destruct (sequential_merge_disciplined d2 k3 k4) as (_ & Hr & _ & Hfr).
  destruct (noninterference r _ _ sched s Hs Hr Hfs Hfr Hrun) as (A & B & _). split; assumption.
Qed.
