(* C06 - proofs, part c: the deny list (one-level lemma, path theorem by induction on the
   path, the tree built from the list, exactness at list level) and absence of panics. *)
Require Import Verif.Common.Base Verif.Common.Json Verif.Common.JsonFacts.
Require Import Verif.Model.C06 Verif.Spec.C06 Verif.Proof.C06_a.

Fixpoint delete_members (t : dtree) (d : obj) : obj :=
  match d with
  | [] => []
  | (k, x) :: r =>
      match lookup k t with
      | Some DNil => delete_members t r
      | Some (DNode c) => (k, rec_delete c x) :: delete_members t r
      | _ => (k, x) :: delete_members t r
      end
  end.

Lemma deny_filter_members t d : deny_filter t d = delete_members t d.
Proof.
  unfold deny_filter. cbn [rec_delete unobj].
  induction d as [|[k x] r IH]; [reflexivity|].
  cbn [delete_members]. rewrite <- IH. reflexivity.
Qed.

Lemma rec_delete_obj_shape t d : rec_delete t (JObj d) = JObj (deny_filter t d).
Proof. reflexivity. Qed.

Lemma lookup_deny_filter t d k : nodup_keys d = true ->
  lookup k (deny_filter t d) =
  match lookup k d with
  | None => None
  | Some x => match lookup k t with
              | Some DNil => None
              | Some (DNode c) => Some (rec_delete c x)
              | _ => Some x
              end
  end.
Proof.
  rewrite deny_filter_members.
  induction d as [|[k' x] r IH]; intros Hnd; [reflexivity|].
  apply nodup_keys_cons in Hnd as [Hnone Hr]. specialize (IH Hr).
  cbn [delete_members lookup].
  destruct (str_eqb k k') eqn:E.
  - apply str_eqb_eq in E. subst k'.
    assert (Hrest : lookup k (delete_members t r) = None) by (rewrite IH, Hnone; reflexivity).
    destruct (lookup k t) as [[|c|]|]; try exact Hrest;
      cbn [lookup]; rewrite str_eqb_refl; reflexivity.
  - destruct (lookup k' t) as [[|c|]|]; try exact IH; cbn [lookup]; rewrite E; exact IH.
Qed.

(* ---------- walking the deny tree ---------- *)
(* some prefix of p is marked "delete" *)
Fixpoint dcov (t : dtree) (p : list string) : bool :=
  match p with
  | [] => false
  | k :: r => match lookup k t with
              | Some DNil => true
              | Some (DNode c) => dcov c r
              | _ => false
              end
  end.
(* the inner node reached by p *)
Fixpoint dsub (t : dtree) (p : list string) : option dtree :=
  match p with
  | [] => Some t
  | k :: r => match lookup k t with
              | Some (DNode c) => dsub c r
              | _ => None
              end
  end.

Theorem delete_gp : forall p t v, wfj v = true ->
  get_path (rec_delete t v) p =
  if dcov t p then None
  else match dsub t p with
       | Some c => option_map (rec_delete c) (get_path v p)
       | None => get_path v p
       end.
Proof.
  induction p as [|k r IH]; intros t v Hwf; [reflexivity|].
  destruct v as [| | | | |d|];
    try (cbn [rec_delete get_path]; destruct (dcov t (k :: r)); [reflexivity|];
         destruct (dsub t (k :: r)); reflexivity).
  rewrite rec_delete_obj_shape. cbn [get_path].
  destruct (wfj_obj d Hwf) as [Hnd Hsub].
  rewrite (lookup_deny_filter t d k Hnd). cbn [dcov dsub].
  destruct (lookup k d) as [x|] eqn:Ed.
  2:{ destruct (lookup k t) as [[|c|]|]; try reflexivity.
      destruct (dcov c r); [reflexivity|]. destruct (dsub c r); reflexivity. }
  destruct (lookup k t) as [[|c|]|]; try reflexivity.
  apply IH. eapply Hsub. exact Ed.
Qed.

(* ---------- the tree never holds anything but nil and maps ---------- *)
Fixpoint dt_ok (x : dt) : bool :=
  match x with
  | DNil => true
  | DOther => false
  | DNode m => (fix go (m : list (string * dt)) : bool :=
                  match m with [] => true | (_, y) :: r => dt_ok y && go r end) m
  end.
Definition dtree_ok (t : dtree) : bool := forallb (fun kv => dt_ok (snd kv)) t.

Lemma dt_ok_node m : dt_ok (DNode m) = dtree_ok m.
Proof.
  cbn [dt_ok]. unfold dtree_ok. induction m as [|[k y] r IH]; [reflexivity|].
  cbn [forallb snd]. rewrite <- IH. reflexivity.
Qed.

Lemma dtree_ok_lookup t k y : dtree_ok t = true -> lookup k t = Some y -> dt_ok y = true.
Proof.
  unfold dtree_ok. intros H Hl. apply lookup_In in Hl. rewrite forallb_forall in H.
  exact (H (k, y) Hl).
Qed.

Lemma dtree_ok_remove t k : dtree_ok t = true -> dtree_ok (remove k t) = true.
Proof.
  unfold dtree_ok. induction t as [|[k' y] r IH]; intros H; [reflexivity|].
  cbn [forallb snd] in H. apply andb_true_iff in H as [Hy Hr].
  cbn [remove]. destruct (str_eqb k k'); [apply IH; exact Hr|].
  cbn [forallb snd]. rewrite Hy. apply IH. exact Hr.
Qed.

Lemma dtree_ok_set t k y : dtree_ok t = true -> dt_ok y = true -> dtree_ok (set k y t) = true.
Proof.
  intros Ht Hy. unfold set. unfold dtree_ok. cbn [forallb snd]. rewrite Hy.
  apply (dtree_ok_remove t k Ht).
Qed.

Lemma insert_deny_ok : forall q t, dtree_ok t = true -> dtree_ok (insert_deny q t) = true.
Proof.
  induction q as [|n rest IH]; intros t Ht; [exact Ht|].
  destruct rest as [|n2 rest2].
  - cbn [insert_deny]. apply dtree_ok_set; [exact Ht|reflexivity].
  - set (rest := n2 :: rest2) in *. cbn [insert_deny]. fold rest.
    destruct (lookup n t) as [[|c|]|] eqn:E.
    + exact Ht.
    + apply dtree_ok_set; [exact Ht|]. rewrite dt_ok_node. apply IH.
      rewrite <- dt_ok_node. eapply dtree_ok_lookup; eassumption.
    + apply dtree_ok_set; [exact Ht|reflexivity].
    + apply dtree_ok_set; [exact Ht|]. rewrite dt_ok_node. apply IH. reflexivity.
Qed.

Lemma build_deny_ok_gen : forall L t, dtree_ok t = true ->
  dtree_ok (fold_left (fun t p => insert_deny p t) L t) = true.
Proof.
  induction L as [|q L IH]; intros t Ht; [exact Ht|].
  cbn [fold_left]. apply IH. apply insert_deny_ok. exact Ht.
Qed.

Lemma build_deny_ok L : dtree_ok (build_deny L) = true.
Proof. apply build_deny_ok_gen. reflexivity. Qed.

Lemma ok_no_panic : forall v tr, dtree_ok tr = true -> deny_panics tr v = false.
Proof.
  induction v using json_ind'; intros tr Ht; try reflexivity.
  cbn [deny_panics]. induction m as [|[k x] r IHr]; [reflexivity|].
  inversion H as [|? ? Hx Hr]; subst. cbn [snd] in Hx.
  destruct (lookup k tr) as [[|c|]|] eqn:E.
  - apply IHr. exact Hr.
  - rewrite Hx; [cbn [orb]; apply IHr; exact Hr|].
    rewrite <- dt_ok_node. eapply dtree_ok_lookup; eassumption.
  - pose proof (dtree_ok_lookup _ _ _ Ht E) as Hbad. discriminate.
  - apply IHr. exact Hr.
Qed.

Theorem never_panics : forall c d, format c d <> Panic.
Proof.
  intros c d. unfold format, filter_stage.
  destruct (is_nil (target_stage c d)); [discriminate|].
  destruct (is_nil (allow c)); [|discriminate].
  rewrite ok_no_panic; [discriminate|apply build_deny_ok].
Qed.

(* ---------- which paths the built tree deletes ---------- *)
Lemma insert_deny_cons2 n n2 rest2 t :
  insert_deny (n :: n2 :: rest2) t =
  match lookup n t with
  | Some DNil => t
  | Some (DNode c) => set n (DNode (insert_deny (n2 :: rest2) c)) t
  | Some DOther => set n DNil t
  | None => set n (DNode (insert_deny (n2 :: rest2) [])) t
  end.
Proof. reflexivity. Qed.

Lemma insert_deny_dcov : forall q t, q <> [] -> dtree_ok t = true ->
  forall p, dcov (insert_deny q t) p = dcov t p || prefix q p.
Proof.
  induction q as [|n rest IH]; intros t Hne Ht p; [congruence|].
  destruct rest as [|n2 rest2].
  - cbn [insert_deny]. destruct p as [|k r]; [reflexivity|].
    cbn [dcov prefix]. rewrite lookup_set.
    rewrite (Bool.andb_true_r (str_eqb n k)).
    destruct (str_eqb k n) eqn:E.
    + apply str_eqb_eq in E. subst k. rewrite str_eqb_refl. rewrite orb_true_r. reflexivity.
    + assert (E' : str_eqb n k = false).
      { apply str_eqb_neq. apply str_eqb_neq in E. congruence. }
      rewrite E', orb_false_r. reflexivity.
  - rewrite insert_deny_cons2. set (rest := n2 :: rest2) in *.
    assert (Hpre : forall k r, str_eqb k n = false -> prefix (n :: rest) (k :: r) = false).
    { intros k r E. cbn [prefix]. assert (E' : str_eqb n k = false).
      { apply str_eqb_neq. apply str_eqb_neq in E. congruence. }
      rewrite E'. reflexivity. }
    assert (Hpre2 : forall r, prefix (n :: rest) (n :: r) = prefix rest r).
    { intros r. cbn [prefix]. rewrite str_eqb_refl. reflexivity. }
    destruct (lookup n t) as [[|c|]|] eqn:E.
    + (* already deleted above *)
      destruct p as [|k r]; [reflexivity|]. cbn [dcov].
      destruct (str_eqb k n) eqn:Ek.
      * apply str_eqb_eq in Ek. subst k. rewrite E. reflexivity.
      * rewrite Hpre by exact Ek. rewrite orb_false_r. reflexivity.
    + destruct p as [|k r]; [reflexivity|]. cbn [dcov]. rewrite lookup_set.
      destruct (str_eqb k n) eqn:Ek.
      * apply str_eqb_eq in Ek. subst k. rewrite E, Hpre2. apply IH; [unfold rest; discriminate|].
        rewrite <- dt_ok_node. eapply dtree_ok_lookup; eassumption.
      * rewrite Hpre by exact Ek. rewrite orb_false_r. reflexivity.
    + pose proof (dtree_ok_lookup _ _ _ Ht E) as Hbad. discriminate.
    + destruct p as [|k r]; [reflexivity|]. cbn [dcov]. rewrite lookup_set.
      destruct (str_eqb k n) eqn:Ek.
      * apply str_eqb_eq in Ek. subst k. rewrite E, Hpre2.
        rewrite IH; [|unfold rest; discriminate|reflexivity].
        destruct r; reflexivity.
      * rewrite Hpre by exact Ek. rewrite orb_false_r. reflexivity.
Qed.

Lemma build_deny_dcov_gen : forall L t, nonempty_paths L -> dtree_ok t = true ->
  forall p, dcov (fold_left (fun t p => insert_deny p t) L t) p = dcov t p || covered L p.
Proof.
  induction L as [|q L IH]; intros t Hne Ht p.
  - cbn. rewrite orb_false_r. reflexivity.
  - cbn [fold_left]. rewrite IH.
    + rewrite insert_deny_dcov; [|apply Hne; left; reflexivity|exact Ht].
      unfold covered. cbn [existsb]. rewrite orb_assoc. reflexivity.
    + intros l Hl. apply Hne. right. exact Hl.
    + apply insert_deny_ok. exact Ht.
Qed.

Lemma build_deny_dcov L : nonempty_paths L -> forall p, dcov (build_deny L) p = covered L p.
Proof.
  intros Hne p. unfold build_deny. rewrite build_deny_dcov_gen; [|exact Hne|reflexivity].
  destruct p; reflexivity.
Qed.

(* ---------- the deny filter is exactly "minus the listed subtrees" ---------- *)
Theorem deny_exact : forall L d,
  nonempty_paths L -> wfj (JObj d) = true ->
  forall p, deny_exact_at L (JObj d) (JObj (deny_filter (build_deny L) d)) p.
Proof.
  intros L d Hne Hwf p.
  assert (Hgp := delete_gp p (build_deny L) (JObj d) Hwf).
  rewrite rec_delete_obj_shape, (build_deny_dcov L Hne) in Hgp.
  unfold deny_exact_at. split; intros Hc; rewrite Hgp, Hc; [reflexivity|].
  destruct (dsub (build_deny L) p) as [c|];
    destruct (get_path (JObj d) p) as [[| | | | |m|]|]; cbn [option_map];
    try reflexivity; eexists; reflexivity.
Qed.
