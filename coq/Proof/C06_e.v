(* C06 - proofs, part e: no leak / values untouched; the boolean oracle reflects the
   path-level statements, holds of the model's output, and its finite probe set decides
   the statement for every path. *)
Require Import Verif.Common.Base Verif.Common.Json Verif.Common.JsonFacts.
Require Import Verif.Model.C06 Verif.Spec.C06.
Require Import Verif.Proof.C06 Verif.Proof.C06_d.

(* ---------- no leak ---------- *)
Theorem no_leak_allow : forall L d,
  nonempty_paths L -> prefix_free L -> wfj (JObj d) = true ->
  forall p x, get_path (JObj (allow_filter (build_allow L) d)) p = Some x -> is_obj x = false ->
  covered L p = true /\ get_path (JObj d) p = Some x.
Proof.
  intros L d Hne Hpf Hwf p x Hg Hx.
  destruct p as [|k r]; [cbn in Hg; inversion Hg; subst; discriminate|].
  destruct (allow_exact L d Hne Hpf Hwf (k :: r)) as [Hc Hu]; [discriminate|].
  destruct (covered L (k :: r)) eqn:E.
  - split; [reflexivity|]. rewrite <- Hc by reflexivity. exact Hg.
  - exfalso. destruct (Hu eq_refl) as [_ Hobj].
    destruct Hobj as [m Hm]; [unfold present; rewrite Hg; reflexivity|].
    rewrite Hg in Hm. inversion Hm; subst. discriminate.
Qed.

Theorem no_leak_deny : forall L d,
  nonempty_paths L -> wfj (JObj d) = true ->
  forall p x, get_path (JObj (deny_filter (build_deny L) d)) p = Some x ->
  covered L p = false /\
  exists y, get_path (JObj d) p = Some y /\ (is_obj x = false -> y = x).
Proof.
  intros L d Hne Hwf p x Hg.
  destruct (deny_exact L d Hne Hwf p) as [Hc Hu].
  destruct (covered L p) eqn:E; [rewrite Hc in Hg by reflexivity; discriminate|].
  split; [reflexivity|]. specialize (Hu eq_refl).
  destruct (get_path (JObj d) p) as [y|]; [|rewrite Hu in Hg; discriminate].
  exists y. split; [reflexivity|]. intros Hx.
  destruct y; try (rewrite Hu in Hg; inversion Hg; reflexivity).
  destruct Hu as [m' Hm]. rewrite Hm in Hg. inversion Hg; subst. discriminate.
Qed.

(* ---------- values untouched, through every stage ---------- *)
Lemma prune_leaf w v p x : wfj v = true ->
  get_path (prune_json w v) p = Some x -> is_obj x = false -> get_path v p = Some x.
Proof.
  intros Hwf Hg Hx. rewrite (prune_gp p w v Hwf) in Hg. unfold tspec in Hg.
  destruct (status_of w p) as [|s|]; [exact Hg| |discriminate].
  destruct (get_path v p) as [y|]; [|discriminate].
  destruct y; try (destruct p; [exact Hg|discriminate]).
  destruct (allow_filter s m); [destruct p; [|discriminate]|];
    inversion Hg; subst; discriminate.
Qed.

Lemma delete_leaf t v p x : wfj v = true ->
  get_path (rec_delete t v) p = Some x -> is_obj x = false -> get_path v p = Some x.
Proof.
  intros Hwf Hg Hx. rewrite (delete_gp p t v Hwf) in Hg.
  destruct (dcov t p); [discriminate|].
  destruct (dsub t p) as [c|]; [|exact Hg].
  destruct (get_path v p) as [y|]; [|discriminate]. cbn [option_map] in Hg.
  destruct y; try exact Hg. rewrite rec_delete_obj_shape in Hg. inversion Hg; subst. discriminate.
Qed.

Lemma mapping_values : forall mp (f : obj) k v,
  lookup k (apply_mapping mp f) = Some v -> exists k0, lookup k0 f = Some v.
Proof.
  induction mp as [|[s t] mp IH]; intros f k v H; [exists k; exact H|].
  unfold apply_mapping in H. cbn [fold_left] in H. fold (apply_mapping mp (map_one f (s, t))) in H.
  destruct (IH _ _ _ H) as [k0 Hk0]. rewrite lookup_map_one in Hk0.
  destruct (lookup s f) as [v0|] eqn:Es; [|exists k0; exact Hk0].
  destruct (str_eqb k0 s); [discriminate|].
  destruct (str_eqb k0 t); [inversion Hk0; subst; exists s; exact Es|exists k0; exact Hk0].
Qed.

Lemma target_spec_path c d :
  target_spec c d = d \/ target_spec c d = [] \/
  exists q, get_path (JObj d) q = Some (JObj (target_spec c d)).
Proof.
  unfold target_spec. destruct (str_eqb (target c) ""); [left; reflexivity|].
  destruct (get_path (JObj d) (split_dot (target c))) as [y|] eqn:E; [|right; left; reflexivity].
  destruct y; try (right; left; reflexivity).
  right. right. exists (split_dot (target c)). exact E.
Qed.

Theorem values_untouched : forall c d out,
  wfj (JObj d) = true -> format c d = Ok out ->
  forall p x, get_path (JObj out) p = Some x -> is_obj x = false ->
  exists p', get_path (JObj d) p' = Some x.
Proof.
  intros c d out Hwf Hf p x Hg Hx.
  unfold format in Hf. rewrite target_stage_spec in Hf.
  destruct (filter_stage c (target_spec c d)) as [f|] eqn:Ef; [|discriminate].
  inversion Hf; subst out. clear Hf.
  (* group *)
  assert (H1 : exists p1, get_path (JObj (mapping_stage c f)) p1 = Some x).
  { unfold group_stage in Hg. destruct (str_eqb (group c) ""); [exists p; exact Hg|].
    destruct p as [|k r]; [inversion Hg; subst; discriminate|].
    cbn [get_path lookup] in Hg. destruct (str_eqb k (group c)); [|discriminate].
    exists r. exact Hg. }
  destruct H1 as [p1 H1].
  (* mapping *)
  assert (H2 : exists p2, get_path (JObj f) p2 = Some x).
  { unfold mapping_stage in H1. destruct (is_nil f); [exists p1; exact H1|].
    destruct p1 as [|k r]; [inversion H1; subst; discriminate|].
    cbn [get_path] in H1.
    destruct (lookup k (apply_mapping (sanitize (mapping c)) f)) as [y|] eqn:El; [|discriminate].
    destruct (mapping_values _ _ _ _ El) as [k0 Hk0]. exists (k0 :: r).
    cbn [get_path]. rewrite Hk0. exact H1. }
  destruct H2 as [p2 H2].
  (* filter *)
  assert (Hwt : wfj (JObj (target_spec c d)) = true).
  { destruct (target_spec_path c d) as [-> | [-> | [q Hq]]]; [exact Hwf|reflexivity|].
    eapply wfj_get_path; [exact Hwf|exact Hq]. }
  assert (H3 : get_path (JObj (target_spec c d)) p2 = Some x).
  { unfold filter_stage in Ef. destruct (is_nil (target_spec c d)).
    - inversion Ef; subst f. exact H2.
    - destruct (is_nil (allow c)).
      + destruct (deny_panics _ _); [discriminate|]. inversion Ef; subst f.
        eapply delete_leaf; [exact Hwt| |exact Hx]. rewrite rec_delete_obj_shape. exact H2.
      + inversion Ef; subst f.
        eapply prune_leaf; [exact Hwt| |exact Hx]. rewrite prune_obj_shape. exact H2. }
  (* target *)
  destruct (target_spec_path c d) as [E | [E | [q Hq]]].
  - rewrite E in H3. exists p2. exact H3.
  - rewrite E in H3. destruct p2; [inversion H3; subst; discriminate|discriminate].
  - exists (q ++ p2)%list. rewrite get_path_app, Hq. exact H3.
Qed.

(* ---------- the boolean oracle reflects the path-level statements ---------- *)
Lemma anc_reflect L d p :
  existsb (fun l => strict_prefix p l && present d l) L = true <->
  exists l, In l L /\ strict_prefix p l = true /\ present d l = true.
Proof.
  rewrite existsb_exists. split; intros [l [Hin H]]; exists l; split; try exact Hin.
  - apply andb_true_iff in H. exact H.
  - apply andb_true_iff. exact H.
Qed.

Lemma allow_at_b_iff L d out p : allow_at_b L d out p = true <-> allow_obs_at L d out p.
Proof.
  unfold allow_at_b, allow_obs_at. destruct (covered L p).
  - split; [intros H; split; [intros _; exact H|discriminate]|intros [H _]; apply H; reflexivity].
  - rewrite andb_true_iff, <- anc_reflect. split.
    + intros [H1 H2]. split; [discriminate|]. intros _. split.
      * apply Bool.eqb_prop in H1. rewrite H1. tauto.
      * intros Hp. rewrite Hp in H2. cbn in H2. unfold is_obj_opt in H2.
        destruct (get_path out p) as [[| | | | |m|]|]; try discriminate. eexists; reflexivity.
    + intros [_ H]. destruct (H eq_refl) as [Hiff Hobj]. split.
      * destruct (present out p) eqn:E.
        -- rewrite (proj1 Hiff eq_refl). reflexivity.
        -- destruct (existsb _ L) eqn:E2; [|reflexivity].
           pose proof (proj2 Hiff eq_refl). discriminate.
      * destruct (present out p) eqn:E; [|reflexivity]. cbn.
        destruct (Hobj eq_refl) as [m ->]. reflexivity.
Qed.

Lemma deny_at_b_iff L d out p : deny_at_b L d out p = true <-> deny_obs_at L d out p.
Proof.
  unfold deny_at_b, deny_obs_at, present. destruct (covered L p).
  - split.
    + intros H. split; [intros _|discriminate]. destruct (get_path out p); [discriminate|reflexivity].
    + intros [H _]. rewrite H; reflexivity.
  - split.
    + intros H. split; [discriminate|]. intros _.
      destruct (get_path d p) as [x|]; [|destruct (get_path out p); [discriminate|reflexivity]].
      destruct x; destruct (get_path out p) as [y|]; try discriminate;
        try (exists y; split; [reflexivity|exact H]).
      destruct y; try discriminate. eexists; reflexivity.
    + intros [_ H]. specialize (H eq_refl).
      destruct (get_path d p) as [x|]; [|rewrite H; reflexivity].
      destruct x; try (destruct H as [y [-> Hy]]; destruct y; try discriminate; exact Hy).
      destruct H as [m' ->]. reflexivity.
Qed.

(* the exact statements imply the observation-level ones *)
Lemma allow_exact_obs L d out p : wfj d = true ->
  allow_exact_at L d out p -> allow_obs_at L d out p.
Proof.
  intros Hwf [Hc Hu]. split; [|exact Hu].
  intros E. rewrite (Hc E). destruct (get_path d p) as [x|] eqn:Eg; [|reflexivity].
  cbn. apply json_eqb_refl. eapply wfj_get_path; eassumption.
Qed.

Lemma deny_exact_obs L d out p : wfj d = true ->
  deny_exact_at L d out p -> deny_obs_at L d out p.
Proof.
  intros Hwf [Hc Hu]. split; [exact Hc|].
  intros E. specialize (Hu E). destruct (get_path d p) as [x|] eqn:Eg; [|exact Hu].
  assert (Hwx : wfj x = true) by (eapply wfj_get_path; eassumption).
  destruct x; try (eexists; split; [exact Hu|apply json_eqb_refl; exact Hwx]).
  exact Hu.
Qed.

Lemma probe_nonempty L d out p : In p (probe_paths L d out) -> p <> [].
Proof.
  unfold probe_paths. intros H. apply filter_In in H as [_ H]. destruct p; [discriminate|discriminate].
Qed.

(* the model's output passes the oracle of the filter stage *)
Theorem allow_ok_model : forall L d,
  nonempty_paths L -> prefix_free L -> wfj (JObj d) = true ->
  allow_ok L d (allow_filter (build_allow L) d) = true.
Proof.
  intros L d Hne Hpf Hwf. unfold allow_ok. apply forallb_forall. intros p Hp.
  apply allow_at_b_iff. apply allow_exact_obs; [exact Hwf|].
  apply allow_exact; try assumption. eapply probe_nonempty. exact Hp.
Qed.

Theorem deny_ok_model : forall L d,
  nonempty_paths L -> wfj (JObj d) = true ->
  deny_ok L d (deny_filter (build_deny L) d) = true.
Proof.
  intros L d Hne Hwf. unfold deny_ok. apply forallb_forall. intros p Hp.
  apply deny_at_b_iff. apply deny_exact_obs; [exact Hwf|].
  apply deny_exact; assumption.
Qed.

(* ---------- the probe set decides every path ---------- *)
Lemma present_in_paths : forall p v, present v p = true -> In p (paths v).
Proof.
  unfold present. induction p as [|k r IH]; intros v H.
  - destruct v; cbn; auto.
  - cbn [get_path] in H. destruct v; try discriminate. cbn [paths]. right.
    induction m as [|[k' x'] m' IHm]; [discriminate|].
    cbn [lookup] in H. apply in_or_app. destruct (str_eqb k k') eqn:E.
    + apply str_eqb_eq in E. subst k'. left. apply in_map. apply IH.
      destruct (get_path x' r); [reflexivity|discriminate].
    + right. apply IHm. exact H.
Qed.

Lemma prefix_in_prefixes : forall p l, prefix p l = true -> In p (prefixes l).
Proof.
  induction p as [|k r IH]; intros l H.
  - destruct l; cbn; auto.
  - destruct l as [|k' l']; [discriminate|]. apply prefix_cons in H as [<- H].
    cbn [prefixes]. right. apply in_map. apply IH. exact H.
Qed.

Lemma not_probed L d out p : p <> [] -> ~ In p (probe_paths L d out) ->
  present d p = false /\ present out p = false /\ forall l, In l L -> prefix p l = false.
Proof.
  intros Hp Hn.
  assert (Hall : ~ In p (paths d ++ paths out ++ flat_map prefixes L)%list).
  { intros Hin. apply Hn. unfold probe_paths. apply filter_In. split; [exact Hin|].
    destruct p; [congruence|reflexivity]. }
  split; [|split].
  - destruct (present d p) eqn:E; [|reflexivity]. exfalso. apply Hall.
    apply in_or_app. left. apply present_in_paths. exact E.
  - destruct (present out p) eqn:E; [|reflexivity]. exfalso. apply Hall.
    apply in_or_app. right. apply in_or_app. left. apply present_in_paths. exact E.
  - intros l Hl. destruct (prefix p l) eqn:E; [|reflexivity]. exfalso. apply Hall.
    apply in_or_app. right. apply in_or_app. right. apply in_flat_map. exists l.
    split; [exact Hl|apply prefix_in_prefixes; exact E].
Qed.

Lemma prefix_trans a : forall b c, prefix a b = true -> prefix b c = true -> prefix a c = true.
Proof.
  induction a as [|x a IH]; intros b c H1 H2; [reflexivity|].
  destruct b as [|y b]; [discriminate|]. destruct c as [|z c]; [discriminate|].
  apply prefix_cons in H1 as [-> H1]. apply prefix_cons in H2 as [-> H2].
  apply prefix_cons. split; [reflexivity|eapply IH; eassumption].
Qed.

Lemma absent_get v p : present v p = false -> get_path v p = None.
Proof. unfold present. destruct (get_path v p); [discriminate|reflexivity]. Qed.

(* soundness of the oracle: passing on the finite probe set gives the statement at every path *)
Theorem allow_ok_sound : forall L d out, allow_ok L d out = true ->
  forall p, p <> [] -> allow_obs_at L (JObj d) (JObj out) p.
Proof.
  intros L d out H p Hp. unfold allow_ok in H. rewrite forallb_forall in H.
  destruct (in_dec (list_eq_dec string_dec) p (probe_paths L (JObj d) (JObj out))) as [Hin|Hn].
  - apply allow_at_b_iff. apply H. exact Hin.
  - destruct (not_probed _ _ _ _ Hp Hn) as [Hd [Ho Hl]]. split.
    + intros _. rewrite (absent_get _ _ Hd), (absent_get _ _ Ho). reflexivity.
    + intros _. rewrite Ho. split; [split; [discriminate|]|discriminate].
      intros [l [Hin [Hs _]]]. unfold strict_prefix in Hs. apply andb_true_iff in Hs as [Hs _].
      rewrite (Hl l Hin) in Hs. discriminate.
Qed.

Theorem deny_ok_sound : forall L d out, deny_ok L d out = true ->
  forall p, p <> [] -> deny_obs_at L (JObj d) (JObj out) p.
Proof.
  intros L d out H p Hp. unfold deny_ok in H. rewrite forallb_forall in H.
  destruct (in_dec (list_eq_dec string_dec) p (probe_paths L (JObj d) (JObj out))) as [Hin|Hn].
  - apply deny_at_b_iff. apply H. exact Hin.
  - destruct (not_probed _ _ _ _ Hp Hn) as [Hd [Ho Hl]]. split.
    + intros _. apply absent_get. exact Ho.
    + intros _. rewrite (absent_get _ _ Hd). apply absent_get. exact Ho.
Qed.
