(* C07 - GetOptions: which spellings of type and method select which behaviour. *)
Require Import Verif.Common.Base Verif.Common.Json.
Require Import Verif.Model.C07.

Definition lowered (t : string) : string := bs (lower_bytes (bytes_of t)).
Definition uppered (m : string) : string := bs (upper_bytes (bytes_of m)).

Lemma type_spelling t :
  (norm_type t = Some TQuery <-> lowered t = "query"%string) /\
  (norm_type t = Some TMutation <-> lowered t = "mutation"%string) /\
  (norm_type t = None <-> lowered t <> "query"%string /\ lowered t <> "mutation"%string).
Proof.
  unfold norm_type. fold (lowered t).
  destruct (str_eqb (lowered t) "query") eqn:Eq.
  - apply str_eqb_eq in Eq. rewrite Eq. repeat split; try discriminate; try reflexivity.
    + intros [H _]. exfalso. apply H. reflexivity.
  - apply str_eqb_neq in Eq.
    destruct (str_eqb (lowered t) "mutation") eqn:Em.
    + apply str_eqb_eq in Em. rewrite Em. repeat split; try discriminate; try reflexivity.
      intros [_ H]. exfalso. apply H. reflexivity.
    + apply str_eqb_neq in Em. repeat split; try discriminate; try contradiction; auto.
Qed.

Lemma method_spelling m :
  (norm_method m = TGet <-> uppered m = "GET"%string) /\
  (norm_method m = TPost <-> uppered m <> "GET"%string).
Proof.
  unfold norm_method. fold (uppered m).
  destruct (str_eqb (uppered m) "GET") eqn:E.
  - apply str_eqb_eq in E. split; split; intros H; try discriminate; try assumption; try reflexivity.
    contradiction.
  - apply str_eqb_neq in E. split; split; intros H; try discriminate; try assumption; try reflexivity.
    contradiction.
Qed.
