(* C15 - proofs, part 2: the subscriber along every history of lookups, reads and callers
   overwriting the slices they were given. *)
Require Import Verif.Common.Base Verif.Model.C15 Verif.Spec.C15 Verif.Proof.C15.
From Coq Require Import Permutation.
Open Scope nat_scope.

(* heap-free description of what the reads return: cur = the list the cache holds *)
Fixpoint spec_reads (scheme : string) (cur : list string) (evs : list event) : list (list string) :=
  match evs with
  | [] => []
  | ELookup true rs :: r => spec_reads scheme (resolve scheme rs) r
  | ELookup false _ :: r => spec_reads scheme cur r
  | ERead :: r => cur :: spec_reads scheme cur r
  | EScribble _ _ :: r => spec_reads scheme cur r
  end.

(* the cache slice holds cur, and no slice handed to a caller is the cache slice *)
Definition Inv (s : st) (cur : list string) : Prop :=
  hget (heap s) (cache s) = cur /\ cache s < next s /\
  Forall (fun i => i < next s /\ i <> cache s) (handed s).

Lemma hget_hset h i l j : hget (hset h i l) j = if Nat.eqb j i then l else hget h j.
Proof. reflexivity. Qed.

Lemma inv_init : Inv init_st [].
Proof. repeat split; simpl; auto. Qed.

Lemma apply_inv scheme s cur e : Inv s cur ->
  Inv (fst (apply scheme s e))
      (match e with ELookup true rs => resolve scheme rs | _ => cur end) /\
  snd (apply scheme s e) = match e with ERead => Some cur | _ => None end.
Proof.
  intros [Hc [Hlt Hh]]. destruct e as [ok rs| |k m]; simpl.
  - destruct ok; simpl.
    + split; [|reflexivity]. repeat split; simpl.
      * rewrite Nat.eqb_refl. reflexivity.
      * lia.
      * eapply Forall_impl; [|exact Hh]. simpl. intros i [H1 H2]. lia.
    + split; [|reflexivity]. repeat split; assumption.
  - split; [|rewrite Hc; reflexivity]. repeat split; simpl.
    + destruct (Nat.eqb (cache s) (next s)) eqn:E; [apply Nat.eqb_eq in E; lia|exact Hc].
    + lia.
    + apply Forall_app. split.
      * eapply Forall_impl; [|exact Hh]. simpl. intros i [H1 H2]. lia.
      * constructor; [lia|constructor].
  - destruct (nth_error (handed s) k) as [id|] eqn:E; simpl.
    + split; [|reflexivity]. apply nth_error_In in E. rewrite Forall_forall in Hh.
      destruct (Hh id E) as [H1 H2]. repeat split; simpl.
      * destruct (Nat.eqb (cache s) id) eqn:E2; [apply Nat.eqb_eq in E2; congruence|exact Hc].
      * exact Hlt.
      * rewrite Forall_forall. exact Hh.
    + split; [|reflexivity]. repeat split; try assumption.
Qed.

Lemma run_spec scheme evs : forall s cur, Inv s cur -> run scheme s evs = spec_reads scheme cur evs.
Proof.
  induction evs as [|e r IH]; intros s cur HI; simpl; [reflexivity|].
  destruct (apply_inv scheme s cur e HI) as [HI' Ho].
  destruct (apply scheme s e) as [s' o]. simpl in *. subst o.
  destruct e as [ok rs| |k m]; [destruct ok| |]; simpl; try (apply IH; exact HI').
  f_equal. apply IH; exact HI'.
Qed.

Lemma reads_spec scheme evs : reads scheme evs = spec_reads (eff_scheme scheme) [] evs.
Proof. unfold reads. apply run_spec. apply inv_init. Qed.

Definition val (scheme : string) (c : option (list srv)) : list string :=
  match c with Some rs => resolve scheme rs | None => [] end.

Lemma spec_reads_nth scheme pre post : forall c,
  nth_error (spec_reads scheme (val scheme c) (pre ++ ERead :: post)) (n_reads pre) =
  Some (val scheme (last_ok c pre)).
Proof.
  induction pre as [|e r IH]; intros c; simpl; [reflexivity|].
  destruct e as [ok rs| |k m]; [destruct ok| |]; simpl.
  - apply (IH (Some rs)).
  - apply IH.
  - apply IH.
  - apply IH.
Qed.

(* every read returns the list resolved from the last successful lookup (the empty list before
   the first one), whatever failed in between and whatever callers did to their copies *)
Lemma history_read scheme pre post :
  nth_error (reads scheme (pre ++ ERead :: post)) (n_reads pre) =
  Some (match last_ok None pre with
        | Some rs => resolve (eff_scheme scheme) rs
        | None => []
        end).
Proof. rewrite reads_spec. apply (spec_reads_nth (eff_scheme scheme) pre post None). Qed.

(* a failing lookup is invisible *)
Lemma failed_refresh_invisible scheme pre rs post :
  reads scheme (pre ++ ELookup false rs :: post) = reads scheme (pre ++ post).
Proof.
  rewrite !reads_spec. generalize (@nil string) as cur.
  induction pre as [|e r IH]; intros cur; simpl; [reflexivity|].
  destruct e as [ok rs'| |k m]; [destruct ok| |]; simpl; try apply IH. f_equal. apply IH.
Qed.

(* what callers do to the slices they were given is invisible to every read *)
Lemma scribbles_invisible scheme evs :
  reads scheme evs = reads scheme (filter (fun e => negb (is_scribble e)) evs).
Proof.
  rewrite !reads_spec. generalize (@nil string) as cur.
  induction evs as [|e r IH]; intros cur; simpl; [reflexivity|].
  destruct e as [ok rs'| |k m]; [destruct ok| |]; simpl; try apply IH. f_equal. apply IH.
Qed.

(* two reads never hand out the same slice, and never the slice the cache holds *)
Fixpoint final (scheme : string) (s : st) (evs : list event) : st :=
  match evs with [] => s | e :: r => final scheme (fst (apply scheme s e)) r end.

Lemma final_inv scheme evs : forall s cur, Inv s cur -> exists cur', Inv (final scheme s evs) cur'.
Proof.
  induction evs as [|e r IH]; intros s cur HI; simpl; [eauto|].
  destruct (apply_inv scheme s cur e HI) as [HI' _]. eapply IH. exact HI'.
Qed.

Lemma nodup_snoc {A} (l : list A) x : NoDup l -> ~ In x l -> NoDup (l ++ [x]).
Proof.
  induction 1 as [|y r Hy Hr IH]; simpl; intros Hx.
  - constructor; [simpl; tauto|constructor].
  - constructor.
    + rewrite in_app_iff. simpl. intros [H|[H|[]]]; [contradiction|subst; apply Hx; left; reflexivity].
    + apply IH. intros H. apply Hx. right; exact H.
Qed.

Lemma handed_fresh scheme evs : forall s, (Forall (fun i => i < next s) (handed s)) -> NoDup (handed s) ->
  NoDup (handed (final scheme s evs)).
Proof.
  induction evs as [|e r IH]; intros s Hlt Hnd; simpl; [exact Hnd|].
  apply IH.
  - destruct e as [ok rs| |k m]; simpl.
    + destruct ok; simpl; [eapply Forall_impl; [|exact Hlt]; simpl; intros; lia|exact Hlt].
    + apply Forall_app. split; [eapply Forall_impl; [|exact Hlt]; simpl; intros; lia|constructor; [lia|constructor]].
    + destruct (nth_error (handed s) k); simpl; exact Hlt.
  - destruct e as [ok rs| |k m]; simpl.
    + destruct ok; exact Hnd.
    + apply nodup_snoc; [exact Hnd|]. intros Hin. rewrite Forall_forall in Hlt. specialize (Hlt _ Hin). lia.
    + destruct (nth_error (handed s) k); simpl; exact Hnd.
Qed.

(* the model's reads satisfy the property along every history of well-formed answers *)
Definition wf_ev (e : event) : Prop := match e with ELookup true rs => wf_rs rs | _ => True end.
Definition wf_cur (c : option (list srv)) : Prop := match c with Some rs => wf_rs rs | None => True end.

Lemma spec_reads_meets scheme evs : Forall wf_ev evs -> forall c, wf_cur c ->
  SpecHist scheme c evs (spec_reads scheme (val scheme c) evs).
Proof.
  induction 1 as [|e r He Hr IH]; intros c Hc; simpl; [reflexivity|].
  destruct e as [ok rs| |k m]; [destruct ok| |]; simpl.
  - apply (IH (Some rs)). exact He.
  - apply IH; exact Hc.
  - split; [|apply IH; exact Hc].
    destruct c as [rs|]; simpl; [apply resolve_meets_spec; exact Hc|reflexivity].
  - apply IH; exact Hc.
Qed.

Lemma hist_meets_spec scheme evs : Forall wf_ev evs ->
  SpecHist (eff_scheme scheme) None evs (reads scheme evs).
Proof. intros H. rewrite reads_spec. apply (spec_reads_meets (eff_scheme scheme) evs H None I). Qed.
