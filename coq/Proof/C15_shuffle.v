(* C15 - proofs, part 7: the shuffle of lists longer than 100 (sd.NewRandomFixedSubscriber)
   keeps every host, given that rand.Perm returns a permutation of 0..n-1; and the model of
   compact meets the boolean oracle applied to the CCompact observations. *)
Require Import Verif.Common.Base Verif.Model.C15 Verif.Spec.C15 Verif.Proof.C15.
From Coq Require Import Permutation.
Open Scope nat_scope.

Lemma map_nth_seq (l : list string) d : map (fun i => nth i l d) (seq 0 (List.length l)) = l.
Proof.
  induction l as [|x r IH]; simpl; [reflexivity|].
  f_equal. rewrite <- seq_shift, map_map. exact IH.
Qed.

Lemma shuffle_perm perm hosts : is_perm_of (List.length hosts) perm ->
  Permutation (shuffle_with perm hosts) hosts.
Proof.
  intros H. unfold shuffle_with.
  etransitivity; [apply Permutation_map; exact H|]. rewrite map_nth_seq. reflexivity.
Qed.

(* what update stores is a rearrangement of what resolve computed: no host is lost or added *)
Lemma update_store_perm scheme rs perm :
  is_perm_of (List.length (resolve scheme rs)) perm ->
  Permutation (update_store scheme rs perm) (resolve scheme rs).
Proof.
  intros H. unfold update_store. destruct (100 <? List.length (resolve scheme rs)); [|reflexivity].
  apply shuffle_perm. exact H.
Qed.

Lemma update_store_small scheme rs perm :
  List.length (resolve scheme rs) <= 100 -> update_store scheme rs perm = resolve scheme rs.
Proof.
  intros H. unfold update_store. destruct (100 <? List.length (resolve scheme rs)) eqn:E; [|reflexivity].
  apply Nat.ltb_lt in E. lia.
Qed.

(* the hypothesis on rand.Perm is needed: an index list that is not a permutation loses hosts *)
Lemma shuffle_needs_perm : exists perm hosts,
  List.length perm = List.length hosts /\ ~ Permutation (shuffle_with perm hosts) hosts.
Proof.
  exists [0; 0], ["a"; "b"]. split; [reflexivity|]. unfold shuffle_with. simpl. intros H.
  assert (In "b" ["a"; "a"]) by (apply (Permutation_in _ (Permutation_sym H)); right; left; reflexivity).
  simpl in H0. destruct H0 as [H0|[H0|[]]]; discriminate.
Qed.

(* ---- compact: the model meets the boolean oracle ---- *)
Open Scope Z_scope.

Lemma sum_scaled_z (q : Z -> Z) d ws : (forall w, In w ws -> q w / d * d = q w) ->
  sumZ (map q ws) = d * sumZ (map (fun w => q w / d) ws).
Proof.
  induction ws as [|w r IH]; simpl; intros H; [lia|].
  rewrite IH by (intros x Hx; apply H; right; exact Hx).
  pose proof (H w (or_introl eq_refl)). lia.
Qed.

Lemma sum_zero_all_z (t : Z -> Z) ws : (forall w, In w ws -> 0 <= t w) -> sumZ (map t ws) = 0 ->
  forall w, In w ws -> t w = 0.
Proof.
  induction ws as [|a r IH]; simpl; intros Hpos Hs b Hb; [contradiction|].
  assert (0 <= t a) by (apply Hpos; left; reflexivity).
  assert (0 <= sumZ (map t r)).
  { clear -Hpos. induction r as [|c r IH]; simpl; [lia|].
    assert (0 <= t c) by (apply Hpos; right; left; reflexivity).
    assert (0 <= sumZ (map t r)) by (apply IH; intros x [Hx|Hx]; apply Hpos; [left|right; right]; assumption).
    lia. }
  destruct Hb as [<-|Hb]; [lia|]. apply IH; try assumption; [intros x Hx; apply Hpos; right; exact Hx|lia].
Qed.

Lemma forall2b_map (q t : Z -> Z) d ws : (forall w, In w ws -> t w * d = q w) ->
  forall2b (fun w x => x * d =? q w) ws (map t ws) = true.
Proof.
  induction ws as [|w r IH]; simpl; intros H; [reflexivity|].
  rewrite (proj2 (Z.eqb_eq _ _) (H w (or_introl eq_refl))). simpl.
  apply IH. intros x Hx. apply H. right; exact Hx.
Qed.

Lemma compact_model_meets_oracle ws : wf_ws ws -> spec_compact_b ws (compact ws) = true.
Proof.
  intros Hwf. destruct (compact_spec ws Hwf) as [d0 [Hd0 [Hc Hdiv]]].
  assert (Hq0 : forall w, In w ws -> 0 <= quota ws w) by (intros w Hw; apply (quota_range ws w Hwf Hw)).
  assert (Ht0 : forall w, In w ws -> 0 <= quota ws w / d0) by (intros w Hw; apply Z.div_pos; [apply Hq0; exact Hw|exact Hd0]).
  pose proof (sum_scaled_z (quota ws) d0 ws Hdiv) as Hsum.
  pose proof (sum_div_le (quota ws) d0 ws Hd0 Hq0) as Hle.
  pose proof (sum_quota_le ws Hwf) as Hb. rewrite scale_eq in Hb.
  unfold spec_compact_b. cbv zeta.
  change (map (quota_with (Z.max 100 (Z.of_nat (List.length ws))) (sumZ ws)) ws) with (map (quota ws) ws).
  change (quota_with (Z.max 100 (Z.of_nat (List.length ws))) (sumZ ws)) with (quota ws).
  rewrite Hc. unfold divisor_for. rewrite Hsum.
  destruct (sumZ (map (fun w => quota ws w / d0) ws) =? 0) eqn:En.
  - apply Z.eqb_eq in En.
    assert (Hz : forall w, In w ws -> quota ws w / d0 = 0) by (apply (sum_zero_all_z (fun w => quota ws w / d0)); assumption).
    rewrite !andb_true_iff. repeat split.
    + apply (forall2b_map (quota ws) (fun w => quota ws w / d0) 1 ws).
      intros w Hw. rewrite <- (Hdiv w Hw), (Hz w Hw). reflexivity.
    + apply Z.leb_le. lia.
  - apply Z.eqb_neq in En. rewrite Z.div_mul by exact En.
    rewrite !andb_true_iff. repeat split.
    + apply Z.ltb_lt. exact Hd0.
    + apply (forall2b_map (quota ws) (fun w => quota ws w / d0) d0 ws). exact Hdiv.
    + apply Z.leb_le. lia.
Qed.

(* the boolean check applied to every observed rand.Perm result is sound *)
Lemma is_perm_b_sound n perm : is_perm_b n perm = true -> is_perm_of n perm.
Proof.
  unfold is_perm_b, is_perm_of. rewrite andb_true_iff. intros [Hl Hall].
  apply Nat.eqb_eq in Hl. apply Permutation_sym.
  apply NoDup_Permutation_bis.
  - apply seq_NoDup.
  - rewrite seq_length. lia.
  - intros i Hi. rewrite forallb_forall in Hall. specialize (Hall i Hi).
    apply existsb_exists in Hall. destruct Hall as [j [Hj E]]. apply Nat.eqb_eq in E. subst. exact Hj.
Qed.
