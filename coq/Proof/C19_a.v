(* C19 - proofs, part a: the monitor reflects the Prop; every run of the model is safe, every
   complete run graceful (induction over the schedule); soundness of the inclusion check. *)
Require Import Verif.Common.Base.
Require Import Verif.Model.C19 Verif.Spec.C19.

(* ------------------------------------------------------------------ basics *)
Lemma event_eqb_eq a b : event_eqb a b = true <-> a = b.
Proof.
  split.
  - destruct a, b; simpl; intros H; try discriminate; try reflexivity;
      try (apply Nat.eqb_eq in H; subst; reflexivity);
      try (apply Bool.eqb_prop in H; subst; reflexivity);
      try (repeat match goal with v : rv |- _ => destruct v end; try discriminate; reflexivity).
    apply andb_true_iff in H. destruct H as [H1 H2].
    apply Nat.eqb_eq in H1. apply Bool.eqb_prop in H2. subst. reflexivity.
  - intros <-. destruct a; simpl; auto using Nat.eqb_refl, Bool.eqb_reflx.
    + rewrite Nat.eqb_refl, Bool.eqb_reflx. reflexivity.
    + destruct v; reflexivity.
Qed.

Lemma event_eqb_refl a : event_eqb a a = true.
Proof. apply event_eqb_eq. reflexivity. Qed.

Lemma mem_ev_In a t : mem_ev a t = true <-> In a t.
Proof.
  induction t as [|x r IH]; simpl; [split; [discriminate|tauto]|].
  rewrite orb_true_iff, IH, event_eqb_eq. tauto.
Qed.

Lemma mem_ev_false a t : mem_ev a t = false <-> ~ In a t.
Proof.
  rewrite <- mem_ev_In. destruct (mem_ev a t); split; intros H; try congruence;
    try (exfalso; apply H; reflexivity).
Qed.

Lemma before_b_spec a b t : before_b a b t = true <-> before a b t.
Proof.
  induction t as [|x r IH]; simpl; [split; [discriminate|tauto]|].
  rewrite orb_true_iff, andb_true_iff, IH, event_eqb_eq, mem_ev_In. tauto.
Qed.

Lemma before_In_l a b t : before a b t -> In a t.
Proof. induction t as [|x r IH]; simpl; [tauto|]. intros [[H _]|H]; auto. Qed.
Lemma before_In_r a b t : before a b t -> In b t.
Proof. induction t as [|x r IH]; simpl; [tauto|]. intros [[_ H]|H]; auto. Qed.

Lemma before_snoc a b t e : before a b (t ++ [e]) <-> before a b t \/ (In a t /\ e = b).
Proof.
  induction t as [|x r IH]; simpl.
  - split; [intros [[_ []]|[]]|intros [[]|[[] _]]].
  - rewrite IH, in_app_iff. simpl. tauto.
Qed.

Lemma before_filter p a b t :
  p a = true -> p b = true -> (before a b (filter p t) <-> before a b t).
Proof.
  intros Ha Hb. induction t as [|x r IH]; simpl; [tauto|].
  destruct (p x) eqn:E; simpl.
  - rewrite IH, filter_In. intuition.
  - rewrite IH. split; [auto|]. intros [[H _]|H]; [subst; congruence|exact H].
Qed.

Lemma in_filter_obs p (a : event) t : p a = true -> (In a (filter p t) <-> In a t).
Proof. intros H. rewrite filter_In. tauto. Qed.

(* ------------------------------------------------------------------ the monitor *)
Lemma g1_b_spec t : g1_b t = true <-> G1 t.
Proof.
  unfold g1_b, G1. rewrite forallb_forall. split.
  - intros H r v Hb Hin. specialize (H (Accept r) (before_In_l _ _ _ Hb)). simpl in H.
    apply before_b_spec in Hb. rewrite Hb in H. simpl in H.
    rewrite forallb_forall in H. specialize (H _ Hin). simpl in H. apply before_b_spec. exact H.
  - intros H e He. destruct e; auto.
    destruct (before_b (Accept r) Cancel t) eqn:E; simpl; auto.
    apply forallb_forall. intros e' He'. destruct e'; auto.
    apply before_b_spec. apply H; [apply before_b_spec; exact E|exact He'].
Qed.

Lemma g2_b_spec t : g2_b t = true <-> G2 t.
Proof.
  unfold g2_b, G2. rewrite forallb_forall. split.
  - intros H r Hb. specialize (H (Accept r) (before_In_l _ _ _ Hb)). simpl in H.
    apply before_b_spec in Hb. rewrite Hb in H. simpl in H.
    apply andb_true_iff in H. destruct H as [H1 H2].
    apply mem_ev_In in H1. apply negb_true_iff in H2. apply mem_ev_false in H2. auto.
  - intros H e He. destruct e; auto.
    destruct (before_b (Accept r) Cancel t) eqn:E; simpl; auto.
    apply before_b_spec in E. destruct (H r E) as [H1 H2].
    apply andb_true_iff. split; [apply mem_ev_In; exact H1|].
    apply negb_true_iff. apply mem_ev_false. exact H2.
Qed.

Lemma g3_b_spec t : g3_b t = true <-> G3 t.
Proof.
  unfold g3_b, G3. rewrite forallb_forall. split.
  - intros H v r Hb.
    specialize (H (RunnerReturn v) (before_In_l _ _ _ Hb)). simpl in H.
    rewrite forallb_forall in H. specialize (H (Accept r) (before_In_r _ _ _ Hb)). simpl in H.
    apply negb_true_iff in H. apply before_b_spec in Hb. congruence.
  - intros H e He. destruct e; auto. apply forallb_forall. intros e' He'. destruct e'; auto.
    apply negb_true_iff. destruct (before_b (RunnerReturn v) (Accept r) t) eqn:E; auto.
    apply before_b_spec in E. exfalso. exact (H _ _ E).
Qed.

Lemma g4_b_spec t : g4_b t = true <-> G4 t.
Proof.
  unfold g4_b, G4. rewrite !orb_true_iff, negb_true_iff, mem_ev_false, !mem_ev_In. split.
  - intros [[H|H]|H] H1 H2; tauto.
  - intros H. destruct (mem_ev ListenFail t) eqn:E1.
    + destruct (mem_ev Cancel t) eqn:E2.
      * left. right. apply mem_ev_In. exact E2.
      * right. apply H; [apply mem_ev_In; exact E1|apply mem_ev_false; exact E2].
    + left. left. apply mem_ev_false. exact E1.
Qed.

Lemma g5_b_spec t : g5_b t = true <-> G5 t.
Proof. unfold g5_b, G5. rewrite negb_true_iff. apply mem_ev_false. Qed.

Lemma graceful_b_spec t : graceful_b t = true <-> graceful t.
Proof.
  unfold graceful_b, graceful.
  rewrite !andb_true_iff, g1_b_spec, g2_b_spec, g3_b_spec, g4_b_spec, g5_b_spec. tauto.
Qed.

(* graceful implies safe; both only speak of observable events *)
Lemma rv_dec (v : rv) : v = VListenErr \/ v <> VListenErr.
Proof. destruct v; [right|left|right]; congruence. Qed.

Ltac flt H :=
  repeat first [ rewrite (before_filter observable) in H by reflexivity
               | rewrite (in_filter_obs observable) in H by reflexivity ].

Lemma G1_filter t : G1 (filter observable t) <-> G1 t.
Proof. unfold G1; split; intros H r v; specialize (H r v); flt H; auto.
       repeat first [ rewrite (before_filter observable) by reflexivity
                    | rewrite (in_filter_obs observable) by reflexivity ]. exact H. Qed.
Lemma G2_filter t : G2 (filter observable t) <-> G2 t.
Proof. unfold G2; split; intros H r; specialize (H r); flt H; auto.
       repeat first [ rewrite (before_filter observable) by reflexivity
                    | rewrite (in_filter_obs observable) by reflexivity ]. exact H. Qed.
Lemma G2safe_filter t : G2safe (filter observable t) <-> G2safe t.
Proof. unfold G2safe; split; intros H r; specialize (H r); flt H; auto.
       repeat first [ rewrite (before_filter observable) by reflexivity
                    | rewrite (in_filter_obs observable) by reflexivity ]. exact H. Qed.
Lemma G3_filter t : G3 (filter observable t) <-> G3 t.
Proof. unfold G3; split; intros H v r; specialize (H v r); flt H; auto.
       repeat first [ rewrite (before_filter observable) by reflexivity
                    | rewrite (in_filter_obs observable) by reflexivity ]. exact H. Qed.
Lemma G4_filter t : G4 (filter observable t) <-> G4 t.
Proof. unfold G4; split; intros H; flt H; auto.
       repeat first [ rewrite (before_filter observable) by reflexivity
                    | rewrite (in_filter_obs observable) by reflexivity ]. exact H. Qed.
Lemma G4safe_filter t : G4safe (filter observable t) <-> G4safe t.
Proof. unfold G4safe; split; intros H H1 H2 v; [specialize (fun a b => H a b v)|flt H1; flt H2; specialize (H H1 H2 v)]; flt H; auto.
       repeat first [ rewrite (before_filter observable) by reflexivity
                    | rewrite (in_filter_obs observable) by reflexivity ]. exact H. Qed.
Lemma G5_filter t : G5 (filter observable t) <-> G5 t.
Proof. unfold G5. rewrite (in_filter_obs observable) by reflexivity. tauto. Qed.

Lemma graceful_filter t : graceful (filter observable t) <-> graceful t.
Proof. unfold graceful. rewrite G1_filter, G2_filter, G3_filter, G4_filter, G5_filter. tauto. Qed.

Lemma safe_filter t : safe (filter observable t) <-> safe t.
Proof. unfold safe. rewrite G1_filter, G2safe_filter, G3_filter, G4safe_filter, G5_filter. tauto. Qed.

(* ------------------------------------------------------------------ the model *)
Lemma getq_in_keys r m q : getq r m = Some q -> In r (map fst m).
Proof.
  induction m as [|[k q'] t IH]; simpl; [discriminate|].
  destruct (Nat.eqb r k) eqn:E; [apply Nat.eqb_eq in E; auto|auto].
Qed.

Lemma quiet_spec m : quiet m = true -> forall r, busy (getq r m) = false.
Proof.
  unfold quiet. rewrite forallb_forall. intros H r.
  destruct (getq r m) eqn:E; [|reflexivity].
  specialize (H r (getq_in_keys _ _ _ E)). rewrite E in H. apply negb_true_iff in H. exact H.
Qed.

Definition started (o : option qst) : Prop := o = Some QRun \/ o = Some QDone.

Lemma final_b_final s : final_b s = true -> final s.
Proof.
  unfold final_b, final. rewrite andb_true_iff, forallb_forall. intros [H1 H2]. split.
  - destruct (runner s); try discriminate. reflexivity.
  - intros r E. specialize (H2 r (getq_in_keys _ _ _ E)). rewrite E in H2. exact H2.
Qed.

Record Inv (s : st) (t : list event) : Prop := {
  iA : (lis s = LInit \/ lis s = LFailed) -> forall r q, getq r (reqs s) = Some q -> q = QGone;
  iB : runner s <> RSelect -> lis s <> LOpen;
  iC : (runner s = RReturned \/ exists e, runner s = RShutRet e) -> forall r, busy (getq r (reqs s)) = false;
  iD : (runner s = RShutdown \/ exists e, runner s = RShutRet e) -> canc s = true;
  t1 : forall r, In (Accept r) t -> started (getq r (reqs s));
  t2 : forall r, getq r (reqs s) = Some QDone -> In (HandlerDone r) t;
  t3 : In Cancel t <-> canc s = true;
  t4 : (exists v, In (RunnerReturn v) t) <-> runner s = RReturned;
  t5 : forall v, In (RunnerReturn v) t -> v <> VListenErr -> In Cancel t;
  t6 : In (RunnerReturn VListenErr) t -> lis s = LFailed;
  t7 : forall r, In (ClientGot r false) t -> getq r (reqs s) = Some QGone;
  t8 : forall r, memn r (resp s) = true -> In (ClientGot r true) t \/ In (ClientGot r false) t;
  t9 : ~ In StillAccepting t;
  g1 : G1 t;
  g3 : G3 t
}.

Lemma Inv_init : Inv init [].
Proof.
  constructor; simpl.
  - intros _ r q H; discriminate.
  - intros H; exfalso; apply H; reflexivity.
  - intros [H|[e H]]; discriminate.
  - intros [H|[e H]]; discriminate.
  - intros r [].
  - intros r H; discriminate.
  - split; [tauto|discriminate].
  - split; [intros [v []]|discriminate].
  - intros v [].
  - intros [].
  - intros r [].
  - intros r H; discriminate.
  - tauto.
  - intros r v H; destruct H.
  - intros v r H; exact H.
Qed.

Ltac inv_step H :=
  unfold step in H;
  repeat match type of H with
         | context [match ?x with _ => _ end] => destruct x eqn:?
         | context [if ?x then _ else _] => destruct x eqn:?
         end; try discriminate;
  match type of H with Some _ = Some _ => inversion H; subst; clear H end.

Ltac snoc := repeat (rewrite in_app_iff in *; simpl in *).

Lemma nat_eqb_cases r k : (Nat.eqb r k = true /\ r = k) \/ (Nat.eqb r k = false /\ r <> k).
Proof. destruct (Nat.eqb r k) eqn:E; [left; split; auto; apply Nat.eqb_eq; exact E|right; split; auto; apply Nat.eqb_neq; exact E]. Qed.

