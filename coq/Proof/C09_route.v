(* C09 - proofs, part 3: the route text Init hands to the router, and declarative readings of
   the regexp scanners. *)
Require Import Verif.Common.Base Verif.Model.C09 Verif.Spec.C09 Verif.Proof.C09 Verif.Proof.C09_text.
From Coq Require Import Permutation.

Local Open Scope string_scope.

(* ---- route text ---- *)
Lemma split_q_none s : has_char qmark s = false -> split_q s = (s, "").
Proof.
  induction s as [|c r IH]; [reflexivity|]. rewrite has_char_cons. intros H.
  apply orb_false_iff in H. destruct H as [Hc Hr]. cbn [split_q].
  rewrite Ascii.eqb_sym, Hc, (IH Hr). reflexivity.
Qed.

Definition subc (o : string) (t : tk) : tk :=
  match t with P n => if str_eqb n o then L (String colon_c o) else t | _ => t end.

Lemma rtks1_subc o ts : rtks1 o (String colon_c o) ts = rtks (map (subc o) ts).
Proof.
  induction ts as [|t r IH]; [reflexivity|].
  destruct t as [s|n|k]; cbn [rtks1 r1 map subc rtks rtk]; try (rewrite IH; reflexivity).
  destruct (str_eqb n o); cbn [rtk]; rewrite IH; reflexivity.
Qed.

(* tokens of an endpoint under rewriting: literals without '?', braces; placeholders over names *)
Definition rt_ok (t : tk) : bool :=
  match t with
  | L s => brace_free s && negb (has_char qmark s)
  | P n => grammar_b n
  | T _ => false
  end.

Lemma rt_ok_tk_ok ts : forallb rt_ok ts = true -> forallb tk_ok ts = true.
Proof.
  induction ts as [|t r IH]; [reflexivity|]. cbn [forallb]. intros H.
  apply andb_true_iff in H. destruct H as [Ht Hr]. rewrite (IH Hr), andb_true_r.
  destruct t as [s|n|k]; cbn [rt_ok tk_ok] in *; [apply andb_true_iff in Ht; tauto| |discriminate].
  unfold grammar_b in Ht. destruct n; [discriminate|]. exact (all_chars_impl name_char out_char _ name_char_out Ht).
Qed.

Lemma rt_ok_noq ts : forallb rt_ok ts = true -> has_char qmark (rtks ts) = false.
Proof.
  induction ts as [|t r IH]; [reflexivity|]. cbn [forallb rtks]. intros H.
  apply andb_true_iff in H. destruct H as [Ht Hr]. rewrite has_char_app, (IH Hr), orb_false_r.
  destruct t as [s|n|k]; cbn [rt_ok rtk] in *.
  - apply andb_true_iff in Ht. destruct Ht as [_ Ht]. apply negb_true_iff in Ht. exact Ht.
  - unfold grammar_b in Ht. destruct n as [|c n]; [discriminate|].
    unfold placeholder, lb, rb. rewrite !has_char_app.
    rewrite (all_chars_no_char name_char qmark _ eq_refl Ht). reflexivity.
  - discriminate.
Qed.

Lemma subc_ok o ts : grammar_b o = true -> forallb rt_ok ts = true -> forallb rt_ok (map (subc o) ts) = true.
Proof.
  intros Ho. induction ts as [|t r IH]; [reflexivity|]. cbn [forallb map]. intros H.
  apply andb_true_iff in H. destruct H as [Ht Hr]. rewrite (IH Hr), andb_true_r.
  destruct t as [s|n|k]; cbn [subc]; try exact Ht.
  destruct (str_eqb n o); [|exact Ht]. cbn [rt_ok].
  unfold grammar_b in Ho. destruct o as [|c o']; [discriminate|].
  unfold brace_free.
  rewrite (has_char_cons lbrace colon_c), (has_char_cons rbrace colon_c), (has_char_cons qmark colon_c).
  rewrite (all_chars_no_char name_char lbrace _ eq_refl Ho), (all_chars_no_char name_char rbrace _ eq_refl Ho),
          (all_chars_no_char name_char qmark _ eq_refl Ho). reflexivity.
Qed.

Lemma colon_step_tokens o ts : grammar_b o = true -> forallb rt_ok ts = true ->
  colon_step (rtks ts) o = rtks (map (subc o) ts).
Proof.
  intros Ho Hts. unfold colon_step. rewrite (split_q_none _ (rt_ok_noq ts Hts)).
  destruct (grammar_parts o Ho) as [Hne Hnc].
  rewrite stage1 by (try assumption; apply rt_ok_tk_ok, Hts).
  rewrite rtks1_subc, app_nil_r_s. reflexivity.
Qed.

Lemma colon_fold_tokens outs : forall ts,
  (forall o, In o outs -> grammar_b o = true) -> forallb rt_ok ts = true ->
  fold_left colon_step outs (rtks ts) = rtks (map (fun t => fold_left (fun t o => subc o t) outs t) ts).
Proof.
  induction outs as [|o r IH]; intros ts Hall Hts.
  - cbn [fold_left]. rewrite map_id. reflexivity.
  - cbn [fold_left]. rewrite colon_step_tokens by (try assumption; apply Hall; left; reflexivity).
    rewrite IH; [rewrite map_map; reflexivity|intros o' Ho'; apply Hall; right; exact Ho'|].
    apply subc_ok; [apply Hall; left; reflexivity|exact Hts].
Qed.

Lemma foldc_L outs s : fold_left (fun t o => subc o t) outs (L s) = L s.
Proof. induction outs; [reflexivity|exact IHouts]. Qed.
Lemma foldc_P outs n : fold_left (fun t o => subc o t) outs (P n) =
  if str_mem n outs then L (String colon_c n) else P n.
Proof.
  induction outs as [|o r IH]; [reflexivity|]. cbn [fold_left str_mem subc].
  destruct (str_eqb n o) eqn:E.
  - apply str_eqb_eq in E. subst o. rewrite foldc_L. reflexivity.
  - rewrite IH. reflexivity.
Qed.

(* an endpoint as tokens: "/" then the segment *)
Fixpoint ep_tks (segs : list tok) : list tk :=
  match segs with [] => [] | t :: r => L (String slash "") :: inj t :: ep_tks r end.

Lemma rtks_ep_tks segs : rtks (ep_tks segs) = render_ep segs.
Proof.
  induction segs as [|t r IH]; [reflexivity|]. cbn [ep_tks rtks]. rewrite IH, render_ep_cons.
  destruct t; reflexivity.
Qed.

Lemma ep_tks_ok segs : forallb seg_ok segs = true -> forallb rt_ok (ep_tks segs) = true.
Proof.
  induction segs as [|t r IH]; [reflexivity|]. cbn [forallb ep_tks]. intros H.
  apply andb_true_iff in H. destruct H as [Ht Hr]. rewrite (IH Hr), andb_true_r.
  change (rt_ok (L (String slash ""))) with true. cbn [andb].
  destruct t as [s|n]; cbn [inj rt_ok seg_ok] in *; [|exact Ht].
  destruct s as [|c s']; [discriminate|].
  unfold brace_free.
  rewrite (all_chars_no_char unreserved_char lbrace _ eq_refl Ht), (all_chars_no_char unreserved_char rbrace _ eq_refl Ht),
          (all_chars_no_char unreserved_char qmark _ eq_refl Ht). reflexivity.
Qed.

Lemma route_text_colon segs : forallb seg_ok segs = true ->
  init_route true (render_ep segs) = clean_path (render_route true segs).
Proof.
  intros Hsegs. unfold init_route, route_pattern. rewrite (ep_clean segs Hsegs).
  destruct segs as [|t0 r0]; [reflexivity|].
  assert (Hc : forall s, clean_path (String slash s) = String slash s)
    by (intros s; rewrite clean_path_eq; cbn [starts_slash]; rewrite Ascii.eqb_refl; reflexivity).
  assert (Hcp : clean_path (render_ep (t0 :: r0)) = render_ep (t0 :: r0)) by (rewrite render_ep_cons; apply Hc).
  assert (Hcr : clean_path (render_route true (t0 :: r0)) = render_route true (t0 :: r0))
    by (destruct t0; cbn [render_route]; apply Hc).
  rewrite Hcp, Hcr. set (segs := t0 :: r0) in *.
  rewrite <- rtks_ep_tks. rewrite colon_fold_tokens; [|intros o Ho|apply ep_tks_ok, Hsegs].
  - assert (Hgen : forall pre, (forall n, In n (ph_names pre) -> str_mem n (ph_names segs) = true) ->
        rtks (map (fun t => fold_left (fun t o => subc o t) (ph_names segs) t) (ep_tks pre)) = render_route true pre).
    { induction pre as [|t r IH]; intros Hin; [reflexivity|].
      cbn [ep_tks map rtks]. rewrite foldc_L. cbn [rtk].
      destruct t as [s|n]; cbn [inj render_route ph_names] in *.
      - rewrite foldc_L. cbn [rtk]. rewrite IH by exact Hin. reflexivity.
      - rewrite foldc_P, (Hin n (or_introl eq_refl)). cbn [rtk].
        rewrite IH by (intros m Hm; apply Hin; right; exact Hm). reflexivity. }
    apply Hgen. intros n Hn. apply str_mem_In. exact Hn.
  - clear - Hsegs Ho. induction segs as [|t r IH]; [destruct Ho|].
    cbn [forallb] in Hsegs. apply andb_true_iff in Hsegs. destruct Hsegs as [Ht Hr].
    destruct t as [s|m]; cbn [ph_names] in Ho; [apply IH; assumption|].
    destruct Ho as [<-|Ho]; [exact Ht|apply IH; assumption].
Qed.

Lemma route_text_brackets segs :
  init_route false (render_ep segs) = clean_path (render_route false segs).
Proof.
  unfold init_route, route_pattern. f_equal.
  induction segs as [|t r IH]; [reflexivity|]. rewrite render_ep_cons. destruct t; cbn [render_route render_tok]; rewrite IH; reflexivity.
Qed.

Lemma route_text a segs : forallb seg_ok segs = true ->
  init_route (colon_mode a) (render_ep segs) = clean_path (render_route (colon_mode a) segs).
Proof. intros H. destruct (colon_mode a); [apply route_text_colon, H|apply route_text_brackets]. Qed.

(* ---- the hand-written scanners against a declarative reading of the patterns ---- *)
Lemma span_spec p s n t : span p s = (n, t) ->
  s = n ++ t /\ all_chars p n = true.
Proof.
  revert n t. induction s as [|c r IH]; intros n t H; cbn [span] in H.
  - inversion H; subst. split; reflexivity.
  - destruct (p c) eqn:E.
    + destruct (span p r) as [a b] eqn:Es. inversion H; subst.
      destruct (IH a t eq_refl) as [H1 H2]. split; [cbn; rewrite <- H1; reflexivity|cbn; rewrite E, H2; reflexivity].
    + inversion H; subst. split; reflexivity.
Qed.

Lemma brace_at_spec p s n : p rbrace = false ->
  (brace_at p s = Some n <->
   n <> "" /\ all_chars p n = true /\ exists post, s = placeholder n ++ post).
Proof.
  intros Hr. split.
  - destruct s as [|c r]; [discriminate|]. unfold brace_at.
    destruct (Ascii.eqb c lbrace) eqn:Ec; [|discriminate]. apply Ascii.eqb_eq in Ec. subst c.
    destruct (span p r) as [m t] eqn:Es. destruct (span_spec p r m t Es) as [Hrt Hm].
    destruct m as [|m0 m']; [discriminate|]. destruct t as [|d t']; [discriminate|].
    destruct (Ascii.eqb d rbrace) eqn:Ed; [|discriminate]. apply Ascii.eqb_eq in Ed. subst d.
    intros H. inversion H; subst n. split; [discriminate|]. split; [exact Hm|].
    exists t'. rewrite placeholder_app, <- Hrt. reflexivity.
  - intros [Hne [Hn [post ->]]]. apply brace_at_placeholder; assumption.
Qed.

Lemma backend_outputs_suffix n s :
  In n (backend_outputs s) <-> exists pre suf, s = pre ++ suf /\ brace_at out_char suf = Some n.
Proof.
  induction s as [|c r IH].
  - split; [intros []|]. intros [pre [suf [H Hb]]]. destruct pre, suf; try discriminate.
  - rewrite backend_outputs_cons, in_app_iff, IH. split.
    + intros [H|[pre [suf [-> Hb]]]].
      * exists "", (String c r). split; [reflexivity|].
        destruct (brace_at out_char (String c r)); [destruct H as [<-|[]]; reflexivity|destruct H].
      * exists (String c pre), suf. split; [reflexivity|exact Hb].
    + intros [pre [suf [H Hb]]]. destruct pre as [|c' pre'].
      * left. cbn [append] in H. rewrite H, Hb. left. reflexivity.
      * right. cbn [append] in H. inversion H; subst. exists pre', suf. split; [reflexivity|exact Hb].
Qed.

Lemma backend_outputs_spec n s :
  In n (backend_outputs s) <-> occurs_placeholder out_char n s.
Proof.
  rewrite backend_outputs_suffix. unfold occurs_placeholder. split.
  - intros [pre [suf [-> Hb]]]. apply (brace_at_spec out_char suf n eq_refl) in Hb.
    destruct Hb as [H1 [H2 [post ->]]]. split; [exact H1|]. split; [exact H2|]. exists pre, post. reflexivity.
  - intros [H1 [H2 [pre [post ->]]]]. exists pre, (placeholder n ++ post). split; [reflexivity|].
    apply (brace_at_spec out_char _ n eq_refl). split; [exact H1|]. split; [exact H2|]. exists post. reflexivity.
Qed.

Lemma endpoint_params_suffix n s :
  In n (endpoint_params s) <-> exists pre suf, s = pre ++ String slash suf /\ brace_at name_char suf = Some n.
Proof.
  induction s as [|c r IH].
  - split; [intros []|]. intros [pre [suf [H Hb]]]. destruct pre; discriminate.
  - rewrite endpoint_params_cons, in_app_iff, IH. split.
    + intros [H|[pre [suf [-> Hb]]]].
      * destruct (Ascii.eqb c slash) eqn:Ec; [|destruct H]. apply Ascii.eqb_eq in Ec. subst c.
        exists "", r. split; [reflexivity|].
        destruct (brace_at name_char r); [destruct H as [<-|[]]; reflexivity|destruct H].
      * exists (String c pre), suf. split; [reflexivity|exact Hb].
    + intros [pre [suf [H Hb]]]. destruct pre as [|c' pre'].
      * left. cbn [append] in H. inversion H; subst. rewrite Ascii.eqb_refl, Hb. left. reflexivity.
      * right. cbn [append] in H. inversion H; subst. exists pre', suf. split; [reflexivity|exact Hb].
Qed.

Lemma endpoint_params_spec n s : In n (endpoint_params s) <-> occurs_param n s.
Proof.
  rewrite endpoint_params_suffix. unfold occurs_param. split.
  - intros [pre [suf [-> Hb]]]. apply (brace_at_spec name_char suf n eq_refl) in Hb.
    destruct Hb as [H1 [H2 [post ->]]]. split; [exact H1|]. split; [exact H2|]. exists pre, post. reflexivity.
  - intros [H1 [H2 [pre [post ->]]]]. exists pre, (placeholder n ++ post). split; [reflexivity|].
    apply (brace_at_spec name_char _ n eq_refl). split; [exact H1|]. split; [exact H2|]. exists post. reflexivity.
Qed.

Lemma rejects_undeclared_declarative ep be n :
  occurs_placeholder out_char n (clean_path be) -> seq_ref n = false ->
  ~ occurs_param n (clean_path ep) ->
  exists why, init ep be = Rejected why.
Proof.
  intros Ho Hs Hd. apply (rejects_undeclared ep be n); [apply backend_outputs_spec, Ho|exact Hs|].
  intros Hin. apply Hd, endpoint_params_spec, Hin.
Qed.

Lemma prefix_iff p s : prefix p s = true <-> exists t, s = p ++ t.
Proof.
  revert s. induction p as [|a p IH]; intros s.
  - split; [intros _; exists s; reflexivity|reflexivity].
  - destruct s as [|b s]; [split; [discriminate|intros [t H]; discriminate]|].
    rewrite prefix_cons, andb_true_iff, IH. split.
    + intros [E [t ->]]. apply Ascii.eqb_eq in E. subst b. exists t. reflexivity.
    + intros [t H]. cbn [append] in H. inversion H; subst. split; [apply Ascii.eqb_refl|eauto].
Qed.

Lemma seq_ref_spec s : seq_ref s = true <-> is_seq_ref s.
Proof.
  unfold is_seq_ref. destruct s as [|c0 r0]; [split; [intros _; left; reflexivity|reflexivity]|].
  set (s := String c0 r0). change (seq_ref s) with
    ((if prefix "resp" s then
        let '(d, t) := span is_digit (rest1 (rest1 (rest1 (rest1 s)))) in
        match d, t with String _ _, String u (String _ _) => is_char 95 u | _, _ => false end
      else false) || (prefix "JWT." s && (4 <? String.length s)%nat)).
  split.
  - intros H. right. apply orb_true_iff in H. destruct H as [H|H].
    + left. destruct (prefix "resp" s) eqn:Ep; [|discriminate].
      apply prefix_iff in Ep. destruct Ep as [t0 Et]. rewrite Et in H. cbn [append rest1] in H.
      destruct (span is_digit t0) as [d t] eqn:Es. destruct (span_spec _ _ _ _ Es) as [Ht0 Hd].
      destruct d as [|d0 d']; [discriminate|]. destruct t as [|u [|x0 x']]; try discriminate.
      unfold is_char in H. apply N.eqb_eq in H.
      assert (u = "_"%char) by (rewrite <- (ascii_N_embedding u); unfold code in H; rewrite H; reflexivity). subst u.
      exists (String d0 d'), (String x0 x'). split; [rewrite Et, Ht0; reflexivity|].
      split; [discriminate|]. split; [exact Hd|discriminate].
    + right. apply andb_true_iff in H. destruct H as [Hp Hl]. apply prefix_iff in Hp. destruct Hp as [x Hx].
      exists x. split; [exact Hx|]. intros ->. rewrite Hx in Hl. discriminate.
  - intros [H|[[d [x [Hs [Hd [Hdd Hx]]]]]|[x [Hs Hx]]]]; [discriminate| |].
    + apply orb_true_iff. left. rewrite Hs.
      replace (prefix "resp" ("resp" ++ d ++ "_" ++ x)) with true by (symmetry; apply prefix_app).
      cbn [append rest1].
      change (d ++ String "_" x) with (d ++ String "_"%char x).
      rewrite (span_app is_digit d "_"%char x Hdd eq_refl).
      destruct d; [congruence|]. destruct x; [congruence|]. reflexivity.
    + apply orb_true_iff. right. rewrite Hs.
      replace (prefix "JWT." ("JWT." ++ x)) with true by (symmetry; apply prefix_app).
      destruct x; [congruence|]. reflexivity.
Qed.

(* ---- the generic router on the route text Init produced ---- *)
Lemma split_slash_cons c r : split_slash (String c r) =
  if Ascii.eqb c slash then "" :: split_slash r
  else match split_slash r with x :: l => String c x :: l | [] => [String c ""] end.
Proof. reflexivity. Qed.

Lemma split_nonempty s : split_slash s <> [].
Proof.
  destruct s as [|c r]; [discriminate|]. rewrite split_slash_cons.
  destruct (Ascii.eqb c slash); [discriminate|]. destruct (split_slash r); discriminate.
Qed.

Lemma split_app_noslash w rest : has_char slash w = false ->
  split_slash (w ++ rest) = match split_slash rest with y :: l => (w ++ y) :: l | [] => [w] end.
Proof.
  induction w as [|c w IH]; intros H.
  - cbn [append]. destruct (split_slash rest) eqn:E; [exfalso; exact (split_nonempty rest E)|reflexivity].
  - rewrite has_char_cons in H. apply orb_false_iff in H. destruct H as [Hc Hw].
    change (String c w ++ rest) with (String c (w ++ rest)). rewrite split_slash_cons.
    rewrite Ascii.eqb_sym, Hc, (IH Hw). destruct (split_slash rest); reflexivity.
Qed.

Fixpoint join_slash (l : list string) : string :=
  match l with [] => "" | x :: r => String slash x ++ join_slash r end.

Lemma split_join l : (forall x, In x l -> has_char slash x = false) ->
  split_slash (join_slash l) = "" :: l.
Proof.
  induction l as [|x r IH]; intros H; [reflexivity|].
  cbn [join_slash]. change (String slash x ++ join_slash r) with (String slash (x ++ join_slash r)).
  rewrite split_slash_cons, Ascii.eqb_refl. f_equal.
  rewrite split_app_noslash by (apply H; left; reflexivity).
  rewrite IH by (intros y Hy; apply H; right; exact Hy). rewrite app_nil_r_s. reflexivity.
Qed.

Definition route_seg_text (colon : bool) (t : tok) : string :=
  match t with Lit s => s | Ph n => if colon then String colon_c n else placeholder n end.
Fixpoint fill (segs : list tok) (vals : list string) : list string :=
  match segs with
  | [] => []
  | Lit s :: r => s :: fill r vals
  | Ph _ :: r => match vals with v :: vs => v :: fill r vs | [] => "" :: fill r [] end
  end.

Lemma render_route_join colon segs : render_route colon segs = join_slash (map (route_seg_text colon) segs).
Proof. induction segs as [|t r IH]; [reflexivity|]. destruct t; cbn [render_route map join_slash route_seg_text]; rewrite IH; reflexivity. Qed.

Lemma request_path_join segs : forall vals, request_path segs vals = join_slash (fill segs vals).
Proof.
  induction segs as [|t r IH]; intros vals; [reflexivity|].
  destruct t; [cbn [request_path fill join_slash]; rewrite IH; reflexivity|].
  destruct vals; cbn [request_path fill join_slash]; rewrite IH; reflexivity.
Qed.

Lemma seg_param_lit colon s : seg_ok (Lit s) = true -> seg_param colon s = None.
Proof.
  cbn [seg_ok]. destruct s as [|c s']; [discriminate|]. intros H. simpl in H.
  apply andb_true_iff in H. destruct H as [Hc _]. unfold seg_param. destruct colon.
  - rewrite (class_neq unreserved_char c colon_c Hc eq_refl). reflexivity.
  - rewrite brace_at_other; [reflexivity|exact (class_neq unreserved_char c lbrace Hc eq_refl)].
Qed.

Lemma seg_param_ph colon n : grammar_b n = true -> seg_param colon (route_seg_text colon (Ph n)) = Some n.
Proof.
  intros Hg. destruct (grammar_parts n Hg) as [Hne Hnc]. unfold seg_param, route_seg_text. destruct colon.
  - rewrite Ascii.eqb_refl. reflexivity.
  - rewrite <- (app_nil_r_s (placeholder n)) at 1.
    rewrite brace_at_placeholder by (try assumption; reflexivity). rewrite str_eqb_refl. reflexivity.
Qed.

Lemma match_tokens colon segs : forall vals,
  forallb seg_ok segs = true -> List.length vals = List.length (ph_names segs) ->
  forallb unreserved_b vals = true ->
  match_segs colon (map (route_seg_text colon) segs) (fill segs vals) = Some (combine (ph_names segs) vals).
Proof.
  induction segs as [|t r IH]; intros vals Hs Hl Hv.
  - destruct vals; [reflexivity|discriminate].
  - cbn [forallb] in Hs. apply andb_true_iff in Hs. destruct Hs as [Ht Hr].
    destruct t as [s|n].
    + cbn [map fill match_segs route_seg_text ph_names]. rewrite (seg_param_lit colon s Ht), str_eqb_refl.
      apply IH; assumption.
    + cbn [ph_names] in *. destruct vals as [|v vs]; [discriminate|].
      cbn [map fill match_segs]. rewrite (seg_param_ph colon n Ht).
      cbn [forallb] in Hv. apply andb_true_iff in Hv. destruct Hv as [Hv0 Hvs].
      destruct (unreserved_facts v Hv0) as [_ [_ Hne]].
      destruct (str_eqb v "") eqn:E; [apply str_eqb_eq in E; contradiction|].
      rewrite IH by (try assumption; simpl in Hl; lia). reflexivity.
Qed.

(* the router, given the route text Init produced and a request made of the endpoint's literals
   and unreserved values, extracts exactly the declared names with the request's segments *)
Lemma router_extracts a segs vals :
  forallb seg_ok segs = true -> List.length vals = List.length (ph_names segs) ->
  forallb unreserved_b vals = true -> segs <> [] ->
  match_route (colon_mode a) (init_route (colon_mode a) (render_ep segs)) (request_path segs vals)
  = Some (combine (ph_names segs) vals).
Proof.
  intros Hs Hl Hv Hne. rewrite (route_text a segs Hs). unfold match_route.
  assert (Hc : clean_path (render_route (colon_mode a) segs) = render_route (colon_mode a) segs).
  { destruct segs as [|t r]; [congruence|]. rewrite clean_path_eq.
    destruct t; cbn [render_route starts_slash append]; rewrite Ascii.eqb_refl; reflexivity. }
  rewrite Hc, render_route_join, request_path_join, !split_join.
  - cbn [match_segs]. replace (seg_param (colon_mode a) "") with (@None string) by (destruct (colon_mode a); reflexivity).
    rewrite str_eqb_refl. apply match_tokens; assumption.
  - clear - Hs Hv Hl. revert vals Hl Hv. induction segs as [|t r IH]; intros vals Hl Hv x Hx; [destruct Hx|].
    cbn [forallb] in Hs. apply andb_true_iff in Hs. destruct Hs as [Ht Hr].
    destruct t as [s|n].
    + cbn [fill] in Hx. destruct Hx as [<-|Hx]; [|eapply IH; eauto].
      cbn [seg_ok] in Ht. destruct s; [discriminate|]. exact (all_chars_no_char unreserved_char slash _ eq_refl Ht).
    + cbn [ph_names] in Hl. destruct vals as [|v vs]; [discriminate|]. cbn [fill] in Hx.
      cbn [forallb] in Hv. apply andb_true_iff in Hv. destruct Hv as [Hv0 Hvs].
      destruct Hx as [<-|Hx]; [|eapply (IH Hr vs); eauto; simpl in Hl; lia].
      unfold unreserved_b in Hv0. destruct v; [discriminate|]. exact (all_chars_no_char unreserved_char slash _ eq_refl Hv0).
  - clear - Hs. intros x Hx. apply in_map_iff in Hx. destruct Hx as [t [<- Ht]].
    assert (Hok : seg_ok t = true) by (apply (proj1 (forallb_forall _ _) Hs), Ht).
    destruct t as [s|n]; cbn [route_seg_text seg_ok] in *.
    + destruct s; [discriminate|]. exact (all_chars_no_char unreserved_char slash _ eq_refl Hok).
    + destruct (grammar_parts n Hok) as [_ Hnc]. destruct (colon_mode a).
      * rewrite has_char_cons, (all_chars_no_char name_char slash _ eq_refl Hnc). reflexivity.
      * unfold placeholder, lb, rb. rewrite !has_char_app, (all_chars_no_char name_char slash _ eq_refl Hnc). reflexivity.
Qed.

Lemma serve_routed_eq a segs be vals :
  wf_route segs be vals = true -> segs <> [] ->
  serve_routed a segs be vals = serve a segs be vals.
Proof.
  intros Hwf Hne. unfold serve_routed, serve.
  destruct (init (render_ep segs) (render be)); [|reflexivity].
  unfold wf_route in Hwf. repeat (apply andb_true_iff in Hwf; destruct Hwf as [Hwf ?]).
  apply Nat.eqb_eq in H0.
  rewrite router_extracts by assumption. reflexivity.
Qed.

(* ---- the oracles of the remaining case kinds hold of the model ---- *)
Lemma init_tokens_meets_oracle segs be :
  forallb seg_ok segs = true -> forallb be_tok_ok be = true ->
  spec_init_b (ph_names segs) (ph_names be) (accepted_b (init (render_ep segs) (render be))) = true.
Proof.
  intros Hs Hb. pose proof (init_meets_oracle (render_ep segs) (render be)) as H.
  rewrite (ep_clean segs Hs), bo_clean, (bo_tokens be Hb) in H. exact H.
Qed.

Lemma config_meets_oracle (eps : list (list tok * list tok)) :
  (forall e, In e eps -> forallb seg_ok (fst e) = true /\ forallb be_tok_ok (snd e) = true) ->
  let acc := init_config (map (fun e => (render_ep (fst e), render (snd e))) eps) in
  forallb (fun e => spec_init_b (ph_names (fst e)) (ph_names (snd e)) acc) eps = true.
Proof.
  intros Hok acc. apply forallb_forall. intros e He. destruct acc eqn:E; [|unfold spec_init_b; apply orb_true_r].
  destruct (Hok e He) as [Hs Hb]. pose proof (init_tokens_meets_oracle _ _ Hs Hb) as H.
  unfold acc in E. pose proof (proj1 (config_conjunction _) E) as E'.
  destruct (E' (render_ep (fst e), render (snd e))) as [p [k Hacc]].
  { apply in_map_iff. exists e. split; [reflexivity|exact He]. }
  cbn [fst snd] in Hacc. rewrite Hacc in H. exact H.
Qed.

Lemma route_text_oracle a segs : forallb seg_ok segs = true ->
  str_eqb (init_route (colon_mode a) (render_ep segs)) (clean_path (render_route (colon_mode a) segs)) = true.
Proof. intros H. apply str_eqb_eq, route_text, H. Qed.

(* the weaker oracle used when a client query is forwarded follows from the exact one *)
Lemma spec_route_implies_q segs be vals o :
  spec_route_b segs be vals o = true -> spec_routeq_b segs be vals o = true.
Proof.
  destruct o as [|p|st|]; cbn [spec_route_b spec_routeq_b]; try (intros H; exact H).
  intros H. apply andb_true_iff in H. destruct H as [H1 H2]. rewrite H1. cbn [andb].
  apply orb_true_iff in H2. destruct H2 as [H2|H2]; [rewrite H2; reflexivity|].
  apply andb_true_iff in H2. destruct H2 as [Ha Hb]. rewrite Hb, andb_true_r.
  unfold extends_b. rewrite Ha. apply orb_true_r.
Qed.

Lemma routeq_meets_oracle a segs be vals :
  wf_route segs be vals = true -> spec_routeq_b segs be vals (serve a segs be vals) = true.
Proof. intros H. apply spec_route_implies_q, route_meets_oracle, H. Qed.
