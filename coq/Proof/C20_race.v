(* C20 - proofs, part 2: the interleaving machine.  If every operation body follows the lock
   discipline checked on the regenerated source facts (LockEv.disciplined) and names one lock,
   then in every state reachable under every schedule, with any number of threads:
   no two threads stand before conflicting accesses, and no object is ever destroyed. *)
Require Import Verif.Common.Base Verif.Common.LockEv Verif.Model.C20 Verif.Spec.C20.

(* ---- lists ---- *)
Lemma nth_error_set_nth_eq {A} (l : list A) t x y :
  nth_error l t = Some y -> nth_error (set_nth l t x) t = Some x.
Proof.
  revert t. induction l as [|a r IH]; intros [|t] H; simpl in *; try discriminate; auto.
Qed.

Lemma nth_error_set_nth_neq {A} (l : list A) t u x :
  u <> t -> nth_error (set_nth l t x) u = nth_error l u.
Proof.
  revert t u. induction l as [|a r IH]; intros [|t] [|u] H; simpl; auto; try congruence.
Qed.

Lemma any_other_false {A} (f : A -> bool) l t :
  any_other f l t = false <-> (forall u x, u <> t -> nth_error l u = Some x -> f x = false).
Proof.
  revert t. induction l as [|a r IH]; intros t; simpl.
  - split; [intros _ [|u] x _ H; discriminate|reflexivity].
  - destruct t as [|t].
    + split.
      * intros H [|u] x Hn Hx; [congruence|]. simpl in Hx.
        destruct (f x) eqn:E; [|reflexivity].
        assert (existsb f r = true) by (apply existsb_exists; exists x; split; [eapply nth_error_In; eauto|assumption]).
        congruence.
      * intros H. destruct (existsb f r) eqn:E; [|reflexivity].
        apply existsb_exists in E. destruct E as [x [Hin Hx]].
        apply In_nth_error in Hin. destruct Hin as [n Hn].
        rewrite (H (S n) x) in Hx; [discriminate|congruence|exact Hn].
    + rewrite orb_false_iff, IH. split.
      * intros [Ha Hr] [|u] x Hn Hx; simpl in Hx.
        -- inversion Hx; subst. exact Ha.
        -- apply (Hr u x); [congruence|exact Hx].
      * intros H. split.
        -- apply (H 0 a); [congruence|reflexivity].
        -- intros u x Hn Hx. apply (H (S u) x); [congruence|exact Hx].
Qed.

(* ---- the discipline ---- *)
Lemma disciplined_run l : disciplined l = true -> lev_run HNone l = Some HNone.
Proof.
  unfold disciplined. destruct (lev_run HNone l) as [[| |]|]; try discriminate. reflexivity.
Qed.

Lemma lev_run_cons h e l h2 : lev_run h (e :: l) = Some h2 ->
  exists h1, lev_step h e = Some h1 /\ lev_run h1 l = Some h2.
Proof. simpl. destruct (lev_step h e) as [h1|]; [eauto|discriminate]. Qed.

Section RaceFree.
  Context {D X : Type}.
  Variable m : string.

  Definition held_named (h : held) : Prop := h = HNone \/ h = HRead m \/ h = HWrite m.

  Definition thread_ok (th : @thread D X) : Prop :=
    held_named (t_held th) /\
    match t_cur th with
    | Some (_, rem, _) => lev_run (t_held th) rem = Some HNone /\ locks_named m rem = true
    | None => t_held th = HNone
    end /\
    Forall (wf_op m) (t_todo th).

  Definition lock_ok (s : @state D X) : Prop :=
    forall t u tht thu x, t <> u ->
      nth_error (s_threads s) t = Some tht -> nth_error (s_threads s) u = Some thu ->
      t_held tht = HWrite x -> holds_any (t_held thu) x = false.

  Definition inv (s : @state D X) : Prop :=
    (forall t th, nth_error (s_threads s) t = Some th -> thread_ok th) /\ lock_ok s /\ clean s.

  (* replacing thread t: what has to be shown *)
  Lemma put_inv s t th th' dat :
    inv s -> nth_error (s_threads s) t = Some th -> thread_ok th' ->
    (forall u thu, u <> t -> nth_error (s_threads s) u = Some thu ->
       (forall x, t_held th' = HWrite x -> holds_any (t_held thu) x = false) /\
       (forall x, t_held thu = HWrite x -> holds_any (t_held th') x = false)) ->
    (forall o, dat o <> None) ->
    inv (put s t th' dat).
  Proof.
    intros [Hth [Hl Hc]] Ht Hok Hlk Hd. split; [|split].
    - intros u thu Hu. simpl in Hu. destruct (Nat.eq_dec u t) as [->|Hne].
      + rewrite (nth_error_set_nth_eq _ _ _ _ Ht) in Hu. inversion Hu; subst. exact Hok.
      + rewrite nth_error_set_nth_neq in Hu by exact Hne. eapply Hth; eauto.
    - intros a b tha thb x Hab Ha Hb Hx. simpl in Ha, Hb.
      destruct (Nat.eq_dec a t) as [->|Hat]; destruct (Nat.eq_dec b t) as [->|Hbt]; try congruence.
      + rewrite (nth_error_set_nth_eq _ _ _ _ Ht) in Ha. inversion Ha; subst.
        rewrite nth_error_set_nth_neq in Hb by exact Hbt.
        apply (proj1 (Hlk b thb Hbt Hb)). exact Hx.
      + rewrite (nth_error_set_nth_eq _ _ _ _ Ht) in Hb. inversion Hb; subst.
        rewrite nth_error_set_nth_neq in Ha by exact Hat.
        apply (proj2 (Hlk a tha Hat Ha)). exact Hx.
      + rewrite nth_error_set_nth_neq in Ha by exact Hat.
        rewrite nth_error_set_nth_neq in Hb by exact Hbt. exact (Hl a b tha thb x Hab Ha Hb Hx).
    - exact Hd.
  Qed.

  (* the held lock of t does not change: the lock part is inherited *)
  Lemma put_inv_same s t th th' dat :
    inv s -> nth_error (s_threads s) t = Some th -> thread_ok th' -> t_held th' = t_held th ->
    (forall o, dat o <> None) -> inv (put s t th' dat).
  Proof.
    intros Hi Ht Hok Hh Hd. apply (put_inv s t th th' dat Hi Ht Hok); [|exact Hd].
    destruct Hi as [_ [Hl _]]. intros u thu Hu Hn. rewrite Hh. split; intros x Hx.
    - eapply (Hl t u); eauto.
    - eapply (Hl u t); eauto.
  Qed.

  Lemma holds_any_refl_r x : holds_any (HRead x) x = true.
  Proof. simpl. apply String.eqb_refl. Qed.
  Lemma holds_any_refl_w x : holds_any (HWrite x) x = true.
  Proof. simpl. apply String.eqb_refl. Qed.

  (* a thread standing before an access holds the lock m suitably *)
  Lemma before_access th a :
    thread_ok th -> next_acc th = Some a ->
    (snd a = true -> t_held th = HWrite m) /\ (t_held th = HRead m \/ t_held th = HWrite m).
  Proof.
    intros [Hn [Hc _]] Ha. unfold next_acc in Ha.
    destruct (t_cur th) as [[[o rem] r]|]; [|discriminate].
    destruct rem as [|e rem]; [discriminate|]. destruct Hc as [Hr _].
    apply lev_run_cons in Hr. destruct Hr as [h1 [Hs _]].
    destruct Hn as [Hn|[Hn|Hn]]; rewrite Hn in *; destruct e; simpl in Ha; inversion Ha; subst; simpl in *;
      try discriminate; split; auto; try (intros; discriminate).
  Qed.

  Lemma inv_no_race s : inv s -> no_race s.
  Proof.
    intros [Hth [Hl _]] t u tht thu a b Htu Ht Hu Ha Hb.
    destruct (before_access tht a (Hth _ _ Ht) Ha) as [Hwa Hha].
    destruct (before_access thu b (Hth _ _ Hu) Hb) as [Hwb Hhb].
    unfold conflicts. destruct (String.eqb (fst a) (fst b)); [|reflexivity]. simpl.
    destruct (snd a) eqn:Ea.
    - specialize (Hwa eq_refl). pose proof (Hl t u tht thu m Htu Ht Hu Hwa) as Hf.
      destruct Hhb as [Hhb|Hhb]; rewrite Hhb in Hf; simpl in Hf; rewrite String.eqb_refl in Hf; discriminate.
    - destruct (snd b) eqn:Eb; [|reflexivity].
      specialize (Hwb eq_refl). pose proof (Hl u t thu tht m (not_eq_sym Htu) Hu Ht Hwb) as Hf.
      destruct Hha as [Hha|Hha]; rewrite Hha in Hf; simpl in Hf; rewrite String.eqb_refl in Hf; discriminate.
  Qed.

  Lemma inv_not_racy s t th a :
    inv s -> nth_error (s_threads s) t = Some th -> next_acc th = Some a -> racy s t a = false.
  Proof.
    intros Hi Ht Ha. unfold racy. apply any_other_false. intros u thu Hut Hu.
    destruct (next_acc thu) as [b|] eqn:Eb; [|reflexivity].
    apply (inv_no_race s Hi t u th thu a b); auto.
  Qed.

  Lemma upd_some (f : string -> option D) ob v : (forall o, f o <> None) -> forall o, upd f ob (Some v) o <> None.
  Proof. intros H o. unfold upd. destruct (String.eqb o ob); [discriminate|apply H]. Qed.

  Lemma locks_named_cons e l : locks_named m (e :: l) = true ->
    locks_named m l = true /\
    match e with LLock x | LUnlock x | LRLock x | LRUnlock x => x = m | _ => True end.
  Proof.
    unfold locks_named. simpl. rewrite andb_true_iff. intros [H1 H2]. split; [exact H2|].
    destruct e; auto; apply String.eqb_eq; exact H1.
  Qed.

  Lemma step_inv s t s' : inv s -> step s t = Some s' -> inv s'.
  Proof.
    intros Hi Hs. unfold step in Hs.
    destruct (nth_error (s_threads s) t) as [th|] eqn:Ht; [|discriminate].
    pose proof (proj1 Hi t th Ht) as Hok. destruct Hok as [Hn [Hc Htodo]].
    pose proof (proj2 (proj2 Hi)) as Hclean.
    destruct (t_cur th) as [[[o rem] r]|] eqn:Ec.
    - destruct rem as [|e rem].
      + (* return *)
        inversion Hs; subst; clear Hs. destruct Hc as [Hr _]. simpl in Hr. inversion Hr as [Hh].
        apply (put_inv_same s t th); auto.
        split; [|split]; simpl; auto.
      + destruct Hc as [Hr Hnm]. apply lev_run_cons in Hr. destruct Hr as [h1 [Hst Hr]].
        apply locks_named_cons in Hnm. destruct Hnm as [Hnm He].
        assert (Hnext : next_acc th = acc_of e) by (unfold next_acc; rewrite Ec; reflexivity).
        destruct e as [x|x|x|x|ob|ob|ob f].
        * (* LLock *)
          destruct (lock_free_for s t (LLock x)) eqn:Ef; [|discriminate]. rewrite Hst in Hs.
          inversion Hs; subst; clear Hs.
          assert (Hh : t_held th = HNone /\ h1 = HWrite m).
          { destruct (t_held th); simpl in Hst; try discriminate. inversion Hst. auto. }
          destruct Hh as [Hh0 ->].
          apply (put_inv s t th); auto.
          -- split; [|split]; simpl; auto. right; right; reflexivity.
          -- simpl in Ef. apply negb_true_iff in Ef. rewrite any_other_false in Ef.
             intros u thu Hu Hnu. simpl. split; intros y Hy.
             ++ inversion Hy; subst. apply (Ef u thu Hu Hnu).
             ++ destruct (String.eqb m y) eqn:E; [|reflexivity]. apply String.eqb_eq in E. subst y.
                pose proof (Ef u thu Hu Hnu) as Hf. rewrite Hy in Hf. simpl in Hf. rewrite String.eqb_refl in Hf. discriminate.
        * (* LUnlock *)
          rewrite Hst in Hs. simpl in Hs. inversion Hs; subst; clear Hs.
          assert (h1 = HNone).
          { destruct (t_held th); simpl in Hst; try discriminate. destruct (String.eqb m m0); inversion Hst; reflexivity. }
          subst h1. apply (put_inv s t th); auto.
          -- split; [|split]; simpl; auto. left; reflexivity.
          -- intros u thu Hu Hnu. simpl. split; intros y Hy; [discriminate|reflexivity].
        * (* LRLock *)
          destruct (lock_free_for s t (LRLock x)) eqn:Ef; [|discriminate]. rewrite Hst in Hs.
          inversion Hs; subst; clear Hs.
          assert (Hh : t_held th = HNone /\ h1 = HRead m).
          { destruct (t_held th); simpl in Hst; try discriminate. inversion Hst. auto. }
          destruct Hh as [Hh0 ->].
          apply (put_inv s t th); auto.
          -- split; [|split]; simpl; auto. right; left; reflexivity.
          -- simpl in Ef. apply negb_true_iff in Ef. rewrite any_other_false in Ef.
             intros u thu Hu Hnu. simpl. split; intros y Hy; [discriminate|].
             destruct (String.eqb m y) eqn:E; [|reflexivity]. apply String.eqb_eq in E. subst y.
             pose proof (Ef u thu Hu Hnu) as Hf. rewrite Hy in Hf. simpl in Hf. rewrite String.eqb_refl in Hf. discriminate.
        * (* LRUnlock *)
          rewrite Hst in Hs. simpl in Hs. inversion Hs; subst; clear Hs.
          assert (h1 = HNone).
          { destruct (t_held th); simpl in Hst; try discriminate. destruct (String.eqb m m0); inversion Hst; reflexivity. }
          subst h1. apply (put_inv s t th); auto.
          -- split; [|split]; simpl; auto. left; reflexivity.
          -- intros u thu Hu Hnu. simpl. split; intros y Hy; [discriminate|reflexivity].
        * (* LRead *)
          inversion Hs; subst; clear Hs.
          assert (h1 = t_held th) by (destruct (t_held th); simpl in Hst; inversion Hst; reflexivity). subst h1.
          apply (put_inv_same s t th); auto. split; [|split]; simpl; auto.
        * (* LWrite *)
          inversion Hs; subst; clear Hs.
          assert (h1 = t_held th) by (destruct (t_held th); simpl in Hst; inversion Hst; reflexivity). subst h1.
          apply (put_inv_same s t th); auto; [split; [|split]; simpl; auto|].
          rewrite (inv_not_racy s t th (ob, true) Hi Ht Hnext).
          destruct (s_data s ob) as [d|] eqn:Ed; [|exfalso; exact (Hclean ob Ed)].
          simpl. apply upd_some. exact Hclean.
        * (* LSafeCall *)
          assert (h1 = t_held th) by (destruct (t_held th); simpl in Hst; inversion Hst; reflexivity). subst h1.
          destruct (s_data s ob) as [d|] eqn:Ed; [|exfalso; exact (Hclean ob Ed)].
          destruct (o_call o f r d) as [r' d'] eqn:Eo. inversion Hs; subst; clear Hs.
          apply (put_inv_same s t th); auto; [split; [|split]; simpl; auto|].
          apply upd_some. exact Hclean.
    - (* invocation *)
      destruct (t_todo th) as [|o rest] eqn:Et; [discriminate|]. inversion Hs; subst; clear Hs.
      inversion Htodo as [|? ? Ho Hrest]; subst.
      apply (put_inv_same s t th); auto. split; [|split]; simpl; auto.
      destruct Ho as [Hd Hnm]. rewrite Hc. split; [apply disciplined_run; exact Hd|exact Hnm].
  Qed.

  Lemma run_inv sched : forall s s', inv s -> run s sched = Some s' -> inv s'.
  Proof.
    induction sched as [|t r IH]; intros s s' Hi Hr; simpl in Hr.
    - inversion Hr; subst; exact Hi.
    - destruct (step s t) as [s1|] eqn:Es; [|discriminate]. eapply IH; [eapply step_inv; eauto|exact Hr].
  Qed.

  Lemma init_inv progs dat : wf_progs m progs -> (forall o, dat o <> None) -> inv (@init D X progs dat).
  Proof.
    intros Hw Hd. split; [|split].
    - intros t th Ht. simpl in Ht. rewrite nth_error_map in Ht.
      destruct (nth_error progs t) as [p|] eqn:Ep; [|discriminate]. inversion Ht; subst.
      split; [left; reflexivity|split; [reflexivity|]]. simpl.
      unfold wf_progs in Hw. rewrite Forall_forall in Hw. apply Hw. eapply nth_error_In; eauto.
    - intros t u tht thu x _ Ht _ Hx. simpl in Ht. rewrite nth_error_map in Ht.
      destruct (nth_error progs t); [|discriminate]. inversion Ht; subst. discriminate.
    - exact Hd.
  Qed.

  Lemma registry_race_free progs dat sched s :
    wf_progs m progs -> (forall o, dat o <> None) ->
    run (@init D X progs dat) sched = Some s -> no_race s /\ clean s.
  Proof.
    intros Hw Hd Hr. pose proof (run_inv sched _ _ (init_inv progs dat Hw Hd) Hr) as Hi.
    split; [apply inv_no_race; exact Hi|exact (proj2 (proj2 Hi))].
  Qed.
End RaceFree.
