(* C18 - second part of the proofs: meaning of `runs`, order of the configured lists,
   explicit forms of the abort rule, soundness of the boolean oracles, the model meets the
   oracles, the stack. *)
Require Import Verif.Common.Base Verif.Common.Json Verif.Common.JsonFacts.
Require Import Verif.Model.C18 Verif.Spec.C18 Verif.Proof.C18.
Require Import Sorted.

Definition notfail (m : nat * beh) : Prop := snd m <> BFail.

(* ---------- what `runs` says ---------- *)
Lemma runs_meaning l c f : runs l c f ->
  (exists rest, map fst l = (c ++ rest)%list) /\
  (f = None -> c = map fst l /\ Forall notfail l) /\
  (forall p, f = Some p ->
     exists pre post, l = (pre ++ (p, BFail) :: post)%list /\ Forall notfail pre /\
                      c = (map fst pre ++ [p])%list).
Proof.
  induction 1 as [|p rest|p b rest c f Hb Hr [[rest' IH1] [IH2 IH3]]].
  - split; [exists []; reflexivity|]. split; [auto|discriminate].
  - split; [exists (map fst rest); reflexivity|]. split; [discriminate|].
    intros q Hq. inversion Hq; subst. exists [], rest. simpl. auto.
  - split; [exists rest'; simpl; rewrite IH1; reflexivity|]. split.
    + intros Hf. destruct (IH2 Hf) as [Hc Hall]. split; [simpl; congruence|].
      constructor; [exact Hb|exact Hall].
    + intros q Hq. destruct (IH3 q Hq) as [pre [post [Hl [Hpre Hc]]]].
      exists ((p, b) :: pre), post. simpl. rewrite Hl, Hc. repeat split.
      constructor; [exact Hb|exact Hpre].
Qed.

Lemma run_app_fail pre p post :
  Forall notfail pre ->
  called (pre ++ (p, BFail) :: post) = (map fst pre ++ [p])%list /\
  failed (pre ++ (p, BFail) :: post) = Some p.
Proof.
  induction 1 as [|[q b] pre Hq Hpre IH]; simpl; [auto|].
  destruct (is_fail b) eqn:E; [apply is_fail_true in E; contradiction|].
  destruct IH as [-> ->]. auto.
Qed.

Lemma run_all_ok l : Forall notfail l -> called l = map fst l /\ failed l = None.
Proof.
  induction 1 as [|[q b] l Hq Hl IH]; simpl; [auto|].
  destruct (is_fail b) eqn:E; [apply is_fail_true in E; contradiction|].
  destruct IH as [-> ->]. auto.
Qed.

(* ---------- the configured lists keep the configured order ---------- *)
Lemma pick_ge want R l : forall p, Forall (fun m => p <= fst m) (pick want R p l).
Proof.
  induction l as [|[c b] r IH]; intros p; [constructor|].
  rewrite pick_cons. specialize (IH (S p)).
  assert (H : Forall (fun m : nat * beh => p <= fst m) (pick want R (S p) r)).
  { eapply Forall_impl; [|exact IH]. simpl; intros; lia. }
  destruct (selected want R (p, (c, b))); [constructor; [simpl; lia|exact H]|exact H].
Qed.

Lemma pick_sorted want R l : forall p, StronglySorted lt (map fst (pick want R p l)).
Proof.
  induction l as [|[c b] r IH]; intros p; [constructor|].
  rewrite pick_cons. destruct (selected want R (p, (c, b))); [|apply IH].
  simpl. constructor; [apply IH|].
  pose proof (pick_ge want R r (S p)) as G. rewrite Forall_map.
  eapply Forall_impl; [|exact G]. simpl; intros; lia.
Qed.

Lemma configured_sorted want R l : StronglySorted lt (map fst (configured want R l)).
Proof. apply pick_sorted. Qed.

Lemma pick_in want R l : forall p0 p b,
  In (p, b) (pick want R p0 l) <->
  p0 <= p /\ exists c, nth_error l (p - p0) = Some (c, b) /\ selected want R (p, (c, b)) = true.
Proof.
  induction l as [|[c b] r IH]; intros p0 p b'.
  - simpl. split; [tauto|]. intros [_ [c [H _]]]. destruct (p - p0); discriminate.
  - rewrite pick_cons.
    assert (Hrest : In (p, b') (pick want R (S p0) r) <->
                    p0 < p /\ exists c0, nth_error ((c, b) :: r) (p - p0) = Some (c0, b') /\
                                        selected want R (p, (c0, b')) = true).
    { rewrite IH. split.
      - intros [Hle [c0 [Hn Hs]]]. split; [lia|]. exists c0. split; [|exact Hs].
        replace (p - p0) with (S (p - S p0)) by lia. exact Hn.
      - intros [Hlt [c0 [Hn Hs]]]. split; [lia|]. exists c0. split; [|exact Hs].
        replace (p - p0) with (S (p - S p0)) in Hn by lia. exact Hn. }
    destruct (selected want R (p0, (c, b))) eqn:S0.
    + simpl In. rewrite Hrest. split.
      * intros [H|[Hlt H]].
        -- inversion H; subst. split; [lia|]. exists c. rewrite Nat.sub_diag. auto.
        -- split; [lia|exact H].
      * intros [Hle [c0 [Hn Hs]]]. destruct (Nat.eq_dec p p0) as [->|Hne].
        -- left. rewrite Nat.sub_diag in Hn. simpl in Hn. inversion Hn; subst. reflexivity.
        -- right. split; [lia|]. exists c0. auto.
    + rewrite Hrest. split.
      * intros [Hlt H]. split; [lia|exact H].
      * intros [Hle [c0 [Hn Hs]]]. destruct (Nat.eq_dec p p0) as [->|Hne].
        -- rewrite Nat.sub_diag in Hn. simpl in Hn. inversion Hn; subst. congruence.
        -- split; [lia|]. exists c0. auto.
Qed.

Lemma configured_in want R l p b :
  In (p, b) (configured want R l) <->
  exists c, nth_error l p = Some (c, b) /\ selected want R (p, (c, b)) = true.
Proof.
  pose proof (pick_in want R l 0 p b) as H. unfold pick in H. unfold configured. rewrite H.
  rewrite Nat.sub_0_r. clear H. split; [intros [_ H]; exact H|intros H; split; [lia|exact H]].
Qed.

(* ---------- explicit forms of the order / abort rule ---------- *)
Section Explicit.
  Variables (lv : level) (R : registry) (s : pshape).
  Let rq := configured_req R (shape_names s).
  Let rs := configured_resp R (shape_names s).

  Lemma req_abort_explicit inner pre p post :
    rq = (pre ++ (p, BFail) :: post)%list -> Forall notfail pre ->
    plugin_mw lv R s inner = (map (EvReq lv) (map fst pre ++ [p]), ORet None (EMod lv p)).
  Proof.
    intros Hrq Hpre. rewrite plugin_mw_run. fold rq rs. unfold plugin_run.
    rewrite run_mods_called_failed, Hrq.
    destruct (run_app_fail pre p post Hpre) as [-> ->]. reflexivity.
  Qed.

  Lemma inner_error_explicit li r e :
    Forall notfail rq -> e <> ENone ->
    plugin_mw lv R s (li, ORet r e) = ((map (EvReq lv) (map fst rq) ++ li)%list, ORet r e).
  Proof.
    intros Hrq He. rewrite plugin_mw_run. fold rq rs. unfold plugin_run.
    rewrite run_mods_called_failed. destruct (run_all_ok rq Hrq) as [-> ->].
    apply is_err_true in He. rewrite He. reflexivity.
  Qed.

  Lemma no_response_explicit li :
    Forall notfail rq ->
    plugin_mw lv R s (li, ORet None ENone) = ((map (EvReq lv) (map fst rq) ++ li)%list, ORet None ENone).
  Proof.
    intros Hrq. rewrite plugin_mw_run. fold rq rs. unfold plugin_run.
    rewrite run_mods_called_failed. destruct (run_all_ok rq Hrq) as [-> ->].
    simpl is_err. cbv iota. destruct rs; reflexivity.
  Qed.

  Lemma resp_abort_explicit li x pre p post :
    Forall notfail rq -> rs = (pre ++ (p, BFail) :: post)%list -> Forall notfail pre ->
    plugin_mw lv R s (li, ORet (Some x) ENone) =
    ((map (EvReq lv) (map fst rq) ++ li ++ map (EvResp lv) (map fst pre ++ [p]))%list,
     ORet None (EMod lv p)).
  Proof.
    intros Hrq Hrs Hpre. rewrite plugin_mw_run. fold rq rs. unfold plugin_run.
    rewrite run_mods_called_failed. destruct (run_all_ok rq Hrq) as [-> ->].
    simpl is_err. cbv iota.
    destruct rs as [|m rs'] eqn:Ers; [destruct pre; discriminate|].
    rewrite run_mods_called_failed, Hrs.
    destruct (run_app_fail pre p post Hpre) as [-> ->]. reflexivity.
  Qed.

  Lemma all_ok_explicit li x :
    Forall notfail rq -> Forall notfail rs ->
    plugin_mw lv R s (li, ORet (Some x) ENone) =
    ((map (EvReq lv) (map fst rq) ++ li ++ map (EvResp lv) (map fst rs))%list, ORet (Some x) ENone).
  Proof.
    intros Hrq Hrs. rewrite plugin_mw_run. fold rq rs. unfold plugin_run.
    rewrite run_mods_called_failed. destruct (run_all_ok rq Hrq) as [-> ->].
    simpl is_err. cbv iota.
    destruct rs as [|m rs'] eqn:Ers; [simpl; rewrite app_nil_r; reflexivity|].
    rewrite run_mods_called_failed. destruct (run_all_ok _ Hrs) as [-> ->]. reflexivity.
  Qed.
End Explicit.

(* ---------- "exactly when" ---------- *)
Lemma static_iff d name r e k v :
  lookup k d = Some v -> lookup k (data_of r) <> Some v ->
  ((exists x m, static_apply (Some (d, name)) r e = ORet (Some x) e /\
                r_data x = Some m /\ lookup k m = Some v) <-> holds name r e).
Proof.
  intros Hd Hr. destruct (static_exact d name r e) as [Hyes Hno]. split.
  - intros [x [m [Ho [Hx Hm]]]].
    destruct (holds_b name r e) eqn:B; [apply holds_b_holds; exact B|].
    assert (Hn : ~ holds name r e) by (rewrite <- holds_b_holds; congruence).
    pose proof (eq_trans (eq_sym (Hno Hn)) Ho) as Hq. inversion Hq; subst. exfalso. apply Hr.
    unfold data_of. rewrite Hx. exact Hm.
  - intros H. destruct (Hyes H) as [m [Ho Hm]].
    eexists. exists m. split; [exact Ho|]. split; [reflexivity|].
    rewrite Hm. unfold expected_field. rewrite Hd. reflexivity.
Qed.

(* ---------- boolean equalities ---------- *)
Lemma level_eqb_eq a b : level_eqb a b = true <-> a = b.
Proof. destruct a, b; simpl; split; congruence. Qed.

Lemma event_eqb_eq a b : event_eqb a b = true <-> a = b.
Proof.
  destruct a, b; simpl; try (split; congruence);
    rewrite andb_true_iff, level_eqb_eq, Nat.eqb_eq; split;
    [intros [-> ->]; reflexivity|intros H; inversion H; auto|intros [-> ->]; reflexivity|intros H; inversion H; auto].
Qed.

Lemma log_eqb_eq a b : log_eqb a b = true <-> a = b.
Proof. apply list_eqb_eq. apply event_eqb_eq. Qed.

Lemma log_eqb_refl a : log_eqb a a = true.
Proof. apply log_eqb_eq. reflexivity. Qed.

Lemma err_eqb_eq a b : err_eqb a b = true <-> a = b.
Proof.
  destruct a, b; simpl; try (split; congruence).
  - rewrite str_eqb_eq. split; congruence.
  - rewrite andb_true_iff, level_eqb_eq, Nat.eqb_eq. split; [intros [-> ->]; reflexivity|intros H; inversion H; auto].
  - rewrite str_eqb_eq. split; congruence.
Qed.

Lemma prefix_b_app p l : prefix_b p l = true -> exists lg, l = (p ++ lg)%list.
Proof.
  revert l. induction p as [|x p IH]; intros l H; [exists l; reflexivity|].
  destruct l as [|y l]; [discriminate|]. simpl in H.
  apply andb_true_iff in H as [H1 H2]. apply event_eqb_eq in H1. subst y.
  destruct (IH l H2) as [lg ->]. exists lg. reflexivity.
Qed.

Lemma prefix_b_refl p : prefix_b p p = true.
Proof.
  induction p as [|x p IH]; simpl; [reflexivity|]. rewrite IH, andb_true_r.
  apply event_eqb_eq. reflexivity.
Qed.

(* well-formed responses: Data is a Go map of JSON values *)
Definition wf_resp (r : option resp) : Prop := wfj (JObj (data_of r)) = true.
Definition wf_sshape (s : sshape) : Prop :=
  match s with ShOk d _ => wfj (JObj d) = true | _ => True end.

Lemma resp_eqb_refl x : wf_resp (Some x) -> resp_eqb x x = true.
Proof.
  unfold wf_resp, resp_eqb, data_of. intros H. rewrite eqb_reflx, andb_true_r.
  destruct (r_data x) as [m|]; simpl; [|reflexivity].
  apply (json_eqb_refl (JObj m)). exact H.
Qed.

Lemma err_eqb_refl e : err_eqb e e = true.
Proof. apply err_eqb_eq. reflexivity. Qed.

Lemma outcome_eqb_refl o : match o with ORet r _ => wf_resp r | OPanic => True end -> outcome_eqb o o = true.
Proof.
  destruct o as [r e|]; [|reflexivity]. intros H. simpl. rewrite err_eqb_refl, andb_true_r.
  destruct r as [x|]; [|reflexivity]. simpl. apply resp_eqb_refl. exact H.
Qed.

(* ---------- the static oracle ---------- *)
Lemma in_mem {V} k (v : V) m : In (k, v) m -> mem k m = true.
Proof.
  intros H. unfold mem. destruct (lookup k m) eqn:E; [reflexivity|].
  apply lookup_None_notin in E. exfalso. apply E. unfold keys. apply in_map_iff. exists (k, v). auto.
Qed.

Lemma static_spec_b_sound d name r e out :
  static_spec_b d name r e out = true -> static_spec_obs d name r e out.
Proof.
  unfold static_spec_b, static_spec_obs. intros H.
  destruct (holds_b name r e) eqn:B.
  - split; [|intros Hn; exfalso; apply Hn; apply holds_b_holds; exact B].
    intros _. destruct out as [[x|] e'|]; try discriminate.
    apply andb_true_iff in H as [H Hm]. apply andb_true_iff in H as [He Hc].
    apply err_eqb_eq in He. subst e'. apply eqb_prop in Hc.
    destruct (r_data x) as [m|] eqn:Dx; [|discriminate].
    apply andb_true_iff in Hm as [Hm H3]. apply andb_true_iff in Hm as [H1 H2].
    rewrite forallb_forall in H1, H2, H3.
    exists x, m. repeat split; auto.
    intros k. unfold expected_field.
    destruct (lookup k d) as [v|] eqn:Ld.
    + specialize (H1 (k, v) (lookup_In _ _ _ Ld)). unfold has_b in H1. simpl in H1.
      destruct (lookup k m); [exact H1|discriminate].
    + destruct (lookup k (data_of r)) as [v|] eqn:Lb.
      * specialize (H2 (k, v) (lookup_In _ _ _ Lb)). simpl in H2.
        apply mem_lookup in Ld. rewrite Ld in H2. simpl in H2. unfold has_b in H2. simpl in H2.
        destruct (lookup k m); [exact H2|discriminate].
      * destruct (lookup k m) as [w|] eqn:Lm; [|reflexivity].
        specialize (H3 (k, w) (lookup_In _ _ _ Lm)). simpl in H3.
        apply mem_lookup in Ld. apply mem_lookup in Lb. rewrite Ld, Lb in H3. discriminate.
  - split; [intros Hh; apply holds_b_holds in Hh; congruence|]. intros _. exact H.
Qed.

Lemma nodup_lookup {V} k (v : V) m : nodup_keys m = true -> In (k, v) m -> lookup k m = Some v.
Proof.
  induction m as [|[k' v'] m IH]; intros Hn Hin; [contradiction|].
  apply nodup_keys_cons in Hn as [Hnone Hn]. simpl.
  destruct Hin as [Hin|Hin].
  - inversion Hin; subst. rewrite str_eqb_refl. reflexivity.
  - destruct (str_eqb k k') eqn:E; [|apply IH; assumption].
    apply str_eqb_eq in E. subst k'. apply (in_mem k v) in Hin. apply mem_lookup in Hnone. congruence.
Qed.

Lemma wfj_member m k v : wfj (JObj m) = true -> In (k, v) m -> wfj v = true.
Proof.
  intros H Hin. apply wfj_obj_inv in H as [_ H]. rewrite Forall_forall in H. apply (H (k, v) Hin).
Qed.

Lemma static_model_meets_oracle cfg r e :
  match cfg with Some (d, _) => wfj (JObj d) = true | None => True end -> wf_resp r ->
  static_case_spec_b cfg r e (static_apply cfg r e) = true.
Proof.
  intros Hd Hr. destruct cfg as [[d name]|]; simpl.
  2:{ apply (outcome_eqb_refl (ORet r e)). exact Hr. }
  unfold static_spec_b. rewrite <- strategy_match_holds_b.
  destruct (strategy_match name r e).
  2:{ apply (outcome_eqb_refl (ORet r e)). exact Hr. }
  simpl r_complete. simpl r_data. rewrite err_eqb_refl, eqb_reflx. simpl.
  pose proof (wfj_obj_inv _ Hd) as [Hnd _]. pose proof (wfj_obj_inv _ Hr) as [Hnb _].
  rewrite !andb_true_iff. repeat split; apply forallb_forall.
  - intros [k v] Hin. unfold has_b. simpl. rewrite lookup_overlay.
    rewrite (nodup_lookup k v d Hnd Hin). apply json_eqb_refl. exact (wfj_member d k v Hd Hin).
  - intros [k v] Hin. simpl. destruct (mem k d) eqn:M; [reflexivity|]. simpl.
    unfold has_b. simpl. rewrite lookup_overlay. apply mem_lookup in M. rewrite M.
    rewrite (nodup_lookup k v _ Hnb Hin). apply json_eqb_refl. exact (wfj_member _ k v Hr Hin).
  - intros [k w] Hin. simpl. unfold overlay in Hin. apply in_app_or in Hin as [Hin|Hin].
    + rewrite (in_mem k w d Hin). reflexivity.
    + apply filter_In in Hin as [Hin _]. rewrite (in_mem k w _ Hin). apply orb_true_r.
Qed.

(* ---------- the modifier oracle ---------- *)
Lemma plugin_spec_b_sound lv rq rs inner obs :
  plugin_spec_b lv rq rs inner obs = true -> plugin_spec obs_eq lv rq rs inner obs.
Proof.
  unfold plugin_spec_b. destruct inner as [li oi]. destruct obs as [lo oo].
  pose proof (runs_called_failed rq) as Hq.
  destruct (failed rq) as [p|] eqn:Fq.
  - intros H. apply andb_true_iff in H as [H1 H2]. apply log_eqb_eq in H1. subst lo.
    eapply ps_req_abort; [exact Hq|exact H2].
  - destruct oi as [r e|].
    + destruct (is_err e) eqn:Ee.
      * intros H. apply andb_true_iff in H as [H1 H2]. apply log_eqb_eq in H1. subst lo.
        apply (ps_inner_error obs_eq lv rq rs (li, ORet r e) (called rq) r e); auto.
        apply is_err_true. exact Ee.
      * apply is_err_false in Ee. subst e. destruct rs as [|m rs'].
        { intros H. apply andb_true_iff in H as [H1 H2]. apply log_eqb_eq in H1. subst lo.
          apply (ps_no_resp_mods obs_eq lv rq [] (li, ORet r ENone) (called rq) r); auto. }
        destruct r as [x|].
        { intros H. apply andb_true_iff in H as [H1 H2]. apply log_eqb_eq in H1. subst lo.
          pose proof (runs_called_failed (m :: rs')) as Hs.
          rewrite <- app_assoc.
          destruct (failed (m :: rs')) as [p|] eqn:Fs.
          - apply (ps_resp_abort obs_eq lv rq (m :: rs') (li, ORet (Some x) ENone) (called rq) x _ p); auto.
          - apply (ps_done obs_eq lv rq (m :: rs') (li, ORet (Some x) ENone) (called rq) x _); auto. }
        { intros H. apply andb_true_iff in H as [H1 H2]. apply log_eqb_eq in H1. subst lo.
          apply (ps_no_response obs_eq lv rq (m :: rs') (li, ORet None ENone) (called rq)); auto. }
    + intros H. apply andb_true_iff in H as [H1 H2]. apply log_eqb_eq in H1. subst lo.
      apply (ps_inner_panic obs_eq lv rq rs (li, OPanic) (called rq)); auto.
Qed.

(* what a plugin layer can hand up: the inner response or none *)
Lemma plugin_run_outcome lv rq rs li r e :
  match snd (plugin_run lv rq rs (li, ORet r e)) with
  | ORet r' _ => r' = r \/ r' = None
  | OPanic => True
  end.
Proof.
  unfold plugin_run. rewrite run_mods_called_failed.
  destruct (failed rq) as [p|]; [simpl; auto|].
  destruct (is_err e); [simpl; auto|].
  destruct rs as [|m rs']; [simpl; auto|]. destruct r as [x|]; [|simpl; auto].
  rewrite run_mods_called_failed.
  destruct (failed (m :: rs')) as [q|]; simpl; auto.
Qed.

Lemma plugin_run_panic lv rq rs li : snd (plugin_run lv rq rs (li, OPanic)) <> OPanic -> exists p, failed rq = Some p.
Proof.
  unfold plugin_run. rewrite run_mods_called_failed. destruct (failed rq); [eauto|].
  simpl. congruence.
Qed.

Definition wf_outcome (o : outcome) : Prop := match o with ORet r _ => wf_resp r | OPanic => True end.

Lemma wf_none : wf_resp None.
Proof. reflexivity. Qed.

Lemma plugin_run_wf lv rq rs inner : wf_outcome (snd inner) -> wf_outcome (snd (plugin_run lv rq rs inner)).
Proof.
  destruct inner as [li [r e|]]; simpl; intros H.
  - pose proof (plugin_run_outcome lv rq rs li r e) as P.
    destruct (snd (plugin_run lv rq rs (li, ORet r e))) as [r' e'|]; simpl; [|exact I].
    destruct P as [->| ->]; [exact H|apply wf_none].
  - unfold plugin_run. destruct (run_mods rq) as [c1 [p|]]; simpl; [apply wf_none|exact I].
Qed.

Ltac oref := rewrite ?log_eqb_refl; cbn [andb]; apply outcome_eqb_refl; solve [exact wf_none | exact I | assumption].

Lemma plugin_model_meets_oracle_run lv rq rs inner :
  wf_outcome (snd inner) ->
  plugin_spec_b lv rq rs inner (plugin_run lv rq rs inner) = true.
Proof.
  intros Hwf. unfold plugin_spec_b, plugin_run. destruct inner as [li oi]. simpl in Hwf.
  rewrite run_mods_called_failed.
  destruct (failed rq) as [p|]; [oref|].
  destruct oi as [r e|]; [|oref].
  destruct (is_err e) eqn:Ee; [oref|].
  apply is_err_false in Ee. subst e.
  destruct rs as [|m rs']; [oref|].
  destruct r as [x|]; [|oref].
  rewrite run_mods_called_failed. rewrite <- app_assoc.
  destruct (failed (m :: rs')) as [p|]; oref.
Qed.

Lemma plugin_model_meets_oracle lv R s r e :
  wf_resp r ->
  plugin_case_spec_b lv R s (backend_call r e) (plugin_mw lv R s (backend_call r e)) = true.
Proof.
  intros H. unfold plugin_case_spec_b. rewrite plugin_mw_run.
  apply plugin_model_meets_oracle_run. exact H.
Qed.

Lemma plugin_case_spec_b_sound lv R s inner obs :
  plugin_case_spec_b lv R s inner obs = true ->
  plugin_spec obs_eq lv (configured_req R (shape_names s)) (configured_resp R (shape_names s)) inner obs.
Proof. apply plugin_spec_b_sound. Qed.

(* ---------- the stack ---------- *)
Lemma endpoint_stack_run ss R pe pb r e :
  endpoint_stack ss R pe pb r e =
  static_mw (static_cfg ss)
    (plugin_run LEndpoint (configured_req R (shape_names pe)) (configured_resp R (shape_names pe))
       (plugin_run LBackend (configured_req R (shape_names pb)) (configured_resp R (shape_names pb))
          (backend_call r e))).
Proof. unfold endpoint_stack. rewrite !plugin_mw_run. reflexivity. Qed.

Lemma static_case_spec_b_sound cfg r e out :
  static_case_spec_b cfg r e out = true ->
  match cfg with
  | None => outcome_eqb (ORet r e) out = true
  | Some (d, name) => static_spec_obs d name r e out
  end.
Proof. destruct cfg as [[d n]|]; simpl; [apply static_spec_b_sound|auto]. Qed.

Lemma stack_spec_b_sound ss R pe pb r e obs :
  stack_spec_b ss R pe pb r e obs = true -> stack_spec ss R pe pb r e obs.
Proof.
  unfold stack_spec_b, stack_spec, layer_spec.
  set (rqb := configured_req R (shape_names pb)). set (rsb := configured_resp R (shape_names pb)).
  set (rqe := configured_req R (shape_names pe)). set (rse := configured_resp R (shape_names pe)).
  set (cb := plugin_run LBackend rqb rsb (backend_call r e)).
  set (ce := plugin_run LEndpoint rqe rse cb).
  intros H. exists cb, ce. split; [apply plugin_run_spec|]. split; [apply plugin_run_spec|].
  apply andb_true_iff in H as [H1 H2]. split; [exact H1|].
  destruct (snd ce) as [r' e'|].
  - apply static_case_spec_b_sound. exact H2.
  - destruct (snd obs); [discriminate|reflexivity].
Qed.

Lemma stack_model_meets_oracle ss R pe pb r e :
  wf_sshape ss -> wf_resp r ->
  stack_spec_b ss R pe pb r e (endpoint_stack ss R pe pb r e) = true.
Proof.
  intros Hs Hr. rewrite endpoint_stack_run. unfold stack_spec_b.
  set (rqb := configured_req R (shape_names pb)). set (rsb := configured_resp R (shape_names pb)).
  set (rqe := configured_req R (shape_names pe)). set (rse := configured_resp R (shape_names pe)).
  set (cb := plugin_run LBackend rqb rsb (backend_call r e)).
  set (ce := plugin_run LEndpoint rqe rse cb).
  assert (Hce : wf_outcome (snd ce)).
  { apply plugin_run_wf. apply plugin_run_wf. exact Hr. }
  unfold static_mw. destruct ce as [lg o]. simpl fst. simpl snd in *.
  destruct o as [r' e'|]; simpl fst; simpl snd; rewrite log_eqb_refl; [|reflexivity]. simpl.
  apply static_model_meets_oracle; [|exact Hce].
  destruct ss; simpl; auto.
Qed.

Lemma stack_model_meets_spec ss R pe pb r e :
  wf_sshape ss -> wf_resp r -> stack_spec ss R pe pb r e (endpoint_stack ss R pe pb r e).
Proof. intros. apply stack_spec_b_sound. apply stack_model_meets_oracle; assumption. Qed.

(* explicit position statements *)
Section StackExplicit.
  Variables (ss : sshape) (R : registry) (pe pb : pshape).
  Let rqe := configured_req R (shape_names pe).
  Let rse := configured_resp R (shape_names pe).
  Let rqb := configured_req R (shape_names pb).
  Let rsb := configured_resp R (shape_names pb).

  (* nothing fails: endpoint request modifiers, backend request modifiers, the backend,
     backend response modifiers, endpoint response modifiers; the static data is applied
     to the outcome of all of that *)
  Lemma stack_all_ok x :
    Forall notfail rqe -> Forall notfail rse -> Forall notfail rqb -> Forall notfail rsb ->
    endpoint_stack ss R pe pb (Some x) ENone =
    ((map (EvReq LEndpoint) (map fst rqe) ++ (map (EvReq LBackend) (map fst rqb) ++ [EvBackend] ++
        map (EvResp LBackend) (map fst rsb)) ++ map (EvResp LEndpoint) (map fst rse))%list,
     static_apply (static_cfg ss) (Some x) ENone).
  Proof.
    intros H1 H2 H3 H4. unfold endpoint_stack, backend_call.
    rewrite (all_ok_explicit LBackend R pb [EvBackend] x H3 H4).
    rewrite (all_ok_explicit LEndpoint R pe _ x H1 H2). reflexivity.
  Qed.

  (* a failing endpoint request modifier: nothing below it runs, and the static strategy is
     decided on (no response, that modifier's error) *)
  Lemma stack_endpoint_req_abort r e pre p post :
    rqe = (pre ++ (p, BFail) :: post)%list -> Forall notfail pre ->
    endpoint_stack ss R pe pb r e =
    (map (EvReq LEndpoint) (map fst pre ++ [p]),
     static_apply (static_cfg ss) None (EMod LEndpoint p)).
  Proof.
    intros H1 H2. unfold endpoint_stack.
    rewrite (req_abort_explicit LEndpoint R pe _ pre p post H1 H2). reflexivity.
  Qed.

  (* a failing backend response modifier: the endpoint response modifiers do not run (the
     endpoint layer sees an error), static data decided on (no response, that error) *)
  Lemma stack_backend_resp_abort x pre p post :
    Forall notfail rqe -> Forall notfail rqb -> rsb = (pre ++ (p, BFail) :: post)%list -> Forall notfail pre ->
    endpoint_stack ss R pe pb (Some x) ENone =
    ((map (EvReq LEndpoint) (map fst rqe) ++ (map (EvReq LBackend) (map fst rqb) ++ [EvBackend] ++
        map (EvResp LBackend) (map fst pre ++ [p])))%list,
     static_apply (static_cfg ss) None (EMod LBackend p)).
  Proof.
    intros H1 H2 H3 H4. unfold endpoint_stack, backend_call.
    rewrite (resp_abort_explicit LBackend R pb [EvBackend] x pre p post H2 H3 H4).
    rewrite (inner_error_explicit LEndpoint R pe _ None (EMod LBackend p) H1); [reflexivity|discriminate].
  Qed.
End StackExplicit.

(* plugin_spec (with eq) determines the log and the result: it is a function of the
   configuration and the inner computation, total by plugin_run_spec *)
Lemma runs_eqs l c f : runs l c f -> called l = c /\ failed l = f.
Proof. intros H. apply runs_fun in H as [-> ->]. auto. Qed.

Ltac use_runs :=
  repeat match goal with
         | Hr : runs _ _ _ |- _ =>
             let A := fresh "A" in let B := fresh "B" in
             apply runs_eqs in Hr; destruct Hr as [A B]; rewrite <- ?A in *; clear A
         end.

Ltac use_failed :=
  repeat match goal with B : failed ?l = _ |- context[failed ?l] => rewrite B end.

Lemma plugin_spec_fun lv rq rs inner out :
  plugin_spec eq lv rq rs inner out -> out = plugin_run lv rq rs inner.
Proof.
  intros H. unfold plugin_run. rewrite !run_mods_called_failed. destruct inner as [li oi].
  inversion H; subst; simpl in *; subst; use_runs; use_failed.
  - reflexivity.
  - reflexivity.
  - match goal with He : _ <> ENone |- _ => apply is_err_true in He; rewrite He end. reflexivity.
  - reflexivity.
  - simpl. destruct rs as [|m rs']; [simpl in *; discriminate|]. use_failed. reflexivity.
  - simpl. destruct rs as [|m rs']; [simpl; rewrite app_nil_r; reflexivity|]. use_failed. reflexivity.
  - simpl. destruct rs; reflexivity.
Qed.

Lemma plugin_run_no_panic lv rq rs li r e : snd (plugin_run lv rq rs (li, ORet r e)) <> OPanic.
Proof.
  unfold plugin_run. rewrite !run_mods_called_failed.
  destruct (failed rq); [simpl; discriminate|].
  destruct (is_err e); [simpl; discriminate|].
  destruct rs as [|m rs']; [simpl; discriminate|].
  destruct r as [x|]; [|simpl; discriminate].
  destruct (failed (m :: rs')); simpl; discriminate.
Qed.

Lemma plugin_mw_no_panic lv R s li r e : snd (plugin_mw lv R s (li, ORet r e)) <> OPanic.
Proof. rewrite plugin_mw_run. apply plugin_run_no_panic. Qed.
