(* C19 - proofs, part c: termination of the shutdown.  A natural-number measure on states
   (connections not yet served, running handlers, phase of the runner); after the cancellation
   every step of the runner or of a pending handler/connection strictly decreases it, every
   other step except a newly dialled connection leaves it unchanged; while the runner has not
   returned one such step is enabled.  Hence the runner returns within measure-many such steps. *)
Require Import Verif.Common.Base.
Require Import Verif.Model.C19 Verif.Spec.C19 Verif.Proof.C19_a Verif.Proof.C19.

Definition weight (o : option qst) : nat :=
  match o with Some QConn => 2 | Some QRun => 1 | _ => 0 end.
Definition phase (r : rst) : nat :=
  match r with RSelect => 3 | RShutdown => 2 | RShutRet _ => 1 | RReturned => 0 end.
Definition wsum (m : list (nat * qst)) : nat :=
  list_sum (map (fun k => weight (getq k m)) (dedup (map fst m))).
(* 2 per connection whose request has not started, 1 per running handler, plus the runner's phase *)
Definition measure (s : st) : nat := wsum (reqs s) + phase (runner s).

(* the steps of the runner, of the pending handlers and of the connections not yet served *)
Definition progress_step (e : event) : bool :=
  match e with
  | Accept _ | HandlerDone _ | Drop _ | ShutdownCall | ShutdownReturn _ | RunnerReturn _ => true
  | _ => false
  end.
Definition is_conn (e : event) : bool := match e with Conn _ => true | _ => false end.

(* ---- lists ---- *)
Lemma memn_In r l : memn r l = true <-> In r l.
Proof.
  induction l as [|x t IH]; simpl; [split; [discriminate|tauto]|].
  rewrite orb_true_iff, IH, Nat.eqb_eq. split; intros [H|H]; auto.
Qed.
Lemma dedup_In x l : In x (dedup l) <-> In x l.
Proof.
  induction l as [|y t IH]; simpl; [tauto|].
  destruct (memn y t) eqn:E.
  - rewrite IH. split; [auto|]. intros [H|H]; [subst; apply memn_In; exact E|exact H].
  - simpl. rewrite IH. tauto.
Qed.
Lemma dedup_NoDup l : NoDup (dedup l).
Proof.
  induction l as [|y t IH]; simpl; [constructor|].
  destruct (memn y t) eqn:E; [exact IH|].
  constructor; [|exact IH]. rewrite dedup_In. intros H. apply memn_In in H. congruence.
Qed.
Lemma getq_None_keys r m : getq r m = None -> memn r (map fst m) = false.
Proof.
  induction m as [|[k q] t IH]; simpl; [reflexivity|].
  destruct (Nat.eqb r k); [discriminate|]. simpl. exact IH.
Qed.
Lemma getq_Some_keys r m q : getq r m = Some q -> memn r (map fst m) = true.
Proof. intros H. apply memn_In. eapply getq_in_keys; eauto. Qed.

Lemma sum_same (f g : nat -> nat) l : (forall k, In k l -> g k = f k) ->
  list_sum (map g l) = list_sum (map f l).
Proof.
  induction l as [|x t IH]; simpl; intros H; [reflexivity|].
  rewrite H by auto. rewrite IH; auto.
Qed.
Lemma sum_change (f g : nat -> nat) r l : NoDup l -> In r l -> (forall k, k <> r -> g k = f k) ->
  list_sum (map g l) + f r = list_sum (map f l) + g r.
Proof.
  induction l as [|x t IH]; simpl; intros ND Hin H; [tauto|].
  inversion ND as [|? ? Hx ND']; subst. destruct Hin as [->|Hin].
  - rewrite (sum_same f g t); [lia|]. intros k Hk. apply H. intros ->. contradiction.
  - assert (x <> r) by (intros ->; contradiction). rewrite (H x) by assumption.
    specialize (IH ND' Hin H). lia.
Qed.

Lemma wsum_set_existing r q q0 m : getq r m = Some q0 ->
  wsum (setq r q m) + weight (Some q0) = wsum m + weight (Some q).
Proof.
  intros G. unfold wsum, setq. simpl map. simpl dedup. rewrite (getq_Some_keys _ _ _ G).
  rewrite <- G.
  replace (weight (Some q)) with ((fun k => weight (getq k ((r, q) :: m))) r)
    by (simpl; rewrite Nat.eqb_refl; reflexivity).
  apply (sum_change (fun k => weight (getq k m)) (fun k => weight (getq k ((r, q) :: m))) r).
  - apply dedup_NoDup.
  - apply dedup_In. eapply getq_in_keys; eauto.
  - intros k Hk. simpl. apply Nat.eqb_neq in Hk. rewrite Hk. reflexivity.
Qed.

Lemma wsum_set_new r q m : getq r m = None -> wsum (setq r q m) = wsum m + weight (Some q).
Proof.
  intros G. unfold wsum, setq. simpl map. simpl dedup. rewrite (getq_None_keys _ _ G).
  simpl. rewrite Nat.eqb_refl.
  rewrite (sum_same (fun k => weight (getq k m)) (fun k => weight (if Nat.eqb k r then Some q else getq k m))).
  - simpl. destruct q; lia.
  - intros k Hk. destruct (nat_eqb_cases k r) as [[E1 E2]|[E1 E2]]; rewrite E1; [|reflexivity].
    exfalso. apply (proj1 (dedup_In _ _)) in Hk. apply (proj2 (memn_In _ _)) in Hk. rewrite E2 in Hk.
    rewrite (getq_None_keys _ _ G) in Hk. discriminate.
Qed.

(* ---- the measure ---- *)
Lemma measure_decreases s e s' :
  step s e = Some s' -> progress_step e = true -> measure s' < measure s.
Proof.
  intros H P. unfold measure.
  ev_cases e; try discriminate P; inv_step H; simpl;
    try (match goal with G : getq ?r (reqs s) = Some ?q0 |- context [setq ?r ?q _] =>
           pose proof (wsum_set_existing r q q0 (reqs s) G) as W; simpl in W; lia end);
    try lia.
Qed.

Lemma measure_neutral s e s' :
  step s e = Some s' -> progress_step e = false -> is_conn e = false -> measure s' = measure s.
Proof.
  intros H P C. unfold measure.
  ev_cases e; try discriminate P; try discriminate C; inv_step H; simpl; try reflexivity;
    try (match goal with G : getq ?r (reqs s) = Some ?q0 |- context [setq ?r ?q _] =>
           pose proof (wsum_set_existing r q q0 (reqs s) G) as W; simpl in W; lia end);
    try (match goal with G : getq ?r (reqs s) = None |- context [setq ?r ?q _] =>
           pose proof (wsum_set_new r q (reqs s) G) as W; simpl in W; lia end);
    try (match goal with H : runner s = _ |- _ => rewrite H; reflexivity end).
Qed.

Lemma measure_conn s r s' : step s (Conn r) = Some s' -> measure s' = measure s + 2.
Proof.
  intros H. unfold measure. inv_step H. simpl.
  match goal with G : getq ?r (reqs s) = None |- _ => pose proof (wsum_set_new r QConn (reqs s) G) as W end.
  simpl in W. lia.
Qed.

Lemma canc_kept s e s' : step s e = Some s' -> canc s = true -> canc s' = true.
Proof. intros H C. ev_cases e; inv_step H; simpl; auto. Qed.

(* one step is always possible until the runner has returned (no deadlock) *)
Lemma progress_enabled s : canc s = true -> runner s <> RReturned ->
  exists e s', progress_step e = true /\ step s e = Some s'.
Proof.
  intros HC HR. destruct (shutdown_progress s HC HR) as [[_ H]|[[_ [H|[r [H|H]]]]|[b [_ H]]]].
  - destruct (step s ShutdownCall) eqn:E; [|congruence]. exists ShutdownCall; eauto.
  - destruct (step s (ShutdownReturn false)) eqn:E; [|congruence]. exists (ShutdownReturn false); eauto.
  - destruct (step s (Accept r)) eqn:E; [|congruence]. exists (Accept r); eauto.
  - destruct (step s (HandlerDone r)) eqn:E; [|congruence]. exists (HandlerDone r); eauto.
  - destruct (step s (RunnerReturn (if b then VOther else VNil))) eqn:E; [|congruence].
    exists (RunnerReturn (if b then VOther else VNil)); eauto.
Qed.

(* termination: from any cancelled state, taking enabled steps of the runner and of the pending
   handlers leads to the return of the runner within measure-many steps *)
Lemma shutdown_terminates_n n : forall s, measure s <= n -> canc s = true ->
  exists ls s', run s ls = Some s' /\ runner s' = RReturned /\
                Forall (fun e => progress_step e = true) ls /\ List.length ls <= measure s.
Proof.
  induction n as [|n IH]; intros s Hm HC.
  - destruct (runner s) eqn:ER; try (unfold measure in Hm; rewrite ER in Hm; simpl in Hm; lia).
    exists [], s. simpl. repeat split; auto. lia.
  - destruct (runner s) eqn:ER.
    1-3: (destruct (progress_enabled s HC) as (ev & s1 & P & E); [congruence|];
          pose proof (measure_decreases _ _ _ E P) as D;
          destruct (IH s1 ltac:(lia) (canc_kept _ _ _ E HC)) as (ls & s' & R & F & A & L);
          exists (ev :: ls), s'; simpl; rewrite E; repeat split; auto; simpl; lia).
    exists [], s. simpl. repeat split; auto. lia.
Qed.

Lemma shutdown_terminates s : canc s = true ->
  exists ls s', run s ls = Some s' /\ runner s' = RReturned /\
                Forall (fun e => progress_step e = true) ls /\ List.length ls <= measure s.
Proof. intros HC. exact (shutdown_terminates_n (measure s) s (le_n _) HC). Qed.

(* every schedule: without newly dialled connections, at most measure-many steps of the runner and
   of the pending handlers can happen at all *)
Fixpoint count_progress (ls : list event) : nat :=
  match ls with [] => 0 | e :: r => (if progress_step e then 1 else 0) + count_progress r end.

Lemma bounded_progress ls : forall s s', run s ls = Some s' -> canc s = true ->
  forallb (fun e => negb (is_conn e)) ls = true ->
  count_progress ls + measure s' <= measure s.
Proof.
  induction ls as [|e r IH]; simpl; intros s s' H HC NC.
  - inversion H; subst. lia.
  - destruct (step s e) as [s1|] eqn:E; [|discriminate].
    apply andb_true_iff in NC. destruct NC as [N1 N2]. apply negb_true_iff in N1.
    specialize (IH s1 s' H (canc_kept _ _ _ E HC) N2).
    destruct (progress_step e) eqn:P.
    + pose proof (measure_decreases _ _ _ E P). lia.
    + pose proof (measure_neutral _ _ _ E P N1). lia.
Qed.

(* a schedule that cannot be continued by any step of the runner or of a pending handler has the
   runner returned; with bounded_progress: every such maximal schedule ends with the return *)
Lemma stuck_means_returned s : canc s = true ->
  (forall e, progress_step e = true -> step s e = None) -> runner s = RReturned.
Proof.
  intros HC H. destruct (runner s) eqn:ER; auto;
    (destruct (progress_enabled s HC) as (ev & s1 & P & E); [congruence|rewrite (H ev P) in E; discriminate]).
Qed.

(* once Shutdown has returned, the return of the runner stays enabled until it is taken *)
Lemma return_stays_enabled s x : runner s = RShutRet x ->
  step s (RunnerReturn (if x then VOther else VNil)) <> None /\
  forall e s', step s e = Some s' ->
    (e = RunnerReturn (if x then VOther else VNil) /\ runner s' = RReturned) \/ runner s' = RShutRet x.
Proof.
  intros HR. split.
  - destruct x; simpl; rewrite HR; discriminate.
  - intros e s' H. ev_cases e; inv_step H; simpl; auto; try congruence;
      try (right; congruence);
      inversion HR; subst; left; split; reflexivity.
Qed.
