(* C18 - lemmas and proofs. *)
Require Import Verif.Common.Base Verif.Common.Json Verif.Common.JsonFacts.
Require Import Verif.Model.C18 Verif.Spec.C18.

(* ====================== static data ====================== *)

Lemma is_err_false e : is_err e = false <-> e = ENone.
Proof. destruct e; simpl; split; intros H; try reflexivity; try discriminate. Qed.
Lemma is_err_true e : is_err e = true <-> e <> ENone.
Proof. destruct e; simpl; split; intros H; try reflexivity; try discriminate; try congruence. Qed.

Lemma complete_of_resp r : complete_of r = true <-> complete_resp r.
Proof.
  unfold complete_resp. destruct r as [x|]; simpl; split.
  - intros H. exists x. auto.
  - intros [y [Hy Hc]]. inversion Hy; subst. exact Hc.
  - discriminate.
  - intros [y [Hy _]]. discriminate.
Qed.

Lemma impl_reflect n s b : (negb (str_eqb n s) || b) = true <-> (n = s -> b = true).
Proof.
  destruct (str_eqb n s) eqn:E; simpl.
  - apply str_eqb_eq in E. split; auto.
  - apply str_eqb_neq in E. split; [intros _ H; contradiction|reflexivity].
Qed.

Lemma holds_b_holds n r e : holds_b n r e = true <-> holds n r e.
Proof.
  unfold holds_b, holds. rewrite !andb_true_iff, !impl_reflect.
  rewrite negb_true_iff, andb_true_iff, !negb_true_iff, is_err_false.
  rewrite complete_of_resp.
  assert (Hn : complete_of r = false <-> ~ complete_resp r).
  { rewrite <- complete_of_resp. destruct (complete_of r); split; congruence. }
  rewrite Hn. rewrite is_err_true. tauto.
Qed.

Lemma strategy_match_holds_b n r e : strategy_match n r e = holds_b n r e.
Proof.
  unfold strategy_match.
  destruct (str_eqb n "always") eqn:E1; [apply str_eqb_eq in E1; subst; reflexivity|].
  destruct (str_eqb n "success") eqn:E2.
  { apply str_eqb_eq in E2; subst. unfold holds_b, match_success; simpl.
    rewrite !andb_true_r. reflexivity. }
  destruct (str_eqb n "errored") eqn:E3.
  { apply str_eqb_eq in E3; subst. unfold holds_b, match_errored; simpl.
    rewrite !andb_true_r. reflexivity. }
  destruct (str_eqb n "complete") eqn:E4.
  { apply str_eqb_eq in E4; subst. unfold holds_b, match_complete, complete_of; simpl.
    rewrite !andb_true_r. reflexivity. }
  destruct (str_eqb n "incomplete") eqn:E5.
  { apply str_eqb_eq in E5; subst. unfold holds_b, match_incomplete, complete_of; simpl.
    destruct r; reflexivity. }
  unfold holds_b. rewrite E2, E3, E4, E5. reflexivity.
Qed.

Lemma strategy_match_holds n r e : strategy_match n r e = true <-> holds n r e.
Proof. rewrite strategy_match_holds_b. apply holds_b_holds. Qed.

(* the table of the statement *)
Lemma holds_table r e :
  (holds "always" r e <-> True) /\
  (holds "success" r e <-> e = ENone) /\
  (holds "errored" r e <-> e <> ENone) /\
  (holds "complete" r e <-> e = ENone /\ complete_resp r) /\
  (holds "incomplete" r e <-> (r = None \/ exists x, r = Some x /\ r_complete x = false)) /\
  (forall n, n <> "success" -> n <> "errored" -> n <> "complete" -> n <> "incomplete" -> holds n r e).
Proof.
  unfold holds. split; [split; [trivial|intros _; repeat split; discriminate]|]. split.
  { split; [intros [H _]; apply H; reflexivity|].
    intros He. repeat split; try discriminate; auto. }
  split.
  { split; [intros [_ [H _]]; apply H; reflexivity|].
    intros He. repeat split; try discriminate; auto. }
  split.
  { split; [intros [_ [_ [H _]]]; apply H; reflexivity|].
    intros He. repeat split; try discriminate; tauto. }
  split.
  { split.
    - intros [_ [_ [_ H]]]. specialize (H eq_refl). destruct r as [x|]; [|left; reflexivity].
      right. exists x. split; [reflexivity|]. destruct (r_complete x) eqn:E; [|reflexivity].
      exfalso. apply H. exists x. auto.
    - intros Hc. repeat split; try discriminate. intros _ [y [Hy Hcy]].
      destruct Hc as [Hc|[x [Hx Hcx]]]; [subst; discriminate|]. rewrite Hx in Hy. inversion Hy; subst. congruence. }
  intros n H1 H2 H3 H4. repeat split; intros; contradiction.
Qed.

Lemma lookup_app {V} k (a b : list (string * V)) :
  lookup k (a ++ b)%list = match lookup k a with Some v => Some v | None => lookup k b end.
Proof.
  induction a as [|[k' v] a IH]; simpl; [reflexivity|].
  destruct (str_eqb k k'); [reflexivity|exact IH].
Qed.

Lemma mem_lookup {V} k (m : list (string * V)) : mem k m = false <-> lookup k m = None.
Proof. unfold mem. destruct (lookup k m); split; congruence. Qed.

Lemma lookup_filter_notin k (d b : obj) :
  lookup k d = None ->
  lookup k (filter (fun kv => negb (mem (fst kv) d)) b) = lookup k b.
Proof.
  intros Hd. induction b as [|[k' v] b IH]; simpl; [reflexivity|].
  destruct (mem k' d) eqn:M; simpl.
  - destruct (str_eqb k k') eqn:E; [|exact IH].
    apply str_eqb_eq in E. subst k'. apply mem_lookup in Hd. congruence.
  - destruct (str_eqb k k'); [reflexivity|exact IH].
Qed.

Lemma lookup_overlay k d b : lookup k (overlay d b) = match lookup k d with Some v => Some v | None => lookup k b end.
Proof.
  unfold overlay. rewrite lookup_app. destruct (lookup k d) eqn:E; [reflexivity|].
  apply lookup_filter_notin. exact E.
Qed.

Lemma static_exact d name r e :
  (holds name r e ->
     exists m, static_apply (Some (d, name)) r e =
               ORet (Some {| r_data := Some m; r_complete := complete_of r |}) e /\
               forall k, lookup k m = expected_field d r k) /\
  (~ holds name r e -> static_apply (Some (d, name)) r e = ORet r e).
Proof.
  unfold static_apply. split; intros H.
  - apply strategy_match_holds in H. rewrite H. eexists. split; [reflexivity|].
    intros k. apply lookup_overlay.
  - destruct (strategy_match name r e) eqn:E; [|reflexivity].
    apply strategy_match_holds in E. contradiction.
Qed.

Lemma static_unconfigured s r e :
  (forall d st, s <> ShOk d st) -> static_apply (static_cfg s) r e = ORet r e.
Proof. intros H. destruct s; try reflexivity. exfalso. eapply H. reflexivity. Qed.

(* ====================== modifiers ====================== *)

Lemma run_mods_called_failed l : run_mods l = (called l, failed l).
Proof.
  induction l as [|[p b] r IH]; simpl; [reflexivity|].
  destruct (is_fail b); [reflexivity|]. rewrite IH. reflexivity.
Qed.

Lemma is_fail_true b : is_fail b = true <-> b = BFail.
Proof. destruct b; simpl; split; congruence. Qed.

Lemma runs_called_failed l : runs l (called l) (failed l).
Proof.
  induction l as [|[p b] r IH]; simpl; [constructor|].
  destruct (is_fail b) eqn:E.
  - apply is_fail_true in E. subst. constructor.
  - constructor; [|exact IH]. intros ->. discriminate.
Qed.

Lemma runs_fun l c f : runs l c f -> c = called l /\ f = failed l.
Proof.
  induction 1; simpl; auto.
  destruct (is_fail b) eqn:E; [apply is_fail_true in E; contradiction|].
  destruct IHruns as [-> ->]. auto.
Qed.

Lemma numbered_cons {A} p (x : A) l : numbered p (x :: l) = (p, x) :: numbered (S p) l.
Proof. reflexivity. Qed.

Definition pick (want : reg -> bool) (R : registry) (p : nat) (l : list (centry * beh)) : mods :=
  map (fun x => (fst x, snd (snd x))) (filter (selected want R) (numbered p l)).

Lemma pick_cons want R p c b r :
  pick want R p ((c, b) :: r) =
  if selected want R (p, (c, b)) then (p, b) :: pick want R (S p) r else pick want R (S p) r.
Proof.
  unfold pick. rewrite numbered_cons. simpl filter.
  destruct (selected want R (p, (c, b))); reflexivity.
Qed.

Lemma resolve_pick R l : forall p, resolve R p l = (pick as_request R p l, pick as_response R p l).
Proof.
  induction l as [|[c b] r IH]; intros p; [reflexivity|].
  simpl resolve. rewrite IH, !pick_cons. unfold selected. simpl fst; simpl snd.
  destruct c as [n|]; [|reflexivity].
  destruct (lookup n R) as [[| |]|]; destruct b; reflexivity.
Qed.

Lemma resolve_configured R l : resolve R 0 l = (configured_req R l, configured_resp R l).
Proof. apply resolve_pick. Qed.

Lemma plugin_run_spec lv rq rs inner : plugin_spec eq lv rq rs inner (plugin_run lv rq rs inner).
Proof.
  unfold plugin_run. rewrite run_mods_called_failed.
  pose proof (runs_called_failed rq) as Hq.
  destruct (failed rq) as [p|] eqn:Fq.
  - eapply ps_req_abort; [exact Hq|reflexivity].
  - destruct inner as [li oi]. destruct oi as [r e|].
    + destruct (is_err e) eqn:Ee.
      * apply (ps_inner_error eq lv rq rs (li, ORet r e) (called rq) r e); auto.
        apply is_err_true. exact Ee.
      * apply is_err_false in Ee. subst e.
        destruct rs as [|m rs'].
        { apply (ps_no_resp_mods eq lv rq [] (li, ORet r ENone) (called rq) r); auto. }
        destruct r as [x|].
        { rewrite run_mods_called_failed.
          pose proof (runs_called_failed (m :: rs')) as Hs.
          destruct (failed (m :: rs')) as [p|] eqn:Fs.
          - apply (ps_resp_abort eq lv rq (m :: rs') (li, ORet (Some x) ENone) (called rq) x _ p); auto.
          - apply (ps_done eq lv rq (m :: rs') (li, ORet (Some x) ENone) (called rq) x _); auto. }
        { apply (ps_no_response eq lv rq (m :: rs') (li, ORet None ENone) (called rq)); auto. }
    + apply (ps_inner_panic eq lv rq rs (li, OPanic) (called rq)); auto.
Qed.

Lemma plugin_run_empty lv inner : plugin_run lv [] [] inner = inner.
Proof.
  unfold plugin_run; simpl. destruct inner as [li [r e|]]; [|reflexivity].
  destruct (is_err e); reflexivity.
Qed.

Lemma plugin_mw_run lv R s inner :
  plugin_mw lv R s inner =
  plugin_run lv (configured_req R (shape_names s)) (configured_resp R (shape_names s)) inner.
Proof.
  destruct s; simpl; try (symmetry; apply plugin_run_empty).
  rewrite resolve_configured.
  destruct (configured_req R l); [|reflexivity].
  destruct (configured_resp R l); [|reflexivity].
  symmetry; apply plugin_run_empty.
Qed.

Lemma plugin_mw_spec lv R s inner : layer_spec lv R s inner (plugin_mw lv R s inner).
Proof. unfold layer_spec. rewrite plugin_mw_run. apply plugin_run_spec. Qed.
