(* C20 - proofs, part 5: what the boolean oracle over recorded histories means (soundness of
   valid_read / hist_ok w.r.t. the Prop reading of "either the previous or the newly registered
   value"), and the link with the sequential model: every single-goroutine history the model
   produces passes the oracle's per-lookup test in its sequential form. *)
Require Import Verif.Common.Base Verif.Common.LockEv Verif.Model.C20 Verif.Spec.C20.
Open Scope Z_scope.

(* a registration of k that was invoked after time t0 and had returned before time inv *)
Definition Superseded (ws : list hwrite) (k : string) (t0 inv : Z) : Prop :=
  exists v i r, In (k, v, i, r) ws /\ r < inv /\ t0 < i.

(* the lookup of k, invoked at inv and returned at ret, yielded res *)
Definition ValidRead (init : rmap) (ws : list hwrite) (k : string) (res : option Z) (inv ret : Z) : Prop :=
  match res with
  | None =>
      (* nothing was there initially and no registration of k had returned before the invocation *)
      lookup k init = None /\ forall v i r, In (k, v, i, r) ws -> ~ r < inv
  | Some v =>
      (* the initial value, not yet superseded at the invocation ... *)
      (lookup k init = Some v /\ ~ Superseded ws k 0 inv) \/
      (* ... or the value of a registration invoked before the lookup returned and not superseded
         (by a registration that began after it returned) before the lookup was invoked *)
      (exists i r, In (k, v, i, r) ws /\ i < ret /\ ~ Superseded ws k r inv)
  end.

Lemma on_key_In k ws v i r : In (v, i, r) (on_key k ws) <-> In (k, v, i, r) ws.
Proof.
  unfold on_key. rewrite in_flat_map. split.
  - intros [[[[k' v'] i'] r'] [Hin H]]. destruct (str_eqb k k') eqn:E; [|destruct H].
    apply str_eqb_eq in E. subst k'. destruct H as [H|[]]. inversion H; subst. exact Hin.
  - intros Hin. exists (k, v, i, r). split; [exact Hin|]. rewrite str_eqb_refl. left; reflexivity.
Qed.

Lemma superseded_iff ws k t0 inv : superseded (on_key k ws) t0 inv = true <-> Superseded ws k t0 inv.
Proof.
  unfold superseded, Superseded. rewrite existsb_exists. split.
  - intros [[[v i] r] [Hin H]]. apply on_key_In in Hin. apply andb_true_iff in H. destruct H as [H1 H2].
    apply Z.ltb_lt in H1. apply Z.ltb_lt in H2. exists v, i, r. auto.
  - intros [v [i [r [Hin [H1 H2]]]]]. exists (v, i, r). split; [apply on_key_In; exact Hin|].
    apply andb_true_iff. split; apply Z.ltb_lt; assumption.
Qed.

Lemma not_superseded_iff ws k t0 inv : negb (superseded (on_key k ws) t0 inv) = true <-> ~ Superseded ws k t0 inv.
Proof.
  rewrite negb_true_iff. rewrite <- superseded_iff. destruct (superseded (on_key k ws) t0 inv); split; intros H.
  - discriminate.
  - exfalso. apply H. reflexivity.
  - discriminate.
  - reflexivity.
Qed.

Lemma valid_read_iff init ws k res inv ret :
  valid_read init ws k res inv ret = true <-> ValidRead init ws k res inv ret.
Proof.
  unfold valid_read, ValidRead. destruct res as [v|].
  - rewrite orb_true_iff. split.
    + intros [H|H].
      * left. destruct (lookup k init) as [v0|]; [|discriminate]. apply andb_true_iff in H. destruct H as [H1 H2].
        apply Z.eqb_eq in H1. subst v0. split; [reflexivity|]. apply not_superseded_iff. exact H2.
      * right. apply existsb_exists in H. destruct H as [[[v' i] r] [Hin H]]. apply on_key_In in Hin.
        apply andb_true_iff in H. destruct H as [H H3]. apply andb_true_iff in H. destruct H as [H1 H2].
        apply Z.eqb_eq in H1. subst v'. apply Z.ltb_lt in H2. exists i, r.
        split; [exact Hin|split; [exact H2|apply not_superseded_iff; exact H3]].
    + intros [[H1 H2]|[i [r [Hin [H2 H3]]]]].
      * left. rewrite H1. rewrite Z.eqb_refl. simpl. apply not_superseded_iff. exact H2.
      * right. apply existsb_exists. exists (v, i, r). split; [apply on_key_In; exact Hin|].
        rewrite Z.eqb_refl. simpl. apply andb_true_iff. split; [apply Z.ltb_lt; exact H2|apply not_superseded_iff; exact H3].
  - destruct (lookup k init) as [v0|].
    + split; [discriminate|intros [H _]; discriminate].
    + rewrite negb_true_iff. split.
      * intros H. split; [reflexivity|]. intros v i r Hin Hlt.
        assert (existsb (fun w : Z * Z * Z => let '(_, _, r') := w in r' <? inv) (on_key k ws) = true).
        { apply existsb_exists. exists (v, i, r). split; [apply on_key_In; exact Hin|apply Z.ltb_lt; exact Hlt]. }
        congruence.
      * intros [_ H]. destruct (existsb _ (on_key k ws)) eqn:E; [|reflexivity].
        apply existsb_exists in E. destruct E as [[[v i] r] [Hin Hlt]]. apply on_key_In in Hin.
        apply Z.ltb_lt in Hlt. exfalso. exact (H v i r Hin Hlt).
Qed.

(* soundness of the history oracle: in a history it accepts every lookup is a ValidRead *)
Lemma hist_ok_sound init evs : hist_ok init evs = true ->
  forall k res inv ret, In (RGet k res, inv, ret) evs -> ValidRead init (writes_of evs) k res inv ret.
Proof.
  unfold hist_ok. intros H k res inv ret Hin. rewrite forallb_forall in H.
  specialize (H _ Hin). simpl in H. apply valid_read_iff. exact H.
Qed.

(* ------------------------------------------------------------------------------------ *)
(* the sequential model meets the history oracle: for every initial contents and every sequence
   of operations, the history the model produces (operation j occupies the tickets 2j+1, 2j+2,
   results and final contents as computed by seq_run) passes hist_ok and final_ok *)
Section SeqMeetsOracle.
  Variable init : rmap.

  Definition chk (ws : list hwrite) (e : hev) : bool :=
    match e with
    | (RReg _ _, _, _) => true
    | (RGet k res, i, r) => valid_read init ws k res i r
    | (RClone snap, i, r) => valid_snapshot init ws snap i r
    end.

  Lemma hist_ok_chk evs : hist_ok init evs = forallb (chk (writes_of evs)) evs.
  Proof. reflexivity. Qed.

  Definition outs (d : rmap) (ops : list rop) : list rop := fst (seq_run d ops).
  Definition fin (d : rmap) (ops : list rop) : rmap := snd (seq_run d ops).

  Lemma outs_reg d k v r : outs d (RReg k v :: r) = RReg k v :: outs (set k v d) r.
  Proof. unfold outs. simpl. destruct (seq_run (set k v d) r). reflexivity. Qed.
  Lemma outs_get d k x r : outs d (RGet k x :: r) = RGet k (lookup k d) :: outs d r.
  Proof. unfold outs. simpl. destruct (seq_run d r). reflexivity. Qed.
  Lemma outs_clone d x r : outs d (RClone x :: r) = RClone d :: outs d r.
  Proof. unfold outs. simpl. destruct (seq_run d r). reflexivity. Qed.
  Lemma fin_reg d k v r : fin d (RReg k v :: r) = fin (set k v d) r.
  Proof. unfold fin. simpl. destruct (seq_run (set k v d) r). reflexivity. Qed.
  Lemma fin_get d k x r : fin d (RGet k x :: r) = fin d r.
  Proof. unfold fin. simpl. destruct (seq_run d r). reflexivity. Qed.
  Lemma fin_clone d x r : fin d (RClone x :: r) = fin d r.
  Proof. unfold fin. simpl. destruct (seq_run d r). reflexivity. Qed.

  (* the writes of a sequential history starting at operation number n *)
  Lemma suffix_bounds ops : forall n, 0 <= n ->
    forall k v i r, In (k, v, i, r) (writes_of (seq_hist n ops)) -> 2 * n < i /\ r = i + 1.
  Proof.
    induction ops as [|o rest IH]; intros n Hn k v i r Hin; [destruct Hin|].
    destruct o as [k0 v0|k0 x|x]; cbn [seq_hist writes_of flat_map app] in Hin.
    - destruct Hin as [Hin|Hin].
      + assert (Ei : 2 * n + 1 = i /\ 2 * n + 2 = r) by (split; congruence). lia.
      + destruct (IH (n + 1) ltac:(lia) k v i r Hin). lia.
    - destruct (IH (n + 1) ltac:(lia) k v i r Hin). lia.
    - destruct (IH (n + 1) ltac:(lia) k v i r Hin). lia.
  Qed.

  (* d is what the registrations P (all returned by time 2n) made of the initial contents *)
  Definition SInv (d : rmap) (n : Z) (P : list hwrite) : Prop :=
    (forall k v i r, In (k, v, i, r) P -> 0 < i /\ i < r /\ r <= 2 * n) /\
    forall k,
      match lookup k d with
      | Some v =>
          (lookup k init = Some v /\ forall v' i r, ~ In (k, v', i, r) P) \/
          (exists i r, In (k, v, i, r) P /\ forall v' i' r', In (k, v', i', r') P -> ~ r < i')
      | None => lookup k init = None /\ forall v' i r, ~ In (k, v', i, r) P
      end.

  Lemma sinv_valid d n P S k inv ret :
    SInv d n P ->
    (forall k v i r, In (k, v, i, r) S -> ~ r < inv) ->
    (forall k v i r, In (k, v, i, r) P -> i < ret) ->
    ValidRead init (P ++ S) k (lookup k d) inv ret.
  Proof.
    intros [Hb Hst] HS HP. specialize (Hst k). unfold ValidRead.
    destruct (lookup k d) as [v|].
    - destruct Hst as [[Hi Hno]|[i [r [Hin Hlast]]]].
      + left. split; [exact Hi|]. intros [v' [i' [r' [Hin' [H1 H2]]]]].
        apply in_app_or in Hin'. destruct Hin' as [Hin'|Hin']; [exact (Hno _ _ _ Hin')|exact (HS _ _ _ _ Hin' H1)].
      + right. exists i, r. split; [apply in_or_app; left; exact Hin|]. split; [exact (HP _ _ _ _ Hin)|].
        intros [v' [i' [r' [Hin' [H1 H2]]]]].
        apply in_app_or in Hin'. destruct Hin' as [Hin'|Hin']; [exact (Hlast _ _ _ Hin' H2)|exact (HS _ _ _ _ Hin' H1)].
    - destruct Hst as [Hi Hno]. split; [exact Hi|]. intros v i r Hin.
      apply in_app_or in Hin. destruct Hin as [Hin|Hin]; [exfalso; exact (Hno _ _ _ Hin)|exact (HS _ _ _ _ Hin)].
  Qed.

  Lemma sinv_next d n P : 0 <= n -> SInv d n P -> SInv d (n + 1) P.
  Proof.
    intros Hn [Hb Hst]. split; [|exact Hst]. intros k v i r Hin. destruct (Hb _ _ _ _ Hin) as [A [B C]]. lia.
  Qed.

  Lemma sinv_reg d n P k v : 0 <= n -> SInv d n P ->
    SInv (set k v d) (n + 1) (P ++ [(k, v, 2 * n + 1, 2 * n + 2)]).
  Proof.
    intros Hn [Hb Hst]. split.
    - intros k0 v0 i r Hin. apply in_app_or in Hin. destruct Hin as [Hin|[Hin|[]]].
      + destruct (Hb _ _ _ _ Hin) as [A [B C]]. lia.
      + assert (Ei : 2 * n + 1 = i /\ 2 * n + 2 = r) by (split; congruence). lia.
    - intros k0. rewrite lookup_set. destruct (str_eqb k0 k) eqn:E.
      + apply str_eqb_eq in E. subst k0. right. exists (2 * n + 1), (2 * n + 2).
        split; [apply in_or_app; right; left; reflexivity|].
        intros v' i' r' Hin. apply in_app_or in Hin. destruct Hin as [Hin|[Hin|[]]].
        * destruct (Hb _ _ _ _ Hin) as [A [B C]]. lia.
        * assert (Ei : 2 * n + 1 = i') by congruence. lia.
      + apply str_eqb_neq in E.
        assert (Hmem : forall v' i r, In (k0, v', i, r) (P ++ [(k, v, 2 * n + 1, 2 * n + 2)]) -> In (k0, v', i, r) P).
        { intros v' i r Hin. apply in_app_or in Hin. destruct Hin as [Hin|[Hin|[]]]; [exact Hin|].
          assert (k = k0) by congruence. congruence. }
        specialize (Hst k0). destruct (lookup k0 d) as [v0|].
        * destruct Hst as [[Hi Hno]|[i [r [Hin Hlast]]]].
          -- left. split; [exact Hi|]. intros v' i r Hin. exact (Hno _ _ _ (Hmem _ _ _ Hin)).
          -- right. exists i, r. split; [apply in_or_app; left; exact Hin|].
             intros v' i' r' Hin'. exact (Hlast _ _ _ (Hmem _ _ _ Hin')).
        * destruct Hst as [Hi Hno]. split; [exact Hi|]. intros v' i r Hin. exact (Hno _ _ _ (Hmem _ _ _ Hin)).
  Qed.

  Lemma sinv_snapshot d n P S inv ret :
    SInv d n P ->
    (forall k v i r, In (k, v, i, r) S -> ~ r < inv) ->
    (forall k v i r, In (k, v, i, r) P -> i < ret) ->
    valid_snapshot init (P ++ S) d inv ret = true.
  Proof.
    intros HI HS HP. unfold valid_snapshot. apply forallb_forall. intros k _.
    apply valid_read_iff. eapply sinv_valid; eauto.
  Qed.

  Lemma fb_cons {A} (f : A -> bool) a l : forallb f (a :: l) = f a && forallb f l.
  Proof. reflexivity. Qed.

  Lemma seq_main ops : forall n d P, 0 <= n -> SInv d n P ->
    let H := seq_hist n (outs d ops) in
    forallb (chk (P ++ writes_of H)) H = true /\
    exists n', n <= n' /\ SInv (fin d ops) n' (P ++ writes_of H).
  Proof.
    induction ops as [|o rest IH]; intros n d P Hn HI; cbv zeta.
    - simpl. split; [reflexivity|]. exists n. split; [lia|]. rewrite app_nil_r. exact HI.
    - assert (Hsuf : forall evs, forall k v i r, In (k, v, i, r) (writes_of (seq_hist (n + 1) evs)) -> ~ r < 2 * n + 1).
      { intros evs k v i r Hin. destruct (suffix_bounds evs (n + 1) ltac:(lia) k v i r Hin). lia. }
      assert (HP : forall k v i r, In (k, v, i, r) P -> i < 2 * n + 2).
      { intros k v i r Hin. destruct (proj1 HI _ _ _ _ Hin) as [A [B C]]. lia. }
      destruct o as [k v|k x|x].
      + rewrite outs_reg, fin_reg. cbn [seq_hist].
        change (writes_of ((RReg k v, 2 * n + 1, 2 * n + 2) :: seq_hist (n + 1) (outs (set k v d) rest)))
          with ((k, v, 2 * n + 1, 2 * n + 2) :: writes_of (seq_hist (n + 1) (outs (set k v d) rest))).
        replace (P ++ (k, v, 2 * n + 1, 2 * n + 2) :: writes_of (seq_hist (n + 1) (outs (set k v d) rest)))
          with ((P ++ [(k, v, 2 * n + 1, 2 * n + 2)]) ++ writes_of (seq_hist (n + 1) (outs (set k v d) rest)))
          by (rewrite <- app_assoc; reflexivity).
        destruct (IH (n + 1) (set k v d) (P ++ [(k, v, 2 * n + 1, 2 * n + 2)]) ltac:(lia) (sinv_reg d n P k v Hn HI)) as [H1 [n' [Hn' H2]]].
        cbv zeta in H1, H2. split.
        * rewrite fb_cons. cbn [chk andb]. exact H1.
        * exists n'. split; [lia|exact H2].
      + rewrite outs_get, fin_get. cbn [seq_hist].
        change (writes_of ((RGet k (lookup k d), 2 * n + 1, 2 * n + 2) :: seq_hist (n + 1) (outs d rest)))
          with (writes_of (seq_hist (n + 1) (outs d rest))).
        destruct (IH (n + 1) d P ltac:(lia) (sinv_next d n P Hn HI)) as [H1 [n' [Hn' H2]]].
        cbv zeta in H1, H2. split.
        * rewrite fb_cons. cbn [chk]. rewrite H1, andb_true_r. apply valid_read_iff.
          eapply sinv_valid; [exact HI|apply Hsuf|exact HP].
        * exists n'. split; [lia|exact H2].
      + rewrite outs_clone, fin_clone. cbn [seq_hist].
        change (writes_of ((RClone d, 2 * n + 1, 2 * n + 2) :: seq_hist (n + 1) (outs d rest)))
          with (writes_of (seq_hist (n + 1) (outs d rest))).
        destruct (IH (n + 1) d P ltac:(lia) (sinv_next d n P Hn HI)) as [H1 [n' [Hn' H2]]].
        cbv zeta in H1, H2. split.
        * rewrite fb_cons. cbn [chk]. rewrite H1, andb_true_r.
          eapply sinv_snapshot; [exact HI|apply Hsuf|exact HP].
        * exists n'. split; [lia|exact H2].
  Qed.

  Lemma end_time_gt evs : forall k v i r, In (k, v, i, r) (writes_of evs) -> r < end_time evs.
  Proof.
    unfold end_time. induction evs as [|e rest IH]; intros k v i r Hin; [destruct Hin|].
    destruct e as [[o i0] r0]. cbn [fold_right snd].
    destruct o as [k0 v0|k0 x|x]; cbn [writes_of flat_map app] in Hin.
    - destruct Hin as [Hin|Hin].
      + assert (r0 = r) by congruence. subst. lia.
      + specialize (IH _ _ _ _ Hin). lia.
    - specialize (IH _ _ _ _ Hin). lia.
    - specialize (IH _ _ _ _ Hin). lia.
  Qed.

  Lemma sinv_init : SInv init 0 [].
  Proof.
    split; [intros k v i r []|]. intros k. destruct (lookup k init) as [v|].
    - left. split; [reflexivity|]. intros v' i r [].
    - split; [reflexivity|]. intros v' i r [].
  Qed.

  Lemma seq_model_meets_history_oracle ops :
    hist_ok init (seq_hist 0 (fst (seq_run init ops))) = true /\
    final_ok init (seq_hist 0 (fst (seq_run init ops))) (snd (seq_run init ops)) = true.
  Proof.
    destruct (seq_main ops 0 init [] ltac:(lia) sinv_init) as [H1 [n' [Hn' H2]]]. cbv zeta in H1, H2.
    simpl app in H1, H2. fold (outs init ops) (fin init ops). split.
    - rewrite hist_ok_chk. exact H1.
    - unfold final_ok.
      replace (writes_of (seq_hist 0 (outs init ops))) with (writes_of (seq_hist 0 (outs init ops)) ++ []) by apply app_nil_r.
      eapply sinv_snapshot; [exact H2|intros k v i r []|].
      intros k v i r Hin. pose proof (end_time_gt _ _ _ _ _ Hin). destruct (proj1 H2 _ _ _ _ Hin) as [A [B C]]. lia.
  Qed.

  (* the same at the Prop level, for every key (used for the machine's own histories) *)
  Definition chkP (ws : list hwrite) (e : hev) : Prop :=
    match e with
    | (RReg _ _, _, _) => True
    | (RGet k res, i, r) => ValidRead init ws k res i r
    | (RClone snap, i, r) => forall k, ValidRead init ws k (lookup k snap) i r
    end.

  Lemma seq_mainP ops : forall n d P, 0 <= n -> SInv d n P ->
    let H := seq_hist n (outs d ops) in Forall (chkP (P ++ writes_of H)) H.
  Proof.
    induction ops as [|o rest IH]; intros n d P Hn HI; cbv zeta.
    - constructor.
    - assert (Hsuf : forall evs, forall k v i r, In (k, v, i, r) (writes_of (seq_hist (n + 1) evs)) -> ~ r < 2 * n + 1).
      { intros evs k v i r Hin. destruct (suffix_bounds evs (n + 1) ltac:(lia) k v i r Hin). lia. }
      assert (HP : forall k v i r, In (k, v, i, r) P -> i < 2 * n + 2).
      { intros k v i r Hin. destruct (proj1 HI _ _ _ _ Hin) as [A [B C]]. lia. }
      destruct o as [k v|k x|x].
      + rewrite outs_reg. cbn [seq_hist].
        change (writes_of ((RReg k v, 2 * n + 1, 2 * n + 2) :: seq_hist (n + 1) (outs (set k v d) rest)))
          with ((k, v, 2 * n + 1, 2 * n + 2) :: writes_of (seq_hist (n + 1) (outs (set k v d) rest))).
        replace (P ++ (k, v, 2 * n + 1, 2 * n + 2) :: writes_of (seq_hist (n + 1) (outs (set k v d) rest)))
          with ((P ++ [(k, v, 2 * n + 1, 2 * n + 2)]) ++ writes_of (seq_hist (n + 1) (outs (set k v d) rest)))
          by (rewrite <- app_assoc; reflexivity).
        constructor; [exact I|].
        exact (IH (n + 1) (set k v d) (P ++ [(k, v, 2 * n + 1, 2 * n + 2)]) ltac:(lia) (sinv_reg d n P k v Hn HI)).
      + rewrite outs_get. cbn [seq_hist].
        change (writes_of ((RGet k (lookup k d), 2 * n + 1, 2 * n + 2) :: seq_hist (n + 1) (outs d rest)))
          with (writes_of (seq_hist (n + 1) (outs d rest))).
        constructor; [|exact (IH (n + 1) d P ltac:(lia) (sinv_next d n P Hn HI))].
        cbn [chkP]. eapply sinv_valid; [exact HI|apply Hsuf|exact HP].
      + rewrite outs_clone. cbn [seq_hist].
        change (writes_of ((RClone d, 2 * n + 1, 2 * n + 2) :: seq_hist (n + 1) (outs d rest)))
          with (writes_of (seq_hist (n + 1) (outs d rest))).
        constructor; [|exact (IH (n + 1) d P ltac:(lia) (sinv_next d n P Hn HI))].
        cbn [chkP]. intros k. eapply sinv_valid; [exact HI|apply Hsuf|exact HP].
  Qed.

  Lemma seq_histP ops :
    Forall (chkP (writes_of (seq_hist 0 (outs init ops)))) (seq_hist 0 (outs init ops)).
  Proof. exact (seq_mainP ops 0 init [] ltac:(lia) sinv_init). Qed.

  (* the boolean oracle from the Prop-level facts *)
  Lemma hist_ok_of_chkP evs : Forall (chkP (writes_of evs)) evs -> hist_ok init evs = true.
  Proof.
    intros H. rewrite hist_ok_chk. apply forallb_forall. intros e Hin.
    rewrite Forall_forall in H. specialize (H e Hin). destruct e as [[o i] r]. destruct o as [k v|k res|snap]; cbn [chk].
    - reflexivity.
    - apply valid_read_iff. exact H.
    - unfold valid_snapshot. apply forallb_forall. intros k _. apply valid_read_iff. apply H.
  Qed.
End SeqMeetsOracle.
