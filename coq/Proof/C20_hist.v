(* C20 - proofs, part 5: what the boolean oracle over recorded histories means (soundness of
   valid_read / hist_ok w.r.t. the Prop reading of "either the previous or the newly registered
   value"), and the link with the sequential model: every single-goroutine history the model
   produces passes the oracle's per-lookup test in its sequential form. *)
Require Import Verif.Common.Base Verif.Common.LockEv Verif.Model.C20 Verif.Spec.C20.
Open Scope Z_scope.

(* a registration of k that was invoked after time t0 and had returned before time inv *)
Definition Superseded (ws : list hwrite) (k : string) (t0 inv : Z) : Prop :=
  exists v i r, In (k, v, i, r) ws /\ r < inv /\ t0 < i.

(* the lookup of k, invoked at inv and returned at ret, yielded res *)
Definition ValidRead (init : rmap) (ws : list hwrite) (k : string) (res : option Z) (inv ret : Z) : Prop :=
  match res with
  | None =>
      (* nothing was there initially and no registration of k had returned before the invocation *)
      lookup k init = None /\ forall v i r, In (k, v, i, r) ws -> ~ r < inv
  | Some v =>
      (* the initial value, not yet superseded at the invocation ... *)
      (lookup k init = Some v /\ ~ Superseded ws k 0 inv) \/
      (* ... or the value of a registration invoked before the lookup returned and not superseded
         (by a registration that began after it returned) before the lookup was invoked *)
      (exists i r, In (k, v, i, r) ws /\ i < ret /\ ~ Superseded ws k r inv)
  end.

Lemma on_key_In k ws v i r : In (v, i, r) (on_key k ws) <-> In (k, v, i, r) ws.
Proof.
  unfold on_key. rewrite in_flat_map. split.
  - intros [[[[k' v'] i'] r'] [Hin H]]. destruct (str_eqb k k') eqn:E; [|destruct H].
    apply str_eqb_eq in E. subst k'. destruct H as [H|[]]. inversion H; subst. exact Hin.
  - intros Hin. exists (k, v, i, r). split; [exact Hin|]. rewrite str_eqb_refl. left; reflexivity.
Qed.

Lemma superseded_iff ws k t0 inv : superseded (on_key k ws) t0 inv = true <-> Superseded ws k t0 inv.
Proof.
  unfold superseded, Superseded. rewrite existsb_exists. split.
  - intros [[[v i] r] [Hin H]]. apply on_key_In in Hin. apply andb_true_iff in H. destruct H as [H1 H2].
    apply Z.ltb_lt in H1. apply Z.ltb_lt in H2. exists v, i, r. auto.
  - intros [v [i [r [Hin [H1 H2]]]]]. exists (v, i, r). split; [apply on_key_In; exact Hin|].
    apply andb_true_iff. split; apply Z.ltb_lt; assumption.
Qed.

Lemma not_superseded_iff ws k t0 inv : negb (superseded (on_key k ws) t0 inv) = true <-> ~ Superseded ws k t0 inv.
Proof.
  rewrite negb_true_iff. rewrite <- superseded_iff. destruct (superseded (on_key k ws) t0 inv); split; intros H.
  - discriminate.
  - exfalso. apply H. reflexivity.
  - discriminate.
  - reflexivity.
Qed.

Lemma valid_read_iff init ws k res inv ret :
  valid_read init ws k res inv ret = true <-> ValidRead init ws k res inv ret.
Proof.
  unfold valid_read, ValidRead. destruct res as [v|].
  - rewrite orb_true_iff. split.
    + intros [H|H].
      * left. destruct (lookup k init) as [v0|]; [|discriminate]. apply andb_true_iff in H. destruct H as [H1 H2].
        apply Z.eqb_eq in H1. subst v0. split; [reflexivity|]. apply not_superseded_iff. exact H2.
      * right. apply existsb_exists in H. destruct H as [[[v' i] r] [Hin H]]. apply on_key_In in Hin.
        apply andb_true_iff in H. destruct H as [H H3]. apply andb_true_iff in H. destruct H as [H1 H2].
        apply Z.eqb_eq in H1. subst v'. apply Z.ltb_lt in H2. exists i, r.
        split; [exact Hin|split; [exact H2|apply not_superseded_iff; exact H3]].
    + intros [[H1 H2]|[i [r [Hin [H2 H3]]]]].
      * left. rewrite H1. rewrite Z.eqb_refl. simpl. apply not_superseded_iff. exact H2.
      * right. apply existsb_exists. exists (v, i, r). split; [apply on_key_In; exact Hin|].
        rewrite Z.eqb_refl. simpl. apply andb_true_iff. split; [apply Z.ltb_lt; exact H2|apply not_superseded_iff; exact H3].
  - destruct (lookup k init) as [v0|].
    + split; [discriminate|intros [H _]; discriminate].
    + rewrite negb_true_iff. split.
      * intros H. split; [reflexivity|]. intros v i r Hin Hlt.
        assert (existsb (fun w : Z * Z * Z => let '(_, _, r') := w in r' <? inv) (on_key k ws) = true).
        { apply existsb_exists. exists (v, i, r). split; [apply on_key_In; exact Hin|apply Z.ltb_lt; exact Hlt]. }
        congruence.
      * intros [_ H]. destruct (existsb _ (on_key k ws)) eqn:E; [|reflexivity].
        apply existsb_exists in E. destruct E as [[[v i] r] [Hin Hlt]]. apply on_key_In in Hin.
        apply Z.ltb_lt in Hlt. exfalso. exact (H v i r Hin Hlt).
Qed.

(* soundness of the history oracle: in a history it accepts every lookup is a ValidRead *)
Lemma hist_ok_sound init evs : hist_ok init evs = true ->
  forall k res inv ret, In (RGet k res, inv, ret) evs -> ValidRead init (writes_of evs) k res inv ret.
Proof.
  unfold hist_ok. intros H k res inv ret Hin. rewrite forallb_forall in H.
  specialize (H _ Hin). simpl in H. apply valid_read_iff. exact H.
Qed.
