(* C16 - proofs, part 4: the model's own outputs pass the oracles of every case kind. *)
Require Import Verif.Common.Base Verif.Common.Json Verif.Common.JsonFacts Verif.Common.Ctx.
Require Import Verif.Model.C16 Verif.Spec.C16 Verif.Proof.C16 Verif.Corr.C16.
Close Scope Z_scope.

Definition wf_cres (c : cres) : Prop :=
  match c_resp c with Some (Some d, _) => wfj (JObj d) = true | _ => True end.

Lemma cres_eqb_refl c : wf_cres c -> cres_eqb c c = true.
Proof.
  unfold wf_cres, cres_eqb, resp_eqb. intros H.
  assert (E : opt_eqb (list_eqb str_eqb) (c_err c) (c_err c) = true).
  { destruct (c_err c); simpl; [apply list_eqb_refl; apply str_eqb_refl|reflexivity]. }
  rewrite E, andb_true_r. destruct (c_resp c) as [[[d|] b]|]; simpl; auto.
  - rewrite (obj_eqb_refl d H). simpl. apply Bool.eqb_reflx.
  - apply Bool.eqb_reflx.
Qed.

(* CHist: with any number of shadow calls in flight the model returns the plain result, not
   blocked: both components of the case check hold *)
Lemma hist_model_meets_oracle bs hist plain :
  bs <> [] -> wf_cres plain -> check_hist bs hist false false plain plain = (true, true).
Proof.
  intros Hne Hwf. unfold check_hist.
  pose proof (serve_independent (fun _ _ _ => plain) bs (repeat dummy_spawned hist) 0 0%Z background
                (s_req dummy_spawned) Hne) as H.
  destruct (serve (fun _ _ _ => plain) bs (repeat dummy_spawned hist) 0 0%Z background (s_req dummy_spawned)) as [x fl].
  simpl in H. subst x. simpl. rewrite (cres_eqb_refl plain Hwf). reflexivity.
Qed.

(* CNew: the model's error for New passes the factory-level oracle against the plain factory *)
Lemma new_model_meets_oracle bs :
  spec_new_b (default_ferr (ids (regular_of (shadow_new bs)))) (new_error "no_backends" default_ferr bs) = true.
Proof.
  rewrite (new_error_invariant "no_backends" default_ferr bs eq_refl), regular_of_new.
  unfold spec_new_b. destruct (default_ferr _); simpl; [apply str_eqb_refl|reflexivity].
Qed.

Lemma robs_eqb_refl r : robs_eqb r r = true.
Proof.
  unfold robs_eqb. rewrite !Nat.eqb_refl, !str_eqb_refl, req_eqb_refl. reflexivity.
Qed.

(* CRun / CSeqRun: a run in which the shadowed endpoint returns the plain result, the regular
   stubs record the same calls, and every shadow backend of the configuration records what the
   model says ([model_sobs]: the handed request, own objects, the model's context) passes the
   run-level oracle - for every configuration, request, outcome table and regular observations *)
Lemma run_model_meets_oracle bs req outs plain regs seen t0 tc tf :
  let T := match shadow_new bs with BShadowed _ _ t => t | _ => 0%Z end in
  wf_cres plain -> (0 <= t0)%Z -> (t0 <= seen)%Z -> (tc < t0 + T)%Z -> (t0 + T <= tf)%Z ->
  spec_run_b bs req true outs plain plain regs regs
    (map (fun b => model_sobs T req b (b_id b) seen t0 tc tf) (shadow_of (shadow_new bs))) = true.
Proof.
  intros T Hwf H0 H1 H2 H3. unfold spec_run_b. fold T.
  rewrite (cres_eqb_refl plain Hwf), (list_eqb_refl robs_eqb regs robs_eqb_refl). simpl.
  induction (shadow_of (shadow_new bs)) as [|b l IH]; simpl; [reflexivity|].
  rewrite Nat.eqb_refl, (model_meets_oracle T req b _ (b_id b) seen t0 tc tf H0 H1 H2 H3), IH. reflexivity.
Qed.
