Require Import Verif.Common.Base Verif.Common.Json Verif.Common.JsonFacts.
Require Import Verif.Model.C11 Verif.Spec.C11.

(* ---- header map algebra ---- *)
Lemma str_eqb_sym a b : str_eqb a b = str_eqb b a.
Proof. apply String.eqb_sym. Qed.

Lemma hget_nil k : hget k [] = [].
Proof. reflexivity. Qed.

Lemma hget_hset k k' v h : hget k (hset k' v h) = if str_eqb k k' then [v] else hget k h.
Proof. unfold hget, hset. rewrite lookup_set. destruct (str_eqb k k'); reflexivity. Qed.

Lemma hget_hadd k k' v h :
  hget k (hadd k' v h) = if str_eqb k k' then hget k h ++ [v] else hget k h.
Proof.
  unfold hadd. unfold hget at 1. rewrite lookup_set.
  destruct (str_eqb k k') eqn:E; [|reflexivity].
  apply str_eqb_eq in E. subst. reflexivity.
Qed.

Lemma hget_add_values k k' vs : forall h,
  hget k (add_values k' vs h) = hget k h ++ (if str_eqb (canon k') k then vs else []).
Proof.
  unfold add_values. induction vs as [|v vs IH]; intros h; cbn [fold_left].
  - destruct (str_eqb (canon k') k); rewrite app_nil_r; reflexivity.
  - rewrite IH, hget_hadd, (str_eqb_sym k).
    destruct (str_eqb (canon k') k); [|reflexivity].
    rewrite <- app_assoc. reflexivity.
Qed.

Lemma hget_add_meta k meta : forall h,
  hget k (add_meta meta h) = hget k h ++ meta_vals k meta.
Proof.
  unfold add_meta, meta_vals. induction meta as [|[k' vs] meta IH]; intros h; cbn [fold_left flat_map fst snd].
  - rewrite app_nil_r. reflexivity.
  - rewrite IH, hget_add_values, <- app_assoc. reflexivity.
Qed.

Lemma meta_vals_nil k : meta_vals k [] = [].
Proof. reflexivity. Qed.

(* the three header names are pairwise different (after canonicalisation) *)
Lemma names_cc : str_eqb H_completed H_completed = true. Proof. reflexivity. Qed.
Lemma names_ca : str_eqb H_completed H_cache = false. Proof. reflexivity. Qed.
Lemma names_cv : str_eqb H_completed H_version = false. Proof. reflexivity. Qed.
Lemma names_ac : str_eqb H_cache H_completed = false. Proof. reflexivity. Qed.
Lemma names_aa : str_eqb H_cache H_cache = true. Proof. reflexivity. Qed.
Lemma names_av : str_eqb H_cache H_version = false. Proof. reflexivity. Qed.
Lemma names_vc : str_eqb H_version H_completed = false. Proof. reflexivity. Qed.
Lemma names_va : str_eqb H_version H_cache = false. Proof. reflexivity. Qed.
Lemma names_vv : str_eqb H_version H_version = true. Proof. reflexivity. Qed.

Lemma valid_code_pos c : valid_code c = true -> (c <=? 0)%Z = false.
Proof. unfold valid_code. intros H. apply andb_true_iff in H as [H _]. apply Z.leb_le in H. apply Z.leb_gt. lia. Qed.
Lemma valid_code_range c : valid_code c = true <-> (100 <= c <= 999)%Z.
Proof. unfold valid_code. rewrite andb_true_iff, !Z.leb_le. tauto. Qed.

Global Opaque hget hset hadd add_meta meta_vals H_completed H_cache H_version.
Global Opaque valid_code cache_value.

#[export] Hint Rewrite hget_add_meta hget_hset hget_nil meta_vals_nil
  names_cc names_ca names_cv names_ac names_aa names_av names_vc names_va names_vv
  app_nil_r app_nil_l : hdr.

(* ---- closed forms of the three header lists ---- *)
Definition expected (i : input) : string := if cond i then V_true else V_false.
Definition own_cache (i : input) : list string :=
  if cond i && cache_enabled (i_ttl i) then [cache_value (i_ttl i)] else [].
(* metadata values the handler itself appends (non-empty data only) *)
Definition handler_meta (i : input) (k : string) : list string :=
  match i_resp i with Some r => if nonempty r then meta_vals k (r_meta r) else [] | None => [] end.
(* metadata values the no-op render appends, once it runs *)
Definition rmeta (i : input) (k : string) : list string :=
  match i_render i, i_resp i with RNoop, Some r => meta_vals k (r_meta r) | _, _ => [] end.
(* the render makes an explicit WriteHeader with a code other than 200 *)
Definition render_non200 (i : input) : bool :=
  match i_render i, i_resp i with
  | RNoop, None => true
  | RNoop, Some r => negb (r_status r =? 0)%Z && negb (r_status r =? 200)%Z
  | _, _ => false
  end.

Ltac split_goal :=
  repeat match goal with
  | |- context [match ?x with _ => _ end] => is_var x; destruct x
  | |- context [if ?c then _ else _] => destruct c eqn:?
  end.
Ltac finish_hdr :=
  cbn [o_completed o_cache o_version o_status o_body]; autorewrite with hdr;
  cbn [app andb negb orb]; repeat split; try reflexivity.

(* gin: headers before the render *)
Lemma gin_pre_get i :
  hget H_completed (gin_pre i) = [expected i] /\
  hget H_cache (gin_pre i) = own_cache i ++ handler_meta i H_cache /\
  hget H_version (gin_pre i) = i_ver i :: handler_meta i H_version.
Proof.
  unfold gin_pre, expected, own_cache, handler_meta, cond, base_headers.
  destruct (i_resp i) as [r|]; [destruct (nonempty r), (r_complete r), (cache_enabled (i_ttl i))|];
    cbn [andb]; autorewrite with hdr; cbn [app]; repeat split; reflexivity.
Qed.

Lemma gin_status_reply code k o :
  gin_status code k = Reply o -> exists st, k st = Reply o /\
    st = (if (code <=? 0)%Z then 200%Z else code) /\ ((code <=? 0)%Z = true \/ valid_code code = true).
Proof.
  unfold gin_status. destruct (code <=? 0)%Z; [intros H0; exists 200%Z; auto|].
  destruct (valid_code code); [intros H0; exists code; auto|discriminate].
Qed.

Lemma gin_render_get i h o :
  gin_render i h = Reply o ->
  o_completed o = hget H_completed h ++ rmeta i H_completed /\
  o_cache o = hget H_cache h ++ rmeta i H_cache /\
  o_version o = hget H_version h ++ rmeta i H_version.
Proof.
  unfold gin_render, rmeta, project.
  destruct (i_render i); try solve [intros H; inversion H; subst; finish_hdr].
  destruct (i_resp i) as [r|]; [|intros H; inversion H; subst; finish_hdr].
  intros H. apply gin_status_reply in H as (st & H & _). inversion H; subst. finish_hdr.
Qed.

(* mux: headers of a non-empty response before the render *)
Lemma mux_pre_get i r :
  i_resp i = Some r -> nonempty r = true ->
  hget H_completed (mux_pre i r) = expected i :: handler_meta i H_completed /\
  hget H_cache (mux_pre i r) = own_cache i ++ handler_meta i H_cache /\
  hget H_version (mux_pre i r) = i_ver i :: handler_meta i H_version.
Proof.
  intros Hr Hne. unfold mux_pre, expected, own_cache, handler_meta, cond, base_headers.
  rewrite Hr, Hne. destruct (r_complete r), (cache_enabled (i_ttl i));
    cbn [andb]; autorewrite with hdr; cbn [app]; repeat split; reflexivity.
Qed.

Lemma write_header_get engine code h b o :
  write_header engine code h b = Reply o ->
  valid_code code = true /\ o_status o = code /\ o_body o = b /\
  o_completed o = (if engine && negb (code =? 200)%Z then [V_false] else hget H_completed h) /\
  o_cache o = hget H_cache h /\ o_version o = hget H_version h.
Proof.
  unfold write_header, project. destruct (valid_code code); [|discriminate].
  intros H. inversion H; subst. destruct (engine && negb (code =? 200)%Z); finish_hdr.
Qed.

Lemma mux_render_get engine i h o :
  mux_render engine i h = Reply o ->
  o_completed o = (if engine && render_non200 i then [V_false]
                   else hget H_completed h ++ rmeta i H_completed) /\
  o_cache o = hget H_cache h ++ rmeta i H_cache /\
  o_version o = hget H_version h ++ rmeta i H_version.
Proof.
  unfold mux_render, rmeta, render_non200, http_error, project.
  destruct (i_render i);
    try solve [intros H; inversion H; subst; rewrite andb_false_r; finish_hdr].
  destruct (i_resp i) as [r|].
  - destruct (r_status r =? 0)%Z eqn:E0.
    + intros H; inversion H; subst. cbn [negb andb]. rewrite andb_false_r. finish_hdr.
    + intros H. apply write_header_get in H as (_ & _ & _ & Hc & Ha & Hv).
      rewrite Hc, Ha, Hv. cbn [negb andb]. autorewrite with hdr.
      destruct (engine && negb (r_status r =? 200)%Z); repeat split; reflexivity.
  - intros H. apply write_header_get in H as (_ & _ & _ & Hc & Ha & Hv).
    rewrite Hc, Ha, Hv. change (negb (500 =? 200)%Z) with true. autorewrite with hdr.
    repeat split; reflexivity.
Qed.

Definition has_data (i : input) : bool :=
  match i_resp i with Some r => nonempty r | None => false end.
(* mux: nil/empty response and an error: answered with http.Error, no render *)
Definition mux_err_exit (i : input) : bool :=
  negb (has_data i) && match eff_err i with Some _ => true | None => false end.

Lemma cond_has_data i : has_data i = false -> cond i = false.
Proof. unfold has_data, cond. destruct (i_resp i) as [r|]; [intros ->|]; reflexivity. Qed.

Lemma rmeta_no_resp i k : i_resp i = None -> rmeta i k = [].
Proof. unfold rmeta. intros ->. destruct (i_render i); reflexivity. Qed.

Lemma gin_headers i o :
  gin_handler i = Reply o ->
  o_completed o = expected i :: rmeta i H_completed /\
  o_cache o = own_cache i ++ handler_meta i H_cache ++ rmeta i H_cache /\
  o_version o = i_ver i :: handler_meta i H_version ++ rmeta i H_version.
Proof.
  destruct (gin_pre_get i) as (Pc & Pa & Pv).
  unfold gin_handler.
  assert (R : gin_render i (gin_pre i) = Reply o ->
              o_completed o = expected i :: rmeta i H_completed /\
              o_cache o = own_cache i ++ handler_meta i H_cache ++ rmeta i H_cache /\
              o_version o = i_ver i :: handler_meta i H_version ++ rmeta i H_version).
  { intros H. apply gin_render_get in H as (Hc & Ha & Hv).
    rewrite Hc, Ha, Hv, Pc, Pa, Pv, <- app_assoc. repeat split; reflexivity. }
  destruct (eff_err i) as [e|]; [|exact R].
  destruct (i_resp i) as [r|] eqn:Hr; [exact R|].
  intros H. apply gin_status_reply in H as (st & H & _). unfold project in H. inversion H; subst.
  cbn [o_completed o_cache o_version]. rewrite Pc, Pa, Pv, !(rmeta_no_resp i _ Hr), !app_nil_r.
  repeat split; reflexivity.
Qed.

Lemma mux_headers engine i o :
  mux_handler engine i = Reply o ->
  o_completed o = (if mux_err_exit i then [V_false]
                   else if engine && render_non200 i then [V_false]
                   else expected i :: handler_meta i H_completed ++ rmeta i H_completed) /\
  o_cache o = own_cache i ++ handler_meta i H_cache ++ (if mux_err_exit i then [] else rmeta i H_cache) /\
  o_version o = i_ver i :: handler_meta i H_version ++ (if mux_err_exit i then [] else rmeta i H_version).
Proof.
  unfold mux_handler.
  assert (F : has_data i = false -> mux_fallback engine i = Reply o ->
    o_completed o = (if mux_err_exit i then [V_false]
                     else if engine && render_non200 i then [V_false]
                     else expected i :: handler_meta i H_completed ++ rmeta i H_completed) /\
    o_cache o = own_cache i ++ handler_meta i H_cache ++ (if mux_err_exit i then [] else rmeta i H_cache) /\
    o_version o = i_ver i :: handler_meta i H_version ++ (if mux_err_exit i then [] else rmeta i H_version)).
  { intros Hd. pose proof (cond_has_data i Hd) as Hc0.
    assert (Hm : forall k, handler_meta i k = []).
    { intros k. unfold handler_meta. unfold has_data in Hd. destruct (i_resp i); [rewrite Hd|]; reflexivity. }
    unfold mux_fallback, mux_err_exit, http_error, base_headers. rewrite Hd. cbn [negb andb].
    unfold expected, own_cache. rewrite Hc0, !Hm. cbn [andb app].
    destruct (eff_err i) as [e|].
    - intros H. apply write_header_get in H as (_ & _ & _ & Hc & Ha & Hv).
      rewrite Hc, Ha, Hv. autorewrite with hdr.
      destruct (engine && negb (err_status i e =? 200)%Z); repeat split; reflexivity.
    - intros H. apply mux_render_get in H as (Hc & Ha & Hv).
      rewrite Hc, Ha, Hv. autorewrite with hdr. cbn [app]. repeat split; reflexivity. }
  destruct (i_resp i) as [r|] eqn:Hr.
  - destruct (nonempty r) eqn:Hne.
    + intros H. apply mux_render_get in H as (Hc & Ha & Hv).
      destruct (mux_pre_get i r Hr Hne) as (Pc & Pa & Pv).
      assert (E : mux_err_exit i = false).
      { unfold mux_err_exit, has_data. rewrite Hr, Hne. reflexivity. }
      rewrite Hc, Ha, Hv, Pc, Pa, Pv, E, <- app_assoc. cbn [app]. repeat split; reflexivity.
    + apply F. unfold has_data. rewrite Hr. exact Hne.
  - apply F. unfold has_data. rewrite Hr. reflexivity.
Qed.

(* ---- the property theorems ---- *)
Lemma meta_nil_parts i k :
  meta_vals k (meta_of i) = [] -> handler_meta i k = [] /\ rmeta i k = [].
Proof.
  unfold meta_of, handler_meta, rmeta. destruct (i_resp i) as [r|].
  - intros ->. destruct (nonempty r), (i_render i); split; reflexivity.
  - intros _. destruct (i_render i); split; reflexivity.
Qed.

Lemma mux_err_exit_cond i : mux_err_exit i = true -> cond i = false.
Proof.
  unfold mux_err_exit. intros H. apply andb_true_iff in H as [H _].
  apply negb_true_iff in H. apply cond_has_data. exact H.
Qed.

Lemma completed_header i o :
  handler i = Reply o -> meta_vals H_completed (meta_of i) = [] -> engine_override i = false ->
  o_completed o = [if cond i then V_true else V_false].
Proof.
  intros H Hm Ho. destruct (meta_nil_parts i _ Hm) as [M1 M2].
  fold (expected i). unfold handler in H. unfold engine_override in Ho.
  destruct (i_impl i).
  - apply gin_headers in H as (Hc & _). rewrite Hc, M2. reflexivity.
  - apply mux_headers in H as (Hc & _). rewrite Hc, M1, M2. cbn [andb app].
    destruct (mux_err_exit i) eqn:E; [|reflexivity].
    unfold expected. rewrite (mux_err_exit_cond i E). reflexivity.
  - apply mux_headers in H as (Hc & _). rewrite Hc, M1, M2. cbn [andb app].
    destruct (mux_err_exit i) eqn:E.
    { unfold expected. rewrite (mux_err_exit_cond i E). reflexivity. }
    destruct (render_non200 i) eqn:R; [|reflexivity].
    unfold expected. unfold render_non200 in R.
    destruct (i_render i); try discriminate.
    destruct (i_resp i) as [r|] eqn:Hr.
    + rewrite <- andb_assoc, R, andb_true_r in Ho. rewrite Ho. reflexivity.
    + unfold cond. rewrite Hr. reflexivity.
Qed.

Lemma cache_header i o :
  handler i = Reply o -> meta_vals H_cache (meta_of i) = [] ->
  o_cache o = if cond i && cache_enabled (i_ttl i) then [cache_value (i_ttl i)] else [].
Proof.
  intros H Hm. destruct (meta_nil_parts i _ Hm) as [M1 M2]. fold (own_cache i).
  unfold handler in H. destruct (i_impl i).
  - apply gin_headers in H as (_ & Ha & _). rewrite Ha, M1, M2, !app_nil_r. reflexivity.
  - apply mux_headers in H as (_ & Ha & _). rewrite Ha, M1, M2.
    destruct (mux_err_exit i); rewrite !app_nil_r; reflexivity.
  - apply mux_headers in H as (_ & Ha & _). rewrite Ha, M1, M2.
    destruct (mux_err_exit i); rewrite !app_nil_r; reflexivity.
Qed.

Lemma version_header i o : handler i = Reply o -> exists rest, o_version o = i_ver i :: rest.
Proof.
  intros H. unfold handler in H. destruct (i_impl i).
  - apply gin_headers in H as (_ & _ & Hv). rewrite Hv. eexists; reflexivity.
  - apply mux_headers in H as (_ & _ & Hv). rewrite Hv. eexists; reflexivity.
  - apply mux_headers in H as (_ & _ & Hv). rewrite Hv. eexists; reflexivity.
Qed.

(* ---- status and body ---- *)
Lemma expected_no_resp i : i_resp i = None -> expected i = V_false.
Proof. unfold expected, cond. intros ->. reflexivity. Qed.
Lemma own_cache_no_resp i : i_resp i = None -> own_cache i = [].
Proof. unfold own_cache, cond. intros ->. reflexivity. Qed.
Lemma handler_meta_no_resp i k : i_resp i = None -> handler_meta i k = [].
Proof. unfold handler_meta. intros ->. reflexivity. Qed.

Lemma error_status i e :
  i_resp i = None -> eff_err i = Some e -> valid_code (err_status i e) = true ->
  exists o, handler i = Reply o /\ o_status o = err_status i e /\
            o_completed o = [V_false] /\ o_cache o = [] /\ o_version o = [i_ver i].
Proof.
  intros Hr He Hv. unfold handler. destruct (i_impl i).
  - unfold gin_handler, gin_status. rewrite He, Hr, Hv, (valid_code_pos _ Hv).
    eexists. split; [reflexivity|]. cbn [o_status o_completed o_cache o_version].
    destruct (gin_pre_get i) as (Pc & Pa & Pv).
    rewrite Pc, Pa, Pv, expected_no_resp, own_cache_no_resp, !handler_meta_no_resp by assumption.
    repeat split; reflexivity.
  - unfold mux_handler, mux_fallback, http_error, write_header, base_headers. rewrite Hr, He, Hv.
    eexists. split; [reflexivity|]. cbn [o_status o_completed o_cache o_version andb].
    autorewrite with hdr. repeat split; reflexivity.
  - unfold mux_handler, mux_fallback, http_error, write_header, base_headers. rewrite Hr, He, Hv.
    eexists. split; [reflexivity|]. cbn [o_status o_completed o_cache o_version andb].
    destruct (negb (err_status i e =? 200)%Z); autorewrite with hdr; repeat split; reflexivity.
Qed.

(* which body each path writes *)
Definition body_ok (i : input) (b : body) : Prop :=
  match b with
  | BJson v => (i_render i = RJson /\ v = json_of (i_resp i)) \/
               (i_render i = RCollection /\ v = collection (i_resp i))
  | BRaw _ => True
  | BOther => True
  end.

Lemma gin_render_body i h o : gin_render i h = Reply o -> body_ok i (o_body o).
Proof.
  unfold gin_render, project, body_ok.
  destruct (i_render i) eqn:R; try solve [intros H; inversion H; subst; cbn [o_body]; auto].
  destruct (i_resp i); [|intros H; inversion H; subst; exact I].
  intros H. apply gin_status_reply in H as (st & H & _). inversion H; subst. exact I.
Qed.

Lemma mux_render_body engine i h o : mux_render engine i h = Reply o -> body_ok i (o_body o).
Proof.
  unfold mux_render, http_error, project, body_ok.
  destruct (i_render i) eqn:R; try solve [intros H; inversion H; subst; cbn [o_body]; auto].
  destruct (i_resp i) as [r|].
  - destruct (r_status r =? 0)%Z; [intros H; inversion H; subst; exact I|].
    intros H. apply write_header_get in H as (_ & _ & Hb & _). rewrite Hb. exact I.
  - intros H. apply write_header_get in H as (_ & _ & Hb & _). rewrite Hb. exact I.
Qed.

Lemma handler_body i o : handler i = Reply o -> body_ok i (o_body o).
Proof.
  unfold handler. destruct (i_impl i).
  - unfold gin_handler. destruct (eff_err i); [destruct (i_resp i)|]; try apply gin_render_body.
    intros H. apply gin_status_reply in H as (st & H & _). unfold project in H. inversion H; subst. exact I.
  - unfold mux_handler, mux_fallback.
    assert (F : match eff_err i with
                | Some e => http_error false (e_msg e) (err_status i e) (hset H_completed V_false (base_headers i))
                | None => mux_render false i (hset H_completed V_false (base_headers i)) end = Reply o ->
                body_ok i (o_body o)).
    { destruct (eff_err i); [|apply mux_render_body].
      unfold http_error. intros H. apply write_header_get in H as (_ & _ & Hb & _). rewrite Hb. exact I. }
    destruct (i_resp i) as [r|]; [destruct (nonempty r)|]; try exact F. apply mux_render_body.
  - unfold mux_handler, mux_fallback.
    assert (F : match eff_err i with
                | Some e => http_error true (e_msg e) (err_status i e) (hset H_completed V_false (base_headers i))
                | None => mux_render true i (hset H_completed V_false (base_headers i)) end = Reply o ->
                body_ok i (o_body o)).
    { destruct (eff_err i); [|apply mux_render_body].
      unfold http_error. intros H. apply write_header_get in H as (_ & _ & Hb & _). rewrite Hb. exact I. }
    destruct (i_resp i) as [r|]; [destruct (nonempty r)|]; try exact F. apply mux_render_body.
Qed.

Lemma json_body i o v :
  handler i = Reply o -> o_body o = BJson v ->
  (i_render i = RJson -> v = json_of (i_resp i)) /\
  (i_render i = RCollection -> v = collection (i_resp i)) /\
  (i_render i = RJson \/ i_render i = RCollection).
Proof.
  intros H Hb. apply handler_body in H. rewrite Hb in H. cbn in H.
  destruct H as [[R E]|[R E]]; rewrite R; repeat split; auto; discriminate.
Qed.

(* ---- all three header lists, per implementation ---- *)
Definition mux_completed (engine : bool) (i : input) : list string :=
  if mux_err_exit i then [V_false]
  else if engine && render_non200 i then [V_false]
  else expected i :: handler_meta i H_completed ++ rmeta i H_completed.
Definition completed_of (i : input) : list string :=
  match i_impl i with
  | Gin => expected i :: rmeta i H_completed
  | Mux => mux_completed false i
  | MuxEngine => mux_completed true i
  end.
Definition reached_meta (i : input) (k : string) : list string :=
  match i_impl i with Gin => rmeta i k | _ => if mux_err_exit i then [] else rmeta i k end.
Definition cache_of (i : input) : list string :=
  own_cache i ++ handler_meta i H_cache ++ reached_meta i H_cache.
Definition version_of (i : input) : list string :=
  i_ver i :: handler_meta i H_version ++ reached_meta i H_version.

Lemma headers_closed_form i o :
  handler i = Reply o ->
  o_completed o = completed_of i /\ o_cache o = cache_of i /\ o_version o = version_of i.
Proof.
  unfold handler, completed_of, cache_of, version_of, reached_meta, mux_completed.
  destruct (i_impl i); intros H.
  - apply gin_headers in H. exact H.
  - apply mux_headers in H. exact H.
  - apply mux_headers in H. exact H.
Qed.

(* ---- the reply without the metadata ---- *)
Definition shape_eq (a b : outcome) : Prop :=
  match a, b with
  | Reply x, Reply y => o_status x = o_status y /\ o_body x = o_body y
  | Panic, Panic => True
  | _, _ => False
  end.

Lemma gin_status_shape code k k' :
  (forall st, shape_eq (k st) (k' st)) -> shape_eq (gin_status code k) (gin_status code k').
Proof.
  intros H. unfold gin_status. destruct (code <=? 0)%Z; [apply H|].
  destruct (valid_code code); [apply H|exact I].
Qed.
Lemma project_shape st h h' b : shape_eq (project st h b) (project st h' b).
Proof. unfold project. cbn. auto. Qed.
Lemma write_header_shape engine code h h' b :
  shape_eq (write_header engine code h b) (write_header engine code h' b).
Proof. unfold write_header. destruct (valid_code code); [apply project_shape|exact I]. Qed.

Lemma gin_render_shape i h h' : shape_eq (gin_render i h) (gin_render (strip_meta i) h').
Proof.
  unfold gin_render, strip_meta. cbn [i_render i_resp].
  destruct (i_render i), (i_resp i) as [r|]; try apply project_shape.
  cbn [r_status r_meta]. apply gin_status_shape. intros st. apply project_shape.
Qed.
Lemma mux_render_shape engine i h h' :
  shape_eq (mux_render engine i h) (mux_render engine (strip_meta i) h').
Proof.
  unfold mux_render, http_error, strip_meta. cbn [i_render i_resp].
  destruct (i_render i), (i_resp i) as [r|]; try apply project_shape; try apply write_header_shape.
  cbn [r_status r_meta]. destruct (r_status r =? 0)%Z; [apply project_shape|apply write_header_shape].
Qed.

Lemma eff_err_strip i : eff_err (strip_meta i) = eff_err i.
Proof. reflexivity. Qed.
Lemma err_status_strip i e : err_status (strip_meta i) e = err_status i e.
Proof. reflexivity. Qed.

Lemma handler_shape i : shape_eq (handler i) (handler (strip_meta i)).
Proof.
  unfold handler. change (i_impl (strip_meta i)) with (i_impl i). destruct (i_impl i).
  - unfold gin_handler. rewrite eff_err_strip.
    destruct (eff_err i) as [e|]; [|apply gin_render_shape].
    unfold strip_meta at 1. cbn [i_resp]. destruct (i_resp i) as [r|]; [apply gin_render_shape|].
    rewrite err_status_strip. apply gin_status_shape. intros st. apply project_shape.
  - unfold mux_handler, mux_fallback, http_error. rewrite eff_err_strip.
    unfold strip_meta at 1. cbn [i_resp]. destruct (i_resp i) as [r|].
    + change (nonempty {| r_data := r_data r; r_complete := r_complete r; r_meta := []; r_status := r_status r; r_io := r_io r |}) with (nonempty r).
      destruct (nonempty r); [apply mux_render_shape|].
      destruct (eff_err i) as [e|]; [rewrite err_status_strip; apply write_header_shape|apply mux_render_shape].
    + destruct (eff_err i) as [e|]; [rewrite err_status_strip; apply write_header_shape|apply mux_render_shape].
  - unfold mux_handler, mux_fallback, http_error. rewrite eff_err_strip.
    unfold strip_meta at 1. cbn [i_resp]. destruct (i_resp i) as [r|].
    + change (nonempty {| r_data := r_data r; r_complete := r_complete r; r_meta := []; r_status := r_status r; r_io := r_io r |}) with (nonempty r).
      destruct (nonempty r); [apply mux_render_shape|].
      destruct (eff_err i) as [e|]; [rewrite err_status_strip; apply write_header_shape|apply mux_render_shape].
    + destruct (eff_err i) as [e|]; [rewrite err_status_strip; apply write_header_shape|apply mux_render_shape].
Qed.

Lemma cond_strip i : cond (strip_meta i) = cond i.
Proof. unfold cond, strip_meta. cbn [i_resp]. destruct (i_resp i); reflexivity. Qed.
Lemma expected_strip i : expected (strip_meta i) = expected i.
Proof. unfold expected. rewrite cond_strip. reflexivity. Qed.
Lemma own_cache_strip i : own_cache (strip_meta i) = own_cache i.
Proof. unfold own_cache. rewrite cond_strip. reflexivity. Qed.
Lemma handler_meta_strip i k : handler_meta (strip_meta i) k = [].
Proof.
  unfold handler_meta, strip_meta. cbn [i_resp]. destruct (i_resp i) as [r|]; [|reflexivity].
  cbn [r_meta]. autorewrite with hdr. destruct (nonempty _); reflexivity.
Qed.
Lemma rmeta_strip i k : rmeta (strip_meta i) k = [].
Proof.
  unfold rmeta, strip_meta. cbn [i_resp i_render]. destruct (i_render i), (i_resp i); reflexivity.
Qed.
Lemma mux_err_exit_strip i : mux_err_exit (strip_meta i) = mux_err_exit i.
Proof.
  unfold mux_err_exit, has_data. rewrite eff_err_strip. unfold strip_meta. cbn [i_resp].
  destruct (i_resp i); reflexivity.
Qed.
Lemma render_non200_strip i : render_non200 (strip_meta i) = render_non200 i.
Proof.
  unfold render_non200, strip_meta. cbn [i_resp i_render]. destruct (i_render i), (i_resp i); reflexivity.
Qed.

Lemma completed_of_strip i :
  meta_vals H_completed (meta_of i) = [] -> completed_of (strip_meta i) = completed_of i.
Proof.
  intros Hm. destruct (meta_nil_parts i _ Hm) as [M1 M2].
  unfold completed_of, mux_completed. change (i_impl (strip_meta i)) with (i_impl i).
  rewrite expected_strip, mux_err_exit_strip, render_non200_strip, handler_meta_strip, rmeta_strip, M1, M2.
  reflexivity.
Qed.
Lemma cache_of_strip i :
  meta_vals H_cache (meta_of i) = [] -> cache_of (strip_meta i) = cache_of i.
Proof.
  intros Hm. destruct (meta_nil_parts i _ Hm) as [M1 M2].
  unfold cache_of, reached_meta. change (i_impl (strip_meta i)) with (i_impl i).
  rewrite own_cache_strip, mux_err_exit_strip, handler_meta_strip, rmeta_strip, M1, M2.
  destruct (i_impl i), (mux_err_exit i); reflexivity.
Qed.
Lemma version_of_strip i :
  meta_vals H_version (meta_of i) = [] -> version_of (strip_meta i) = version_of i.
Proof.
  intros Hm. destruct (meta_nil_parts i _ Hm) as [M1 M2].
  unfold version_of, reached_meta. change (i_impl (strip_meta i)) with (i_impl i).
  change (i_ver (strip_meta i)) with (i_ver i).
  rewrite mux_err_exit_strip, handler_meta_strip, rmeta_strip, M1, M2.
  destruct (i_impl i), (mux_err_exit i); reflexivity.
Qed.

Lemma no_spoof_pair i :
  meta_disjoint i -> hdr_pair (handler i) = hdr_pair (handler (strip_meta i)).
Proof.
  intros [Hc Ha]. pose proof (handler_shape i) as S.
  destruct (handler i) as [o|] eqn:H1, (handler (strip_meta i)) as [o'|] eqn:H2;
    cbn in S; try contradiction; [|reflexivity].
  apply headers_closed_form in H1 as (C1 & A1 & _). apply headers_closed_form in H2 as (C2 & A2 & _).
  cbn [hdr_pair]. rewrite C1, A1, C2, A2, completed_of_strip, cache_of_strip by assumption. reflexivity.
Qed.

Lemma list_str_eqb_refl l : list_eqb str_eqb l l = true.
Proof. apply (list_eqb_eq str_eqb str_eqb_eq). reflexivity. Qed.

Lemma no_spoof i : meta_disjoint i -> in_finding i = false.
Proof.
  intros H. unfold in_finding. rewrite (no_spoof_pair i H).
  destruct (hdr_pair (handler (strip_meta i))) as [[a b]|]; cbn; [|reflexivity].
  rewrite !list_str_eqb_refl. reflexivity.
Qed.

(* with the identification header left alone as well, the whole reply is the gateway's own *)
Lemma no_spoof_full i :
  meta_disjoint i -> meta_vals H_version (meta_of i) = [] -> handler i = handler (strip_meta i).
Proof.
  intros [Hc Ha] Hv. pose proof (handler_shape i) as S.
  destruct (handler i) as [o|] eqn:H1, (handler (strip_meta i)) as [o'|] eqn:H2;
    cbn in S; try contradiction; [|reflexivity].
  apply headers_closed_form in H1 as (C1 & A1 & V1). apply headers_closed_form in H2 as (C2 & A2 & V2).
  rewrite completed_of_strip in C2 by assumption. rewrite cache_of_strip in A2 by assumption.
  rewrite version_of_strip in V2 by assumption.
  destruct S as [S1 S2]. destruct o, o'. cbn in *. subst. reflexivity.
Qed.

(* ---- a run without reply (panic of net/http) needs an invalid status on its way ---- *)
Lemma gin_status_panic code k :
  gin_status code k = Panic ->
  ((code <=? 0)%Z = false /\ valid_code code = false) \/ exists st, k st = Panic.
Proof.
  unfold gin_status. destruct (code <=? 0)%Z; [eauto|]. destruct (valid_code code); [eauto|auto].
Qed.
Lemma write_header_panic engine code h b : write_header engine code h b = Panic -> valid_code code = false.
Proof. unfold write_header, project. destruct (valid_code code); [discriminate|reflexivity]. Qed.
Lemma valid_500 : valid_code 500 = true. Proof. reflexivity. Qed.

Lemma gin_render_panic i h :
  gin_render i h = Panic ->
  exists r, i_resp i = Some r /\ (r_status r =? 0)%Z = false /\ valid_code (r_status r) = false.
Proof.
  unfold gin_render, project. destruct (i_render i); try discriminate.
  destruct (i_resp i) as [r|]; [|discriminate].
  intros H. apply gin_status_panic in H as [[H1 H2]|[st H]]; [|discriminate].
  exists r. repeat split; auto. apply Z.leb_gt in H1. apply Z.eqb_neq. lia.
Qed.
Lemma mux_render_panic engine i h :
  mux_render engine i h = Panic ->
  exists r, i_resp i = Some r /\ (r_status r =? 0)%Z = false /\ valid_code (r_status r) = false.
Proof.
  unfold mux_render, http_error, project. destruct (i_render i); try discriminate.
  destruct (i_resp i) as [r|].
  - destruct (r_status r =? 0)%Z eqn:E; [discriminate|].
    intros H. apply write_header_panic in H. exists r. auto.
  - intros H. apply write_header_panic in H. rewrite valid_500 in H. discriminate.
Qed.

Lemma codes_invalid_status i :
  (exists r, i_resp i = Some r /\ (r_status r =? 0)%Z = false /\ valid_code (r_status r) = false) ->
  codes_valid i = false.
Proof. intros (r & Hr & H0 & Hv). unfold codes_valid. rewrite Hr, H0, Hv. apply andb_false_r. Qed.
Lemma codes_invalid_err i e :
  eff_err i = Some e -> valid_code (err_status i e) = false -> codes_valid i = false.
Proof. intros He Hv. unfold codes_valid. rewrite He, Hv. reflexivity. Qed.

Lemma mux_panic engine i : mux_handler engine i = Panic -> codes_valid i = false.
Proof.
  unfold mux_handler, mux_fallback, http_error.
  assert (F : match eff_err i with
              | Some e => write_header engine (err_status i e) (hset H_completed V_false (base_headers i)) (BRaw (e_msg e ++ nl)%string)
              | None => mux_render engine i (hset H_completed V_false (base_headers i)) end = Panic ->
              codes_valid i = false).
  { destruct (eff_err i) as [e|] eqn:He.
    - intros H. apply write_header_panic in H. eapply codes_invalid_err; eauto.
    - intros H. apply mux_render_panic in H. apply codes_invalid_status. exact H. }
  destruct (i_resp i) as [r|]; [destruct (nonempty r)|]; try exact F.
  intros H. apply mux_render_panic in H. apply codes_invalid_status. exact H.
Qed.

Lemma panic_only_invalid i : handler i = Panic -> codes_valid i = false.
Proof.
  unfold handler. destruct (i_impl i); [|apply mux_panic|apply mux_panic].
  unfold gin_handler. intros H.
  destruct (eff_err i) as [e|] eqn:He; [destruct (i_resp i) as [r|]|].
  - apply gin_render_panic in H. apply codes_invalid_status. exact H.
  - apply gin_status_panic in H as [[_ H]|[st H]]; [|discriminate]. eapply codes_invalid_err; eauto.
  - apply gin_render_panic in H. apply codes_invalid_status. exact H.
Qed.

(* ---- the interceptor of the mux engine ---- *)
Lemma mux_render_status engine i h o :
  mux_render engine i h = Reply o -> render_non200 i = false -> o_status o = 200%Z.
Proof.
  unfold mux_render, render_non200, http_error, project.
  destruct (i_render i); try solve [intros H _; inversion H; reflexivity].
  destruct (i_resp i) as [r|]; [|discriminate].
  destruct (r_status r =? 0)%Z eqn:E0; [intros H _; inversion H; reflexivity|].
  intros H N. apply write_header_get in H as (_ & Hs & _). rewrite Hs.
  cbn [negb andb] in N. apply negb_false_iff in N. apply Z.eqb_eq in N. exact N.
Qed.

Lemma mux_status_200 engine i o :
  mux_handler engine i = Reply o -> mux_err_exit i = false -> render_non200 i = false ->
  o_status o = 200%Z.
Proof.
  unfold mux_handler, mux_fallback, mux_err_exit, has_data.
  destruct (i_resp i) as [r|]; [destruct (nonempty r)|]; cbn [negb andb].
  - intros H _ N. eapply mux_render_status; eauto.
  - destruct (eff_err i); [discriminate|]. intros H _ N. eapply mux_render_status; eauto.
  - destruct (eff_err i); [discriminate|]. intros H _ N. eapply mux_render_status; eauto.
Qed.

Lemma interceptor i o :
  i_impl i = MuxEngine -> handler i = Reply o -> o_status o <> 200%Z -> o_completed o = [V_false].
Proof.
  unfold handler. intros ->. intros H Hs.
  pose proof (mux_status_200 true i o H) as S.
  apply mux_headers in H as (Hc & _). rewrite Hc.
  destruct (mux_err_exit i); [reflexivity|].
  destruct (render_non200 i); [reflexivity|]. exfalso. apply Hs. apply S; reflexivity.
Qed.

(* ---- independence of the multi-error interface, agreement of the implementations ---- *)
Definition with_multi (b : bool) (i : input) : input :=
  {| i_impl := i_impl i; i_render := i_render i; i_resp := i_resp i;
     i_err := match i_err i with
              | Some e => Some {| e_status := e_status e; e_multi := b; e_msg := e_msg e; e_buried := e_buried e; e_timeout := e_timeout e |}
              | None => None end;
     i_ttl := i_ttl i; i_ctx_done := i_ctx_done i; i_errf := i_errf i; i_ver := i_ver i;
     i_ctx_errs := i_ctx_errs i |}.
Definition with_impl (im : impl) (i : input) : input :=
  {| i_impl := im; i_render := i_render i; i_resp := i_resp i; i_err := i_err i;
     i_ttl := i_ttl i; i_ctx_done := i_ctx_done i; i_errf := i_errf i; i_ver := i_ver i;
     i_ctx_errs := i_ctx_errs i |}.

Lemma multi_irrelevant b i : handler (with_multi b i) = handler i.
Proof.
  destruct i as [im rd rs er ttl cd ef ver ce]. destruct er as [[es em msg eb et]|]; reflexivity.
Qed.

Definition with_ctx_errs (l : list ctx_err) (i : input) : input :=
  {| i_impl := i_impl i; i_render := i_render i; i_resp := i_resp i; i_err := i_err i;
     i_ttl := i_ttl i; i_ctx_done := i_ctx_done i; i_errf := i_errf i; i_ver := i_ver i;
     i_ctx_errs := l |}.
Lemma ctx_errs_irrelevant l i : handler (with_ctx_errs l i) = handler i.
Proof. destruct i as [im rd rs er ttl cd ef ver ce]. reflexivity. Qed.

Definition with_buried (b : option Z) (i : input) : input :=
  {| i_impl := i_impl i; i_render := i_render i; i_resp := i_resp i;
     i_err := match i_err i with
              | Some e => Some {| e_status := e_status e; e_multi := e_multi e; e_msg := e_msg e; e_buried := b; e_timeout := e_timeout e |}
              | None => None end;
     i_ttl := i_ttl i; i_ctx_done := i_ctx_done i; i_errf := i_errf i; i_ver := i_ver i;
     i_ctx_errs := i_ctx_errs i |}.
Lemma buried_irrelevant b i : handler (with_buried b i) = handler i.
Proof. destruct i as [im rd rs er ttl cd ef ver ce]. destruct er as [[es em msg eb et]|]; reflexivity. Qed.

(* an error that only wraps a status error is answered with the translator's verdict *)
Lemma wrapped_status i e n :
  i_resp i = None -> i_err i = Some e -> e_status e = None -> e_buried e = Some n ->
  valid_code (i_errf i) = true ->
  exists o, handler i = Reply o /\ o_status o = i_errf i.
Proof.
  intros Hr He Hs _ Hv.
  assert (He' : eff_err i = Some e) by (unfold eff_err; rewrite He; reflexivity).
  assert (E : err_status i e = i_errf i) by (unfold err_status; rewrite Hs; reflexivity).
  destruct (error_status i e Hr He') as (o & H & S & _); [rewrite E; exact Hv|].
  exists o. rewrite <- E. auto.
Qed.

Lemma impls_agree i im1 im2 o1 o2 :
  meta_disjoint i ->
  engine_override (with_impl im1 i) = false -> engine_override (with_impl im2 i) = false ->
  handler (with_impl im1 i) = Reply o1 -> handler (with_impl im2 i) = Reply o2 ->
  o_completed o1 = o_completed o2 /\ o_cache o1 = o_cache o2.
Proof.
  intros [Hc Ha] E1 E2 H1 H2.
  rewrite (completed_header _ _ H1 Hc E1), (completed_header _ _ H2 Hc E2).
  rewrite (cache_header _ _ H1 Ha), (cache_header _ _ H2 Ha). split; reflexivity.
Qed.

(* ---- witnesses: what happens without the hypotheses ---- *)
Definition spoof_input (im : impl) (k v : string) : input :=
  {| i_impl := im; i_render := RNoop;
     i_resp := Some {| r_data := Some []; r_complete := true; r_meta := [(k, [v])];
                       r_status := 200; r_io := Some "body" |};
     i_err := None; i_ttl := 0; i_ctx_done := false; i_errf := 500; i_ver := "Version undefined"; i_ctx_errs := [] |}.

Lemma completed_spoof im :
  exists o, handler (spoof_input im "x-krakend-completed" "true") = Reply o /\
            cond (spoof_input im "x-krakend-completed" "true") = false /\
            o_completed o = ["false"; "true"].
Proof. destruct im; eexists; vm_compute; repeat split; reflexivity. Qed.

Lemma cache_spoof im :
  exists o, handler (spoof_input im "Cache-Control" "public, max-age=3600") = Reply o /\
            cond (spoof_input im "Cache-Control" "public, max-age=3600") = false /\
            i_ttl (spoof_input im "Cache-Control" "public, max-age=3600") = 0%Z /\
            o_cache o = ["public, max-age=3600"].
Proof. destruct im; eexists; vm_compute; repeat split; reflexivity. Qed.

Definition override_input : input :=
  {| i_impl := MuxEngine; i_render := RNoop;
     i_resp := Some {| r_data := Some [("k", JStr "v")]; r_complete := true; r_meta := [];
                       r_status := 201; r_io := None |};
     i_err := None; i_ttl := 0; i_ctx_done := false; i_errf := 500; i_ver := "Version undefined"; i_ctx_errs := [] |}.
Lemma engine_override_witness :
  exists o, handler override_input = Reply o /\ cond override_input = true /\
            meta_disjoint override_input /\ o_completed o = ["false"].
Proof. eexists; vm_compute; repeat split; reflexivity. Qed.

(* ---- the boolean oracle is the property ---- *)
Lemma completed_b_iff i o : completed_b i o = true <-> completed_truthful i o.
Proof.
  unfold completed_b, completed_truthful.
  rewrite andb_true_iff, !eqb_true_iff, <- !str_mem_In.
  destruct (cond i), (str_mem V_true (o_completed o)), (str_mem V_false (o_completed o));
    cbn; intuition congruence.
Qed.

Lemma cache_b_iff i o : cache_b i o = true <-> cache_truthful i o.
Proof.
  unfold cache_b, cache_truthful. rewrite forallb_forall. split.
  - intros H v Hin Hg. specialize (H v Hin). rewrite Hg in H. cbn in H.
    apply andb_true_iff in H as [H1 H2]. split; [exact H1|].
    apply negb_true_iff, Z.eqb_neq in H2. exact H2.
  - intros H v Hin. destruct (gateway_cache v) eqn:Hg; [|reflexivity]. cbn.
    destruct (H v Hin Hg) as [H1 H2]. rewrite H1. apply Z.eqb_neq in H2. rewrite H2. reflexivity.
Qed.

Lemma error_status_b_iff i o : error_status_b i o = true <-> error_status_ok i o.
Proof.
  unfold error_status_b, error_status_ok. destruct (i_resp i) as [r|].
  - split; [intros _ H; discriminate|reflexivity].
  - destruct (i_err i) as [e|].
    + split.
      * intros H _ e' E Hv. inversion E; subst e'. rewrite Hv in H. cbn in H. apply Z.eqb_eq. exact H.
      * intros H. destruct (valid_code (err_status i e)) eqn:Hv; [|reflexivity]. cbn.
        apply Z.eqb_eq. apply H; auto.
    + split; [intros _ _ e E; discriminate|reflexivity].
Qed.

Lemma json_body_b_iff i o : json_body_b i o = true <-> json_body_ok i o.
Proof.
  unfold json_body_b, json_body_ok. split.
  - intros H v r Hb Hr. rewrite Hb, Hr in H. destruct (i_render i); auto.
  - intros H. destruct (o_body o) as [v|s|]; [|reflexivity|reflexivity].
    destruct (i_resp i) as [r|]; [|reflexivity].
    specialize (H v r eq_refl eq_refl). destruct (i_render i); auto.
Qed.

Lemma spec_b_iff i o : spec_b i o = true <-> Spec i o.
Proof.
  unfold spec_b, Spec. rewrite !andb_true_iff, orb_true_iff.
  rewrite completed_b_iff, cache_b_iff, error_status_b_iff, json_body_b_iff.
  unfold version_b, version_present. rewrite str_mem_In.
  destruct (engine_override i); intuition congruence.
Qed.

(* ---- the model satisfies the oracle ---- *)
Lemma wfj_member m k v : wfj (JObj m) = true -> lookup k m = Some v -> wfj v = true.
Proof.
  intros H L. apply wfj_obj_inv in H as [_ F]. apply lookup_In in L.
  rewrite Forall_forall in F. apply (F (k, v) L).
Qed.

Lemma data_json_wf i r : data_wf i = true -> i_resp i = Some r -> wfj (data_json r) = true.
Proof.
  unfold data_wf, data_json. intros H Hr. rewrite Hr in H. destruct (r_data r); [exact H|reflexivity].
Qed.
Lemma collection_wf i r : data_wf i = true -> i_resp i = Some r -> wfj (collection (Some r)) = true.
Proof.
  unfold data_wf, collection, member. intros H Hr. rewrite Hr in H. destruct (r_data r) as [m|]; [|reflexivity].
  destruct (lookup "collection" m) eqn:L; [|reflexivity]. eapply wfj_member; eauto.
Qed.

Lemma model_meets_oracle i :
  data_wf i = true -> meta_disjoint i -> spec_out_b i (handler i) = true.
Proof.
  intros Hwf [Hc Ha]. destruct (handler i) as [o|] eqn:H; cbn [spec_out_b].
  2:{ rewrite (panic_only_invalid i H). reflexivity. }
  apply spec_b_iff. unfold Spec. repeat split.
  - rewrite (completed_header i o H Hc H0). destruct (cond i); cbn; intuition discriminate.
  - rewrite (completed_header i o H Hc H0). destruct (cond i); cbn; intuition discriminate.
  - rewrite (completed_header i o H Hc H0). destruct (cond i); cbn; intuition discriminate.
  - rewrite (completed_header i o H Hc H0). destruct (cond i); cbn; intuition discriminate.
  - rewrite (cache_header i o H Ha) in H0. destruct (cond i); [|destruct H0]. reflexivity.
  - rewrite (cache_header i o H Ha) in H0. unfold cache_enabled in H0.
    destruct (cond i); [|destruct H0]. cbn [andb] in H0.
    destruct (i_ttl i =? 0)%Z eqn:E; [destruct H0|]. apply Z.eqb_neq. exact E.
  - destruct (version_header i o H) as [rest Hv]. unfold version_present. rewrite Hv. left. reflexivity.
  - intros Hr e He Hv.
    assert (He' : eff_err i = Some e) by (unfold eff_err; rewrite He; reflexivity).
    destruct (error_status i e Hr He' Hv) as (o' & H' & Hs & _).
    rewrite H in H'. inversion H'; subst. exact Hs.
  - intros v r Hb Hr. destruct (json_body i o v H Hb) as (J1 & J2 & _).
    destruct (i_render i) eqn:R; auto.
    + rewrite (J1 eq_refl), Hr. cbn [json_of]. apply json_eqb_refl. eapply data_json_wf; eauto.
    + rewrite (J2 eq_refl), Hr. apply json_eqb_refl. eapply collection_wf; eauto.
Qed.

Lemma error_status_500 i e :
  i_resp i = None -> eff_err i = Some e -> e_status e = None -> i_errf i = 500%Z ->
  exists o, handler i = Reply o /\ o_status o = 500%Z /\ o_completed o = [V_false] /\ o_cache o = [].
Proof.
  intros Hr He Hs Hf.
  assert (E : err_status i e = 500%Z) by (unfold err_status; rewrite Hs; exact Hf).
  destruct (error_status i e Hr He) as (o & H & S & C & A & _); [rewrite E; reflexivity|].
  exists o. rewrite <- E. auto.
Qed.

Lemma error_status_own i e n :
  i_resp i = None -> eff_err i = Some e -> e_status e = Some n -> (100 <= n <= 999)%Z ->
  exists o, handler i = Reply o /\ o_status o = n /\ o_completed o = [V_false] /\ o_cache o = [].
Proof.
  intros Hr He Hs Hn.
  assert (E : err_status i e = n) by (unfold err_status; rewrite Hs; reflexivity).
  destruct (error_status i e Hr He) as (o & H & S & C & A & _); [rewrite E; apply valid_code_range; exact Hn|].
  exists o. rewrite <- E. auto.
Qed.

(* ---- exactly when there is no reply ---- *)
Definition noop_status_panics (gin : bool) (i : input) : bool :=
  match i_render i, i_resp i with
  | RNoop, Some r =>
      (if gin then negb (r_status r <=? 0)%Z else negb (r_status r =? 0)%Z) && negb (valid_code (r_status r))
  | _, _ => false
  end.
Definition panics (i : input) : bool :=
  match i_impl i with
  | Gin => match eff_err i, i_resp i with
           | Some e, None => negb (err_status i e <=? 0)%Z && negb (valid_code (err_status i e))
           | _, _ => noop_status_panics true i
           end
  | _ => if has_data i then noop_status_panics false i
         else match eff_err i with
              | Some e => negb (valid_code (err_status i e))
              | None => noop_status_panics false i
              end
  end.

Lemma gin_status_panic_iff code k :
  (forall st, k st <> Panic) ->
  (gin_status code k = Panic <-> negb (code <=? 0)%Z && negb (valid_code code) = true).
Proof.
  intros Hk. unfold gin_status. destruct (code <=? 0)%Z; cbn.
  - split; [intros H; destruct (Hk _ H)|discriminate].
  - destruct (valid_code code); cbn; split; try discriminate; auto. intros H; destruct (Hk _ H).
Qed.
Lemma project_not_panic st h b : project st h b <> Panic.
Proof. unfold project. discriminate. Qed.
Lemma write_header_panic_iff engine code h b :
  write_header engine code h b = Panic <-> negb (valid_code code) = true.
Proof.
  unfold write_header, project. destruct (valid_code code); cbn; split; try discriminate; auto.
Qed.

Lemma gin_render_panic_iff i h : gin_render i h = Panic <-> noop_status_panics true i = true.
Proof.
  unfold gin_render, noop_status_panics, project.
  destruct (i_render i); try (split; discriminate).
  destruct (i_resp i) as [r|]; [|split; discriminate].
  apply gin_status_panic_iff. intros st. discriminate.
Qed.
Lemma mux_render_panic_iff engine i h : mux_render engine i h = Panic <-> noop_status_panics false i = true.
Proof.
  unfold mux_render, noop_status_panics, http_error, project.
  destruct (i_render i); try (split; discriminate).
  destruct (i_resp i) as [r|].
  - destruct (r_status r =? 0)%Z; cbn [negb andb]; [split; discriminate|].
    apply write_header_panic_iff.
  - rewrite write_header_panic_iff, valid_500. split; discriminate.
Qed.

Lemma panic_iff i : handler i = Panic <-> panics i = true.
Proof.
  unfold handler, panics. destruct (i_impl i).
  - unfold gin_handler. destruct (eff_err i) as [e|]; [destruct (i_resp i) as [r|]|];
      try apply gin_render_panic_iff.
    apply gin_status_panic_iff. intros st. apply project_not_panic.
  - unfold mux_handler, mux_fallback, has_data, http_error.
    destruct (i_resp i) as [r|]; [destruct (nonempty r)|]; try apply mux_render_panic_iff;
      (destruct (eff_err i) as [e|]; [apply write_header_panic_iff|apply mux_render_panic_iff]).
  - unfold mux_handler, mux_fallback, has_data, http_error.
    destruct (i_resp i) as [r|]; [destruct (nonempty r)|]; try apply mux_render_panic_iff;
      (destruct (eff_err i) as [e|]; [apply write_header_panic_iff|apply mux_render_panic_iff]).
Qed.

(* a reply exists whenever every status on the way is one net/http accepts *)
Lemma reply_exists i : codes_valid i = true -> exists o, handler i = Reply o.
Proof.
  intros H. destruct (handler i) as [o|] eqn:E; [eauto|].
  apply panic_only_invalid in E. congruence.
Qed.

(* ---- render selection ---- *)
Lemma get_render_output im out backs r :
  out <> "" -> registered im out = Some r -> get_render im out backs = r.
Proof.
  intros Hn Hr. unfold get_render, with_fallback. apply str_eqb_neq in Hn. rewrite Hn, Hr. reflexivity.
Qed.
Lemma get_render_fallback im out backs :
  out = "" \/ registered im out = None ->
  get_render im out backs =
  match backs with [e] => with_fallback im e (NRender RJson) | _ => NRender RJson end.
Proof.
  intros [->|Hr]; unfold get_render; [reflexivity|].
  destruct (str_eqb out ""); [reflexivity|]. unfold with_fallback at 1. rewrite Hr. reflexivity.
Qed.
Lemma registered_common im name r :
  registered Mux name = Some r -> registered im name = Some r.
Proof.
  unfold registered.
  destruct (str_eqb name "string"), (str_eqb name "json"), (str_eqb name "no-op"),
    (str_eqb name "json-collection"); try discriminate; auto.
Qed.
Lemma registered_mux_plain im name n :
  im <> Gin -> registered im name = Some n ->
  exists r, n = NRender r /\ In r [RJson; RNoop; RString; RCollection].
Proof.
  intros Hi. unfold registered.
  destruct (str_eqb name "string"); [intros H; inversion H; eexists; split; [reflexivity|cbn; tauto]|].
  destruct (str_eqb name "json"); [intros H; inversion H; eexists; split; [reflexivity|cbn; tauto]|].
  destruct (str_eqb name "no-op"); [intros H; inversion H; eexists; split; [reflexivity|cbn; tauto]|].
  destruct (str_eqb name "json-collection"); [intros H; inversion H; eexists; split; [reflexivity|cbn; tauto]|].
  destruct im; [contradiction|discriminate|discriminate].
Qed.
Lemma mux_renders im out backs a :
  im <> Gin -> In (render_of_config im out backs a) [RJson; RNoop; RString; RCollection].
Proof.
  intros Hi. unfold render_of_config, get_render.
  assert (W : forall key fb, (exists r, fb = NRender r /\ In r [RJson; RNoop; RString; RCollection]) ->
              exists r, with_fallback im key fb = NRender r /\ In r [RJson; RNoop; RString; RCollection]).
  { intros key fb Hfb. unfold with_fallback. destruct (registered im key) eqn:E; [|exact Hfb].
    eapply registered_mux_plain; eauto. }
  assert (J : exists r, NRender RJson = NRender r /\ In r [RJson; RNoop; RString; RCollection])
    by (eexists; split; [reflexivity|cbn; tauto]).
  assert (F : exists r, match backs with [e] => with_fallback im e (NRender RJson) | _ => NRender RJson end = NRender r /\
                        In r [RJson; RNoop; RString; RCollection]).
  { destruct backs as [|e [|e' l]]; auto. }
  destruct (str_eqb out "").
  - destruct F as (r & -> & Hin). exact Hin.
  - destruct (W out _ F) as (r & -> & Hin). exact Hin.
Qed.
Lemma noop_selected im backs a : render_of_config im "no-op" backs a = RNoop.
Proof. destruct im; reflexivity. Qed.
Lemma negotiate_total a : In (negotiate a) [RJson; RXml; RYaml].
Proof. destruct a; cbn; tauto. Qed.

(* ---- the writer-operation layer ---- *)
Definition sends (o : op) : bool :=
  match o with OWriteHeader _ | OWrite _ => true | _ => false end.
Definition touches_headers (o : op) : bool :=
  match o with OSet _ _ | OSetAbsent _ _ | ODel _ | OAddMeta _ => true | _ => false end.
(* no header operation after an operation that may send the status line *)
Fixpoint headers_first (ops : list op) : bool :=
  match ops with
  | [] => true
  | o :: r => (if sends o then forallb (fun x => negb (touches_headers x)) r else true) && headers_first r
  end.

Lemma ops_headers_first i : headers_first (ops_of i) = true.
Proof.
  unfold ops_of, gin_ops, mux_ops, gin_pre_ops, gin_render_ops, mux_render_ops, http_error_ops, io_ops.
  destruct (i_impl i);
    (destruct (i_resp i) as [r|];
     [destruct (nonempty r), (r_complete r), (cache_enabled (i_ttl i)), (r_io r), (r_status r =? 0)%Z|];
     destruct (eff_err i), (i_render i); reflexivity).
Qed.

(* operations on other headers do not touch the three the property speaks of *)
Definition other (k : string) : bool :=
  negb (str_eqb H_completed k) && negb (str_eqb H_cache k) && negb (str_eqb H_version k).
Lemma hget_hset_other X k v h : str_eqb X k = false -> hget X (hset k v h) = hget X h.
Proof. intros H. rewrite hget_hset, H. reflexivity. Qed.
Lemma hget_absent_other X k v h : str_eqb X k = false -> hget X (hset_absent k v h) = hget X h.
Proof. intros H. unfold hset_absent. destruct (lookup k h) as [[|x l]|]; try reflexivity; apply hget_hset_other; exact H. Qed.
Lemma hget_remove_other X k (h : hdrs) : str_eqb X k = false -> hget X (remove k h) = hget X h.
Proof.
  intros H. Transparent hget. unfold hget. Opaque hget.
  rewrite lookup_remove_neq; [reflexivity|]. apply str_eqb_neq. exact H.
Qed.
Lemma project_agree st h h' b :
  hget H_completed h = hget H_completed h' -> hget H_cache h = hget H_cache h' ->
  hget H_version h = hget H_version h' -> project st h b = project st h' b.
Proof. unfold project. intros -> -> ->. reflexivity. Qed.

Lemma valid_200 : valid_code 200 = true. Proof. reflexivity. Qed.
Lemma pos_not_le c : (0 <? c)%Z = negb (c <=? 0)%Z.
Proof. destruct (c <=? 0)%Z eqn:E; cbn; [apply Z.ltb_ge; apply Z.leb_le; exact E|apply Z.ltb_lt; apply Z.leb_gt; exact E]. Qed.

Global Opaque hset_absent.
Ltac agree_tac :=
  apply project_agree;
  repeat (first [rewrite hget_absent_other by reflexivity | rewrite hget_hset_other by reflexivity
                | rewrite hget_remove_other by reflexivity]);
  autorewrite with hdr; reflexivity.

Lemma gin_ops_refine i : exec false (gin_ops i) = gin_handler i.
Proof.
  unfold exec, gin_ops, gin_handler, gin_pre_ops, gin_pre, gin_render_ops, gin_render, gin_status, io_ops, cond, base_headers, CT.
  destruct (i_resp i) as [r|];
    [destruct (nonempty r), (r_complete r), (cache_enabled (i_ttl i))|];
    destruct (eff_err i) as [e|]; destruct (i_render i);
    cbn -[Z.ltb Z.leb Z.eqb]; unfold send; cbn -[Z.ltb Z.leb Z.eqb];
    try rewrite valid_200; cbn -[Z.ltb Z.leb Z.eqb];
    try agree_tac.
  all: rewrite ?pos_not_le, ?andb_true_r; unfold io_body;
    try (destruct (r_io r));
    repeat match goal with |- context [(?c <=? 0)%Z] => destruct (c <=? 0)%Z eqn:? end;
    cbn -[Z.ltb Z.leb Z.eqb]; unfold send; cbn -[Z.ltb Z.leb Z.eqb];
    rewrite ?valid_200;
    repeat match goal with |- context [valid_code ?c] => destruct (valid_code c) eqn:? end;
    cbn -[Z.ltb Z.leb Z.eqb]; try reflexivity; try agree_tac.
Qed.

Lemma mux_ops_refine engine i : exec engine (mux_ops i) = mux_handler engine i.
Proof.
  unfold exec, mux_ops, mux_handler, mux_fallback, mux_pre, mux_render_ops, mux_render, http_error_ops,
    http_error, write_header, io_ops, io_body, base_headers, CT.
  destruct engine;
  (destruct (i_resp i) as [r|];
    [destruct (nonempty r), (r_complete r), (cache_enabled (i_ttl i))|];
    destruct (eff_err i) as [e|]; destruct (i_render i);
    cbn -[Z.ltb Z.leb Z.eqb]; unfold send; cbn -[Z.ltb Z.leb Z.eqb];
    rewrite ?valid_200, ?valid_500; cbn -[Z.ltb Z.leb Z.eqb];
    try agree_tac).
  all: try (destruct (r_io r));
    repeat match goal with |- context [(?c =? 0)%Z] => destruct (c =? 0)%Z eqn:? end;
    cbn -[Z.ltb Z.leb Z.eqb]; unfold send; cbn -[Z.ltb Z.leb Z.eqb];
    rewrite ?valid_200, ?valid_500;
    repeat match goal with |- context [valid_code ?c] => destruct (valid_code c) eqn:? end;
    cbn -[Z.ltb Z.leb Z.eqb];
    repeat match goal with |- context [(?c =? 200)%Z] => destruct (c =? 200)%Z eqn:? end;
    cbn -[Z.ltb Z.leb Z.eqb]; try reflexivity; try agree_tac.
Qed.

Lemma handler_ops_refines i : handler_ops i = handler i.
Proof.
  unfold handler_ops, handler, ops_of, is_engine. destruct (i_impl i).
  - apply gin_ops_refine.
  - apply mux_ops_refine.
  - apply mux_ops_refine.
Qed.

(* ---- timeout-typed errors, the stock translator, the hidden version ---- *)
Definition with_timeout (b : bool) (i : input) : input :=
  {| i_impl := i_impl i; i_render := i_render i; i_resp := i_resp i;
     i_err := match i_err i with
              | Some e => Some {| e_status := e_status e; e_multi := e_multi e; e_msg := e_msg e;
                                  e_buried := e_buried e; e_timeout := b |}
              | None => None end;
     i_ttl := i_ttl i; i_ctx_done := i_ctx_done i; i_errf := i_errf i; i_ver := i_ver i;
     i_ctx_errs := i_ctx_errs i |}.
Lemma timeout_irrelevant b i : handler (with_timeout b i) = handler i.
Proof. destruct i as [im rd rs er ttl cd ef ver ce]. destruct er as [[es em msg eb et]|]; reflexivity. Qed.

(* an error without a status of its own under the stock translator: 500, timeout or not *)
Lemma stock_translator_500 i e :
  i_resp i = None -> i_err i = Some e -> e_status e = None -> i_errf i = stock_translator e ->
  exists o, handler i = Reply o /\ o_status o = 500%Z.
Proof.
  intros Hr He Hs Hf.
  assert (He' : eff_err i = Some e) by (unfold eff_err; rewrite He; reflexivity).
  destruct (error_status_500 i e Hr He' Hs Hf) as (o & H & S & _). eauto.
Qed.

Lemma version_value_nonempty build hide : build <> "" -> version_value build hide <> "".
Proof. unfold version_value. destruct hide; [discriminate|auto]. Qed.

Lemma version_shown build hide i o :
  i_ver i = version_value build hide -> handler i = Reply o ->
  exists rest, o_version o = version_value build hide :: rest.
Proof. intros <- H. apply version_header. exact H. Qed.
