(* C03 - lemmas and proofs. *)
Require Import Verif.Common.Base Verif.Common.Heap Verif.Model.C03 Verif.Spec.C03.

(* ---------- object names: decidable equality ---------- *)
Lemma field_eqb_spec a b : field_eqb a b = true <-> a = b.
Proof. destruct a, b; simpl; split; intros H; try reflexivity; try discriminate. Qed.
Lemma site_eqb_spec a b : site_eqb a b = true <-> a = b.
Proof.
  destruct a, b; simpl; split; intros H; try reflexivity; try discriminate;
    try (apply Nat.eqb_eq in H; subst; reflexivity); try (inversion H; apply Nat.eqb_refl).
Qed.
Lemma owner_eqb_spec a b : owner_eqb a b = true <-> a = b.
Proof.
  destruct a, b; simpl; split; intros H; try reflexivity; try discriminate.
  - apply Nat.eqb_eq in H. subst. reflexivity.
  - inversion H. apply Nat.eqb_refl.
  - apply andb_true_iff in H as [H1 H2]. apply Nat.eqb_eq in H1, H2. subst. reflexivity.
  - inversion H. rewrite !Nat.eqb_refl. reflexivity.
Qed.
Lemma obj_eqb_spec a b : obj_eqb a b = true <-> a = b.
Proof.
  destruct a as [w s f], b as [w' s' f']. unfold obj_eqb. simpl.
  rewrite !andb_true_iff, owner_eqb_spec, site_eqb_spec, field_eqb_spec.
  split; [intros [[-> ->] ->]; reflexivity|intros H; inversion H; auto].
Qed.

(* ---------- H1 instantiated ---------- *)
Lemma noninterference cfg q sched s t :
  race_free_b cfg q = true ->
  run obj_eqb (init (endpoint_prog cfg q) (init_heap q)) sched = Some s ->
  In t (pool s) ->
  In (tid t, (log t ++ exp_log obj_eqb (rem t) (shadow t))%list)
     (seq_logs obj_eqb (endpoint_prog cfg q) (init_heap q)).
Proof. intros. eapply H1_noninterference; eauto. exact obj_eqb_spec. Qed.

Lemma finished_log cfg q sched s t :
  race_free_b cfg q = true ->
  run obj_eqb (init (endpoint_prog cfg q) (init_heap q)) sched = Some s ->
  In t (pool s) -> rem t = [] ->
  In (tid t, log t) (seq_logs obj_eqb (endpoint_prog cfg q) (init_heap q)).
Proof. intros. eapply H1_finished; eauto. exact obj_eqb_spec. Qed.

(* ---------- soundness of the boolean oracle ---------- *)
Lemma vals_eqb_eq a b : vals_eqb a b = true <-> a = b.
Proof. apply list_eqb_eq. intros. apply str_eqb_eq. Qed.

Lemma opt_vals_eqb_eq (a b : option (list string)) : opt_eqb vals_eqb a b = true -> a = b.
Proof.
  destruct a, b; simpl; intros H; try discriminate; try reflexivity.
  apply vals_eqb_eq in H. subst. reflexivity.
Qed.

Lemma mmap_eqb_sound a b : mmap_eqb a b = true -> mmap_equiv a b.
Proof.
  unfold mmap_eqb, mmap_equiv. intros H k. rewrite forallb_forall in H.
  destruct (lookup k a) as [va|] eqn:Ea.
  - pose proof (lookup_In _ _ _ Ea) as Hin.
    specialize (H (k, va) (in_or_app _ _ _ (or_introl Hin))). simpl in H. rewrite Ea in H.
    apply opt_vals_eqb_eq in H. exact H.
  - destruct (lookup k b) as [vb|] eqn:Eb; [|reflexivity].
    pose proof (lookup_In _ _ _ Eb) as Hin.
    specialize (H (k, vb) (in_or_app _ _ _ (or_intror Hin))). simpl in H. rewrite Ea, Eb in H.
    discriminate.
Qed.

Lemma sent_eqb_sound a b : sent_eqb a b = true -> sent_equiv a b.
Proof.
  unfold sent_eqb, sent_equiv. rewrite !andb_true_iff. intros [[[[H1 H2] H3] H4] H5].
  apply str_eqb_eq in H1, H2, H5. repeat split; auto using mmap_eqb_sound.
Qed.

Lemma isolated_b_sound o : isolated_b o = true -> Isolated o.
Proof.
  unfold isolated_b, Isolated. rewrite andb_true_iff. intros [H1 H2].
  apply Nat.eqb_eq in H1. split; [exact H1|].
  intros s s' Hs Hs'. rewrite forallb_forall in H2. specialize (H2 s Hs).
  rewrite forallb_forall in H2. apply sent_eqb_sound. auto.
Qed.

Lemma spec_b_sound obs race : spec_b obs race = true -> Spec obs race.
Proof.
  unfold spec_b, Spec. rewrite andb_true_iff. intros [H1 H2].
  split; [destruct race; simpl in H1; congruence|].
  intros o Ho. rewrite forallb_forall in H2. apply isolated_b_sound. auto.
Qed.
