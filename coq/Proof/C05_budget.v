(* C05 - schedule layer, "before the time budget expires": in every interleaving without a
   budget timeout, an attempt whose backend call returned a complete response makes the
   collector return a complete response. *)
Require Import Verif.Common.Base Verif.Common.Fanout.
Require Import Verif.Model.C05 Verif.Spec.C05 Verif.Proof.C05 Verif.Proof.C05_sched.
From Coq Require Import Permutation.

(* an attempt that held a response and delivered the context error instead *)
Definition is_dirty (x : wst msg) : bool :=
  match x with Sent (MRes _) (MFail _) => true | _ => false end.
Definition dirtyc (w : list (wst msg)) : nat := List.length (filter is_dirty w).

Lemma dirtyc_upd w : forall i x y,
  nth_error w i = Some y ->
  dirtyc (upd i x w) + (if is_dirty y then 1 else 0) = dirtyc w + (if is_dirty x then 1 else 0).
Proof.
  unfold dirtyc. induction w as [|z r IH]; intros [|i] x y H; simpl in *; try discriminate.
  - inversion H; subst. destruct (is_dirty x), (is_dirty y); simpl; lia.
  - specialize (IH i x y H). destruct (is_dirty z); simpl; lia.
Qed.

Lemma dirtyc_zero_nth w : forall i x, dirtyc w = 0 -> nth_error w i = Some x -> is_dirty x = false.
Proof.
  unfold dirtyc. induction w as [|z r IH]; intros [|i] x H E; simpl in *; try discriminate.
  - inversion E; subst. destruct (is_dirty x); [discriminate|reflexivity].
  - destruct (is_dirty z); [discriminate|]. eapply IH; eauto.
Qed.

Section Budget.
  Variable n : nat.
  Variable cerr : error.
  Variable idle : bool.
  Notation STEP := (step msg n route (MFail cerr) can_finish idle).
  Notation RUN := (run msg n route (MFail cerr) can_finish idle).

  Definition D (s : st msg) : Prop :=
    (fin msg s = false -> cancelled msg s = false /\ dirtyc (ws msg s) = 0) /\
    dirtyc (ws msg s) <= List.length (qf msg s).

  Lemma step_D s l s' : l <> LTimeout -> D s -> STEP s l = Some s' -> D s'.
  Proof.
    unfold D. intros Hl [D1 D2] H. destruct l as [i m|i|i|c| | |]; simpl in H.
    - destruct (nth_error (ws msg s) i) as [[| |]|] eqn:E; try discriminate.
      inversion H; subst; unfold set_ws; simpl.
      pose proof (dirtyc_upd _ _ (Ret m) _ E) as U. simpl in U.
      split; [intros F; destruct (D1 F); split; [assumption|lia]|lia].
    - destruct (nth_error (ws msg s) i) as [[|m|]|] eqn:E; try discriminate.
      pose proof (dirtyc_upd _ _ (Sent m m) _ E) as U.
      assert (Hm : is_dirty (Sent m m) = false) by (destruct m; reflexivity).
      rewrite Hm in U. simpl in U.
      destruct (route m).
      + destruct (Nat.ltb (List.length (qp msg s)) n); try discriminate. inversion H; subst; simpl.
        split; [intros F; destruct (D1 F); split; [assumption|lia]|lia].
      + destruct (Nat.ltb (List.length (qf msg s)) n); try discriminate. inversion H; subst; simpl.
        rewrite app_length. simpl.
        split; [intros F; destruct (D1 F); split; [assumption|lia]|lia].
    - destruct (nth_error (ws msg s) i) as [[|m|]|] eqn:E; try discriminate.
      destruct (route m) eqn:R; try discriminate.
      destruct (cancelled msg s) eqn:C; simpl in H; try discriminate.
      destruct (Nat.ltb (List.length (qf msg s)) n); try discriminate. inversion H; subst; simpl.
      pose proof (dirtyc_upd _ _ (Sent m (MFail cerr)) _ E) as U. simpl in U.
      rewrite app_length. simpl.
      split.
      + intros F. destruct (D1 F) as [C' _]. congruence.
      + destruct m; simpl in U; lia.
    - destruct (collecting msg can_finish s) eqn:C; try discriminate.
      unfold collecting in C. apply andb_true_iff in C as [C _]. apply andb_true_iff in C as [C1 _].
      apply negb_true_iff in C1. destruct (D1 C1) as [Dc Dz].
      destruct c.
      + destruct (qp msg s); try discriminate. inversion H; subst; simpl.
        split; [intros _; auto|lia].
      + destruct (qf msg s); try discriminate. inversion H; subst; simpl.
        split; [intros _; auto|lia].
    - destruct (idle && collecting msg can_finish s); try discriminate.
      inversion H; subst; simpl. split; assumption.
    - congruence.
    - destruct (negb (fin msg s) && (Nat.eqb (iters msg s) (List.length (ws msg s)) || can_finish (got msg s)));
        try discriminate.
      inversion H; subst; simpl. split; [discriminate|exact D2].
  Qed.

  Lemma run_D ls : forall s s', ~ In LTimeout ls -> D s -> RUN s ls = Some s' -> D s'.
  Proof.
    induction ls as [|l r IH]; simpl; intros s s' Hn Hd H.
    - inversion H; subst; exact Hd.
    - destruct (STEP s l) as [s0|] eqn:E; try discriminate.
      apply (IH s0 s'); [intros Hin; apply Hn; right; exact Hin| |exact H].
      apply (step_D s l s0); auto.
  Qed.

  Lemma init_D : D (init msg n).
  Proof.
    unfold D, dirtyc; simpl. split; [intros _; split; [reflexivity|]|].
    - induction n as [|k IH]; simpl; auto.
    - induction n as [|k IH]; simpl; auto.
  Qed.
End Budget.

Lemma delivered_nth w : forall i r d, nth_error w i = Some (Sent r d) -> In d (delivered msg w).
Proof.
  unfold delivered. induction w as [|z t IH]; intros [|i] r d H; simpl in *; try discriminate.
  - inversion H; subst. left. reflexivity.
  - apply in_or_app. right. eapply IH; eauto.
Qed.

Lemma complete_before_budget n cerr ls s i r :
  ~ In LTimeout ls ->
  sys_run n cerr false (init msg n) ls = Some s -> fin msg s = true ->
  (nth_error (ws msg s) i = Some (Ret (MRes r)) \/
   exists d, nth_error (ws msg s) i = Some (Sent (MRes r) d)) ->
  r_complete r = true ->
  exists r', outcome (got msg s) = (Some r', None) /\ r_complete r' = true /\
             In (MRes r') (delivered msg (ws msg s)).
Proof.
  unfold sys_run. intros Hnt Hr Hf Hw Hc.
  pose proof (run_J n cerr false ls _ _ (init_J n) Hr) as Hj.
  destruct (can_finish (got msg s)) eqn:CF.
  - destruct (outcome_complete s Hj CF) as (r' & Hin & Hc' & Ho).
    exists r'. repeat split; auto. eapply got_in_delivered; eauto.
  - exfalso.
    pose proof (run_D n cerr false ls _ _ Hnt (init_D n) Hr) as [_ Hd].
    destruct (reachable_inv _ _ _ _ _ _ _ _ _ Hr) as (Hl & Hp & Hwf & Hg & Hi & Hid).
    destruct Hj as [_ J2]. destruct (J2 Hf) as [Hit|Hcf]; [|congruence].
    assert (Hgn : List.length (got msg s) = n) by (rewrite (Hid eq_refl); lia).
    destruct (full_collection _ _ _ _ _ _ _ _ _ Hr Hgn) as (Pg & _ & Hqf & Hall).
    rewrite Hqf in Hd. simpl in Hd. assert (Hz : dirtyc (ws msg s) = 0) by lia.
    assert (Hdel : In (MRes r) (delivered msg (ws msg s))).
    { destruct Hw as [Hw|[d Hw]].
      - rewrite Forall_forall in Hall. destruct (Hall _ (nth_error_In _ _ Hw)) as (r0 & d0 & E & _).
        discriminate.
      - pose proof (dirtyc_zero_nth _ _ _ Hz Hw) as Hnd.
        rewrite Forall_forall in Hwf. specialize (Hwf _ (nth_error_In _ _ Hw)). simpl in Hwf.
        destruct Hwf as [E|[E _]].
        + subst d. eapply delivered_nth; eauto.
        + subst d. simpl in Hnd. discriminate. }
    assert (Hgot : In (MRes r) (got msg s)).
    { eapply Permutation_in; [apply Permutation_sym; exact Pg|exact Hdel]. }
    assert (can_finish (got msg s) = true).
    { unfold can_finish. apply existsb_exists. exists (MRes r). split; [exact Hgot|exact Hc]. }
    congruence.
Qed.
