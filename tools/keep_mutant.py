#!/usr/bin/env python3
"""keep_mutant.py <src_dir> <seeded_id> <property> <caught: yes|no|after-strengthening> <needs...>
copies patch.diff + demo + README into /verif/seeded/<id>/ and writes meta.json"""
import json, os, shutil, sys, glob
src, sid, prop, caught = sys.argv[1:5]
needs = " ".join(sys.argv[5:])
dst = os.path.join("/verif/seeded", sid)
os.makedirs(dst, exist_ok=True)
for f in ["patch.diff", "README.md"] + [os.path.basename(x) for x in glob.glob(os.path.join(src, "demo*"))]:
    p = os.path.join(src, f)
    if os.path.isdir(p):
        shutil.copytree(p, os.path.join(dst, f), dirs_exist_ok=True)
    elif os.path.exists(p):
        shutil.copy(p, os.path.join(dst, f))
meta = {"property": prop, "origin": "independent sub-agent given only the property text and a scratch worktree",
        "needs_to_manifest": needs, "caught_by_check": caught,
        "confirmed": "patch applies to /repo HEAD; demo fails with it and passes without it (sub-agent run, outputs in demo_*.txt); existing suite unchanged; coordinator ran `VERIF_REPO=<scratch worktree with patch> ./check %s`" % prop}
json.dump(meta, open(os.path.join(dst, "meta.json"), "w"), indent=1)
print(dst)
