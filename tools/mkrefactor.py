#!/usr/bin/env python3
import json, sys
pid=sys.argv[1]; n=sys.argv[2] if len(sys.argv)>2 else "2"; tag=sys.argv[3] if len(sys.argv)>3 else ""
for l in open('/verif/properties.jsonl'):
    p=json.loads(l)
    if p['id']==pid: break
s=open('/verif/tools/refactor_prompt.md').read()
wt='/tmp/ref-%s%s'%(pid,tag); out='/tmp/ref-%s%s-out'%(pid,tag)
print(s.replace('{WT}',wt).replace('{OUT}',out).replace('{TITLE}',p['title']).replace('{STATEMENT}',p['statement']).replace('{QUANT}',p['quantifier']['text']).replace('{FILES}',', '.join(p['anchors']['files'])).replace('{N}',n))
