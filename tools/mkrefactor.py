#!/usr/bin/env python3
import json, sys
pid=sys.argv[1]; n=sys.argv[2] if len(sys.argv)>2 else "2"
for l in open('/verif/properties.jsonl'):
    p=json.loads(l)
    if p['id']==pid: break
s=open('/verif/tools/refactor_prompt.md').read()
wt='/tmp/ref-%s'%pid; out='/tmp/ref-%s-out'%pid
print(s.replace('{WT}',wt).replace('{OUT}',out).replace('{TITLE}',p['title']).replace('{STATEMENT}',p['statement']).replace('{QUANT}',p['quantifier']['text']).replace('{FILES}',', '.join(p['anchors']['files'])).replace('{N}',n))
