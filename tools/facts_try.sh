#!/bin/sh
# usage: tools/facts_try.sh patch.diff  -> which fact topics break with the patch applied
wt=/tmp/wt-facts-$$; d=/tmp/ftest-$$
git -C /repo worktree add -q $wt HEAD || exit 2
git -C $wt apply $1 || { echo "PATCH DOES NOT APPLY"; git -C /repo worktree remove --force $wt; exit 3; }
mkdir -p $d/Generated; cp /verif/coq/Generated/Facts_*.v $d/Generated/
/verif/harness/bin/facts $wt > $d/Generated/SourceFacts.v
res=""
coqc -Q /verif/coq Verif -Q $d Verif $d/Generated/SourceFacts.v >/dev/null 2>&1 || res="SourceFacts"
for f in $d/Generated/Facts_*.v; do coqc -Q /verif/coq Verif -Q $d Verif $f >/dev/null 2>&1 || res="$res $(basename $f .v)"; done
echo "broken:${res:- none}"
git -C /repo worktree remove --force $wt; rm -rf $d
