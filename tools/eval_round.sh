#!/bin/sh
# usage: tools/eval_round.sh Cxx tag   -> tries every /tmp/mut-Cxx<tag>-out/<i>/patch.diff, prints one line each
p=$1; tag=$2
for d in /tmp/mut-$p$tag-out/[0-9]*; do
  [ -f $d/patch.diff ] || continue
  r=$(/verif/tools/try_mutant.sh $p $d/patch.diff 2>&1 | tail -2 | tr '\n' ' ')
  case "$r" in
    *VIOLATION*) v=CAUGHT;;
    *) v=MISSED;;
  esac
  echo "$p $(basename $d) $v :: $r" | cut -c1-400
done
