#!/usr/bin/env python3
"""Runs lura's test suite (guard off) on a tree and compares with /root/.vp/BASELINE.json stable_pass.
usage: baseline.py [repo_dir]   exit 0 iff every stable test passes"""
import json, os, subprocess, sys
repo = sys.argv[1] if len(sys.argv) > 1 else "/repo"
b = json.load(open("/root/.vp/BASELINE.json"))
env = dict(os.environ, GOFLAGS="-mod=mod", GOPROXY="off", GOSUMDB="off", GOTOOLCHAIN="local")
p = subprocess.run(["go", "test", "-mod=mod", "-json", "-vet=off", "-count=1", "-timeout", "25m", "./..."], cwd=repo, env=env, stdout=subprocess.PIPE, stderr=subprocess.STDOUT, text=True)
res = {}
for line in p.stdout.splitlines():
    try: e = json.loads(line)
    except ValueError: continue
    if e.get("Test") and e.get("Action") in ("pass", "fail", "skip"):
        res[e["Package"] + "::" + e["Test"]] = e["Action"]
bad = [t for t in b["stable_pass"] if res.get(t) != "pass"]
print("stable:", len(b["stable_pass"]), "passing now:", len(b["stable_pass"]) - len(bad))
for t in bad: print("NOT PASSING:", t, res.get(t))
sys.exit(1 if bad else 0)
