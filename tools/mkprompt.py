#!/usr/bin/env python3
import sys
pid=sys.argv[1]; extra=sys.argv[2] if len(sys.argv)>2 else ""
s=open('/verif/tools/builder_prompt.md').read()
print(s.replace('{PID}',pid).replace('{pid}',pid.lower()).replace('{EXTRA}',extra))
