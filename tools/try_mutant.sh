#!/bin/sh
# usage: tools/try_mutant.sh Cxx /path/to/patch.diff [tier]   -> runs the check against a scratch worktree with the patch
p=$1; patch=$2; tier=${3:-quick}
wt=/tmp/wt-try-$p-$$
git -C /repo worktree add -q $wt HEAD || exit 2
if ! git -C $wt apply $patch; then echo "PATCH DOES NOT APPLY"; git -C /repo worktree remove --force $wt; exit 3; fi
cd /verif && VERIF_REPO=$wt ./check $p --tier $tier 2>&1 | tail -2
git -C /repo worktree remove --force $wt
alt=$(python3 -c "import hashlib,sys;print('-alt'+hashlib.sha1(sys.argv[1].encode()).hexdigest()[:6])" $wt)
rm -f /verif/harness/go$alt.mod /verif/harness/go$alt.sum /verif/harness/bin/*$alt; rm -rf /verif/work/$p$alt
