#!/bin/sh
# usage: tools/runall.sh [tier] C01 C02 ...   runs the checks sequentially, prints one line each
tier=$1; shift
for p in "$@"; do
  s=$(date +%s)
  out=$(./check $p --tier $tier 2>&1 | tail -3 | tr '\n' ' ')
  echo "$p rc=$? $(( $(date +%s) - s ))s :: $out"
done
